//! `corr engine` (filled in later)
#[derive(Default)]
pub struct State {}
pub fn run_op(_st: &mut State, _parts: &[&str]) -> String {
  "bad-op".into()
}
