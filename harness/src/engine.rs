//! `corr engine`: drives real `ZmtpEngine` instances (one per slot) with scripted bytes, ticks and
//! application messages; pair mode wires two engines back to back through in-flight byte queues.
//!
//! ops (slot = A | B):
//!   new <slot> <cfg>            cfg = comma separated k=v (see `parse_cfg`)
//!   start <slot>
//!   bytes <slot> <now> <bytes> <cuts>
//!   app <slot> <message>
//!   tick <slot> <now>
//!   close <slot>
//!   state <slot>
//!   pstart                      start A and B, their output goes to the in-flight queues
//!   deliver ab|ba <n> <now>     deliver n (0 = all) in-flight bytes to the receiving engine
//!   papp <slot> <message>       on_app_message whose output goes to the in-flight queue

use crate::*;
use bytes::Bytes;
use rzmq::protocol::zmtp::actions::{AppAction, EngineOutput, NetAction};
use rzmq::protocol::zmtp::command::ZmtpReady;
use rzmq::protocol::zmtp::engine::{ZmtpEngine, ZmtpPhase, ZmtpVersion};
use rzmq::protocol::zmtp::manual_parser::ZmtpManualParser;
use rzmq::verif::{new_engine, VEngineCfg};
use std::collections::HashMap;
use std::time::{Duration, Instant};

pub struct Slot {
  pub eng: ZmtpEngine,
  pub t0: Instant,
  pub panicked: bool,
}

#[derive(Default)]
pub struct State {
  pub slots: HashMap<String, Slot>,
  pub ab: Vec<u8>,
  pub ba: Vec<u8>,
}

fn opt_bytes(v: &str) -> Option<Vec<u8>> {
  if v == "none" {
    None
  } else {
    Some(parse_bytes(v))
  }
}

fn opt_ms(v: &str) -> Option<Duration> {
  if v == "none" {
    None
  } else {
    Some(Duration::from_millis(v.parse().unwrap()))
  }
}

pub fn parse_cfg(s: &str) -> (bool, VEngineCfg) {
  let mut c = VEngineCfg::default();
  let mut server = false;
  c.socket_type_name = "DEALER".into();
  for kv in s.split(',') {
    let (k, v) = kv.split_once('=').expect("k=v");
    match k {
      "role" => server = v == "s",
      "type" => c.socket_type_name = v.to_string(),
      "id" => {
        let b = parse_bytes(v);
        c.routing_id = if b.is_empty() { None } else { Some(b) };
      }
      "sec" => c.security_enabled = v == "1",
      "zmtp2" => c.allow_zmtp2 = v == "1",
      "plain" => c.use_plain = v == "1",
      "curve" => c.use_curve = v == "1",
      "noise" => c.use_noise_xx = v == "1",
      "user" => c.plain_username = opt_bytes(v).map(|b| String::from_utf8(b).expect("utf8 user")),
      "pass" => c.plain_password = opt_bytes(v).map(|b| String::from_utf8(b).expect("utf8 pass")),
      "hbivl" => c.heartbeat_ivl = opt_ms(v),
      "hbto" => c.heartbeat_timeout = opt_ms(v),
      "cork" => c.use_cork = v == "1",
      "zc" => c.use_send_zerocopy = v == "1",
      "max" => c.max_msg_size = v.parse().unwrap(),
      _ => panic!("bad cfg key {k}"),
    }
  }
  (server, c)
}

/// A READY command is emitted from a `HashMap`: canonicalise the property order (sorted by name).
fn canon_send(data: &[u8]) -> Vec<u8> {
  let parser = ZmtpManualParser::new(-1);
  if let Ok(Some((m, n))) = parser.decode_frame_from_slice(data) {
    if n == data.len() && m.is_command() && !m.is_more() {
      let body = m.data().unwrap_or(&[]);
      if body.starts_with(b"\x05READY") {
        if let Ok(r) = ZmtpReady::parse_properties(&body[6..]) {
          let mut keys: Vec<&String> = r.properties.keys().collect();
          keys.sort();
          let mut nb = Vec::new();
          nb.extend_from_slice(b"\x05READY");
          for k in keys {
            let v = &r.properties[k];
            nb.push(k.len() as u8);
            nb.extend_from_slice(k.as_bytes());
            nb.extend_from_slice(&(v.len() as u32).to_be_bytes());
            nb.extend_from_slice(v);
          }
          let mut out = Vec::new();
          if nb.len() <= 255 {
            out.push(data[0] & !2);
            out.push(nb.len() as u8);
          } else {
            out.push(data[0] | 2);
            out.extend_from_slice(&(nb.len() as u64).to_be_bytes());
          }
          out.extend_from_slice(&nb);
          return out;
        }
      }
    }
  }
  data.to_vec()
}

pub fn show_out(out: &EngineOutput) -> String {
  let mut net = Vec::new();
  for a in &out.net_actions {
    net.push(match a {
      NetAction::Send { data, zc_eligible } => {
        format!("S({}){}", summ(&canon_send(data)), if *zc_eligible { "Z" } else { "" })
      }
      NetAction::SetCork(b) => format!("C{}", *b as u8),
      NetAction::ScheduleClose(d) => match d {
        Some(d) => format!("X{}", d.as_millis()),
        None => "Xnone".into(),
      },
    });
  }
  let mut app = Vec::new();
  for a in &out.app_actions {
    app.push(match a {
      AppAction::HandshakeComplete { peer_identity, peer_socket_type } => format!(
        "H(id={},type={})",
        peer_identity.as_ref().map(|b| format!("h{}", hex::encode(b.as_ref()))).unwrap_or_else(|| "none".into()),
        match peer_socket_type {
          None => "none".to_string(),
          Some(s) if s.contains('\u{FFFD}') => "LOSSY".to_string(),
          Some(s) => format!("h{}", hex::encode(s.as_bytes())),
        }
      ),
      AppAction::DeliverMessage(fb) => format!("D({})", show_frames(fb.iter())),
      AppAction::PeerError(e) => format!("E({})", err_class(e)),
    });
  }
  format!("net=[{}] app=[{}]", net.join(" "), app.join(" "))
}

fn sends_of(out: &EngineOutput) -> Vec<u8> {
  let mut v = Vec::new();
  for a in &out.net_actions {
    if let NetAction::Send { data, .. } = a {
      v.extend_from_slice(data);
    }
  }
  v
}

fn feed(slot: &mut Slot, now: u64, data: &[u8]) -> EngineOutput {
  let before = slot.eng.verif_last_activity();
  let out = slot.eng.on_network_bytes(Bytes::copy_from_slice(data));
  if slot.eng.verif_last_activity() != before {
    // the engine stamped "now" with the wall clock: replace it by the scripted time
    slot.eng.verif_set_last_activity(slot.t0 + Duration::from_millis(now));
  }
  out
}

pub fn run_op(st: &mut State, p: &[&str]) -> String {
  match p[0] {
    "new" => {
      let (server, cfg) = parse_cfg(p[2]);
      let mut eng = new_engine(server, &cfg);
      let t0 = Instant::now() + Duration::from_secs(3600);
      eng.verif_set_last_activity(t0);
      st.slots.insert(p[1].to_string(), Slot { eng, t0, panicked: false });
      if p[1] == "A" {
        st.ab.clear();
        st.ba.clear();
      }
      "ok".into()
    }
    "pstart" => {
      let oa = st.slots.get_mut("A").unwrap().eng.start();
      let ob = st.slots.get_mut("B").unwrap().eng.start();
      st.ab.extend(sends_of(&oa));
      st.ba.extend(sends_of(&ob));
      format!("A:{} B:{}", show_out(&oa), show_out(&ob))
    }
    "deliver" => {
      let n: usize = p[2].parse().unwrap();
      let now: u64 = p[3].parse().unwrap();
      let (q, rx, back) = if p[1] == "ab" { (&mut st.ab, "B", false) } else { (&mut st.ba, "A", true) };
      let n = if n == 0 { q.len() } else { n.min(q.len()) };
      let data: Vec<u8> = q.drain(..n).collect();
      let slot = st.slots.get_mut(rx).unwrap();
      if slot.panicked {
        return "PANIC".into();
      }
      let out = match std::panic::catch_unwind(std::panic::AssertUnwindSafe(|| feed(slot, now, &data))) {
        Ok(o) => o,
        Err(_) => {
          slot.panicked = true;
          return "PANIC".into();
        }
      };
      let s = sends_of(&out);
      if back {
        st.ab.extend(s);
      } else {
        st.ba.extend(s);
      }
      format!("n={} {}", n, show_out(&out))
    }
    _ => {
      let slot = match st.slots.get_mut(p[1]) {
        Some(s) => s,
        None => return "no-slot".into(),
      };
      if slot.panicked {
        return "PANIC".into();
      }
      let r = std::panic::catch_unwind(std::panic::AssertUnwindSafe(|| slot_op(slot, p)));
      match r {
        Ok((s, sends)) => {
          if p[0] == "papp" {
            if p[1] == "A" {
              st.ab.extend(sends);
            } else {
              st.ba.extend(sends);
            }
          }
          s
        }
        Err(_) => {
          st.slots.get_mut(p[1]).unwrap().panicked = true;
          "PANIC".into()
        }
      }
    }
  }
}

fn slot_op(slot: &mut Slot, p: &[&str]) -> (String, Vec<u8>) {
  match p[0] {
    "start" => (show_out(&slot.eng.start()), vec![]),
    "bytes" => {
      let now: u64 = p[2].parse().unwrap();
      let data = parse_bytes(p[3]);
      let mut outs = Vec::new();
      for ch in crate::wire::chunks(&data, p[4]) {
        outs.push(show_out(&feed(slot, now, ch)));
      }
      (outs.join(" | "), vec![])
    }
    "app" | "papp" => {
      let m = to_frame_batch(parse_message(p[2]));
      let out = slot.eng.on_app_message(m);
      let s = sends_of(&out);
      (show_out(&out), s)
    }
    "tick" => {
      let now: u64 = p[2].parse().unwrap();
      (show_out(&slot.eng.on_tick(slot.t0 + Duration::from_millis(now))), vec![])
    }
    "close" => (show_out(&slot.eng.close()), vec![]),
    "state" => {
      let ph = match slot.eng.phase {
        ZmtpPhase::Greeting => "greeting",
        ZmtpPhase::Security => "security",
        ZmtpPhase::Ready => "ready",
        ZmtpPhase::V2Identity => "v2identity",
        ZmtpPhase::Data => "data",
        ZmtpPhase::Closed => "closed",
      };
      let ver = match slot.eng.verif_version() {
        None => "none",
        Some(ZmtpVersion::V2) => "v2",
        Some(ZmtpVersion::V3) => "v3",
      };
      (
        format!(
          "phase={} acc={} wfp={} partial={} ver={}",
          ph,
          slot.eng.buffer_len(),
          slot.eng.is_waiting_for_pong() as u8,
          slot.eng.verif_partial_len(),
          ver
        ),
        vec![],
      )
    }
    _ => ("bad-op".into(), vec![]),
  }
}
