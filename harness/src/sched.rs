//! Deterministic "turnstile" scheduler: every logical task runs on its own OS thread and advances only
//! when the scheduler grants it a step.  A step runs the task from its current schedule point
//! (`rzmq::verif::point`) to the next one, or until its future returns `Pending` (reported `blocked`)
//! or `Ready` (reported `done(..)`).  Futures are polled with a no-op waker: a blocked task may be
//! stepped again at any time and simply reports `blocked` again if it cannot make progress, so a
//! schedule (the list of task ids granted) fully determines the execution.

use std::future::Future;
use std::pin::Pin;
use std::sync::mpsc::{channel, Receiver, RecvTimeoutError, Sender};
use std::task::{Context, Poll, RawWaker, RawWakerVTable, Waker};
use std::time::Duration;

#[derive(Debug, Clone, PartialEq)]
pub enum Report {
  AtPoint(&'static str),
  Blocked,
  Done(String),
  Hang,
}

enum Cmd {
  Go,
  Cancel,
}

pub struct Task {
  to_task: Sender<Cmd>,
  from_task: Receiver<Report>,
  pub last: Report,
  pub started: bool,
  pub finished: bool,
}

fn noop_waker() -> Waker {
  fn clone(_: *const ()) -> RawWaker {
    RawWaker::new(std::ptr::null(), &VTABLE)
  }
  fn noop(_: *const ()) {}
  static VTABLE: RawWakerVTable = RawWakerVTable::new(clone, noop, noop, noop);
  unsafe { Waker::from_raw(RawWaker::new(std::ptr::null(), &VTABLE)) }
}

pub type BoxFut = Pin<Box<dyn Future<Output = String> + Send>>;

impl Task {
  /// `make` builds the task's future on the task thread (so thread-local hooks are in place).
  pub fn spawn<F>(make: F) -> Task
  where
    F: FnOnce() -> BoxFut + Send + 'static,
  {
    let (to_task, cmd_rx) = channel::<Cmd>();
    let (rep_tx, from_task) = channel::<Report>();
    std::thread::spawn(move || {
      // wait for the first grant
      match cmd_rx.recv() {
        Ok(Cmd::Go) => {}
        _ => {
          let _ = rep_tx.send(Report::Done("cancelled".into()));
          return;
        }
      }
      let cmd_rx = std::rc::Rc::new(cmd_rx);
      let hook_rx = cmd_rx.clone();
      let hook_tx = rep_tx.clone();
      rzmq::verif::set_point_hook(Some(Box::new(move |label: &'static str| {
        let _ = hook_tx.send(Report::AtPoint(label));
        // Block until granted again. A cancel at a synchronous point cannot unwind: treat as Go.
        let _ = hook_rx.recv();
      })));
      let mut fut = make();
      let waker = noop_waker();
      let mut cx = Context::from_waker(&waker);
      loop {
        let polled = std::panic::catch_unwind(std::panic::AssertUnwindSafe(|| fut.as_mut().poll(&mut cx)));
        match polled {
          Err(_) => {
            let _ = rep_tx.send(Report::Done("PANIC".into()));
            break;
          }
          Ok(Poll::Ready(r)) => {
            let _ = rep_tx.send(Report::Done(r));
            break;
          }
          Ok(Poll::Pending) => {
            let _ = rep_tx.send(Report::Blocked);
            match cmd_rx.recv() {
              Ok(Cmd::Go) => continue,
              Ok(Cmd::Cancel) | Err(_) => {
                drop(fut);
                let _ = rep_tx.send(Report::Done("cancelled".into()));
                break;
              }
            }
          }
        }
      }
      rzmq::verif::set_point_hook(None);
    });
    Task { to_task, from_task, last: Report::Blocked, started: false, finished: false }
  }

  fn await_report(&mut self) -> Report {
    let r = match self.from_task.recv_timeout(Duration::from_secs(3)) {
      Ok(r) => r,
      Err(RecvTimeoutError::Timeout) => Report::Hang,
      Err(RecvTimeoutError::Disconnected) => Report::Done("thread-exit".into()),
    };
    if matches!(r, Report::Done(_) | Report::Hang) {
      self.finished = true;
    }
    self.last = r.clone();
    r
  }

  /// Grant one step.
  pub fn step(&mut self) -> Report {
    if self.finished {
      return self.last.clone();
    }
    self.started = true;
    if self.to_task.send(Cmd::Go).is_err() {
      self.finished = true;
      return Report::Done("thread-exit".into());
    }
    self.await_report()
  }

  /// Drop the task's future. Only meaningful while it is parked at an await (`Blocked`) or not started.
  pub fn cancel(&mut self) -> Report {
    if self.finished {
      return self.last.clone();
    }
    if self.started && self.last != Report::Blocked {
      return Report::Done("cannot-cancel-here".into());
    }
    let _ = self.to_task.send(Cmd::Cancel);
    self.await_report()
  }
}

impl Task {
  /// Bring the task to an end under scheduler control (never leave a thread running ungated):
  /// grant steps until it parks at an await or finishes, cancel it when parked.
  pub fn retire(&mut self) {
    for _ in 0..500 {
      if self.finished {
        return;
      }
      if !self.started || self.last == Report::Blocked {
        let _ = self.cancel();
        if !self.finished && !self.started {
          return;
        }
      } else {
        let _ = self.step();
      }
    }
  }
}

pub fn show(r: &Report) -> String {
  match r {
    Report::AtPoint(l) => format!("@{}", l),
    Report::Blocked => "blocked".into(),
    Report::Done(s) => format!("done({})", s),
    Report::Hang => "HANG".into(),
  }
}
