//! Deterministic "turnstile" scheduler: every logical task runs on its own OS thread and advances only
//! when the scheduler grants it a step.  A step runs the task from its current schedule point
//! (`rzmq::verif::point`) to the next one, or until its future returns `Pending` (reported `blocked`)
//! or `Ready` (reported `done(..)`).  Futures are polled with a no-op waker: a blocked task may be
//! stepped again at any time and simply reports `blocked` again if it cannot make progress, so a
//! schedule (the list of task ids granted) fully determines the execution.

use std::future::Future;
use std::pin::Pin;
use std::sync::mpsc::{channel, Receiver, RecvTimeoutError, Sender};
use std::task::{Context, Poll, RawWaker, RawWakerVTable, Waker};
use std::time::Duration;

#[derive(Debug, Clone, PartialEq)]
pub enum Report {
  AtPoint(&'static str),
  Blocked,
  Done(String),
  Hang,
}

enum Cmd {
  Go,
  Cancel,
}

pub struct Task {
  to_task: Sender<Cmd>,
  from_task: Receiver<Report>,
  pub last: Report,
  pub started: bool,
  pub finished: bool,
}

fn noop_waker() -> Waker {
  fn clone(_: *const ()) -> RawWaker {
    RawWaker::new(std::ptr::null(), &VTABLE)
  }
  fn noop(_: *const ()) {}
  static VTABLE: RawWakerVTable = RawWakerVTable::new(clone, noop, noop, noop);
  unsafe { Waker::from_raw(RawWaker::new(std::ptr::null(), &VTABLE)) }
}

pub type BoxFut = Pin<Box<dyn Future<Output = String> + Send>>;

impl Task {
  /// `make` builds the task's future on the task thread (so thread-local hooks are in place).
  pub fn spawn<F>(make: F) -> Task
  where
    F: FnOnce() -> BoxFut + Send + 'static,
  {
    let (to_task, cmd_rx) = channel::<Cmd>();
    let (rep_tx, from_task) = channel::<Report>();
    std::thread::spawn(move || {
      // wait for the first grant
      match cmd_rx.recv() {
        Ok(Cmd::Go) => {}
        _ => {
          let _ = rep_tx.send(Report::Done("cancelled".into()));
          return;
        }
      }
      let cmd_rx = std::rc::Rc::new(cmd_rx);
      let hook_rx = cmd_rx.clone();
      let hook_tx = rep_tx.clone();
      rzmq::verif::set_point_hook(Some(Box::new(move |label: &'static str| {
        let _ = hook_tx.send(Report::AtPoint(label));
        // Block until granted again. A cancel at a synchronous point cannot unwind: treat as Go.
        let _ = hook_rx.recv();
      })));
      // `fibre 0.5.13`'s async mpmc leaves a dangling waiter behind when a parked `recv()` is polled again and
      // takes an item that another waiter was woken for (known finding C09:fibre-mpmc-dangling-waiter): a later
      // send then reads the freed future. To keep the lock-step runs deterministic the scheduler therefore runs
      // the futures' destructors but never returns their memory, unless VERIF_FREE_FUTURES=1 (used by the
      // known-finding witness, under valgrind).
      let free_futures = std::env::var("VERIF_FREE_FUTURES").map(|v| v == "1").unwrap_or(false);
      let mut fut = std::mem::ManuallyDrop::new(make());
      let release = |f: &mut std::mem::ManuallyDrop<BoxFut>| unsafe {
        if free_futures {
          std::mem::ManuallyDrop::drop(f);
        } else {
          let inner: BoxFut = std::mem::ManuallyDrop::take(f);
          let raw: *mut (dyn Future<Output = String> + Send) = Box::into_raw(Pin::into_inner_unchecked(inner));
          std::ptr::drop_in_place(raw); // destructors run (reservation roll-backs, waiter removal), memory is kept
        }
      };
      let waker = noop_waker();
      let mut cx = Context::from_waker(&waker);
      loop {
        let polled = std::panic::catch_unwind(std::panic::AssertUnwindSafe(|| fut.as_mut().poll(&mut cx)));
        match polled {
          Err(_) => {
            std::mem::forget(std::mem::replace(&mut fut, std::mem::ManuallyDrop::new(Box::pin(async { String::new() }))));
            let _ = rep_tx.send(Report::Done("PANIC".into()));
            break;
          }
          Ok(Poll::Ready(r)) => {
            release(&mut fut);
            let _ = rep_tx.send(Report::Done(r));
            break;
          }
          Ok(Poll::Pending) => {
            let _ = rep_tx.send(Report::Blocked);
            match cmd_rx.recv() {
              Ok(Cmd::Go) => continue,
              Ok(Cmd::Cancel) | Err(_) => {
                release(&mut fut);
                let _ = rep_tx.send(Report::Done("cancelled".into()));
                break;
              }
            }
          }
        }
      }
      rzmq::verif::set_point_hook(None);
    });
    Task { to_task, from_task, last: Report::Blocked, started: false, finished: false }
  }

  fn await_report(&mut self) -> Report {
    let r = match self.from_task.recv_timeout(Duration::from_secs(3)) {
      Ok(r) => r,
      Err(RecvTimeoutError::Timeout) => Report::Hang,
      Err(RecvTimeoutError::Disconnected) => Report::Done("thread-exit".into()),
    };
    if matches!(r, Report::Done(_) | Report::Hang) {
      self.finished = true;
    }
    self.last = r.clone();
    r
  }

  /// Grant one step.
  pub fn step(&mut self) -> Report {
    if self.finished {
      return self.last.clone();
    }
    self.started = true;
    if self.to_task.send(Cmd::Go).is_err() {
      self.finished = true;
      return Report::Done("thread-exit".into());
    }
    self.await_report()
  }

  /// Drop the task's future. Only meaningful while it is parked at an await (`Blocked`) or not started.
  pub fn cancel(&mut self) -> Report {
    if self.finished {
      return self.last.clone();
    }
    if self.started && self.last != Report::Blocked {
      return Report::Done("cannot-cancel-here".into());
    }
    let _ = self.to_task.send(Cmd::Cancel);
    self.await_report()
  }
}

impl Task {
  /// Bring the task to an end under scheduler control (never leave a thread running ungated):
  /// grant steps until it parks at an await or finishes, cancel it when parked.
  pub fn retire(&mut self) {
    for _ in 0..500 {
      if self.finished {
        return;
      }
      if !self.started || self.last == Report::Blocked {
        let _ = self.cancel();
        if !self.finished && !self.started {
          return;
        }
      } else {
        let _ = self.step();
      }
    }
  }
}

pub fn show(r: &Report) -> String {
  match r {
    Report::AtPoint(l) => format!("@{}", l),
    Report::Blocked => "blocked".into(),
    Report::Done(s) => format!("done({})", s),
    Report::Hang => "HANG".into(),
  }
}
