//! `corr wire`: drives the real encoders / decoders.
//!
//! ops:
//!   enc codec|hdronly|split <frame>
//!   enc contig|vect|multipart|batch <batch>
//!   dec buffer <max> <bytes> <cuts>      cuts: `-` or comma separated chunk lengths (rest = last chunk)
//!   dec rdbytes <max> <bytes> <cuts>     NullFramer::try_read_msgs_from_bytes per chunk
//!   dec slice|bytes|peek <max> <bytes>
//!   dec codec <prefixlen> <bytes> <cuts>

use crate::*;
use bytes::{Bytes, BytesMut};
use rzmq::protocol::zmtp::manual_parser::ZmtpManualParser;
use rzmq::protocol::zmtp::ZmtpCodec;
use rzmq::verif::{VFrameEncoder, VNullFramer};
use tokio_util::codec::{Decoder, Encoder};

pub fn chunks<'a>(data: &'a [u8], cuts: &str) -> Vec<&'a [u8]> {
  let mut out = Vec::new();
  let mut pos = 0usize;
  if cuts != "-" {
    for c in cuts.split(',') {
      let n: usize = c.parse().expect("cut");
      let end = (pos + n).min(data.len());
      out.push(&data[pos..end]);
      pos = end;
    }
  }
  out.push(&data[pos..]);
  out
}

fn batch_of(spec: &str) -> Vec<FrameBatch> {
  parse_batch(spec).into_iter().map(to_frame_batch).collect()
}

pub fn run_op(parts: &[&str]) -> String {
  match parts[0] {
    "enc" => enc(parts),
    "dec" => dec(parts),
    "rt" => rt(parts),
    _ => "bad-op".into(),
  }
}

fn enc(p: &[&str]) -> String {
  match p[1] {
    "codec" => {
      let m = parse_frame(p[2]);
      let mut c = ZmtpCodec::new();
      let mut dst = BytesMut::new();
      match c.encode(m, &mut dst) {
        Ok(()) => format!("ok {}", summ(&dst)),
        Err(e) => format!("err:{}", err_class(&e)),
      }
    }
    "hdronly" => {
      let m = parse_frame(p[2]);
      let c = ZmtpCodec::new();
      let mut dst = BytesMut::new();
      match c.encode_header_only(&m, &mut dst) {
        Ok(()) => format!("ok {}", summ(&dst)),
        Err(e) => format!("err:{}", err_class(&e)),
      }
    }
    "split" => {
      let m = parse_frame(p[2]);
      let mut f = VNullFramer::new(-1, 8, 4096);
      match f.write_msg_split(m) {
        Ok((h, pl)) => format!(
          "ok {} {}",
          summ(&h),
          pl.map(|b| summ(&b)).unwrap_or_else(|| "none".into())
        ),
        Err(e) => format!("err:{}", err_class(&e)),
      }
    }
    "contig" => {
      let b = batch_of(p[2]);
      let mut e = VFrameEncoder::new(64, 1024);
      match e.frame_contiguous(&b) {
        Ok(d) => format!("ok {}", summ(&d)),
        Err(e) => format!("err:{}", err_class(&e)),
      }
    }
    "batch" => {
      let b = batch_of(p[2]);
      let mut f = VNullFramer::new(-1, 8, 4096);
      match f.write_msg_batch(&b) {
        Ok(d) => format!("ok {}", summ(&d)),
        Err(e) => format!("err:{}", err_class(&e)),
      }
    }
    "multipart" => {
      let mut b = batch_of(p[2]);
      let mut f = VNullFramer::new(-1, 8, 4096);
      match f.write_msg_multipart(b.remove(0)) {
        Ok(d) => format!("ok {}", summ(&d)),
        Err(e) => format!("err:{}", err_class(&e)),
      }
    }
    "vect" => {
      let b = batch_of(p[2]);
      let mut e = VFrameEncoder::new(64, 1024);
      match e.frame_vectored(&b) {
        Ok(v) => {
          let lens: Vec<String> = v.iter().map(|c| c.len().to_string()).collect();
          let mut all = Vec::new();
          for c in &v {
            all.extend_from_slice(c);
          }
          format!("ok {} chunks={}", summ(&all), if lens.is_empty() { "-".into() } else { lens.join(",") })
        }
        Err(e) => format!("err:{}", err_class(&e)),
      }
    }
    _ => "bad-op".into(),
  }
}

fn dec(p: &[&str]) -> String {
  match p[1] {
    "buffer" | "rdbytes" => {
      let max: i64 = p[2].parse().unwrap();
      let data = parse_bytes(p[3]);
      let mut framer = VNullFramer::new(max, 8, 4096);
      let mut acc = BytesMut::new();
      let mut frames = Vec::new();
      let mut status = "more";
      'outer: for ch in chunks(&data, p[4]) {
        if p[1] == "rdbytes" {
          match framer.try_read_msgs_from_bytes(Bytes::copy_from_slice(ch), &mut acc) {
            Ok(ms) => frames.extend(ms),
            Err(_) => {
              // Note: frames decoded earlier in the same call are lost to the caller here;
              // the model of this entry point does the same.
              status = "err";
              break 'outer;
            }
          }
        } else {
          acc.extend_from_slice(ch);
          loop {
            match framer.try_read_msg(&mut acc) {
              Ok(Some(m)) => frames.push(m),
              Ok(None) => break,
              Err(_) => {
                status = "err";
                break 'outer;
              }
            }
          }
        }
      }
      format!("{} {} left={}", status, show_frames(&frames), acc.len())
    }
    "slice" | "bytes" => {
      let max: i64 = p[2].parse().unwrap();
      let data = parse_bytes(p[3]);
      let parser = ZmtpManualParser::new(max);
      let all = Bytes::from(data);
      let mut pos = 0usize;
      let mut frames = Vec::new();
      let mut status = "more";
      loop {
        let r = if p[1] == "slice" {
          parser.decode_frame_from_slice(&all[pos..])
        } else {
          parser.decode_frame_from_bytes(&all.slice(pos..))
        };
        match r {
          Ok(Some((m, n))) => {
            frames.push(m);
            pos += n;
          }
          Ok(None) => break,
          Err(_) => {
            status = "err";
            break;
          }
        }
      }
      format!("{} {} left={}", status, show_frames(&frames), all.len() - pos)
    }
    "peek" => {
      let max: i64 = p[2].parse().unwrap();
      let data = parse_bytes(p[3]);
      let parser = ZmtpManualParser::new(max);
      match parser.peek_frame_len(&data) {
        Ok(Some(n)) => format!("total {}", n),
        Ok(None) => "more".into(),
        Err(_) => "err".into(),
      }
    }
    "codec" => {
      let plen: usize = p[2].parse().unwrap();
      let data = parse_bytes(p[3]);
      let plen = plen.min(data.len());
      let mut codec = ZmtpCodec::new();
      codec.prime_with_prefix(BytesMut::from(&data[..plen]));
      let mut src = BytesMut::new();
      let mut frames = Vec::new();
      let mut status = "more";
      'outer: for ch in chunks(&data[plen..], p[4]) {
        src.extend_from_slice(ch);
        loop {
          match codec.decode(&mut src) {
            Ok(Some(m)) => frames.push(m),
            Ok(None) => break,
            Err(_) => {
              status = "err";
              break 'outer;
            }
          }
        }
      }
      format!("{} {} left={}", status, show_frames(&frames), src.len())
    }
    _ => "bad-op".into(),
  }
}

/// Implementation-side oracle for C03 (independent of the Lean model):
/// `rt <batch> <cuts> <max>` — every encoder yields the same bytes with the RFC header shape, and every
/// decoder, under the given segmentation, returns exactly the input frames.
fn rt(p: &[&str]) -> String {
  let spec = parse_batch(p[1]);
  let cuts = p[2];
  let max: i64 = p[3].parse().unwrap();
  let flat: Vec<Msg> = spec.iter().flatten().cloned().collect();
  let want = show_frames(&flat);

  // --- encoders ---
  let mut by_codec = Vec::new();
  let mut by_hdronly = Vec::new();
  let mut by_split = Vec::new();
  let mut expect = Vec::new(); // RFC 23 header shape, computed here
  for m in &flat {
    let data = m.data().unwrap_or(&[]);
    let fl = (m.is_more() as u8) | ((m.is_command() as u8) << 2);
    if data.len() <= 255 {
      expect.push(fl);
      expect.push(data.len() as u8);
    } else {
      expect.push(fl | 2);
      expect.extend_from_slice(&(data.len() as u64).to_be_bytes());
    }
    expect.extend_from_slice(data);

    let mut c = ZmtpCodec::new();
    let mut dst = BytesMut::new();
    c.encode(m.clone(), &mut dst).unwrap();
    by_codec.extend_from_slice(&dst);
    let mut dst = BytesMut::new();
    c.encode_header_only(m, &mut dst).unwrap();
    by_hdronly.extend_from_slice(&dst);
    by_hdronly.extend_from_slice(data);
    let mut f = VNullFramer::new(-1, 8, 4096);
    let (h, pl) = f.write_msg_split(m.clone()).unwrap();
    by_split.extend_from_slice(&h);
    if let Some(pl) = pl {
      by_split.extend_from_slice(&pl);
    }
  }
  let fbs: Vec<FrameBatch> = spec.iter().cloned().map(to_frame_batch).collect();
  let mut e = VFrameEncoder::new(64, 1024);
  let by_contig = e.frame_contiguous(&fbs).unwrap().to_vec();
  let mut by_vect = Vec::new();
  for c in e.frame_vectored(&fbs).unwrap() {
    by_vect.extend_from_slice(&c);
  }
  for (name, b) in [
    ("codec", &by_codec),
    ("hdronly", &by_hdronly),
    ("split", &by_split),
    ("contig", &by_contig),
    ("vect", &by_vect),
  ] {
    if *b != expect {
      return format!("ORACLE-FAIL encoder={} got={} want={}", name, summ(b), summ(&expect));
    }
  }

  // --- decoders ---
  let hexed = format!("h{}", hex::encode(&expect));
  let ms = max.to_string();
  let checks: Vec<(&str, Vec<&str>)> = vec![
    ("buffer", vec!["dec", "buffer", &ms, &hexed, cuts]),
    ("rdbytes", vec!["dec", "rdbytes", &ms, &hexed, cuts]),
    ("slice", vec!["dec", "slice", &ms, &hexed]),
    ("bytes", vec!["dec", "bytes", &ms, &hexed]),
    ("codec", vec!["dec", "codec", "0", &hexed, cuts]),
    ("codec-prefix", vec!["dec", "codec", "1", &hexed, cuts]),
  ];
  let want_line = format!("more {} left=0", want);
  for (name, args) in checks {
    let got = dec(&args);
    if got != want_line {
      return format!("ORACLE-FAIL decoder={} got=[{}] want=[{}]", name, got, want_line);
    }
  }
  // peek walks the stream frame by frame
  let parser = ZmtpManualParser::new(max);
  let mut pos = 0usize;
  let mut n = 0usize;
  while pos < expect.len() {
    match parser.peek_frame_len(&expect[pos..]) {
      Ok(Some(t)) if t > 0 => {
        pos += t;
        n += 1;
      }
      other => return format!("ORACLE-FAIL decoder=peek at={} got={:?}", pos, other.map_err(|_| "err")),
    }
  }
  if pos != expect.len() || n != flat.len() {
    return format!("ORACLE-FAIL decoder=peek end={} frames={}", pos, n);
  }
  format!("rt ok n={} len={}", flat.len(), expect.len())
}
