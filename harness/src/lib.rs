//! Shared helpers of the correspondence harness: the line protocol's byte/frame grammar and the
//! canonical output forms.  The Lean driver (`lean/Driver.lean`) implements the same grammar.

use bytes::Bytes;
use rzmq::{FrameBatch, Msg, MsgFlags, ZmqError};

pub mod wire;
pub mod engine;
pub mod stack;
pub mod routing;
pub mod sched;
pub mod conc;

/// byte-spec: `-` (empty) or `+`-joined tokens: `h<hex>` literal, `p<len>x<seed>` pattern
/// (byte i = (seed + 31*i) mod 256), `z<len>` zeros.
pub fn parse_bytes(spec: &str) -> Vec<u8> {
  let mut out = Vec::new();
  if spec == "-" || spec.is_empty() {
    return out;
  }
  for tok in spec.split('+') {
    let (k, rest) = tok.split_at(1);
    match k {
      "h" => out.extend(hex::decode(rest).expect("hex")),
      "z" => out.extend(std::iter::repeat(0u8).take(rest.parse().expect("zlen"))),
      "p" => {
        let (l, s) = rest.split_once('x').expect("pattern");
        let l: usize = l.parse().expect("plen");
        let s: usize = s.parse().expect("pseed");
        out.extend((0..l).map(|i| ((s + 31 * i) % 256) as u8));
      }
      _ => panic!("bad byte token {tok}"),
    }
  }
  out
}

/// frame: `<d><byte-spec>` with d in 0..3 (bit0 MORE, bit1 COMMAND)
pub fn parse_frame(spec: &str) -> Msg {
  let (d, rest) = spec.split_at(1);
  let d: u8 = d.parse().expect("flag digit");
  let mut m = Msg::from_vec(parse_bytes(rest));
  let mut f = MsgFlags::empty();
  if d & 1 != 0 {
    f |= MsgFlags::MORE;
  }
  if d & 2 != 0 {
    f |= MsgFlags::COMMAND;
  }
  m.set_flags(f);
  m
}

/// message: frames joined by `,`
pub fn parse_message(spec: &str) -> Vec<Msg> {
  if spec == "~" {
    return vec![];
  }
  spec.split(',').map(parse_frame).collect()
}

/// batch: messages joined by `;`
pub fn parse_batch(spec: &str) -> Vec<Vec<Msg>> {
  if spec == "~~" {
    return vec![];
  }
  spec.split(';').map(parse_message).collect()
}

pub fn to_frame_batch(v: Vec<Msg>) -> FrameBatch {
  // Not `FrameBatch::from(vec)`: build by push so the harness controls the order of operations.
  let mut fb = FrameBatch::new();
  for m in v {
    fb.push(m);
  }
  fb
}

pub fn fnv64(data: &[u8]) -> u64 {
  let mut h: u64 = 0xcbf29ce484222325;
  for b in data {
    h ^= *b as u64;
    h = h.wrapping_mul(0x100000001b3);
  }
  h
}

/// `<len>:<fnv64 hex>:<first up to 12 bytes hex>`
pub fn summ(data: &[u8]) -> String {
  let n = data.len().min(12);
  format!("{}:{:016x}:{}", data.len(), fnv64(data), hex::encode(&data[..n]))
}

pub fn flag_digit(m: &Msg) -> u8 {
  (m.is_more() as u8) | ((m.is_command() as u8) << 1)
}

pub fn show_frame(m: &Msg) -> String {
  format!("F{}:{}", flag_digit(m), summ(m.data().unwrap_or(&[])))
}

pub fn show_frames<'a>(ms: impl IntoIterator<Item = &'a Msg>) -> String {
  let v: Vec<String> = ms.into_iter().map(show_frame).collect();
  if v.is_empty() {
    "-".to_string()
  } else {
    v.join(",")
  }
}

/// Canonical error class (small enum shared with the model).
pub fn err_class(e: &ZmqError) -> &'static str {
  match e {
    ZmqError::ProtocolViolation(_) => "Proto",
    ZmqError::SecurityError(_) | ZmqError::InvalidCurveKey => "Sec",
    ZmqError::AuthenticationFailure(_) => "Auth",
    ZmqError::Timeout => "Timeout",
    ZmqError::InvalidState(_) => "InvalidState",
    ZmqError::ResourceLimitReached => "WouldBlock",
    ZmqError::HostUnreachable(_) => "Unreachable",
    ZmqError::InvalidMessage(_) => "InvalidMsg",
    ZmqError::ConnectionClosed => "Closed",
    ZmqError::EncryptionError(_) => "Crypto",
    ZmqError::Internal(_) => "Internal",
    _ => "Other",
  }
}

pub fn bytes_of(b: &Bytes) -> &[u8] {
  b.as_ref()
}

/// Run `f` under `catch_unwind`, mapping a panic to the canonical line `PANIC`.
pub fn guarded<F: FnOnce() -> String + std::panic::UnwindSafe>(f: F) -> String {
  match std::panic::catch_unwind(f) {
    Ok(s) => s,
    Err(_) => "PANIC".to_string(),
  }
}
