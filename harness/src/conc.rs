//! `corr conc`: concurrent components under the turnstile scheduler (`sched.rs`).
//!
//! ops:
//!   rpq new <ready_cap> | rpq pipe <id> <cap> | rpq dereg <id> | rpq close
//!   wg new | wg add <n> | wg done | lb new | lb add <n> | lb deactivate
//!   task <tid> send <pipe> <item> | trysend <pipe> <item> | batch <pipe> <i,i,..> | pop | trypop
//!            | wgwait | lbwait
//!   step <tid> | cancel <tid> | obs

use crate::sched::{show, BoxFut, Task};
use rzmq::verif::{VLoadBalancer, VRpq, VRpqSender, VWaitGroup};
use std::collections::{BTreeMap, HashMap, VecDeque};
use std::sync::Arc;

pub struct State {
  rpq: VRpq,
  senders: BTreeMap<usize, Arc<VRpqSender>>,
  wg: VWaitGroup,
  lb: Arc<VLoadBalancer>,
  tasks: HashMap<String, Task>,
  partial: HashMap<String, Arc<std::sync::Mutex<Vec<String>>>>,
}

impl Default for State {
  fn default() -> Self {
    Self {
      rpq: VRpq::new(8),
      senders: BTreeMap::new(),
      wg: VWaitGroup::new(),
      lb: Arc::new(VLoadBalancer::new()),
      tasks: HashMap::new(),
      partial: HashMap::new(),
    }
  }
}

/// End every task of the previous case under scheduler control before its structures are replaced.
fn retire_all(st: &mut State) {
  // parked consumers can only finish once producers are done and vice versa: a few rounds
  for _ in 0..3 {
    for t in st.tasks.values_mut() {
      t.retire();
    }
  }
  st.tasks.clear();
  st.partial.clear();
}

fn res_unit(r: Result<(), rzmq::ZmqError>) -> String {
  match r {
    Ok(()) => "ok".into(),
    Err(e) => format!("err:{}", crate::err_class(&e)),
  }
}

pub fn run_op(st: &mut State, p: &[&str]) -> String {
  match p[0] {
    "rpq" => match p[1] {
      "new" => {
        retire_all(st);
        st.senders.clear();
        st.rpq = VRpq::new(p[2].parse().unwrap());
        "ok".into()
      }
      "pipe" => {
        let id: usize = p[2].parse().unwrap();
        let s = st.rpq.register_pipe(id, p[3].parse().unwrap());
        st.senders.entry(id).or_insert_with(|| Arc::new(s));
        "ok".into()
      }
      "dereg" => {
        st.rpq.deregister_pipe(p[2].parse().unwrap());
        "ok".into()
      }
      "close" => {
        st.rpq.close();
        "ok".into()
      }
      _ => "bad-op".into(),
    },
    "wg" => match p[1] {
      "new" => {
        retire_all(st);
        st.wg = VWaitGroup::new();
        "ok".into()
      }
      "add" => {
        st.wg.add(p[2].parse().unwrap());
        "ok".into()
      }
      "done" => {
        st.wg.done();
        "ok".into()
      }
      _ => "bad-op".into(),
    },
    "lb" => match p[1] {
      "new" => {
        retire_all(st);
        st.lb = Arc::new(VLoadBalancer::new());
        "ok".into()
      }
      "add" => {
        st.lb.add(&format!("u{}", p[2]));
        "ok".into()
      }
      "deactivate" => {
        st.lb.deactivate();
        "ok".into()
      }
      _ => "bad-op".into(),
    },
    "task" => {
      let tid = p[1].to_string();
      let kind = p[2];
      let rpq = st.rpq.clone();
      let wg = st.wg.clone();
      let lb = st.lb.clone();
      let sender = p.get(3).and_then(|s| s.parse::<usize>().ok()).and_then(|id| st.senders.get(&id).cloned());
      let arg = p.get(4).map(|s| s.to_string()).unwrap_or_default();
      let make: Box<dyn FnOnce() -> BoxFut + Send> = match kind {
        "send" => Box::new(move || {
          Box::pin(async move {
            match sender {
              Some(s) => res_unit(s.send(arg.parse().unwrap()).await),
              None => "no-pipe".into(),
            }
          })
        }),
        "trysend" => Box::new(move || {
          Box::pin(async move {
            match sender {
              Some(s) => match s.try_send(arg.parse().unwrap()) {
                Ok(()) => "ok".into(),
                Err(true) => "full".into(),
                Err(false) => "closed".into(),
              },
              None => "no-pipe".into(),
            }
          })
        }),
        "batch" => Box::new(move || {
          Box::pin(async move {
            match sender {
              Some(s) => {
                let mut items: VecDeque<u64> = arg.split(',').map(|x| x.parse().unwrap()).collect();
                let w = s.try_send_batch(&mut items);
                format!("sent={} left={}", w, items.len())
              }
              None => "no-pipe".into(),
            }
          })
        }),
        "pop" => Box::new(move || {
          Box::pin(async move {
            match rpq.pop().await {
              Ok((p, i)) => format!("{}:{}", p, i),
              Err(e) => format!("err:{}", crate::err_class(&e)),
            }
          })
        }),
        "trypop" => Box::new(move || {
          Box::pin(async move {
            match rpq.try_pop() {
              Some((p, i)) => format!("{}:{}", p, i),
              None => "none".into(),
            }
          })
        }),
        "script" => {
          // `<op;op;..>` with op = send:<pipe>:<item> | trysend:<pipe>:<item> | batch:<pipe>:<i,i> | pop | trypop
          let ops: Vec<String> = p[3].split(';').map(|x| x.to_string()).collect();
          let senders = st.senders.clone();
          let shared = Arc::new(std::sync::Mutex::new(Vec::<String>::new()));
          st.partial.insert(tid.clone(), shared.clone());
          Box::new(move || {
            Box::pin(async move {
              let mut results = Vec::new();
              for op in ops {
                let f: Vec<&str> = op.split(':').collect();
                let sender = f.get(1).and_then(|x| x.parse::<usize>().ok()).and_then(|id| senders.get(&id).cloned());
                let r = match f[0] {
                  "send" => match sender {
                    Some(s) => res_unit(s.send(f[2].parse().unwrap()).await),
                    None => "no-pipe".into(),
                  },
                  "trysend" => match sender {
                    Some(s) => match s.try_send(f[2].parse().unwrap()) {
                      Ok(()) => "ok".into(),
                      Err(true) => "full".into(),
                      Err(false) => "closed".into(),
                    },
                    None => "no-pipe".into(),
                  },
                  "batch" => match sender {
                    Some(s) => {
                      let mut items: VecDeque<u64> = f[2].split(',').map(|x| x.parse().unwrap()).collect();
                      let w = s.try_send_batch(&mut items);
                      format!("sent={} left={}", w, items.len())
                    }
                    None => "no-pipe".into(),
                  },
                  "pop" => match rpq.pop().await {
                    Ok((p, i)) => format!("{}:{}", p, i),
                    Err(e) => format!("err:{}", crate::err_class(&e)),
                  },
                  "trypop" => match rpq.try_pop() {
                    Some((p, i)) => format!("{}:{}", p, i),
                    None => "none".into(),
                  },
                  _ => "bad-op".into(),
                };
                shared.lock().unwrap().push(r.clone());
                results.push(r);
              }
              results.join(";")
            })
          })
        }
        "wgwait" => Box::new(move || {
          Box::pin(async move {
            wg.wait().await;
            "ok".into()
          })
        }),
        "lbwait" => Box::new(move || Box::pin(async move { res_unit(lb.wait_for_connection().await) })),
        _ => return "bad-op".into(),
      };
      st.tasks.insert(tid, Task::spawn(make));
      "ok".into()
    }
    "step" => match st.tasks.get_mut(p[1]) {
      Some(t) => show(&t.step()),
      None => "no-task".into(),
    },
    "cancel" => match st.tasks.get_mut(p[1]) {
      Some(t) => show(&t.cancel()),
      None => "no-task".into(),
    },
    "res" => match st.partial.get(p[1]) {
      Some(v) => format!("[{}]", v.lock().unwrap().join(";")),
      None => "[]".into(),
    },
    "obs" => {
      let mut v = Vec::new();
      for (id, s) in &st.senders {
        v.push(format!("p{}:q{},r{},l{}", id, s.queued_count(), s.reserved_count(), s.len()));
      }
      format!("{} ready={} wg={}", v.join(" "), st.rpq.ready_len(), st.wg.count())
    }
    _ => "bad-op".into(),
  }
}
