//! Stack-level scenarios (real sockets). Each scenario returns one canonical line.

use crate::*;
use rzmq::socket::events::SocketEvent;
use rzmq::socket::options as o;
use rzmq::{Context, Msg, Socket, SocketType, ZmqError};
use std::collections::HashMap;
use std::time::{Duration, Instant};
use tokio::io::{AsyncReadExt, AsyncWriteExt};
use tokio::net::{TcpListener, TcpStream};

pub fn socket_type(name: &str) -> SocketType {
  match name {
    "PUB" => SocketType::Pub,
    "SUB" => SocketType::Sub,
    "REQ" => SocketType::Req,
    "REP" => SocketType::Rep,
    "DEALER" => SocketType::Dealer,
    "ROUTER" => SocketType::Router,
    "PULL" => SocketType::Pull,
    "PUSH" => SocketType::Push,
    _ => panic!("socket type {name}"),
  }
}

pub fn parse_kv(s: &str) -> HashMap<String, String> {
  let mut m = HashMap::new();
  if s == "-" {
    return m;
  }
  for kv in s.split(',') {
    if let Some((k, v)) = kv.split_once('=') {
      m.insert(k.to_string(), v.to_string());
    }
  }
  m
}

async fn set_i32(s: &Socket, opt: i32, v: i32) -> Result<(), ZmqError> {
  s.set_option_raw(opt, &v.to_ne_bytes()).await
}

/// Creates a socket from the shared cfg grammar (engine keys + stack-only keys).
pub async fn make_socket(ctx: &Context, cfg: &HashMap<String, String>) -> Result<Socket, ZmqError> {
  let ty = cfg.get("type").map(|s| s.as_str()).unwrap_or("DEALER");
  let s = ctx.socket(socket_type(ty))?;
  for (k, v) in cfg {
    match k.as_str() {
      "type" | "role" => {}
      "id" => {
        let b = parse_bytes(v);
        if !b.is_empty() {
          s.set_option_raw(o::ROUTING_ID, &b).await?;
        }
      }
      "plain" => {
        if v == "1" {
          let server = cfg.get("role").map(|r| r == "s").unwrap_or(false);
          set_i32(&s, o::PLAIN_SERVER, server as i32).await?;
        }
      }
      "user" => {
        if v != "none" {
          s.set_option_raw(o::PLAIN_USERNAME, &parse_bytes(v)).await?;
        }
      }
      "pass" => {
        if v != "none" {
          s.set_option_raw(o::PLAIN_PASSWORD, &parse_bytes(v)).await?;
        }
      }
      "sec" => {}
      "curve" => {
        if v == "1" {
          let server = cfg.get("role").map(|r| r == "s").unwrap_or(false);
          // fixed, well-formed key material: these scenarios are about what an UNAUTHENTICATED peer can achieve
          let sk: Vec<u8> = (1..=32u8).collect();
          let peer_pk: Vec<u8> = (101..=132u8).collect();
          if server {
            set_i32(&s, o::CURVE_SERVER, 1).await?;
            s.set_option_raw(o::CURVE_SECRET_KEY, &sk).await?;
          } else {
            s.set_option_raw(o::CURVE_SECRET_KEY, &sk).await?;
            s.set_option_raw(o::CURVE_SERVER_KEY, &peer_pk).await?;
          }
        }
      }
      "noise" => {
        if v == "1" {
          let server = cfg.get("role").map(|r| r == "s").unwrap_or(false);
          let sk: Vec<u8> = (33..=64u8).collect();
          let peer_pk: Vec<u8> = (133..=164u8).collect();
          s.set_option_raw(o::NOISE_XX_STATIC_SECRET_KEY, &sk).await?;
          if !server {
            s.set_option_raw(o::NOISE_XX_REMOTE_STATIC_PUBLIC_KEY, &peer_pk).await?;
          }
          set_i32(&s, o::NOISE_XX_ENABLED, 1).await?;
        }
      }
      "zmtp2" => set_i32(&s, o::ALLOW_ZMTP2, v.parse().unwrap()).await?,
      "hbivl" => {
        if v != "none" {
          set_i32(&s, o::HEARTBEAT_IVL, v.parse().unwrap()).await?
        }
      }
      "hbto" => {
        if v != "none" {
          set_i32(&s, o::HEARTBEAT_TIMEOUT, v.parse().unwrap()).await?
        }
      }
      "cork" => set_i32(&s, o::TCP_CORK, v.parse().unwrap()).await?,
      "zc" => set_i32(&s, o::IO_URING_SNDZEROCOPY, v.parse().unwrap()).await?,
      "ms" => set_i32(&s, o::IO_URING_RCVMULTISHOT, v.parse().unwrap()).await?,
      "max" => s.set_option_raw(o::MAXMSGSIZE, &v.parse::<i64>().unwrap().to_ne_bytes()).await?,
      "sndhwm" => set_i32(&s, o::SNDHWM, v.parse().unwrap()).await?,
      "rcvhwm" => set_i32(&s, o::RCVHWM, v.parse().unwrap()).await?,
      "linger" => set_i32(&s, o::LINGER, v.parse().unwrap()).await?,
      "sndtimeo" => set_i32(&s, o::SNDTIMEO, v.parse().unwrap()).await?,
      "rcvtimeo" => set_i32(&s, o::RCVTIMEO, v.parse().unwrap()).await?,
      "hsivl" => set_i32(&s, o::HANDSHAKE_IVL, v.parse().unwrap()).await?,
      "sbc" => set_i32(&s, o::SNDBATCH_COUNT, v.parse().unwrap()).await?,
      "sbb" => set_i32(&s, o::SNDBATCH_BYTES, v.parse().unwrap()).await?,
      "rbc" => set_i32(&s, o::RCVBATCH_COUNT, v.parse().unwrap()).await?,
      "rbb" => set_i32(&s, o::RCVBATCH_BYTES, v.parse().unwrap()).await?,
      "mandatory" => set_i32(&s, o::ROUTER_MANDATORY, v.parse().unwrap()).await?,
      "autodelim" => set_i32(&s, o::AUTO_DELIMITER, v.parse().unwrap()).await?,
      "rivl" => set_i32(&s, o::RECONNECT_IVL, v.parse().unwrap()).await?,
      "rivlmax" => set_i32(&s, o::RECONNECT_IVL_MAX, v.parse().unwrap()).await?,
      "uring" => set_i32(&s, o::IO_URING_SESSION_ENABLED, v.parse().unwrap()).await?,
      "sndbuf" => set_i32(&s, o::SNDBUF, v.parse().unwrap()).await?,
      "rcvbuf" => set_i32(&s, o::RCVBUF, v.parse().unwrap()).await?,
      _ => {}
    }
  }
  Ok(s)
}

pub async fn last_endpoint(s: &Socket) -> String {
  String::from_utf8(s.get_option(o::LAST_ENDPOINT).await.unwrap_or_default()).unwrap_or_default()
}

pub fn show_msg(frames: &[Msg]) -> String {
  format!("D({})", show_frames(frames.iter()))
}

/// Collect whole messages with `recv_multipart` until nothing arrives for `idle` *after* `done` was set
/// (the scripted peer finished writing), or `hard` elapsed.
pub async fn collect_messages_until(
  s: &Socket,
  idle: Duration,
  hard: Duration,
  strip_first: bool,
  done: &std::sync::atomic::AtomicBool,
) -> Vec<String> {
  let mut out = Vec::new();
  let t0 = Instant::now();
  loop {
    if t0.elapsed() > hard {
      break;
    }
    let was_done = done.load(std::sync::atomic::Ordering::Acquire);
    match tokio::time::timeout(idle, s.recv_multipart()).await {
      Ok(Ok(mut frames)) => {
        if strip_first && !frames.is_empty() {
          frames.remove(0);
        }
        out.push(show_msg(&frames));
      }
      Ok(Err(ZmqError::Timeout)) | Err(_) => {
        if was_done {
          break;
        }
      }
      Ok(Err(e)) => {
        out.push(format!("E({})", err_class(&e)));
        break;
      }
    }
  }
  out
}

pub async fn collect_messages(s: &Socket, idle: Duration, hard: Duration, strip_first: bool) -> Vec<String> {
  let done = std::sync::atomic::AtomicBool::new(true);
  collect_messages_until(s, idle, hard, strip_first, &done).await
}

pub async fn scenario(line: &str) -> String {
  let p: Vec<&str> = line.split(' ').collect();
  match p[0] {
    "note" => "note".to_string(),
    "rawpeer" => rawpeer(&p).await,
    "slowdrip" => slowdrip(&p).await,
    "compat" => compat(&p).await,
    "hostile" => hostile(&p).await,
    "reqrace" => reqrace(&p).await,
    "reprace" => reprace(&p).await,
    "reqstale" => reqstale(&p).await,
    "stream" => stream(&p).await,
    "fsmscript" => fsmscript(&p).await,
    "partialread" => partialread(&p).await,
    "hwm" => hwm(&p).await,
    "linger" => linger(&p).await,
    "lifecycle" => lifecycle(&p).await,
    "churn" => churn(&p).await,
    "fanin" => fanin(&p).await,
    "peerclose" => peerclose(&p).await,
    "bystander" => bystander(&p).await,
    "subhist" => subhist(&p).await,
    "comeback" => comeback(&p).await,
    "routerframes" => routerframes(&p).await,
    "errclose" => errclose(&p).await,
    "routerlate" => routerlate(&p).await,
    "retrypace" => retrypace(&p).await,
    "chanleak" => chanleak(&p).await,
    "rchurn" => rchurn(&p).await,
    "cancel" => cancel_scn(&p).await,
    "secure" => secure(&p).await,
    "framewise" => framewise(&p).await,
    "pubstall" => pubstall(&p).await,
    "bigmulti" => bigmulti(&p).await,
    "faultlocal" => faultlocal(&p).await,
    _ => "bad-op".to_string(),
  }
}

/// Write `data` in the given segmentation, pausing between writes so that the receiver's reads
/// (very likely) see the same boundaries.
async fn write_chunks(stream: &mut (impl AsyncWriteExt + Unpin), data: &[u8], cuts: &str, gap: Duration) -> std::io::Result<()> {
  for ch in crate::wire::chunks(data, cuts) {
    if ch.is_empty() {
      continue;
    }
    stream.write_all(ch).await?;
    stream.flush().await?;
    tokio::time::sleep(gap).await;
  }
  Ok(())
}

/// `rawpeer <cfg> <bytes> <cuts> [gap_ms]`
/// A raw TCP peer plays the byte transcript against a real rzmq socket (role s: rzmq listens and the raw
/// peer connects; role c: rzmq connects to a raw listener), with the given write boundaries. Reports what
/// the application received and whether the monitor saw the handshake succeed.
async fn rawpeer(p: &[&str]) -> String {
  let cfg = parse_kv(p[1]);
  let data = parse_bytes(p[2]);
  let cuts = p[3];
  let gap = Duration::from_millis(p.get(4).and_then(|s| s.parse().ok()).unwrap_or(15));
  let ctx = Context::new().expect("ctx");
  let sock = match make_socket(&ctx, &cfg).await {
    Ok(s) => s,
    Err(e) => return format!("setup-error {}", err_class(&e)),
  };
  let ty = cfg.get("type").cloned().unwrap_or_default();
  if ty == "SUB" {
    let _ = sock.set_option_raw(o::SUBSCRIBE, b"").await;
  }
  let monitor = sock.monitor_default().await.ok();
  let server = cfg.get("role").map(|r| r == "s").unwrap_or(true);

  let mut stream: TcpStream;
  if server {
    if let Err(e) = sock.bind("tcp://127.0.0.1:0").await {
      return format!("setup-error bind {}", err_class(&e));
    }
    let ep = last_endpoint(&sock).await;
    let addr = ep.trim_start_matches("tcp://").to_string();
    stream = match TcpStream::connect(&addr).await {
      Ok(s) => s,
      Err(_) => return "setup-error connect".into(),
    };
  } else {
    let l = TcpListener::bind("127.0.0.1:0").await.unwrap();
    let addr = l.local_addr().unwrap();
    if let Err(e) = sock.connect(&format!("tcp://{}", addr)).await {
      return format!("setup-error connect {}", err_class(&e));
    }
    stream = match tokio::time::timeout(Duration::from_secs(5), l.accept()).await {
      Ok(Ok((s, _))) => s,
      _ => return "setup-error accept".into(),
    };
  }
  let _ = stream.set_nodelay(true);
  let (mut rd, mut wr) = stream.into_split();
  // drain whatever rzmq sends so that it never blocks on us
  let (seen_tx, mut seen_rx) = tokio::sync::watch::channel(0usize);
  let drain = tokio::spawn(async move {
    let mut buf = vec![0u8; 65536];
    let mut total = 0usize;
    loop {
      match rd.read(&mut buf).await {
        Ok(0) | Err(_) => break,
        Ok(n) => {
          total += n;
          let _ = seen_tx.send(total);
        }
      }
    }
    total
  });
  // Do not start writing before rzmq's session exists and has sent its signature: otherwise several
  // of our writes would pile up in the kernel buffer and arrive as one read.
  let _ = tokio::time::timeout(Duration::from_millis(1500), async {
    while *seen_rx.borrow() < 10 {
      if seen_rx.changed().await.is_err() {
        break;
      }
    }
  })
  .await;
  let cuts_owned = cuts.to_string();
  let done = std::sync::Arc::new(std::sync::atomic::AtomicBool::new(false));
  let done2 = done.clone();
  let writer = tokio::spawn(async move {
    let _ = write_chunks(&mut wr, &data, &cuts_owned, gap).await;
    done2.store(true, std::sync::atomic::Ordering::Release);
    wr
  });
  let strip = ty == "ROUTER";
  let msgs = collect_messages_until(&sock, Duration::from_millis(350), Duration::from_secs(30), strip, &done).await;
  let wr = writer.await.ok();
  let mut hs = "none";
  if let Some(m) = monitor.as_ref() {
    while let Ok(ev) = m.try_recv() {
      match ev {
        SocketEvent::HandshakeSucceeded { .. } => hs = "ok",
        SocketEvent::HandshakeFailed { .. } => {
          if hs == "none" {
            hs = "failed"
          }
        }
        _ => {}
      }
    }
  }
  drop(wr);
  drain.abort();
  let _ = tokio::time::timeout(Duration::from_secs(5), sock.close()).await;
  let _ = tokio::time::timeout(Duration::from_secs(5), ctx.term()).await;
  format!("recv=[{}] hs={}", msgs.join(" "), if hs == "ok" { "ok" } else { "no" })
}

/// `slowdrip <cfg> <interval_ms> <bytes>`
/// A raw peer connects to an rzmq listener and sends one byte of `bytes` every `interval_ms` (cfg key
/// `hsivl` = HANDSHAKE_IVL in ms). Reports when rzmq gave up on the connection, relative to HANDSHAKE_IVL:
/// `closed=in-time` (by hsivl + 1 s), `closed=late`, or `closed=never` (still open after hsivl*4 + 2 s).
async fn slowdrip(p: &[&str]) -> String {
  let cfg = parse_kv(p[1]);
  let interval = Duration::from_millis(p[2].parse().unwrap());
  let data = parse_bytes(p[3]);
  let hsivl: u64 = cfg.get("hsivl").and_then(|v| v.parse().ok()).unwrap_or(15000);
  let ctx = Context::new().expect("ctx");
  let sock = match make_socket(&ctx, &cfg).await {
    Ok(s) => s,
    Err(e) => return format!("setup-error {}", err_class(&e)),
  };
  if let Err(e) = sock.bind("tcp://127.0.0.1:0").await {
    return format!("setup-error bind {}", err_class(&e));
  }
  let ep = last_endpoint(&sock).await;
  let stream = match TcpStream::connect(ep.trim_start_matches("tcp://")).await {
    Ok(s) => s,
    Err(_) => return "setup-error connect".into(),
  };
  let _ = stream.set_nodelay(true);
  let t0 = Instant::now();
  let (mut rd, mut wr) = stream.into_split();
  let writer = tokio::spawn(async move {
    for b in data {
      if wr.write_all(&[b]).await.is_err() {
        break;
      }
      tokio::time::sleep(interval).await;
    }
    // keep the write half open until the reader side reports the close
    tokio::time::sleep(Duration::from_secs(60)).await;
    drop(wr);
  });
  let hard = Duration::from_millis(hsivl * 4 + 2000);
  let mut buf = vec![0u8; 4096];
  let closed_at = loop {
    match tokio::time::timeout(hard.saturating_sub(t0.elapsed()), rd.read(&mut buf)).await {
      Ok(Ok(0)) | Ok(Err(_)) => break Some(t0.elapsed()),
      Ok(Ok(_)) => continue,
      Err(_) => break None,
    }
  };
  writer.abort();
  let _ = tokio::time::timeout(Duration::from_secs(5), sock.close()).await;
  let _ = tokio::time::timeout(Duration::from_secs(5), ctx.term()).await;
  match closed_at {
    Some(d) if d <= Duration::from_millis(hsivl + 1000) => "closed=in-time".into(),
    Some(d) => format!("ORACLE-FAIL key=handshake-deadline closed=late after_ms~{} hsivl={}", (d.as_millis() / 100) * 100, hsivl),
    None => format!("ORACLE-FAIL key=handshake-deadline closed=never hsivl={}", hsivl),
  }
}

static UNIQ: std::sync::atomic::AtomicUsize = std::sync::atomic::AtomicUsize::new(0);

pub fn unique_name(prefix: &str) -> String {
  format!(
    "{}-{}-{}",
    prefix,
    std::process::id(),
    UNIQ.fetch_add(1, std::sync::atomic::Ordering::Relaxed)
  )
}

static PANIC_LOG: std::sync::Mutex<Vec<String>> = std::sync::Mutex::new(Vec::new());

/// called by the process-wide panic hook
pub fn note_panic(place: String) {
  if let Ok(mut g) = PANIC_LOG.lock() {
    g.push(place);
  }
}

pub fn panics_so_far() -> usize {
  PANIC_LOG.lock().map(|g| g.len()).unwrap_or(0)
}

pub fn panics_since(n: usize) -> Vec<String> {
  PANIC_LOG.lock().map(|g| g.iter().skip(n).cloned().collect()).unwrap_or_default()
}

async fn wait_handshake(m: &rzmq::socket::events::MonitorReceiver, total: Duration) -> &'static str {
  let t0 = Instant::now();
  while t0.elapsed() < total {
    match tokio::time::timeout(Duration::from_millis(50), m.recv()).await {
      Ok(Ok(SocketEvent::HandshakeSucceeded { .. })) => return "ok",
      Ok(Ok(SocketEvent::HandshakeFailed { .. })) => return "no",
      Ok(Ok(SocketEvent::ConnectFailed { .. })) => return "no",
      Ok(Ok(_)) => {}
      Ok(Err(_)) => return "no",
      Err(_) => {}
    }
  }
  "no"
}

/// `compat <tcp|ipc|inproc> <binder cfg> <connector cfg>`
/// One socket binds, the other connects; reports whether each side saw the handshake succeed
/// (`bind=ok|no conn=ok|no`; for inproc the connector's verdict is the result of `connect()`).
async fn compat(p: &[&str]) -> String {
  let transport = p[1];
  let ca = parse_kv(p[2]);
  let cb = parse_kv(p[3]);
  let ctx = Context::new().expect("ctx");
  let a = match make_socket(&ctx, &ca).await {
    Ok(s) => s,
    Err(e) => return format!("setup-error {}", err_class(&e)),
  };
  let b = match make_socket(&ctx, &cb).await {
    Ok(s) => s,
    Err(e) => return format!("setup-error {}", err_class(&e)),
  };
  let ma = a.monitor_default().await.unwrap();
  let mb = b.monitor_default().await.unwrap();
  let ep = match transport {
    "tcp" => "tcp://127.0.0.1:0".to_string(),
    "ipc" => format!("ipc:///tmp/{}.sock", unique_name("rzmq-verif")),
    _ => format!("inproc://{}", unique_name("compat")),
  };
  if let Err(e) = a.bind(&ep).await {
    return format!("setup-error bind {}", err_class(&e));
  }
  let target = if transport == "tcp" { last_endpoint(&a).await } else { ep.clone() };
  let res = b.connect(&target).await;
  let out = if transport == "inproc" {
    let conn = if res.is_ok() { "ok" } else { "no" };
    // the binder must stay usable whatever the verdict: a second, compatible connector still gets in
    format!("bind=- conn={}", conn)
  } else {
    let (ra, rb) = tokio::join!(
      wait_handshake(&ma, Duration::from_millis(1500)),
      wait_handshake(&mb, Duration::from_millis(1500))
    );
    format!("bind={} conn={}", ra, rb)
  };
  let _ = tokio::time::timeout(Duration::from_secs(5), b.close()).await;
  let _ = tokio::time::timeout(Duration::from_secs(5), a.close()).await;
  let _ = tokio::time::timeout(Duration::from_secs(5), ctx.term()).await;
  if transport == "ipc" {
    let _ = std::fs::remove_file(ep.trim_start_matches("ipc://"));
  }
  out
}

/// `faultlocal <tcp|ipc|inproc> <fault>`
/// A PULL socket binds; a healthy PUSH exchanges traffic with it before, during and after a fault injected
/// through ANOTHER connection of the same PULL socket. Faults: `mismatch` (a PUB socket connects: wrong
/// socket type), `garbage` (raw peer sends junk), `rst` (raw peer connects and drops), `halfgreeting`
/// (raw peer sends half a greeting and goes silent), `badframe` (valid handshake, then an oversized header).
/// Result: `healthy=ok` if every healthy message arrived in order, else an ORACLE-FAIL line.
async fn faultlocal(p: &[&str]) -> String {
  let transport = p[1];
  let fault = p[2];
  let ctx = Context::new().expect("ctx");
  let pull = ctx.socket(SocketType::Pull).unwrap();
  let _ = set_i32(&pull, o::RCVTIMEO, 2000).await;
  let ep = match transport {
    "tcp" => "tcp://127.0.0.1:0".to_string(),
    "ipc" => format!("ipc:///tmp/{}.sock", unique_name("rzmq-verif-fl")),
    _ => format!("inproc://{}", unique_name("faultlocal")),
  };
  if let Err(e) = pull.bind(&ep).await {
    return format!("setup-error bind {}", err_class(&e));
  }
  let target = if transport == "tcp" { last_endpoint(&pull).await } else { ep.clone() };
  let push = ctx.socket(SocketType::Push).unwrap();
  let _ = set_i32(&push, o::SNDTIMEO, 2000).await;
  if let Err(e) = push.connect(&target).await {
    return format!("setup-error connect {}", err_class(&e));
  }
  let mut got = Vec::new();
  let mut failure: Option<String> = None;
  // phase 1: before the fault
  for i in 0..3u8 {
    if let Err(e) = push.send(Msg::from_vec(vec![b'h', i])).await {
      failure = Some(format!("send-before {}", err_class(&e)));
      break;
    }
  }
  for _ in 0..3 {
    match pull.recv().await {
      Ok(m) => got.push(m.data().unwrap_or(&[]).to_vec()),
      Err(e) => {
        failure = Some(format!("recv-before {}", err_class(&e)));
        break;
      }
    }
  }
  // the fault, on a second connection
  let mut keep: Vec<Box<dyn std::any::Any + Send>> = Vec::new();
  if failure.is_none() {
    match fault {
      "mismatch" => {
        let bad = ctx.socket(SocketType::Pub).unwrap();
        let _ = tokio::time::timeout(Duration::from_secs(3), bad.connect(&target)).await;
        tokio::time::sleep(Duration::from_millis(150)).await;
        keep.push(Box::new(bad));
      }
      "garbage" | "rst" | "halfgreeting" | "badframe" if transport == "tcp" => {
        if let Ok(mut st) = TcpStream::connect(target.trim_start_matches("tcp://")).await {
          match fault {
            "garbage" => {
              let _ = st.write_all(&[0x13u8; 200]).await;
            }
            "halfgreeting" => {
              let _ = st.write_all(&[0xFF, 0, 0, 0, 0, 0, 0, 0, 0, 0x7F, 3, 0, b'N', b'U']).await;
            }
            "badframe" => {
              let mut g = vec![0xFFu8, 0, 0, 0, 0, 0, 0, 0, 0, 0x7F, 3, 0];
              g.extend_from_slice(b"NULL");
              g.extend(std::iter::repeat(0u8).take(16 + 1 + 31));
              g.extend_from_slice(b"\x04\x1a\x05READY\x0bSocket-Type\x00\x00\x00\x04PUSH");
              g.extend_from_slice(&[0x02, 0xFF, 0xFF, 0xFF, 0xFF, 0xFF, 0xFF, 0xFF, 0xFF, 1, 2, 3]);
              let _ = st.write_all(&g).await;
            }
            _ => {}
          }
          tokio::time::sleep(Duration::from_millis(100)).await;
          if fault != "halfgreeting" {
            drop(st);
          } else {
            keep.push(Box::new(st));
          }
        }
        tokio::time::sleep(Duration::from_millis(100)).await;
      }
      _ => {}
    }
  }
  // phase 2: after the fault
  if failure.is_none() {
    for i in 3..6u8 {
      match tokio::time::timeout(Duration::from_secs(4), push.send(Msg::from_vec(vec![b'h', i]))).await {
        Ok(Ok(())) => {}
        Ok(Err(e)) => {
          failure = Some(format!("send-after {}", err_class(&e)));
          break;
        }
        Err(_) => {
          failure = Some("send-after never-returned".into());
          break;
        }
      }
    }
  }
  if failure.is_none() {
    for _ in 3..6 {
      match tokio::time::timeout(Duration::from_secs(4), pull.recv()).await {
        Ok(Ok(m)) => got.push(m.data().unwrap_or(&[]).to_vec()),
        Ok(Err(e)) => {
          failure = Some(format!("recv-after {}", err_class(&e)));
          break;
        }
        Err(_) => {
          failure = Some("recv-after never-returned".into());
          break;
        }
      }
    }
  }
  let want: Vec<Vec<u8>> = (0..6u8).map(|i| vec![b'h', i]).collect();
  if failure.is_none() && got != want {
    failure = Some(format!("healthy-traffic-mismatch got={}", got.len()));
  }
  drop(keep);
  let _ = tokio::time::timeout(Duration::from_secs(5), push.close()).await;
  let _ = tokio::time::timeout(Duration::from_secs(5), pull.close()).await;
  let _ = tokio::time::timeout(Duration::from_secs(5), ctx.term()).await;
  if transport == "ipc" {
    let _ = std::fs::remove_file(ep.trim_start_matches("ipc://"));
  }
  match failure {
    None => "healthy=ok".into(),
    Some(f) => format!("ORACLE-FAIL key=failure-not-local:{}:{} {}", transport, fault, f),
  }
}

/// `hostile <cfg> <bytes> <cuts>`
/// A raw TCP peer throws `bytes` (in the given write segmentation) at a listening rzmq socket of type PULL;
/// afterwards a well-behaved PUSH connects to the same listener and its message must arrive: the socket
/// that owned the hostile connection keeps working (C07). Messages from the hostile peer are ignored.
async fn hostile(p: &[&str]) -> String {
  let cfg = parse_kv(p[1]);
  let data = parse_bytes(p[2]);
  let cuts = p[3];
  let ctx = Context::new().expect("ctx");
  let pull = match make_socket(&ctx, &cfg).await {
    Ok(s) => s,
    Err(e) => return format!("setup-error {}", err_class(&e)),
  };
  let _ = set_i32(&pull, o::RCVTIMEO, 300).await;
  if let Err(e) = pull.bind("tcp://127.0.0.1:0").await {
    return format!("setup-error bind {}", err_class(&e));
  }
  let ep = last_endpoint(&pull).await;
  if let Ok(stream) = TcpStream::connect(ep.trim_start_matches("tcp://")).await {
    let _ = stream.set_nodelay(true);
    let (mut rd, mut wr) = stream.into_split();
    let drain = tokio::spawn(async move {
      let mut buf = vec![0u8; 65536];
      while let Ok(n) = rd.read(&mut buf).await {
        if n == 0 {
          break;
        }
      }
    });
    tokio::time::sleep(Duration::from_millis(20)).await;
    let _ = write_chunks(&mut wr, &data, cuts, Duration::from_millis(5)).await;
    tokio::time::sleep(Duration::from_millis(100)).await;
    drop(wr);
    drain.abort();
  }
  // whatever the hostile peer managed to get delivered is drained and ignored
  let _ = collect_messages(&pull, Duration::from_millis(150), Duration::from_secs(3), false).await;
  let push = ctx.socket(SocketType::Push).unwrap();
  let _ = set_i32(&push, o::SNDTIMEO, 3000).await;
  let mut verdict = "survived=ok".to_string();
  let secured = ["curve", "noise", "plain"].iter().any(|k| cfg.get(*k).map(|v| v == "1").unwrap_or(false));
  if secured {
    // an ordinary PUSH is not admitted by this server: it has survived if it still greets a newcomer
    let greeted = async {
      let mut st = TcpStream::connect(ep.trim_start_matches("tcp://")).await.ok()?;
      let mut buf = vec![0u8; 64];
      let mut n = 0;
      while n < 10 {
        match st.read(&mut buf[n..]).await {
          Ok(0) | Err(_) => return None,
          Ok(k) => n += k,
        }
      }
      Some(())
    };
    if !matches!(tokio::time::timeout(Duration::from_secs(3), greeted).await, Ok(Some(()))) {
      verdict = "ORACLE-FAIL key=hostile-peer-kills-socket the listener no longer greets a new connection".into();
    }
  } else if let Err(e) = push.connect(&ep).await {
    verdict = format!("ORACLE-FAIL key=hostile-peer-kills-socket connect {}", err_class(&e));
  } else if let Err(e) = push.send(Msg::new()).await {
    // (an empty message: admitted by every MAXMSGSIZE >= 0)
    verdict = format!("ORACLE-FAIL key=hostile-peer-kills-socket send {}", err_class(&e));
  } else {
    let _ = set_i32(&pull, o::RCVTIMEO, 3000).await;
    match pull.recv().await {
      Ok(m) if m.size() == 0 => {}
      Ok(_) => verdict = "ORACLE-FAIL key=hostile-peer-kills-socket wrong-message".into(),
      Err(e) => verdict = format!("ORACLE-FAIL key=hostile-peer-kills-socket recv {}", err_class(&e)),
    }
  }
  let _ = tokio::time::timeout(Duration::from_secs(5), push.close()).await;
  let _ = tokio::time::timeout(Duration::from_secs(5), pull.close()).await;
  let _ = tokio::time::timeout(Duration::from_secs(5), ctx.term()).await;
  verdict
}

/// `reqrace <tcp|inproc> <tasks> <millis>`
/// `tasks` tasks hammer send()/recv() on clones of one REQ socket (multi-thread runtime). The peer is a ROUTER
/// that answers every request only after a pause; it sees a violation if a second request of the same REQ
/// arrives while one is unanswered (REQ sent twice in a row). Race-free oracle: observed at the peer.
async fn reqrace(p: &[&str]) -> String {
  let transport = p[1];
  let ntasks: usize = p[2].parse().unwrap();
  let millis: u64 = p[3].parse().unwrap();
  let ctx = Context::new().expect("ctx");
  let router = ctx.socket(SocketType::Router).unwrap();
  let _ = set_i32(&router, o::RCVTIMEO, 50).await;
  let ep = if transport == "tcp" { "tcp://127.0.0.1:0".to_string() } else { format!("ipc:///tmp/{}.sock", unique_name("rzmq-verif-reqrace")) };
  if router.bind(&ep).await.is_err() {
    return "setup-error bind".into();
  }
  let target = if transport == "tcp" { last_endpoint(&router).await } else { ep };
  let req = ctx.socket(SocketType::Req).unwrap();
  // no RCVTIMEO: a recv() that times out abandons the exchange by design and a new send is then allowed
  let _ = set_i32(&req, o::SNDTIMEO, 20).await;
  if req.connect(&target).await.is_err() {
    return "setup-error connect".into();
  }
  tokio::time::sleep(Duration::from_millis(150)).await;
  let stop = std::sync::Arc::new(std::sync::atomic::AtomicBool::new(false));
  let mut handles = Vec::new();
  for t in 0..ntasks {
    let r = req.clone();
    let st = stop.clone();
    handles.push(tokio::spawn(async move {
      let mut n: u32 = 0;
      while !st.load(std::sync::atomic::Ordering::Relaxed) {
        n = n.wrapping_add(1);
        if (n.wrapping_mul(2654435761).wrapping_add(t as u32)) % 3 != 0 {
          let _ = r.send(Msg::from_vec(vec![t as u8])).await;
        } else {
          let _ = r.recv().await;
        }
        tokio::task::yield_now().await;
      }
    }));
  }
  // the peer: at most one unanswered request may exist at any time
  let t0 = Instant::now();
  let mut violation: Option<String> = None;
  let mut served = 0usize;
  while t0.elapsed() < Duration::from_millis(millis) {
    match router.recv_multipart().await {
      Ok(frames) if !frames.is_empty() => {
        let id = frames[0].clone();
        // pause, then look whether the SAME requester has already sent another request
        tokio::time::sleep(Duration::from_millis(3)).await;
        match tokio::time::timeout(Duration::from_millis(15), router.recv_multipart()).await {
          Ok(Ok(_second)) => {
            violation = Some(format!("two requests in a row without a reply in between (after {} exchanges)", served));
            break;
          }
          _ => {}
        }
        let _ = router.send_multipart(vec![id, Msg::from_static(b"reply")]).await;
        served += 1;
      }
      _ => {}
    }
  }
  stop.store(true, std::sync::atomic::Ordering::Relaxed);
  for h in handles {
    h.abort();
  }
  let _ = tokio::time::timeout(Duration::from_secs(5), req.close()).await;
  let _ = tokio::time::timeout(Duration::from_secs(5), router.close()).await;
  let _ = tokio::time::timeout(Duration::from_secs(5), ctx.term()).await;
  if let Some(path) = target.strip_prefix("ipc://") {
    let _ = std::fs::remove_file(path);
  }
  match violation {
    Some(v) => format!("ORACLE-FAIL key=req-alternation {}", v),
    None if served == 0 => "ORACLE-FAIL key=req-alternation-vacuous no exchange completed".into(),
    None => "alternation=ok".into(),
  }
}

/// `reqstale <tcp|ipc>`
/// Two tasks call recv_multipart() during the same exchange; the first reply is taken by one of them, the
/// other keeps waiting and later takes the reply of the NEXT exchange. After that successful receive the REQ
/// must accept a send again (the legal next operation), and a recv must be refused.
async fn reqstale(p: &[&str]) -> String {
  let transport = p[1];
  let ctx = Context::new().expect("ctx");
  let rep = ctx.socket(SocketType::Rep).unwrap();
  let _ = set_i32(&rep, o::RCVTIMEO, 2000).await;
  let ep = if transport == "tcp" { "tcp://127.0.0.1:0".to_string() } else { format!("ipc:///tmp/{}.sock", unique_name("rzmq-verif-reqstale")) };
  if rep.bind(&ep).await.is_err() {
    return "setup-error bind".into();
  }
  let target = if transport == "tcp" { last_endpoint(&rep).await } else { ep };
  let req = ctx.socket(SocketType::Req).unwrap();
  let _ = set_i32(&req, o::SNDTIMEO, 1000).await;
  if req.connect(&target).await.is_err() {
    return "setup-error connect".into();
  }
  tokio::time::sleep(Duration::from_millis(150)).await;
  let out = async {
    req.send(Msg::from_static(b"q0")).await.map_err(|e| format!("send0 {}", err_class(&e)))?;
    let (r1, r2) = (req.clone(), req.clone());
    let mut t1 = tokio::spawn(async move { r1.recv_multipart().await.map(|_| ()) });
    let mut t2 = tokio::spawn(async move { r2.recv_multipart().await.map(|_| ()) });
    tokio::time::sleep(Duration::from_millis(50)).await; // both are waiting inside exchange 0
    rep.recv().await.map_err(|e| format!("rep-recv0 {}", err_class(&e)))?;
    rep.send(Msg::from_static(b"a0")).await.map_err(|e| format!("rep-send0 {}", err_class(&e)))?;
    // exactly one of the two returns with the reply
    let first_is_t1 = tokio::select! {
      r = &mut t1 => { r.map_err(|_| "join".to_string())?.map_err(|e| format!("recv-a0 {}", err_class(&e)))?; true }
      r = &mut t2 => { r.map_err(|_| "join".to_string())?.map_err(|e| format!("recv-a0 {}", err_class(&e)))?; false }
    };
    let other = if first_is_t1 { t2 } else { t1 };
    tokio::time::sleep(Duration::from_millis(30)).await;
    req.send(Msg::from_static(b"q1")).await.map_err(|e| format!("send1 {}", err_class(&e)))?;
    rep.recv().await.map_err(|e| format!("rep-recv1 {}", err_class(&e)))?;
    rep.send(Msg::from_static(b"a1")).await.map_err(|e| format!("rep-send1 {}", err_class(&e)))?;
    // the reply of exchange 1 is consumed by the late waiter of exchange 0 (or it failed earlier: then nobody
    // has received a1 yet and a fresh recv gets it)
    match tokio::time::timeout(Duration::from_millis(1500), other).await {
      Ok(Ok(Ok(()))) => {}
      Ok(Ok(Err(_))) => {
        req.recv_multipart().await.map_err(|e| format!("recv-a1 {}", err_class(&e)))?;
      }
      _ => return Err("late waiter never returned".to_string()),
    }
    // a successful receive happened: recv must now be refused and send accepted
    match tokio::time::timeout(Duration::from_millis(300), req.recv_multipart()).await {
      Ok(Err(ZmqError::InvalidState(_))) => {}
      Ok(Ok(_)) => return Err("a second recv succeeded after the reply was consumed".to_string()),
      Ok(Err(e)) => return Err(format!("recv after reply: {}", err_class(&e))),
      Err(_) => return Err("recv after the reply was consumed is accepted and waits (state still ExpectingReply)".to_string()),
    }
    req.send(Msg::from_static(b"q2")).await.map_err(|e| format!("send after a consumed reply refused: {}", err_class(&e)))?;
    Ok::<(), String>(())
  }
  .await;
  let _ = tokio::time::timeout(Duration::from_secs(5), req.close()).await;
  let _ = tokio::time::timeout(Duration::from_secs(5), rep.close()).await;
  let _ = tokio::time::timeout(Duration::from_secs(5), ctx.term()).await;
  if let Some(path) = target.strip_prefix("ipc://") {
    let _ = std::fs::remove_file(path);
  }
  match out {
    Ok(()) => "alternation=ok".into(),
    Err(e) => format!("ORACLE-FAIL key=req-stale-receive {}", e),
  }
}

/// `reprace <tcp|inproc> <tasks> <millis>`
/// `tasks` tasks hammer recv()+send(echo) on clones of one REP socket while two DEALER peers each keep one
/// request outstanding (ids "A<n>" / "B<n>"). Every reply a peer receives must echo ITS OWN latest request:
/// a reply routed to the wrong peer, or two replies for one request, is a violation.
async fn reprace(p: &[&str]) -> String {
  let transport = p[1];
  let ntasks: usize = p[2].parse().unwrap();
  let millis: u64 = p[3].parse().unwrap();
  let ctx = Context::new().expect("ctx");
  let rep = ctx.socket(SocketType::Rep).unwrap();
  let _ = set_i32(&rep, o::RCVTIMEO, 20).await;
  let _ = set_i32(&rep, o::SNDTIMEO, 50).await;
  let ep = if transport == "tcp" { "tcp://127.0.0.1:0".to_string() } else { format!("ipc:///tmp/{}.sock", unique_name("rzmq-verif-reprace")) };
  if rep.bind(&ep).await.is_err() {
    return "setup-error bind".into();
  }
  let target = if transport == "tcp" { last_endpoint(&rep).await } else { ep };
  let stop = std::sync::Arc::new(std::sync::atomic::AtomicBool::new(false));
  let mut handles = Vec::new();
  for _ in 0..ntasks {
    let r = rep.clone();
    let st = stop.clone();
    handles.push(tokio::spawn(async move {
      while !st.load(std::sync::atomic::Ordering::Relaxed) {
        if let Ok(m) = r.recv().await {
          // simulate work between recv and send so that other tasks get to run
          tokio::task::yield_now().await;
          let _ = r.send(Msg::from_vec(m.data().unwrap_or(&[]).to_vec())).await;
        }
        tokio::task::yield_now().await;
      }
    }));
  }
  let mut clients = Vec::new();
  for name in [b'A', b'B'] {
    let target = target.clone();
    let ctx2 = ctx.clone();
    let st = stop.clone();
    clients.push(tokio::spawn(async move {
      let d = ctx2.socket(SocketType::Dealer).unwrap();
      let _ = set_i32(&d, o::RCVTIMEO, 300).await;
      let _ = set_i32(&d, o::SNDTIMEO, 300).await;
      if d.connect(&target).await.is_err() {
        return Err("connect".to_string());
      }
      tokio::time::sleep(Duration::from_millis(100)).await;
      let mut n = 0u32;
      let mut ok = 0usize;
      while !st.load(std::sync::atomic::Ordering::Relaxed) {
        n += 1;
        let body = format!("{}{}", name as char, n).into_bytes();
        if d.send_multipart(vec![Msg::from_vec(body.clone())]).await.is_err() {
          continue;
        }
        match d.recv_multipart().await {
          Ok(frames) => {
            let got = frames.last().map(|m| m.data().unwrap_or(&[]).to_vec()).unwrap_or_default();
            if got != body {
              let _ = d.close().await;
              return Err(format!(
                "peer {} expected echo {:?} got {:?}",
                name as char,
                String::from_utf8_lossy(&body),
                String::from_utf8_lossy(&got)
              ));
            }
            ok += 1;
          }
          Err(_) => {} // timeout: the request may have been dropped by a detached state; try the next
        }
      }
      let _ = d.close().await;
      Ok(ok)
    }));
  }
  tokio::time::sleep(Duration::from_millis(millis)).await;
  stop.store(true, std::sync::atomic::Ordering::Relaxed);
  let mut verdict = "routing=ok".to_string();
  let mut total = 0usize;
  for c in clients {
    match tokio::time::timeout(Duration::from_secs(3), c).await {
      Ok(Ok(Ok(n))) => total += n,
      Ok(Ok(Err(e))) => verdict = format!("ORACLE-FAIL key=rep-reply-routing {}", e),
      _ => {}
    }
  }
  for h in handles {
    h.abort();
  }
  if verdict == "routing=ok" && total == 0 {
    verdict = "ORACLE-FAIL key=rep-reply-routing-vacuous no exchange completed".into();
  }
  let _ = tokio::time::timeout(Duration::from_secs(5), rep.close()).await;
  let _ = tokio::time::timeout(Duration::from_secs(5), ctx.term()).await;
  if let Some(path) = target.strip_prefix("ipc://") {
    let _ = std::fs::remove_file(path);
  }
  verdict
}


/// `stream <opts> <sender cfg> <receiver cfg> <messages>`
/// One sender socket connects to one receiver socket and sends the listed messages as fast as it can; the
/// receiver reads them at its own pace. opts: `tr=tcp|ipc|inproc`, `rt=ct|mt` (runtime flavour; the scenario
/// gets a runtime of its own), `when=after|before` (first send after both handshakes succeeded / right after
/// connect() returned), `pace=<ms>` (receiver sleeps that long after every message), `side=bind|connect`
/// (which role the SENDER takes). Result: `delivered=<n>:<digest>` when every accepted message arrived exactly
/// once, unmodified and in order (digest over the canonical rendering of all of them), else an ORACLE-FAIL line.
async fn stream(p: &[&str]) -> String {
  let opts = parse_kv(p[1]);
  let scfg = parse_kv(p[2]);
  let rcfg = parse_kv(p[3]);
  let spec = p[4].to_string();
  let mt = opts.get("rt").map(|v| v == "mt").unwrap_or(false);
  let (tx, rx) = tokio::sync::oneshot::channel();
  std::thread::spawn(move || {
    let rt = if mt {
      tokio::runtime::Builder::new_multi_thread().worker_threads(3).enable_all().build().unwrap()
    } else {
      tokio::runtime::Builder::new_current_thread().enable_all().build().unwrap()
    };
    let r = rt.block_on(async move {
      match tokio::time::timeout(Duration::from_secs(60), stream_inner(opts, scfg, rcfg, spec)).await {
        Ok(r) => r,
        Err(_) => "ORACLE-FAIL key=stream-hang scenario did not finish in 60 s".to_string(),
      }
    });
    let _ = tx.send(r);
    rt.shutdown_background();
  });
  rx.await.unwrap_or_else(|_| "PANIC".to_string())
}

async fn stream_inner(opts: HashMap<String, String>, scfg: HashMap<String, String>, rcfg: HashMap<String, String>, spec: String) -> String {
  let transport = opts.get("tr").cloned().unwrap_or_else(|| "tcp".into());
  let when_after = opts.get("when").map(|v| v == "after").unwrap_or(true);
  let pace = Duration::from_millis(opts.get("pace").and_then(|v| v.parse().ok()).unwrap_or(0));
  let sender_binds = opts.get("side").map(|v| v == "bind").unwrap_or(false);
  let msgs: Vec<Vec<Msg>> = parse_batch(&spec);
  let ctx = Context::new().expect("ctx");
  let snd = match make_socket(&ctx, &scfg).await {
    Ok(s) => s,
    Err(e) => return format!("setup-error sender {}", err_class(&e)),
  };
  let rcv = match make_socket(&ctx, &rcfg).await {
    Ok(s) => s,
    Err(e) => return format!("setup-error receiver {}", err_class(&e)),
  };
  let sty = scfg.get("type").cloned().unwrap_or_default();
  let rty = rcfg.get("type").cloned().unwrap_or_default();
  if !scfg.contains_key("sndtimeo") {
    let _ = set_i32(&snd, o::SNDTIMEO, 10000).await;
  }
  let ms = snd.monitor_default().await.ok();
  let mr = rcv.monitor_default().await.ok();
  let ep = match transport.as_str() {
    "tcp" => "tcp://127.0.0.1:0".to_string(),
    "ipc" => format!("ipc:///tmp/{}.sock", unique_name("rzmq-verif-stream")),
    _ => format!("inproc://{}", unique_name("stream")),
  };
  let (binder, connector) = if sender_binds { (&snd, &rcv) } else { (&rcv, &snd) };
  if let Err(e) = binder.bind(&ep).await {
    return format!("setup-error bind {}", err_class(&e));
  }
  let target = if transport == "tcp" { last_endpoint(binder).await } else { ep.clone() };
  if let Err(e) = connector.connect(&target).await {
    return format!("setup-error connect {}", err_class(&e));
  }
  if when_after {
    if transport != "inproc" {
      if let (Some(a), Some(b)) = (ms.as_ref(), mr.as_ref()) {
        let (ra, rb) = tokio::join!(wait_handshake(a, Duration::from_secs(3)), wait_handshake(b, Duration::from_secs(3)));
        if ra != "ok" || rb != "ok" {
          return "setup-error handshake".into();
        }
      }
    }
    tokio::time::sleep(Duration::from_millis(60)).await;
  }
  // ROUTER sender: address the (only) peer by the identity the receiver was given
  let dest: Option<Vec<u8>> = if sty == "ROUTER" { rcfg.get("id").map(|v| parse_bytes(v)) } else { None };
  let total = msgs.len();
  // what the receiver must see: the frames as given, MORE on all but the last
  let expected: Vec<String> = msgs
    .iter()
    .map(|m| {
      let n = m.len();
      let norm: Vec<Msg> = m
        .iter()
        .enumerate()
        .map(|(i, f)| {
          let mut c = Msg::from_vec(f.data().unwrap_or(&[]).to_vec());
          if i + 1 < n {
            c.set_flags(rzmq::MsgFlags::MORE);
          }
          c
        })
        .collect();
      show_msg(&norm)
    })
    .collect();
  let snd2 = snd.clone();
  let sender = tokio::spawn(async move {
    let mut accepted = Vec::new();
    for (i, m) in msgs.into_iter().enumerate() {
      let mut frames = m;
      if let Some(d) = dest.as_ref() {
        let mut idf = Msg::from_vec(d.clone());
        idf.set_flags(rzmq::MsgFlags::MORE);
        frames.insert(0, idf);
      }
      let mut r = if frames.len() == 1 && !matches!(sty.as_str(), "ROUTER") {
        snd2.send(frames.remove(0)).await
      } else {
        snd2.send_multipart(frames.clone()).await
      };
      // a mandatory ROUTER refuses a peer whose identity it has not registered yet (that may lag behind the handshake
      // event on a loaded host): a refusal is not an acceptance, try again for a while
      let mut tries = 0;
      while i == 0 && sty == "ROUTER" && matches!(r, Err(ZmqError::HostUnreachable(_))) && tries < 60 {
        tokio::time::sleep(Duration::from_millis(50)).await;
        r = snd2.send_multipart(frames.clone()).await;
        tries += 1;
      }
      match r {
        Ok(()) => accepted.push(i),
        Err(e) => return (accepted, Some(format!("send #{} {}", i, err_class(&e)))),
      }
    }
    (accepted, None)
  });
  let strip = rty == "ROUTER";
  let style = opts.get("style").cloned().unwrap_or_else(|| "mp".into());
  let _ = set_i32(&rcv, o::RCVTIMEO, 100).await;
  // optional interference: other peers keep attaching to and detaching from the RECEIVER meanwhile
  let noise_stop = std::sync::Arc::new(std::sync::atomic::AtomicBool::new(false));
  let noise = if opts.get("noise").map(|v| v == "1").unwrap_or(false) {
    let ctx2 = ctx.clone();
    let target2 = target.clone();
    let sty2 = scfg.get("type").cloned().unwrap_or_default();
    let stop = noise_stop.clone();
    let sender_binds2 = sender_binds;
    Some(tokio::spawn(async move {
      if sender_binds2 {
        return; // the receiver is the connecting side: nobody else can reach it
      }
      while !stop.load(std::sync::atomic::Ordering::Relaxed) {
        if let Ok(n) = ctx2.socket(socket_type(&sty2)) {
          let _ = n.connect(&target2).await;
          tokio::time::sleep(Duration::from_millis(8)).await;
          let _ = tokio::time::timeout(Duration::from_secs(2), n.close()).await;
        }
        tokio::time::sleep(Duration::from_millis(3)).await;
      }
    }))
  } else {
    None
  };
  let mut got: Vec<String> = Vec::new();
  let t0 = Instant::now();
  let mut sender = sender;
  let mut send_result: Option<(Vec<usize>, Option<String>)> = None;
  let mut idle_since: Option<Instant> = None;
  let mut partial: Vec<Msg> = Vec::new();
  let mut lcg: u64 = 0x9E3779B97F4A7C15;
  loop {
    if got.len() >= total + 4 || t0.elapsed() > Duration::from_secs(45) {
      break;
    }
    if send_result.is_none() && sender.is_finished() {
      send_result = (&mut sender).await.ok();
    }
    if let Some((acc, _)) = send_result.as_ref() {
      if got.len() >= acc.len() && partial.is_empty() {
        // everything accepted has arrived: linger a little for duplicates
        match idle_since {
          None => idle_since = Some(Instant::now()),
          Some(t) if t.elapsed() > Duration::from_millis(150) => break,
          _ => {}
        }
      }
    }
    // one receive call in the chosen style; a message is complete at the first frame without MORE
    lcg = lcg.wrapping_mul(6364136223846793005).wrapping_add(1442695040888963407);
    let by_frame = match style.as_str() {
      "fr" => true,
      "mix" => (lcg >> 33) % 2 == 0,
      _ => false,
    };
    let res: Result<Option<Vec<Msg>>, ZmqError> = if by_frame {
      match rcv.recv().await {
        Ok(f) => {
          let more = f.is_more();
          partial.push(f);
          if more { Ok(None) } else { Ok(Some(std::mem::take(&mut partial))) }
        }
        Err(e) => Err(e),
      }
    } else {
      match rcv.recv_multipart().await {
        Ok(frames) => {
          partial.extend(frames);
          if partial.last().map(|f| f.is_more()).unwrap_or(false) { Ok(None) } else { Ok(Some(std::mem::take(&mut partial))) }
        }
        Err(e) => Err(e),
      }
    };
    match res {
      Ok(Some(mut frames)) => {
        if strip && !frames.is_empty() {
          frames.remove(0);
        }
        got.push(show_msg(&frames));
        idle_since = None;
        if !pace.is_zero() {
          tokio::time::sleep(pace).await;
        }
      }
      Ok(None) => {
        idle_since = None;
      }
      Err(ZmqError::Timeout) | Err(ZmqError::ResourceLimitReached) => {
        if send_result.is_some() {
          match idle_since {
            None => idle_since = Some(Instant::now()),
            Some(t) if t.elapsed() > Duration::from_millis(2500) => break,
            _ => {}
          }
        }
      }
      Err(e) => {
        got.push(format!("E({})", err_class(&e)));
        break;
      }
    }
  }
  noise_stop.store(true, std::sync::atomic::Ordering::Relaxed);
  if let Some(n) = noise {
    let _ = tokio::time::timeout(Duration::from_secs(3), n).await;
  }
  if !partial.is_empty() {
    got.push(format!("PARTIAL({})", show_frames(partial.iter())));
  }
  if send_result.is_none() {
    sender.abort();
    send_result = Some((Vec::new(), Some("sender still blocked at the end".into())));
  }
  let (accepted, send_err) = send_result.unwrap();
  let want: Vec<&String> = accepted.iter().map(|i| &expected[*i]).collect();
  let _ = tokio::time::timeout(Duration::from_secs(5), snd.close()).await;
  let _ = tokio::time::timeout(Duration::from_secs(5), rcv.close()).await;
  let _ = tokio::time::timeout(Duration::from_secs(5), ctx.term()).await;
  if transport == "ipc" {
    let _ = std::fs::remove_file(ep.trim_start_matches("ipc://"));
  }
  if let Some(e) = send_err {
    return format!("ORACLE-FAIL key=stream-send-refused {} (accepted {} of {}, delivered {})", e, accepted.len(), total, got.len());
  }
  let same = want.len() == got.len() && want.iter().zip(got.iter()).all(|(a, b)| *a == b);
  if !same {
    let first = want.iter().zip(got.iter()).position(|(a, b)| *a != b).unwrap_or(want.len().min(got.len()));
    let kind = {
      let mut a: Vec<&String> = want.clone();
      let mut b: Vec<&String> = got.iter().collect();
      a.sort();
      b.sort();
      if a == b { "reordered" } else if got.len() < want.len() { "lost" } else if got.len() > want.len() { "duplicated" } else { "corrupted" }
    };
    return format!(
      "ORACLE-FAIL key=stream-fifo {} accepted={} delivered={} first-diff=#{} want={} got={}",
      kind,
      want.len(),
      got.len(),
      first,
      want.get(first).map(|s| s.as_str()).unwrap_or("-"),
      got.get(first).map(|s| s.as_str()).unwrap_or("-")
    );
  }
  let joined = got.join(" ");
  format!("delivered={}:{:016x}", got.len(), fnv64(joined.as_bytes()))
}


/// `fsmscript <REQ|REP> <e1,e2,...>`
/// A scripted call history on one REQ or REP socket (own current-thread runtime, every step followed by a
/// settle pause), reporting each call's outcome; the model (`ReqSys` / `RepSys`) predicts the same log.
/// REP events: `r<t>` task t starts recv(); `s` send a reply; `q<p>` peer p (1|2) sends a request; `x<t>` the
/// recv of task t is dropped. REQ events: `s` send a request; `r<t>` / `m<t>` task t starts recv() /
/// recv_multipart(); `p` the peer answers the oldest unanswered request; `x<t>` drop task t's receive.
/// Log entries: `s=ok|invalid|...`, `s=ok>P<p>` (REP: who got the reply), `got:<body>` / `invalid` / `dropped`
/// for receives (completion order within one step is canonicalised by sorting).
async fn fsmscript(p: &[&str]) -> String {
  let kind = p[1].to_string();
  let script: Vec<String> = p[2].split(',').map(|x| x.to_string()).collect();
  let (tx, rx) = tokio::sync::oneshot::channel();
  std::thread::spawn(move || {
    let rt = tokio::runtime::Builder::new_current_thread().enable_all().build().unwrap();
    let r = rt.block_on(async move {
      match tokio::time::timeout(Duration::from_secs(40), fsmscript_inner(kind, script)).await {
        Ok(r) => r,
        Err(_) => "ORACLE-FAIL key=fsmscript-hang".to_string(),
      }
    });
    let _ = tx.send(r);
    rt.shutdown_background();
  });
  rx.await.unwrap_or_else(|_| "PANIC".to_string())
}

fn class_of(e: &ZmqError) -> String {
  match e {
    ZmqError::InvalidState(_) => "invalid".into(),
    other => err_class(other).to_lowercase(),
  }
}

async fn fsmscript_inner(kind: String, script: Vec<String>) -> String {
  use std::collections::BTreeMap;
  let ctx = Context::new().expect("ctx");
  let is_rep = kind == "REP";
  let sock = ctx.socket(if is_rep { SocketType::Rep } else { SocketType::Req }).unwrap();
  let _ = set_i32(&sock, o::SNDTIMEO, 300).await;
  let mut log: Vec<String> = Vec::new();
  let mut tasks: BTreeMap<String, tokio::task::JoinHandle<Result<Vec<u8>, ZmqError>>> = BTreeMap::new();
  let settle = Duration::from_millis(25);
  // peers
  let mut peers: Vec<Socket> = Vec::new();
  if is_rep {
    if sock.bind("tcp://127.0.0.1:0").await.is_err() {
      return "setup-error bind".into();
    }
    let ep = last_endpoint(&sock).await;
    for _ in 0..2 {
      let d = ctx.socket(SocketType::Dealer).unwrap();
      let _ = set_i32(&d, o::RCVTIMEO, 60).await;
      let _ = set_i32(&d, o::SNDTIMEO, 300).await;
      if d.connect(&ep).await.is_err() {
        return "setup-error connect".into();
      }
      peers.push(d);
    }
  } else {
    let r = ctx.socket(SocketType::Router).unwrap();
    let _ = set_i32(&r, o::RCVTIMEO, 300).await;
    if r.bind("tcp://127.0.0.1:0").await.is_err() {
      return "setup-error bind".into();
    }
    let ep = last_endpoint(&r).await;
    if sock.connect(&ep).await.is_err() {
      return "setup-error connect".into();
    }
    peers.push(r);
  }
  tokio::time::sleep(Duration::from_millis(200)).await;
  let mut req_no = [0u32; 3];
  let mut sent_no = 0u32;
  let mut answered = 0u32;
  async fn harvest(tasks: &mut std::collections::BTreeMap<String, tokio::task::JoinHandle<Result<Vec<u8>, ZmqError>>>, log: &mut Vec<String>) {
    let done: Vec<String> = tasks.iter().filter(|(_, h)| h.is_finished()).map(|(k, _)| k.clone()).collect();
    let mut outs = Vec::new();
    for k in done {
      if let Some(h) = tasks.remove(&k) {
        outs.push(match h.await {
          Ok(Ok(body)) => format!("got:{}", String::from_utf8_lossy(&body)),
          Ok(Err(e)) => class_of(&e),
          Err(_) => "dropped".to_string(),
        });
      }
    }
    outs.sort();
    log.extend(outs);
  }
  for ev in &script {
    let (op, arg) = ev.split_at(1);
    match (is_rep, op) {
      (_, "r") | (false, "m") => {
        let s2 = sock.clone();
        let multipart = op == "m";
        tasks.insert(
          arg.to_string(),
          tokio::spawn(async move {
            if multipart {
              s2.recv_multipart().await.map(|f| f.last().map(|m| m.data().unwrap_or(&[]).to_vec()).unwrap_or_default())
            } else {
              s2.recv().await.map(|m| m.data().unwrap_or(&[]).to_vec())
            }
          }),
        );
      }
      (_, "x") => {
        if let Some(h) = tasks.remove(arg) {
          h.abort();
          let _ = h.await;
          log.push("dropped".into());
        }
      }
      (true, "q") => {
        let pi: usize = arg.parse().unwrap_or(1);
        req_no[pi] += 1;
        let body = format!("p{}-{}", pi, req_no[pi]).into_bytes();
        let _ = peers[pi - 1].send_multipart(vec![Msg::from_vec(body)]).await;
      }
      (true, "s") => {
        match sock.send(Msg::from_static(b"reply")).await {
          Ok(()) => {
            let mut who = String::new();
            for (i, d) in peers.iter().enumerate() {
              if let Ok(f) = d.recv_multipart().await {
                if !f.is_empty() {
                  who.push_str(&format!("P{}", i + 1));
                }
              }
            }
            log.push(format!("s=ok>{}", if who.is_empty() { "nobody" } else { &who }));
          }
          Err(e) => log.push(format!("s={}", class_of(&e))),
        }
      }
      (false, "s") => {
        sent_no += 1;
        match sock.send(Msg::from_vec(format!("m{}", sent_no).into_bytes())).await {
          Ok(()) => log.push("s=ok".into()),
          Err(e) => {
            sent_no -= 1;
            log.push(format!("s={}", class_of(&e)))
          }
        }
      }
      (false, "p") => {
        // the peer answers the oldest unanswered request (if any reached it)
        match peers[0].recv_multipart().await {
          Ok(frames) if !frames.is_empty() => {
            answered += 1;
            let id = frames[0].clone();
            let mut idf = Msg::from_vec(id.data().unwrap_or(&[]).to_vec());
            idf.set_flags(rzmq::MsgFlags::MORE);
            let _ = peers[0].send_multipart(vec![idf, Msg::from_vec(format!("a{}", answered).into_bytes())]).await;
          }
          _ => log.push("p=none".into()),
        }
      }
      _ => {}
    }
    tokio::time::sleep(settle).await;
    harvest(&mut tasks, &mut log).await;
  }
  for (_, h) in tasks.iter() {
    h.abort();
  }
  let pending = tasks.len();
  let _ = tokio::time::timeout(Duration::from_secs(5), sock.close()).await;
  for d in &peers {
    let _ = tokio::time::timeout(Duration::from_secs(5), d.close()).await;
  }
  let _ = tokio::time::timeout(Duration::from_secs(5), ctx.term()).await;
  format!("log=[{}] waiting={}", log.join(" "), pending)
}


/// `partialread <tcp|ipc|inproc> <sender type> <receiver type> <event>`
/// The receiver has read the first frame of a 3-frame message with recv() when something else happens on the
/// socket (`detach`: another connected peer closes; `attach`: a new peer connects; `none`). The remaining
/// frames must still come out next, in order, with their MORE flags, followed by the next message.
async fn partialread(p: &[&str]) -> String {
  let transport = p[1];
  let sty = p[2];
  let rty = p[3];
  let event = p[4];
  let ctx = Context::new().expect("ctx");
  let rcv = ctx.socket(socket_type(rty)).unwrap();
  let _ = set_i32(&rcv, o::RCVTIMEO, 1500).await;
  let ep = match transport {
    "tcp" => "tcp://127.0.0.1:0".to_string(),
    "ipc" => format!("ipc:///tmp/{}.sock", unique_name("rzmq-verif-pr")),
    _ => format!("inproc://{}", unique_name("partialread")),
  };
  if rcv.bind(&ep).await.is_err() {
    return "setup-error bind".into();
  }
  let target = if transport == "tcp" { last_endpoint(&rcv).await } else { ep.clone() };
  let a = ctx.socket(socket_type(sty)).unwrap();
  let b = ctx.socket(socket_type(sty)).unwrap();
  let _ = set_i32(&a, o::SNDTIMEO, 1500).await;
  if a.connect(&target).await.is_err() || b.connect(&target).await.is_err() {
    return "setup-error connect".into();
  }
  tokio::time::sleep(Duration::from_millis(200)).await;
  let mk = |s: &'static [u8], more: bool| {
    let mut m = Msg::from_static(s);
    if more {
      m.set_flags(rzmq::MsgFlags::MORE);
    }
    m
  };
  let r1 = a.send_multipart(vec![mk(b"a1", true), mk(b"a2", true), mk(b"a3", false)]).await;
  let r2 = a.send_multipart(vec![mk(b"b1", false)]).await;
  if r1.is_err() || r2.is_err() {
    return "setup-error send".into();
  }
  let strip = rty == "ROUTER";
  let mut out: Vec<String> = Vec::new();
  let mut skip_id = strip;
  let mut read_one = |out: &mut Vec<String>, f: Result<Msg, ZmqError>, skip: &mut bool| match f {
    Ok(m) => {
      if *skip {
        *skip = false;
        return true;
      }
      out.push(format!("{}{}", String::from_utf8_lossy(m.data().unwrap_or(&[])), if m.is_more() { "+" } else { "" }));
      if !m.is_more() && strip {
        *skip = true;
      }
      true
    }
    Err(e) => {
      out.push(format!("E({})", err_class(&e)));
      false
    }
  };
  // first frame (for ROUTER: identity, then the first payload frame)
  if strip {
    let f = rcv.recv().await;
    read_one(&mut out, f, &mut skip_id);
  }
  let f = rcv.recv().await;
  read_one(&mut out, f, &mut skip_id);
  let mut extra: Option<Socket> = None;
  match event {
    "detach" => {
      let _ = tokio::time::timeout(Duration::from_secs(3), b.close()).await;
      tokio::time::sleep(Duration::from_millis(250)).await;
    }
    "attach" => {
      let c = ctx.socket(socket_type(sty)).unwrap();
      let _ = c.connect(&target).await;
      tokio::time::sleep(Duration::from_millis(250)).await;
      extra = Some(c);
    }
    _ => {}
  }
  for _ in 0..(if strip { 4 } else { 3 }) {
    let f = rcv.recv().await;
    if !read_one(&mut out, f, &mut skip_id) {
      break;
    }
  }
  if let Some(c) = extra {
    let _ = tokio::time::timeout(Duration::from_secs(3), c.close()).await;
  }
  let _ = tokio::time::timeout(Duration::from_secs(3), a.close()).await;
  let _ = tokio::time::timeout(Duration::from_secs(3), b.close()).await;
  let _ = tokio::time::timeout(Duration::from_secs(3), rcv.close()).await;
  let _ = tokio::time::timeout(Duration::from_secs(5), ctx.term()).await;
  if transport == "ipc" {
    let _ = std::fs::remove_file(ep.trim_start_matches("ipc://"));
  }
  let got = out.join(" ");
  if got == "a1+ a2+ a3 b1" {
    "frames=[a1+ a2+ a3 b1]".into()
  } else {
    format!("ORACLE-FAIL key=partial-read frames=[{}] want=[a1+ a2+ a3 b1]", got)
  }
}

/// `bigmulti <tcp|inproc> <sender cfg> <receiver cfg> <frames>`
/// send_multipart() with `frames` one-byte frames. Either the sender refuses with an error, or the receiver
/// gets exactly those frames (or its connection is closed); a panic or a truncated message is a violation.
async fn bigmulti(p: &[&str]) -> String {
  let transport = p[1];
  let scfg = parse_kv(p[2]);
  let rcfg = parse_kv(p[3]);
  let rty = rcfg.get("type").cloned().unwrap_or_default();
  let n: usize = p[4].parse().unwrap();
  let ctx = Context::new().expect("ctx");
  let rcv = match make_socket(&ctx, &rcfg).await {
    Ok(s) => s,
    Err(_) => return "setup-error receiver".into(),
  };
  let _ = set_i32(&rcv, o::RCVTIMEO, 700).await;
  let ep = match transport {
    "tcp" => "tcp://127.0.0.1:0".to_string(),
    _ => format!("inproc://{}", unique_name("bigmulti")),
  };
  if rcv.bind(&ep).await.is_err() {
    return "setup-error bind".into();
  }
  let target = if transport == "tcp" { last_endpoint(&rcv).await } else { ep.clone() };
  let snd = match make_socket(&ctx, &scfg).await {
    Ok(s) => s,
    Err(_) => return "setup-error sender".into(),
  };
  let _ = set_i32(&snd, o::SNDTIMEO, 1500).await;
  if snd.connect(&target).await.is_err() {
    return "setup-error connect".into();
  }
  tokio::time::sleep(Duration::from_millis(200)).await;
  let snd2 = snd.clone();
  let h = tokio::spawn(async move {
    let mut frames = Vec::new();
    for i in 0..n {
      let mut m = Msg::from_vec(vec![(i % 251) as u8]);
      if i + 1 < n {
        m.set_flags(rzmq::MsgFlags::MORE);
      }
      frames.push(m);
    }
    snd2.send_multipart(frames).await
  });
  let sent = match h.await {
    Ok(Ok(())) => "ok".to_string(),
    Ok(Err(e)) => format!("refused:{}", err_class(&e)),
    Err(e) if e.is_panic() => "PANIC".to_string(),
    Err(_) => "cancelled".to_string(),
  };
  let mut verdict = String::new();
  if sent == "ok" {
    match rcv.recv_multipart().await {
      Ok(frames) => {
        let k = if rty == "ROUTER" { frames.len().saturating_sub(1) } else { frames.len() };
        if k == n {
          verdict = "delivered=whole".into();
        } else {
          verdict = format!("delivered={}-of-{}", k, n);
        }
      }
      Err(_) => verdict = "delivered=nothing".into(),
    }
  }
  // the sender must still be usable after a refusal
  let alive = if sent.starts_with("refused") || sent == "PANIC" {
    match snd.send(Msg::from_static(b"after")).await {
      Ok(()) => match rcv.recv_multipart().await {
        Ok(_) => "alive",
        Err(_) => "dead",
      },
      Err(_) => "dead",
    }
  } else {
    "alive"
  };
  let _ = tokio::time::timeout(Duration::from_secs(3), snd.close()).await;
  let _ = tokio::time::timeout(Duration::from_secs(3), rcv.close()).await;
  let _ = tokio::time::timeout(Duration::from_secs(5), ctx.term()).await;
  let line = format!("send={} {} sender={}", sent, verdict, alive);
  if sent == "PANIC" || verdict.contains("-of-") || alive == "dead" {
    format!("ORACLE-FAIL key=big-multipart {}", line)
  } else if sent == "ok" && verdict == "delivered=whole" {
    "outcome=delivered".into()
  } else if sent.starts_with("refused") {
    "outcome=refused".into()
  } else {
    // accepted by the sender, connection closed by the receiver: allowed by the property
    "outcome=closed".into()
  }
}


/// `hwm <opts> <sender cfg> <receiver cfg> <payload size>`
/// opts: `tr=tcp|ipc|inproc`, `hold=<ms>` (only with SNDTIMEO -1: how long the blocked send must stay blocked).
/// A: recv() on the empty receiver honours RCVTIMEO (0: would-block at once; d>0: timeout no earlier than d, not much
/// later; -1: skipped). B: the sender sends numbered messages to a receiver that does not read, until a send is
/// refused (SNDTIMEO 0 / d: error class and timing checked) or blocks (SNDTIMEO -1: it must stay blocked for `hold`
/// ms and complete once the receiver drains). The number accepted meanwhile must stay within
/// 3*SNDHWM + SNDBATCH_COUNT + RCVHWM + per-read allowance + kernel allowance (inproc: 2*RCVHWM + RCVBATCH_COUNT + SNDHWM). C: the receiver drains: exactly the
/// accepted messages arrive, in order; the refused one never does.
async fn hwm(p: &[&str]) -> String {
  let opts = parse_kv(p[1]);
  let scfg = parse_kv(p[2]);
  let rcfg = parse_kv(p[3]);
  let size: usize = p[4].parse().unwrap();
  let transport = opts.get("tr").cloned().unwrap_or_else(|| "tcp".into());
  let hold = Duration::from_millis(opts.get("hold").and_then(|v| v.parse().ok()).unwrap_or(600));
  let geti = |m: &HashMap<String, String>, k: &str, d: i64| m.get(k).and_then(|v| v.parse::<i64>().ok()).unwrap_or(d);
  let sndhwm = geti(&scfg, "sndhwm", 256).max(1) as usize;
  let rcvhwm = geti(&rcfg, "rcvhwm", 256).max(1) as usize;
  let sbc = geti(&scfg, "sbc", 128).max(1) as usize;
  let sndtimeo = geti(&scfg, "sndtimeo", -1);
  let rcvtimeo = geti(&rcfg, "rcvtimeo", -1);
  let sty = scfg.get("type").cloned().unwrap_or_default();
  let rty = rcfg.get("type").cloned().unwrap_or_default();
  let ctx = Context::new().expect("ctx");
  let snd = match make_socket(&ctx, &scfg).await {
    Ok(s) => s,
    Err(e) => return format!("setup-error sender {}", err_class(&e)),
  };
  let rcv = match make_socket(&ctx, &rcfg).await {
    Ok(s) => s,
    Err(e) => return format!("setup-error receiver {}", err_class(&e)),
  };
  let ep = match transport.as_str() {
    "tcp" => "tcp://127.0.0.1:0".to_string(),
    "ipc" => format!("ipc:///tmp/{}.sock", unique_name("rzmq-verif-hwm")),
    _ => format!("inproc://{}", unique_name("hwm")),
  };
  // monitors first: a listener hands the monitor that exists at bind time to the sessions it accepts
  let ms = snd.monitor_default().await.ok();
  let mr = rcv.monitor_default().await.ok();
  if let Err(e) = rcv.bind(&ep).await {
    return format!("setup-error bind {}", err_class(&e));
  }
  let target = if transport == "tcp" { last_endpoint(&rcv).await } else { ep.clone() };
  if let Err(e) = snd.connect(&target).await {
    return format!("setup-error connect {}", err_class(&e));
  }
  if transport != "inproc" {
    if let (Some(a), Some(b)) = (ms.as_ref(), mr.as_ref()) {
      let (ra, rb) = tokio::join!(wait_handshake(a, Duration::from_secs(5)), wait_handshake(b, Duration::from_secs(5)));
      if ra != "ok" || rb != "ok" {
        return "setup-error handshake".into();
      }
    }
  }
  drop(ms);
  drop(mr);
  tokio::time::sleep(Duration::from_millis(150)).await;
  let mut problems: Vec<String> = Vec::new();
  let slack = Duration::from_millis(600);
  // A: RCVTIMEO on an empty queue
  if rcvtimeo >= 0 {
    let t0 = Instant::now();
    let r = rcv.recv_multipart().await;
    let el = t0.elapsed();
    match r {
      Ok(_) => problems.push("recv on an empty socket succeeded".into()),
      Err(ZmqError::ResourceLimitReached) | Err(ZmqError::Timeout) => {
        let d = Duration::from_millis(rcvtimeo as u64);
        if el + Duration::from_millis(3) < d {
          problems.push(format!("recv gave up after {} ms, RCVTIMEO {} ms", el.as_millis(), rcvtimeo));
        }
        if el > d + slack {
          problems.push(format!("recv gave up only after {} ms, RCVTIMEO {} ms", el.as_millis(), rcvtimeo));
        }
      }
      Err(e) => problems.push(format!("recv on an empty socket: {}", err_class(&e))),
    }
  }
  // B: fill
  let dest: Option<Vec<u8>> = if sty == "ROUTER" { rcfg.get("id").map(|v| parse_bytes(v)) } else { None };
  let mk = |i: u32| {
    let mut body = vec![0u8; size.max(4)];
    body[..4].copy_from_slice(&i.to_be_bytes());
    let mut frames = Vec::new();
    if let Some(d) = dest.as_ref() {
      let mut idf = Msg::from_vec(d.clone());
      idf.set_flags(rzmq::MsgFlags::MORE);
      frames.push(idf);
    }
    frames.push(Msg::from_vec(body));
    frames
  };
  let per_read = 64 * 1024 / (size + 2) + 2; // messages one read can hold (read buffers are at most a few 10 KiB)
  // kernel socket buffers: what SNDBUF/RCVBUF allow when set (Linux doubles the value and lets the window run a
  // little ahead of it), otherwise up to the autotuning limits
  let kbytes = match (scfg.get("sndbuf"), rcfg.get("rcvbuf")) {
    (Some(a), Some(b)) => 4 * (a.parse::<usize>().unwrap_or(0) + b.parse::<usize>().unwrap_or(0)) + 256 * 1024,
    _ => 40 * 1024 * 1024,
  };
  let kernel = kbytes / (size + 2) + 4;
  let rbc = geti(&rcfg, "rbc", 128).max(1) as usize;
  let bound = if transport == "inproc" {
    // inproc: the pipe between the sockets holds RCVHWM, its reader task up to RCVBATCH_COUNT, the socket's queue RCVHWM;
    // DEALER adds its pending queue (SNDHWM)
    2 * rcvhwm + rbc + sndhwm + 4
  } else {
    2 * sndhwm + sbc + rcvhwm + 2 * per_read + kernel + sndhwm + 4
  };
  let mut accepted: u32 = 0;
  let mut blocked: Option<tokio::task::JoinHandle<Result<(), ZmqError>>> = None;
  let cap = (bound as u32).saturating_add(50).min(200_000);
  loop {
    if accepted >= cap {
      problems.push(format!("{} messages accepted with the receiver not reading: beyond the bound {}", accepted, bound));
      break;
    }
    let frames = mk(accepted);
    let t0 = Instant::now();
    if sndtimeo < 0 {
      let s2 = snd.clone();
      let mut h = tokio::spawn(async move { s2.send_multipart(frames).await });
      match tokio::time::timeout(Duration::from_millis(500), &mut h).await {
        Ok(Ok(Ok(()))) => accepted += 1,
        Ok(Ok(Err(e))) => {
          problems.push(format!("send with SNDTIMEO -1 failed: {}", err_class(&e)));
          break;
        }
        Ok(Err(_)) => {
          problems.push("send task died".into());
          break;
        }
        Err(_) => {
          blocked = Some(h);
          break;
        }
      }
    } else {
      let mut r = snd.send_multipart(frames.clone()).await;
      let mut tries = 0;
      while accepted == 0 && sty == "ROUTER" && matches!(r, Err(ZmqError::HostUnreachable(_))) && tries < 60 {
        // the peer's identity is not registered yet (it may lag behind the handshake event on a loaded host)
        tokio::time::sleep(Duration::from_millis(50)).await;
        r = snd.send_multipart(frames.clone()).await;
        tries += 1;
      }
      match r {
        Ok(()) => accepted += 1,
        Err(e @ ZmqError::ResourceLimitReached) | Err(e @ ZmqError::Timeout) => {
          let el = t0.elapsed();
          let d = Duration::from_millis(sndtimeo as u64);
          if el + Duration::from_millis(3) < d {
            problems.push(format!("send refused ({}) after {} ms, SNDTIMEO {} ms", err_class(&e), el.as_millis(), sndtimeo));
          }
          if el > d + slack {
            problems.push(format!("send refused only after {} ms, SNDTIMEO {} ms", el.as_millis(), sndtimeo));
          }
          break;
        }
        Err(e) => {
          problems.push(format!("send failed: {}", err_class(&e)));
          break;
        }
      }
    }
  }
  if (accepted as usize) > bound {
    problems.push(format!("{} messages buffered for one connection, bound {}", accepted, bound));
  }
  let mut returned_early = false;
  if let Some(h) = blocked.as_mut() {
    // SNDTIMEO -1: stays blocked while there is no room
    match tokio::time::timeout(hold, &mut *h).await {
      Err(_) => {}
      Ok(r) => {
        returned_early = true;
        problems.push(format!("the blocked send (SNDTIMEO -1) returned {:?} within {} ms although there was no room", r.map(|x| x.map_err(|e| err_class(&e))), hold.as_millis() + 500))
      }
    }
  }
  if returned_early {
    blocked = None;
  }
  // C: drain
  let _ = set_i32(&rcv, o::RCVTIMEO, 2500).await;
  let mut expect: u32 = 0;
  let mut extra_ok = false;
  loop {
    match rcv.recv_multipart().await {
      Ok(frames) => {
        let body = frames.last().map(|m| m.data().unwrap_or(&[]).to_vec()).unwrap_or_default();
        let seq = if body.len() >= 4 { u32::from_be_bytes([body[0], body[1], body[2], body[3]]) } else { u32::MAX };
        if seq != expect {
          let mut tail = vec![seq];
          for _ in 0..12 {
            match rcv.recv_multipart().await {
              Ok(fr) => {
                let b = fr.last().map(|m| m.data().unwrap_or(&[]).to_vec()).unwrap_or_default();
                tail.push(if b.len() >= 4 { u32::from_be_bytes([b[0], b[1], b[2], b[3]]) } else { u32::MAX });
              }
              Err(_) => break,
            }
          }
          problems.push(format!("drain: expected #{} next, got {:?}", expect, tail));
          break;
        }
        expect += 1;
      }
      Err(_) => break,
    }
    if blocked.is_some() && !extra_ok {
      if let Some(h) = blocked.as_mut() {
        if h.is_finished() {
          match h.await {
            Ok(Ok(())) => {
              accepted += 1;
              extra_ok = true;
            }
            other => problems.push(format!("blocked send ended with {:?}", other.map(|x| x.map_err(|e| err_class(&e))))),
          }
          blocked = None;
        }
      }
    }
  }
  if let Some(h) = blocked.take() {
    match tokio::time::timeout(Duration::from_millis(1500), h).await {
      Ok(Ok(Ok(()))) => {
        accepted += 1;
        // the message it carried arrives too
        if let Ok(frames) = rcv.recv_multipart().await {
          let body = frames.last().map(|m| m.data().unwrap_or(&[]).to_vec()).unwrap_or_default();
          if body.len() >= 4 && u32::from_be_bytes([body[0], body[1], body[2], body[3]]) == expect {
            expect += 1;
          }
        }
      }
      other => problems.push(format!("the blocked send did not complete after the receiver drained: {:?}", other.map(|x| x.map(|y| y.map_err(|e| err_class(&e)))))),
    }
  }
  if expect != accepted && problems.is_empty() {
    problems.push(format!("accepted {} messages, the receiver got {}", accepted, expect));
  }
  let _ = tokio::time::timeout(Duration::from_secs(5), snd.close()).await;
  let _ = tokio::time::timeout(Duration::from_secs(5), rcv.close()).await;
  let _ = tokio::time::timeout(Duration::from_secs(5), ctx.term()).await;
  if transport == "ipc" {
    let _ = std::fs::remove_file(ep.trim_start_matches("ipc://"));
  }
  let _ = rty;
  if problems.is_empty() {
    if accepted == 0 { "ORACLE-FAIL key=hwm-vacuous nothing was accepted".into() } else { "hwm=ok".into() }
  } else {
    format!("ORACLE-FAIL key=hwm {} (accepted={} bound={})", problems.join("; "), accepted, bound)
  }
}


/// `linger <opts> <sender cfg> <receiver cfg> <count> <size>`
/// opts: `tr=tcp|ipc|inproc`, `how=close|term|drop`, `pace=<ms per message at the receiver>`.
/// The sender (own Context) sends `count` numbered messages of `size` bytes as fast as they are accepted, then
/// closes (close(), Context::term() or dropping the handle, then term) with the LINGER of its cfg. The receiver keeps
/// reading. Reports: whatever arrived is a prefix of what was accepted, each message intact (`integrity`), whether all
/// of it arrived (`all`), and how long close took relative to LINGER (`time`).
async fn linger(p: &[&str]) -> String {
  let opts = parse_kv(p[1]);
  let scfg = parse_kv(p[2]);
  let rcfg = parse_kv(p[3]);
  let count: u32 = p[4].parse().unwrap();
  let size: usize = p[5].parse().unwrap();
  let transport = opts.get("tr").cloned().unwrap_or_else(|| "tcp".into());
  let how = opts.get("how").cloned().unwrap_or_else(|| "close".into());
  let pace = Duration::from_micros(opts.get("pace_us").and_then(|v| v.parse().ok()).unwrap_or(0));
  let linger_ms: i64 = scfg.get("linger").and_then(|v| v.parse().ok()).unwrap_or(0);
  // stall=1: the receiver does not read until the sender has been closed; side=bind: the SENDER binds (so that "the
  // closed socket has really finished" is observable: its endpoint can be bound again)
  let stall = opts.get("stall").map(|v| v == "1").unwrap_or(false);
  let sender_binds = opts.get("side").map(|v| v == "bind").unwrap_or(false);
  // inproc needs one Context for both ends
  let rctx = Context::new().expect("ctx");
  let sctx = if transport == "inproc" { rctx.clone() } else { Context::new().expect("ctx") };
  let rcv = match make_socket(&rctx, &rcfg).await {
    Ok(s) => s,
    Err(e) => return format!("setup-error receiver {}", err_class(&e)),
  };
  let snd = match make_socket(&sctx, &scfg).await {
    Ok(s) => s,
    Err(e) => return format!("setup-error sender {}", err_class(&e)),
  };
  let ep = match transport.as_str() {
    "tcp" => "tcp://127.0.0.1:0".to_string(),
    "ipc" => format!("ipc:///tmp/{}.sock", unique_name("rzmq-verif-linger")),
    _ => format!("inproc://{}", unique_name("linger")),
  };
  let (binder, connector) = if sender_binds { (&snd, &rcv) } else { (&rcv, &snd) };
  if let Err(e) = binder.bind(&ep).await {
    return format!("setup-error bind {}", err_class(&e));
  }
  let target = if transport == "tcp" { last_endpoint(binder).await } else { ep.clone() };
  if let Err(e) = connector.connect(&target).await {
    return format!("setup-error connect {}", err_class(&e));
  }
  tokio::time::sleep(Duration::from_millis(250)).await;
  let go = std::sync::Arc::new(tokio::sync::Notify::new());
  let go2 = go.clone();
  let _ = set_i32(&rcv, o::RCVTIMEO, 1500).await;
  // receiver task: read until nothing arrives for 1.5 s
  let rcv2 = rcv.clone();
  let reader = tokio::spawn(async move {
    let mut seqs: Vec<u32> = Vec::new();
    let mut damaged: Option<String> = None;
    if stall {
      go2.notified().await;
    }
    loop {
      match rcv2.recv_multipart().await {
        Ok(frames) => {
          let body = frames.last().map(|m| m.data().unwrap_or(&[]).to_vec()).unwrap_or_default();
          if body.len() != size.max(8) {
            damaged = Some(format!("message of {} bytes, expected {}", body.len(), size.max(8)));
            break;
          }
          let seq = u32::from_be_bytes([body[0], body[1], body[2], body[3]]);
          let fill = body[4];
          if body[8..].iter().any(|b| *b != fill) || fill != (seq % 251) as u8 {
            damaged = Some(format!("message #{} has a damaged body", seq));
            break;
          }
          seqs.push(seq);
          if !pace.is_zero() {
            tokio::time::sleep(pace).await;
          }
        }
        Err(_) => break,
      }
    }
    (seqs, damaged)
  });
  let mut accepted: u32 = 0;
  for i in 0..count {
    let mut body = vec![(i % 251) as u8; size.max(8)];
    body[..4].copy_from_slice(&i.to_be_bytes());
    match tokio::time::timeout(Duration::from_millis(if stall { 300 } else { 20000 }), snd.send(Msg::from_vec(body))).await {
      Ok(Ok(())) => accepted += 1,
      _ => break,
    }
  }
  let t0 = Instant::now();
  let closed = tokio::time::timeout(Duration::from_secs(40), async {
    match how.as_str() {
      "term" => {
        if transport == "inproc" {
          let _ = snd.close().await; // a shared Context cannot be terminated under the receiver
        } else {
          let _ = sctx.term().await;
        }
      }
      "drop" => {
        drop(snd);
        if transport != "inproc" {
          let _ = sctx.term().await;
        }
      }
      _ => {
        let _ = snd.close().await;
        if transport != "inproc" {
          let _ = sctx.term().await;
        }
      }
    }
  })
  .await;
  let took = t0.elapsed();
  // the closed socket has really finished: what it had bound can be bound again (bounded LINGER only)
  let mut rebind_problem: Option<String> = None;
  // (dropping a handle closes nothing by itself: the socket lives until its context is terminated, which the shared
  // context of an inproc pair is not)
  if sender_binds && linger_ms >= 0 && !(how == "drop" && transport == "inproc") {
    let ctx3 = if transport == "inproc" { rctx.clone() } else { Context::new().expect("ctx3") };
    let probe = ctx3.socket(socket_type(scfg.get("type").map(|s| s.as_str()).unwrap_or("PUSH"))).unwrap();
    let deadline = Instant::now() + Duration::from_millis(linger_ms as u64 + 2500);
    let mut ok = false;
    while Instant::now() < deadline {
      if probe.bind(&target).await.is_ok() {
        ok = true;
        break;
      }
      tokio::time::sleep(Duration::from_millis(100)).await;
    }
    if !ok {
      rebind_problem = Some(format!("key=linger-time {} ms after close() with LINGER {} ms the socket still holds its endpoint: it has not finished closing", linger_ms + 2500, linger_ms));
    }
    let _ = tokio::time::timeout(Duration::from_secs(3), probe.close()).await;
    if transport != "inproc" {
      let _ = tokio::time::timeout(Duration::from_secs(12), ctx3.term()).await;
    }
  }
  go.notify_one();
  let (seqs, damaged) = reader.await.unwrap_or((Vec::new(), Some("reader task died".into())));
  let _ = tokio::time::timeout(Duration::from_secs(5), rcv.close()).await;
  let _ = tokio::time::timeout(Duration::from_secs(12), rctx.term()).await;
  if transport == "ipc" {
    let _ = std::fs::remove_file(ep.trim_start_matches("ipc://"));
  }
  let mut problems = Vec::new();
  if let Some(rp) = rebind_problem {
    problems.push(rp);
  }
  if let Some(d) = damaged {
    problems.push(format!("key=linger-integrity {}", d));
  }
  if seqs.iter().enumerate().any(|(i, s)| *s != i as u32) || seqs.len() as u32 > accepted {
    problems.push(format!("key=linger-integrity what arrived is not a prefix of what was accepted ({} arrived, first {:?})", seqs.len(), &seqs[..seqs.len().min(6)]));
  }
  if closed.is_err() {
    problems.push("key=linger-time close did not return within 40 s".into());
  } else if linger_ms >= 0 {
    // a bounded LINGER bounds close/term (term() has a fixed internal allowance of its own)
    let limit = Duration::from_millis(linger_ms as u64) + Duration::from_millis(2500);
    if took > limit {
      problems.push(format!("key=linger-time close took {} ms with LINGER {} ms", took.as_millis(), linger_ms));
    }
  }
  let all = seqs.len() as u32 == accepted;
  // LINGER -1, or one comfortably longer than the transfer needs: everything accepted must arrive
  let must_all = (linger_ms < 0 || linger_ms >= 8000) && !stall;
  if must_all && !all && problems.is_empty() {
    problems.push(format!(
      "key=linger-lost {} of {} accepted messages arrived although LINGER {} ms allowed the transfer (close returned after {} ms)",
      seqs.len(),
      accepted,
      linger_ms,
      took.as_millis()
    ));
  }
  if problems.is_empty() {
    format!("linger=ok all={}", if must_all { "yes" } else { "n/a" })
  } else {
    format!("ORACLE-FAIL {}", problems.join("; "))
  }
}


/// `lifecycle <rt=ct|mt> <types,..> <op;op;..>`
/// A scripted history of API calls on several sockets of ONE context (socket i has the i-th type), with close()/term()
/// injected anywhere. ops: `b<i><t|p|n>` bind socket i on tcp/ipc/inproc; `c<i>-<j>` connect i to j's first endpoint;
/// `d<i>` connect i to a dead tcp port (retries); `h<i>` a raw peer connects to i's tcp endpoint and sends half a
/// greeting; `s<i>` one send (SNDTIMEO 50 ms); `S<i>` a background task that keeps sending (blocks at the HWM);
/// `R<i>` a background task blocked in recv(); `B<i>` SNDTIMEO -1 from here on; `o<i>` set an option; `m<i>` open a monitor; `M<i>` open a monitor of capacity 1 that is never read; `x<i>` close() and wait;
/// `X<i>` close() from a background task; `D<i>` drop the handle; `T` Context::term() and wait; `t` term() from a
/// background task; `w<ms>` sleep. Afterwards (term() is called if the script did not): close/term returned in bounded
/// time and nothing panicked; operations on every socket fail promptly; every endpoint can be bound again; no task of the
/// context is still alive.
async fn lifecycle(p: &[&str]) -> String {
  let mt = p[1] == "rt=mt";
  let types: Vec<String> = p[2].split(',').map(|x| x.to_string()).collect();
  let script: Vec<String> = p[3].split(';').filter(|x| !x.is_empty()).map(|x| x.to_string()).collect();
  let (tx, rx) = tokio::sync::oneshot::channel();
  std::thread::spawn(move || {
    let rt = if mt {
      tokio::runtime::Builder::new_multi_thread().worker_threads(3).enable_all().build().unwrap()
    } else {
      tokio::runtime::Builder::new_current_thread().enable_all().build().unwrap()
    };
    let handle = rt.handle().clone();
    let r = rt.block_on(async move {
      match tokio::time::timeout(Duration::from_secs(90), lifecycle_inner(types, script, handle)).await {
        Ok(r) => r,
        Err(_) => "ORACLE-FAIL key=lifecycle-hang the scenario did not finish in 90 s".to_string(),
      }
    });
    let _ = tx.send(r);
    rt.shutdown_background();
  });
  rx.await.unwrap_or_else(|_| "PANIC".to_string())
}

async fn lifecycle_inner(types: Vec<String>, script: Vec<String>, rt: tokio::runtime::Handle) -> String {
  let baseline_tasks = rt.metrics().num_alive_tasks();
  let ctx = Context::new().expect("ctx");
  let mut socks: Vec<Option<Socket>> = Vec::new();
  for t in &types {
    let s = ctx.socket(socket_type(t)).unwrap();
    let _ = set_i32(&s, o::SNDTIMEO, 50).await;
    let _ = set_i32(&s, o::SNDHWM, 5).await;
    let _ = set_i32(&s, o::RECONNECT_IVL, 20).await;
    if t == "SUB" {
      let _ = s.set_option_raw(o::SUBSCRIBE, b"").await;
    }
    socks.push(Some(s));
  }
  // clones stay with the harness so that operations can be tried after close/drop
  let probes: Vec<Socket> = socks.iter().map(|s| s.as_ref().unwrap().clone()).collect();
  let mut endpoints: Vec<Vec<String>> = vec![Vec::new(); types.len()];
  let mut bg: Vec<(String, tokio::task::JoinHandle<()>)> = Vec::new();
  let mut raws: Vec<TcpStream> = Vec::new();
  let mut monitors = Vec::new();
  let mut problems: Vec<String> = Vec::new();
  let mut term_called = false;
  let mut blocking: Vec<bool> = vec![false; types.len()];
  let mut term_bg: Option<tokio::task::JoinHandle<Result<(), ZmqError>>> = None;
  let idx = |a: &str| -> usize { a.parse::<usize>().unwrap_or(0).min(types.len() - 1) };
  for op in &script {
    let (k, arg) = op.split_at(1);
    match k {
      "b" => {
        let i = idx(&arg[..arg.len() - 1]);
        let tr = &arg[arg.len() - 1..];
        let ep = match tr {
          "t" => "tcp://127.0.0.1:0".to_string(),
          "p" => format!("ipc:///tmp/{}.sock", unique_name("rzmq-verif-lc")),
          _ => format!("inproc://{}", unique_name("lc")),
        };
        if let Some(s) = socks[i].as_ref() {
          if let Ok(Ok(())) = tokio::time::timeout(Duration::from_secs(5), s.bind(&ep)).await {
            let real = if tr == "t" { last_endpoint(s).await } else { ep };
            endpoints[i].push(real);
          }
        }
      }
      "c" => {
        let mut it = arg.split('-');
        let i = idx(it.next().unwrap_or("0"));
        let j = idx(it.next().unwrap_or("0"));
        if let (Some(s), Some(ep)) = (socks[i].as_ref(), endpoints[j].first()) {
          let _ = tokio::time::timeout(Duration::from_secs(5), s.connect(ep)).await;
        }
      }
      "d" => {
        let i = idx(arg);
        // a port that was just free: nobody listens there
        let l = TcpListener::bind("127.0.0.1:0").await.unwrap();
        let port = l.local_addr().unwrap().port();
        drop(l);
        if let Some(s) = socks[i].as_ref() {
          let _ = tokio::time::timeout(Duration::from_secs(5), s.connect(&format!("tcp://127.0.0.1:{}", port))).await;
        }
      }
      "h" => {
        let i = idx(arg);
        if let Some(ep) = endpoints[i].iter().find(|e| e.starts_with("tcp://")) {
          if let Ok(mut st) = TcpStream::connect(ep.trim_start_matches("tcp://")).await {
            let _ = st.write_all(&[0xff, 0, 0, 0, 0, 0, 0, 0, 1, 0x7f, 3]).await;
            raws.push(st);
          }
        }
      }
      "s" => {
        let i = idx(arg);
        if let Some(s) = socks[i].as_ref() {
          let fut = async {
            if types[i] == "ROUTER" {
              let mut idf = Msg::from_static(b"nobody");
              idf.set_flags(rzmq::MsgFlags::MORE);
              s.send_multipart(vec![idf, Msg::from_static(b"x")]).await
            } else {
              s.send(Msg::from_static(b"x")).await
            }
          };
          if blocking[i] {
            // SNDTIMEO -1: the call may wait for as long as it likes; the harness gives up on it (drops the future)
            let _ = tokio::time::timeout(Duration::from_millis(60), fut).await;
          } else if tokio::time::timeout(Duration::from_secs(5), fut).await.is_err() {
            problems.push(format!("key=op-hangs send on socket {} did not return in 5 s (SNDTIMEO 50 ms)", i));
          }
        }
      }
      "B" => {
        // from here on socket i blocks without limit in send (SNDTIMEO -1, the default)
        let i = idx(arg);
        if let Some(s) = socks[i].as_ref() {
          let _ = tokio::time::timeout(Duration::from_secs(5), set_i32(s, o::SNDTIMEO, -1)).await;
          blocking[i] = true;
        }
      }
      "S" | "R" => {
        let i = idx(arg);
        if let Some(s) = socks[i].as_ref() {
          let s2 = s.clone();
          let sending = k == "S";
          bg.push((
            format!("{}{}", k, i),
            tokio::spawn(async move {
              loop {
                let r = if sending { s2.send(Msg::from_vec(vec![0u8; 2000])).await.map(|_| ()) } else { s2.recv().await.map(|_| ()) };
                match r {
                  Ok(()) => tokio::task::yield_now().await,
                  Err(ZmqError::Timeout) | Err(ZmqError::ResourceLimitReached) => tokio::time::sleep(Duration::from_millis(2)).await,
                  Err(_) => break, // closed / invalid state / unsupported: the task is over
                }
              }
            }),
          ));
        }
      }
      "o" => {
        let i = idx(arg);
        if let Some(s) = socks[i].as_ref() {
          let _ = tokio::time::timeout(Duration::from_secs(5), set_i32(s, o::RCVHWM, 7)).await;
        }
      }
      "m" => {
        let i = idx(arg);
        if let Some(s) = socks[i].as_ref() {
          if let Ok(Ok(m)) = tokio::time::timeout(Duration::from_secs(5), s.monitor_default()).await {
            monitors.push(m);
          }
        }
      }
      "M" => {
        // a monitor with room for ONE event that nobody reads: it is full from the first bind/connect on
        let i = idx(arg);
        if let Some(s) = socks[i].as_ref() {
          if let Ok(Ok(m)) = tokio::time::timeout(Duration::from_secs(5), s.monitor(1)).await {
            monitors.push(m);
          }
        }
      }
      "x" => {
        let i = idx(arg);
        if let Some(s) = socks[i].as_ref() {
          let t0 = Instant::now();
          match tokio::time::timeout(Duration::from_secs(15), s.close()).await {
            Ok(_) => {}
            Err(_) => problems.push(format!("key=close-hang close() of socket {} ({}) did not return in 15 s", i, types[i])),
          }
          let _ = t0;
        }
      }
      "X" => {
        let i = idx(arg);
        if let Some(s) = socks[i].as_ref() {
          let s2 = s.clone();
          bg.push((format!("X{}", i), tokio::spawn(async move {
            let _ = s2.close().await;
          })));
        }
      }
      "D" => {
        let i = idx(arg);
        socks[i] = None;
      }
      "T" => {
        term_called = true;
        let t0 = Instant::now();
        if tokio::time::timeout(Duration::from_secs(25), ctx.term()).await.is_err() {
          problems.push("key=term-hang term() did not return in 25 s".into());
        } else if t0.elapsed() > Duration::from_secs(8) {
          problems.push(format!("key=term-straggler term() needed {} ms: something did not stop and was waited out", t0.elapsed().as_millis()));
        }
      }
      "t" => {
        term_called = true;
        let c2 = ctx.clone();
        term_bg = Some(tokio::spawn(async move { c2.term().await }));
      }
      "w" => tokio::time::sleep(Duration::from_millis(arg.parse().unwrap_or(1))).await,
      _ => {}
    }
  }
  // the end of every history: the context is terminated
  if !term_called || term_bg.is_none() {
    let t0 = Instant::now();
    if tokio::time::timeout(Duration::from_secs(25), ctx.term()).await.is_err() {
      problems.push("key=term-hang term() did not return in 25 s".into());
    } else if t0.elapsed() > Duration::from_secs(8) {
      problems.push(format!("key=term-straggler term() needed {} ms: something did not stop and was waited out", t0.elapsed().as_millis()));
    }
  }
  if let Some(h) = term_bg {
    match tokio::time::timeout(Duration::from_secs(25), h).await {
      Ok(Ok(_)) => {}
      Ok(Err(e)) if e.is_panic() => problems.push("key=panic the task calling term() panicked".into()),
      Ok(Err(_)) => {}
      Err(_) => problems.push("key=term-hang background term() did not return in 25 s".into()),
    }
  }
  // every operation on every socket now fails promptly
  for (i, s) in probes.iter().enumerate() {
    let t0 = Instant::now();
    let r = tokio::time::timeout(Duration::from_secs(3), async {
      let a = s.send(Msg::from_static(b"late")).await.is_err();
      let b = s.recv().await.is_err();
      let c = s.bind("inproc://never").await.is_err();
      (a, b, c)
    })
    .await;
    match r {
      Err(_) => problems.push(format!("key=op-after-close-hangs an operation on socket {} ({}) after term() did not return in 3 s", i, types[i])),
      Ok((a, b, _c)) => {
        if !(a && b) {
          problems.push(format!("key=op-after-close-succeeds send/recv on socket {} ({}) after term(): send err={} recv err={}", i, types[i], a, b));
        }
      }
    }
    let _ = t0;
  }
  // background tasks blocked in send/recv/close have all returned
  for (name, h) in bg {
    match tokio::time::timeout(Duration::from_secs(5), h).await {
      Ok(Ok(())) => {}
      Ok(Err(e)) if e.is_panic() => problems.push(format!("key=panic background task {} panicked", name)),
      Ok(Err(_)) => {}
      Err(_) => problems.push(format!("key=op-hangs background task {} is still blocked 5 s after term()", name)),
    }
  }
  drop(raws);
  drop(monitors);
  drop(probes);
  drop(socks);
  // every endpoint is free again
  let ctx2 = Context::new().expect("ctx2");
  for (i, eps) in endpoints.iter().enumerate() {
    for ep in eps {
      let s = ctx2.socket(socket_type(&types[i])).unwrap();
      let mut ok = false;
      let t0 = Instant::now();
      while t0.elapsed() < Duration::from_millis(2500) {
        match s.bind(ep).await {
          Ok(()) => {
            ok = true;
            break;
          }
          Err(_) => tokio::time::sleep(Duration::from_millis(100)).await,
        }
      }
      if !ok {
        problems.push(format!("key=rebind-failed {} cannot be bound again 2.5 s after term()", if ep.starts_with("tcp") { "a tcp port" } else if ep.starts_with("ipc") { "an ipc path" } else { "an inproc name" }));
      }
      let _ = tokio::time::timeout(Duration::from_secs(5), s.close()).await;
      if let Some(path) = ep.strip_prefix("ipc://") {
        let _ = std::fs::remove_file(path);
      }
    }
  }
  let _ = tokio::time::timeout(Duration::from_secs(15), ctx2.term()).await;
  drop(ctx2);
  drop(ctx);
  // nothing of either context is still running
  let t0 = Instant::now();
  let mut alive = rt.metrics().num_alive_tasks();
  while alive > baseline_tasks && t0.elapsed() < Duration::from_secs(3) {
    tokio::time::sleep(Duration::from_millis(50)).await;
    alive = rt.metrics().num_alive_tasks();
  }
  if alive > baseline_tasks {
    problems.push(format!("key=tasks-left {} task(s) still alive 3 s after term()", alive - baseline_tasks));
  }
  if problems.is_empty() {
    "lifecycle=ok".into()
  } else {
    format!("ORACLE-FAIL {}", problems.join("; "))
  }
}


/// `churn <cfg extras> <cycles> <msgs> <size>`
/// A long-lived PULL (with the cfg extras, e.g. `uring=1`) serves `cycles` short-lived PUSH sockets (same extras): each
/// connects, sends `msgs` messages of `size` bytes, which must all arrive, and closes; every third cycle a raw TCP peer
/// also connects, sends half a greeting and vanishes. Far more buffers are turned over than any pool holds. Afterwards a
/// last round must still work and the process must not hold more file descriptors than before (one per connection would
/// show). Result: `churn=ok`.
async fn churn(p: &[&str]) -> String {
  let extras = p[1].to_string();
  let cycles: usize = p[2].parse().unwrap();
  let msgs: usize = p[3].parse().unwrap();
  let size: usize = p[4].parse().unwrap();
  let fd_count = || std::fs::read_dir("/proc/self/fd").map(|d| d.count()).unwrap_or(0);
  // `<receiver options>/<sender options>`, or one list for both
  let (pull_extras, push_extras) = match extras.split_once('/') {
    Some((a, b)) => (a.to_string(), b.to_string()),
    None => (extras.clone(), extras.clone()),
  };
  let mk_cfg = |ty: &str| {
    let mut c = parse_kv(if ty == "PULL" { &pull_extras } else { &push_extras });
    c.insert("type".into(), ty.into());
    c
  };
  let ctx = Context::new().expect("ctx");
  let pull = match make_socket(&ctx, &mk_cfg("PULL")).await {
    Ok(s) => s,
    Err(e) => return format!("setup-error {}", err_class(&e)),
  };
  let _ = set_i32(&pull, o::RCVTIMEO, 10000).await;
  if pull.bind("tcp://127.0.0.1:0").await.is_err() {
    return "setup-error bind".into();
  }
  let ep = last_endpoint(&pull).await;
  // warm-up round, then the baseline
  let mut problems: Vec<String> = Vec::new();
  let mut fds_before = 0usize;
  for cycle in 0..(cycles + 2) {
    if cycle == 1 {
      tokio::time::sleep(Duration::from_millis(300)).await;
      fds_before = fd_count();
    }
    let push = match make_socket(&ctx, &mk_cfg("PUSH")).await {
      Ok(s) => s,
      Err(e) => return format!("setup-error {}", err_class(&e)),
    };
    let _ = set_i32(&push, o::SNDTIMEO, 10000).await;
    let _ = set_i32(&push, o::LINGER, -1).await;
    if push.connect(&ep).await.is_err() {
      problems.push(format!("cycle {}: connect failed", cycle));
      break;
    }
    let mut sent = 0usize;
    for i in 0..msgs {
      let mut body = vec![(cycle % 251) as u8; size.max(8)];
      body[..4].copy_from_slice(&(i as u32).to_be_bytes());
      match push.send(Msg::from_vec(body)).await {
        Ok(()) => sent += 1,
        Err(e) => {
          problems.push(format!("cycle {}: send #{} failed: {}", cycle, i, err_class(&e)));
          break;
        }
      }
    }
    let mut got = 0usize;
    while got < sent {
      match pull.recv().await {
        Ok(m) => {
          let b = m.data().unwrap_or(&[]);
          if b.len() != size.max(8) || b[4] != (cycle % 251) as u8 {
            problems.push(format!("cycle {}: message {} damaged ({} bytes)", cycle, got, b.len()));
            break;
          }
          got += 1;
        }
        Err(e) => {
          problems.push(format!("cycle {}: only {} of {} messages arrived ({})", cycle, got, sent, err_class(&e)));
          break;
        }
      }
    }
    if cycle % 3 == 2 && std::env::var("VERIF_CHURN_NORAW").is_err() {
      if let Ok(mut st) = TcpStream::connect(ep.trim_start_matches("tcp://")).await {
        let _ = st.write_all(&[0xff, 0, 0, 0, 0, 0, 0, 0, 1, 0x7f, 3]).await;
        tokio::time::sleep(Duration::from_millis(5)).await;
        drop(st);
      }
    }
    let _ = tokio::time::timeout(Duration::from_secs(5), push.close()).await;
    if !problems.is_empty() {
      break;
    }
  }
  // descriptors of closed connections are released
  let mut fds_after = fd_count();
  let t0 = Instant::now();
  while fds_after > fds_before + 2 && t0.elapsed() < Duration::from_secs(3) {
    tokio::time::sleep(Duration::from_millis(100)).await;
    fds_after = fd_count();
  }
  if problems.is_empty() && fds_after > fds_before + 2 {
    problems.push(format!("{} file descriptors open after {} connect/close cycles, {} before", fds_after, cycles, fds_before));
  }
  let _ = tokio::time::timeout(Duration::from_secs(5), pull.close()).await;
  let _ = tokio::time::timeout(Duration::from_secs(12), ctx.term()).await;
  if problems.is_empty() {
    "churn=ok".into()
  } else {
    format!("ORACLE-FAIL key=churn {}", problems.join("; "))
  }
}


/// `rchurn <receiver options> <rounds>`
/// A PUSH (Tokio backend) is bound; `rounds` times a fresh PULL with the given options connects, receives one message, is
/// closed locally while the PUSH goes on sending to it for a moment. Every round must deliver its message: receive buffers
/// that were in the kernel when a connection was closed have to come back.
async fn rchurn(p: &[&str]) -> String {
  let mut cfg = parse_kv(p[1]);
  cfg.insert("type".into(), "PULL".into());
  let rounds: usize = p[2].parse().unwrap();
  let ctx = Context::new().expect("ctx");
  let push = ctx.socket(SocketType::Push).unwrap();
  let _ = set_i32(&push, o::SNDTIMEO, 25).await;
  if push.bind("tcp://127.0.0.1:0").await.is_err() {
    return "setup-error bind".into();
  }
  let ep = last_endpoint(&push).await;
  for round in 0..rounds {
    let pull = match make_socket(&ctx, &cfg).await {
      Ok(s) => s,
      Err(e) => return format!("setup-error {}", err_class(&e)),
    };
    let _ = set_i32(&pull, o::RCVTIMEO, 3000).await;
    if pull.connect(&ep).await.is_err() {
      return "setup-error connect".into();
    }
    // the first message waits for the connection
    let mut sent = false;
    for _ in 0..150 {
      if push.send(Msg::from_vec(vec![round as u8; 600])).await.is_ok() {
        sent = true;
        break;
      }
      tokio::time::sleep(Duration::from_millis(10)).await;
    }
    if !sent {
      return format!("ORACLE-FAIL key=rchurn round {}: the sender found no connection to send on", round);
    }
    match pull.recv().await {
      Ok(m) if m.data().map(|d| d.len() == 600 && d[0] == round as u8).unwrap_or(false) => {}
      Ok(_) => return format!("ORACLE-FAIL key=rchurn round {}: a damaged or stale message arrived", round),
      Err(e) => return format!("ORACLE-FAIL key=rchurn round {}: nothing arrived ({})", round, err_class(&e)),
    }
    // the peer keeps sending while this side closes
    let push2 = push.clone();
    let feeder = tokio::spawn(async move {
      for _ in 0..6 {
        let _ = push2.send(Msg::from_vec(vec![0xEE; 600])).await;
        tokio::time::sleep(Duration::from_millis(2)).await;
      }
    });
    tokio::time::sleep(Duration::from_millis(3)).await;
    let _ = tokio::time::timeout(Duration::from_secs(5), pull.close()).await;
    let _ = feeder.await;
    tokio::time::sleep(Duration::from_millis(40)).await;
  }
  let _ = tokio::time::timeout(Duration::from_secs(5), push.close()).await;
  let _ = tokio::time::timeout(Duration::from_secs(12), ctx.term()).await;
  "rchurn=ok".into()
}

/// `chanleak <capacity> <timed-out sends> <timeout ms>` - the bounded async mpsc channel rzmq uses for its pipes (crate
/// `fibre`), on its own: fill it, let `n` sends time out on the full channel (tokio::time::timeout drops the send future),
/// drain it completely; a send must then succeed at once.
async fn chanleak(p: &[&str]) -> String {
  let cap: usize = p[1].parse().unwrap();
  let n: usize = p[2].parse().unwrap();
  let ms: u64 = p[3].parse().unwrap();
  let (tx, rx) = fibre::mpsc::bounded_async::<u32>(cap);
  let mut sent = 0u32;
  while tx.try_send(sent).is_ok() {
    sent += 1;
  }
  let mut timed_out = 0;
  let mode = p.get(4).copied().unwrap_or("sync");
  let mut drained = 0;
  if mode == "sync" {
    for i in 0..n {
      if tokio::time::timeout(Duration::from_millis(ms), tx.send(1000 + i as u32)).await.is_err() {
        timed_out += 1;
      }
    }
    while rx.try_recv().is_ok() {
      drained += 1;
    }
  } else {
    // a consumer that takes one item now and then (async recv / batch recv) while sends keep timing out
    let slow = std::sync::Arc::new(std::sync::atomic::AtomicBool::new(true));
    let slow2 = slow.clone();
    let batch = mode == "batch";
    let consumer = tokio::spawn(async move {
      let mut got = 0usize;
      loop {
        if slow2.load(std::sync::atomic::Ordering::Relaxed) {
          tokio::time::sleep(Duration::from_millis(ms * 3)).await;
        }
        if batch {
          match tokio::time::timeout(Duration::from_millis(300), rx.recv()).await {
            Ok(Ok(_)) => {
              got += 1;
              got += rx.try_recv_batch(64).map(|v| v.len()).unwrap_or(0);
            }
            _ => break,
          }
        } else {
          match tokio::time::timeout(Duration::from_millis(300), rx.recv()).await {
            Ok(Ok(_)) => got += 1,
            _ => break,
          }
        }
      }
      (got, rx)
    });
    for i in 0..n {
      if tokio::time::timeout(Duration::from_millis(ms), tx.send(1000 + i as u32)).await.is_err() {
        timed_out += 1;
      }
    }
    slow.store(false, std::sync::atomic::Ordering::Relaxed);
    let (got, rx2) = consumer.await.unwrap();
    drained = got;
    let r = tokio::time::timeout(Duration::from_secs(2), tx.send(9999)).await;
    drop(rx2);
    return match r {
      Ok(Ok(())) => format!("chanleak=ok filled={} timed_out={} drained={}", sent, timed_out, drained),
      Ok(Err(_)) => "chanleak=closed".into(),
      Err(_) => format!(
        "ORACLE-FAIL key=chanleak after {} timed-out sends on a full channel of capacity {} and a complete drain ({} items), a send still waits (2 s)",
        timed_out, cap, drained
      ),
    };
  }
  let r = tokio::time::timeout(Duration::from_secs(2), tx.send(9999)).await;
  match r {
    Ok(Ok(())) => format!("chanleak=ok filled={} timed_out={} drained={}", sent, timed_out, drained),
    Ok(Err(_)) => "chanleak=closed".into(),
    Err(_) => format!(
      "ORACLE-FAIL key=chanleak after {} timed-out sends on a full channel of capacity {} and a complete drain ({} items), a send still waits (2 s)",
      timed_out, cap, drained
    ),
  }
}

/// `bystander <tcp|ipc> <what the bystander does> <reconnect ivl ms>`
/// A PUSH socket connects to an endpoint where nobody listens yet (its connecter retries). Meanwhile ANOTHER socket of the
/// same context does something unrelated: `close` (is closed), `connectfail` (connects to a dead port of its own),
/// `bindclose` (binds, then closes), `none`. Then a PULL binds the endpoint: the PUSH must reach it and deliver.
async fn bystander(p: &[&str]) -> String {
  let transport = p[1];
  let what = p[2];
  let ivl: i32 = p[3].parse().unwrap();
  let ctx = Context::new().expect("ctx");
  let ep = if transport == "tcp" {
    // a port that is free now and stays free until the late peer binds it
    let l = std::net::TcpListener::bind("127.0.0.1:0").unwrap();
    let a = l.local_addr().unwrap();
    drop(l);
    format!("tcp://{}", a)
  } else {
    format!("ipc:///tmp/{}.sock", unique_name("rzmq-verif-by"))
  };
  let push = ctx.socket(SocketType::Push).unwrap();
  let _ = set_i32(&push, o::RECONNECT_IVL, ivl).await;
  let _ = set_i32(&push, o::RECONNECT_IVL_MAX, ivl).await;
  let _ = set_i32(&push, o::SNDTIMEO, 100).await;
  if push.connect(&ep).await.is_err() {
    return "setup-error connect".into();
  }
  tokio::time::sleep(Duration::from_millis(ivl as u64 / 2 + 30)).await; // the connecter is in its back-off now
  let other = ctx.socket(SocketType::Req).unwrap();
  match what {
    "close" => {
      let _ = tokio::time::timeout(Duration::from_secs(3), other.close()).await;
    }
    "connectfail" => {
      let _ = set_i32(&other, o::RECONNECT_IVL, 20).await;
      let _ = other.connect("tcp://127.0.0.1:1").await;
      tokio::time::sleep(Duration::from_millis(60)).await;
      let _ = tokio::time::timeout(Duration::from_secs(3), other.close()).await;
    }
    "bindclose" => {
      let _ = other.bind("tcp://127.0.0.1:0").await;
      let _ = tokio::time::timeout(Duration::from_secs(3), other.close()).await;
    }
    _ => {}
  }
  tokio::time::sleep(Duration::from_millis(30)).await;
  let pull = ctx.socket(SocketType::Pull).unwrap();
  let _ = set_i32(&pull, o::RCVTIMEO, 200).await;
  if pull.bind(&ep).await.is_err() {
    return "setup-error late-bind".into();
  }
  // the PUSH keeps trying to send; within a few retry intervals a message must arrive
  let deadline = Instant::now() + Duration::from_millis(6 * ivl as u64 + 2500);
  let mut arrived = false;
  while Instant::now() < deadline && !arrived {
    let _ = push.send(Msg::from_static(b"late")).await;
    if pull.recv().await.is_ok() {
      arrived = true;
    }
  }
  let _ = tokio::time::timeout(Duration::from_secs(3), push.close()).await;
  let _ = tokio::time::timeout(Duration::from_secs(3), pull.close()).await;
  let _ = tokio::time::timeout(Duration::from_secs(12), ctx.term()).await;
  if arrived {
    "bystander=ok".into()
  } else {
    format!(
      "ORACLE-FAIL key=retry-stopped-by-bystander after another socket of the context did `{}`, the connection to a peer that came up late was never made (RECONNECT_IVL {} ms, waited {} ms)",
      what,
      ivl,
      6 * ivl as u64 + 2500
    )
  }
}

/// `retrypace <reconnect ivl ms> <busy 0|1> <window ms>`
/// A PUSH connects to a tcp port where nobody listens (RECONNECT_IVL = RECONNECT_IVL_MAX = ivl). With `busy`, other
/// sockets of the same context are created, bound and closed all the time (plenty of system events). The monitor's
/// ConnectRetried events are counted over the window: the retries must not come faster than the interval allows.
async fn retrypace(p: &[&str]) -> String {
  let ivl: i32 = p[1].parse().unwrap();
  let busy = p[2] == "1";
  let window: u64 = p[3].parse().unwrap();
  let ctx = Context::new().expect("ctx");
  let l = std::net::TcpListener::bind("127.0.0.1:0").unwrap();
  let dead = format!("tcp://{}", l.local_addr().unwrap());
  drop(l);
  let push = ctx.socket(SocketType::Push).unwrap();
  let _ = set_i32(&push, o::RECONNECT_IVL, ivl).await;
  let _ = set_i32(&push, o::RECONNECT_IVL_MAX, ivl).await;
  let mon = match push.monitor(4096).await {
    Ok(m) => m,
    Err(_) => return "setup-error monitor".into(),
  };
  if push.connect(&dead).await.is_err() {
    return "setup-error connect".into();
  }
  let stop = std::sync::Arc::new(std::sync::atomic::AtomicBool::new(false));
  let stop2 = stop.clone();
  let ctx2 = ctx.clone();
  let noise = tokio::spawn(async move {
    while busy && !stop2.load(std::sync::atomic::Ordering::Relaxed) {
      if let Ok(s) = ctx2.socket(SocketType::Pull) {
        let _ = s.bind("tcp://127.0.0.1:0").await;
        let _ = tokio::time::timeout(Duration::from_secs(2), s.close()).await;
      }
      tokio::time::sleep(Duration::from_millis(5)).await;
    }
  });
  let t0 = Instant::now();
  let mut retries = 0usize;
  while t0.elapsed() < Duration::from_millis(window) {
    if let Ok(Ok(SocketEvent::ConnectRetried { .. })) = tokio::time::timeout(Duration::from_millis(20), mon.recv()).await {
      retries += 1;
    }
  }
  stop.store(true, std::sync::atomic::Ordering::Relaxed);
  let _ = noise.await;
  let _ = tokio::time::timeout(Duration::from_secs(3), push.close()).await;
  let _ = tokio::time::timeout(Duration::from_secs(12), ctx.term()).await;
  let allowed = (window / ivl as u64) as usize + 2;
  if retries > allowed {
    format!(
      "ORACLE-FAIL key=retry-too-fast {} retries in {} ms with RECONNECT_IVL = RECONNECT_IVL_MAX = {} ms (at most {} fit){}",
      retries,
      window,
      ivl,
      allowed,
      if busy { " while other sockets of the context were being created and closed" } else { "" }
    )
  } else if retries == 0 {
    "ORACLE-FAIL key=retry-never no retry was reported at all".into()
  } else {
    "retrypace=ok".into()
  }
}

/// `routerlate <tcp|ipc|inproc> <sender type DEALER|REQ> <burst> <rounds>`
/// A peer with ROUTING_ID `peer-a` connects to a ROUTER, one exchange confirms that the ROUTER reports that identity, then the
/// peer sends a burst the ROUTER application does not read, and closes. Only then the ROUTER reads: whatever still arrives
/// must carry the identity the peer announced (messages may be lost with the connection, never re-labelled). Repeated, so
/// that pipe numbers differ.
async fn routerlate(p: &[&str]) -> String {
  let transport = p[1];
  let sty = p[2];
  let burst: usize = p[3].parse().unwrap();
  let rounds: usize = p[4].parse().unwrap();
  let ctx = Context::new().expect("ctx");
  let router = ctx.socket(SocketType::Router).unwrap();
  let _ = set_i32(&router, o::RCVTIMEO, 400).await;
  let ep = match transport {
    "tcp" => "tcp://127.0.0.1:0".to_string(),
    "ipc" => format!("ipc:///tmp/{}.sock", unique_name("rzmq-verif-rl")),
    _ => format!("inproc://{}", unique_name("routerlate")),
  };
  if router.bind(&ep).await.is_err() {
    return "setup-error bind".into();
  }
  let target = if transport == "tcp" { last_endpoint(&router).await } else { ep.clone() };
  let mut late_total = 0usize;
  for round in 0..rounds {
    let peer = ctx.socket(socket_type(sty)).unwrap();
    let _ = peer.set_option_raw(o::ROUTING_ID, b"peer-a").await;
    let _ = set_i32(&peer, o::SNDTIMEO, 1000).await;
    let _ = set_i32(&peer, o::LINGER, 200).await;
    if peer.connect(&target).await.is_err() {
      return "setup-error connect".into();
    }
    // first exchange: read at once
    let mut first_ok = false;
    for _ in 0..40 {
      if peer.send(Msg::from_static(b"hello")).await.is_ok() {
        first_ok = true;
        break;
      }
      tokio::time::sleep(Duration::from_millis(25)).await;
    }
    if !first_ok {
      return format!("setup-error round {} first send", round);
    }
    let _ = set_i32(&router, o::RCVTIMEO, 2000).await;
    match router.recv_multipart().await {
      Ok(fr) if fr.first().map(|f| f.data() == Some(&b"peer-a"[..])).unwrap_or(false) => {}
      Ok(fr) => {
        return format!(
          "ORACLE-FAIL key=router-identity round {}: the first message of the peer that announced `peer-a` is reported with the identity {:?}",
          round,
          fr.first().map(|f| String::from_utf8_lossy(f.data().unwrap_or(&[])).to_string())
        )
      }
      Err(e) => return format!("setup-error round {} first recv {}", round, err_class(&e)),
    }
    let _ = set_i32(&router, o::RCVTIMEO, 400).await;
    if sty == "REQ" {
      // a REQ has one request outstanding at a time: answer, then let it send the one that stays unread
      let mut idf = Msg::from_static(b"peer-a");
      idf.set_flags(rzmq::MsgFlags::MORE);
      let mut delim = Msg::new();
      delim.set_flags(rzmq::MsgFlags::MORE);
      let _ = router.send_multipart(vec![idf, delim, Msg::from_static(b"re")]).await;
      let _ = set_i32(&peer, o::RCVTIMEO, 1000).await;
      let _ = peer.recv().await;
      let _ = peer.send(Msg::from_static(b"late-0")).await;
    } else {
      for i in 0..burst {
        let _ = peer.send(Msg::from_vec(format!("late-{}", i).into_bytes())).await;
      }
    }
    tokio::time::sleep(Duration::from_millis(60)).await;
    let _ = tokio::time::timeout(Duration::from_secs(3), peer.close()).await;
    tokio::time::sleep(Duration::from_millis(120)).await;
    // now the ROUTER reads what is left of that peer
    loop {
      match router.recv_multipart().await {
        Ok(fr) => {
          late_total += 1;
          let id = fr.first().map(|f| f.data().unwrap_or(&[]).to_vec()).unwrap_or_default();
          if id != b"peer-a" {
            return format!(
              "ORACLE-FAIL key=router-identity round {}: a message the peer `peer-a` had sent before it disconnected is delivered with the identity frame {:?}",
              round,
              String::from_utf8_lossy(&id)
            );
          }
        }
        Err(_) => break,
      }
    }
  }
  let _ = late_total;
  let _ = tokio::time::timeout(Duration::from_secs(3), router.close()).await;
  let _ = tokio::time::timeout(Duration::from_secs(12), ctx.term()).await;
  "routerlate=ok".into()
}

/// `errclose <cfg> <bytes> [idle]`
/// A raw TCP peer connects to a listening rzmq socket, sends `bytes` (a stream that ends in a protocol violation) and
/// then only reads: the library has to close the connection (the peer sees end-of-stream or a reset) within 3 s.
/// With `idle`: the bytes are a VALID handshake and the peer then stays silent although the socket has heartbeats
/// configured (`hbivl`/`hbto` in cfg): it must see at least one PING and then the close.
async fn errclose(p: &[&str]) -> String {
  let cfg = parse_kv(p[1]);
  let data = parse_bytes(p[2]);
  let idle = p.get(3).map(|x| *x == "idle").unwrap_or(false);
  let ctx = Context::new().expect("ctx");
  let sock = match make_socket(&ctx, &cfg).await {
    Ok(s) => s,
    Err(e) => return format!("setup-error {}", err_class(&e)),
  };
  if sock.bind("tcp://127.0.0.1:0").await.is_err() {
    return "setup-error bind".into();
  }
  let ep = last_endpoint(&sock).await;
  let mut verdict = "setup-error connect".to_string();
  if let Ok(mut stream) = TcpStream::connect(ep.trim_start_matches("tcp://")).await {
    let _ = stream.set_nodelay(true);
    tokio::time::sleep(Duration::from_millis(20)).await;
    let _ = stream.write_all(&data).await;
    let limit = if idle { Duration::from_secs(6) } else { Duration::from_secs(3) };
    // `appclose`: the application closes the socket 300 ms after the (valid) handshake bytes were sent
    if p.get(3).map(|x| *x == "appclose").unwrap_or(false) {
      tokio::time::sleep(Duration::from_millis(300)).await;
      let _ = tokio::time::timeout(Duration::from_secs(3), sock.close()).await;
    }
    let t0 = Instant::now();
    let mut buf = vec![0u8; 4096];
    let mut seen: Vec<u8> = Vec::new();
    let mut closed = false;
    while t0.elapsed() < limit {
      match tokio::time::timeout(Duration::from_millis(200), stream.read(&mut buf)).await {
        Ok(Ok(0)) | Ok(Err(_)) => {
          closed = true;
          break;
        }
        Ok(Ok(n)) => seen.extend_from_slice(&buf[..n]),
        Err(_) => {}
      }
    }
    let pinged = seen.windows(5).any(|w| w == b"\x04PING");
    verdict = if !closed {
      format!(
        "ORACLE-FAIL key=error-does-not-close {} ms after {} the connection is still open",
        t0.elapsed().as_millis(),
        if idle { "the peer fell silent (heartbeats configured)" } else { "a protocol violation" }
      )
    } else if idle && !pinged {
      "ORACLE-FAIL key=no-ping the connection was closed but the silent peer never saw a PING".into()
    } else {
      "errclose=closed".into()
    };
  }
  let _ = tokio::time::timeout(Duration::from_secs(3), sock.close()).await;
  let _ = tokio::time::timeout(Duration::from_secs(12), ctx.term()).await;
  verdict
}

/// `routerframes <tcp|inproc> <rounds> <what the other peer does: close|connect|none>`
/// A ROUTER sends a three-frame message to peer `A` FRAME BY FRAME with send(); in the middle of it ANOTHER peer `B` of the
/// same ROUTER disconnects (or a new one connects). The rest of the frames follow, then a second message with
/// send_multipart(). `A` must receive exactly the two messages, whole and separate.
async fn routerframes(p: &[&str]) -> String {
  let transport = p[1];
  let rounds: usize = p[2].parse().unwrap();
  let what = p[3];
  let ctx = Context::new().expect("ctx");
  let router = ctx.socket(SocketType::Router).unwrap();
  let _ = set_i32(&router, o::ROUTER_MANDATORY, 1).await;
  let _ = set_i32(&router, o::SNDTIMEO, 1000).await;
  let ep = if transport == "tcp" { "tcp://127.0.0.1:0".to_string() } else { format!("inproc://{}", unique_name("routerframes")) };
  if router.bind(&ep).await.is_err() {
    return "setup-error bind".into();
  }
  let target = if transport == "tcp" { last_endpoint(&router).await } else { ep.clone() };
  let a = ctx.socket(SocketType::Dealer).unwrap();
  let _ = a.set_option_raw(o::ROUTING_ID, b"A").await;
  let _ = set_i32(&a, o::RCVTIMEO, 600).await;
  if a.connect(&target).await.is_err() {
    return "setup-error connect".into();
  }
  tokio::time::sleep(Duration::from_millis(150)).await;
  let frame = |tag: &str, more: bool| {
    let mut m = Msg::from_vec(tag.as_bytes().to_vec());
    if more {
      m.set_flags(rzmq::MsgFlags::MORE);
    }
    m
  };
  for round in 0..rounds {
    let b = ctx.socket(SocketType::Dealer).unwrap();
    let _ = b.set_option_raw(o::ROUTING_ID, format!("B{}", round).as_bytes()).await;
    if what == "close" {
      let _ = b.connect(&target).await;
      tokio::time::sleep(Duration::from_millis(120)).await;
    }
    // first half of the message to A (retry the identity frame until A is known to the ROUTER)
    let mut started = false;
    for _ in 0..40 {
      match router.send(frame("A", true)).await {
        Ok(()) => {
          started = true;
          break;
        }
        Err(_) => tokio::time::sleep(Duration::from_millis(25)).await,
      }
    }
    if !started {
      return format!("setup-error round {} peer A unknown", round);
    }
    if let Err(e) = router.send(frame(&format!("r{}-f1", round), true)).await {
      return format!("ORACLE-FAIL key=routerframes-send round {}: frame 1 refused: {}", round, err_class(&e));
    }
    // the other peer
    match what {
      "close" => {
        let _ = tokio::time::timeout(Duration::from_secs(3), b.close()).await;
        tokio::time::sleep(Duration::from_millis(120)).await;
      }
      "connect" => {
        let _ = b.connect(&target).await;
        tokio::time::sleep(Duration::from_millis(120)).await;
      }
      _ => {}
    }
    // second half
    for (tag, more) in [(format!("r{}-f2", round), true), (format!("r{}-f3", round), false)] {
      if let Err(e) = router.send(frame(&tag, more)).await {
        return format!(
          "ORACLE-FAIL key=routerframes-send round {}: after another peer did `{}` in the middle of a frame-by-frame message, frame {} is refused: {}",
          round,
          what,
          tag,
          err_class(&e)
        );
      }
    }
    if let Err(e) = router.send_multipart(vec![frame("A", true), frame(&format!("r{}-m2a", round), true), frame(&format!("r{}-m2b", round), false)]).await {
      return format!("ORACLE-FAIL key=routerframes-send round {}: the next message is refused: {}", round, err_class(&e));
    }
    let want = vec![
      vec![format!("r{}-f1", round), format!("r{}-f2", round), format!("r{}-f3", round)],
      vec![format!("r{}-m2a", round), format!("r{}-m2b", round)],
    ];
    for w in want {
      match a.recv_multipart().await {
        Ok(fr) => {
          let got: Vec<String> = fr.iter().map(|f| String::from_utf8_lossy(f.data().unwrap_or(&[])).to_string()).collect();
          if got != w {
            return format!(
              "ORACLE-FAIL key=routerframes-torn round {}: another peer did `{}` while a message was being sent frame by frame; A received {:?} where {:?} was sent",
              round, what, got, w
            );
          }
        }
        Err(e) => {
          return format!("ORACLE-FAIL key=routerframes-lost round {}: after `{}` by another peer, {:?} never arrived ({})", round, what, w, err_class(&e))
        }
      }
    }
    if what != "close" {
      let _ = tokio::time::timeout(Duration::from_secs(3), b.close()).await;
    }
  }
  let _ = tokio::time::timeout(Duration::from_secs(3), a.close()).await;
  let _ = tokio::time::timeout(Duration::from_secs(3), router.close()).await;
  let _ = tokio::time::timeout(Duration::from_secs(12), ctx.term()).await;
  "routerframes=ok".into()
}

/// `comeback <tcp|ipc> <sender also binds 0|1> <reconnect ivl ms>`
/// A DEALER connects to a ROUTER and they exchange a message. The ROUTER is closed (the established connection is lost) and
/// a new ROUTER binds the same address. The DEALER - which may also own an idle listener of its own - has to reconnect by
/// itself and traffic has to resume within a few retry intervals.
async fn comeback(p: &[&str]) -> String {
  let transport = p[1];
  let bind_too = p[2] == "1";
  let ivl: i32 = p[3].parse().unwrap();
  let ctx = Context::new().expect("ctx");
  let ep = if transport == "tcp" {
    let l = std::net::TcpListener::bind("127.0.0.1:0").unwrap();
    let a = l.local_addr().unwrap();
    drop(l);
    format!("tcp://{}", a)
  } else {
    format!("ipc:///tmp/{}.sock", unique_name("rzmq-verif-cb"))
  };
  let router = ctx.socket(SocketType::Router).unwrap();
  let _ = set_i32(&router, o::RCVTIMEO, 2000).await;
  if router.bind(&ep).await.is_err() {
    return "setup-error bind".into();
  }
  let dealer = ctx.socket(SocketType::Dealer).unwrap();
  let _ = set_i32(&dealer, o::RECONNECT_IVL, ivl).await;
  let _ = set_i32(&dealer, o::RECONNECT_IVL_MAX, ivl * 2).await;
  let _ = set_i32(&dealer, o::SNDTIMEO, 100).await;
  if bind_too {
    let own = if transport == "tcp" { "tcp://127.0.0.1:0".to_string() } else { format!("ipc:///tmp/{}.sock", unique_name("rzmq-verif-cb-own")) };
    if dealer.bind(&own).await.is_err() {
      return "setup-error own-bind".into();
    }
  }
  if dealer.connect(&ep).await.is_err() {
    return "setup-error connect".into();
  }
  let mut first = false;
  for _ in 0..60 {
    if dealer.send(Msg::from_static(b"one")).await.is_ok() {
      first = true;
      break;
    }
    tokio::time::sleep(Duration::from_millis(25)).await;
  }
  if !first || router.recv_multipart().await.is_err() {
    return "setup-error first-exchange".into();
  }
  // the peer goes away and comes back on the same address
  let _ = tokio::time::timeout(Duration::from_secs(3), router.close()).await;
  tokio::time::sleep(Duration::from_millis(100)).await;
  let router2 = ctx.socket(SocketType::Router).unwrap();
  let _ = set_i32(&router2, o::RCVTIMEO, 200).await;
  let mut bound = false;
  for _ in 0..40 {
    if router2.bind(&ep).await.is_ok() {
      bound = true;
      break;
    }
    tokio::time::sleep(Duration::from_millis(50)).await;
  }
  if !bound {
    return "setup-error re-bind".into();
  }
  let deadline = Instant::now() + Duration::from_millis(8 * ivl as u64 + 3000);
  let mut resumed = false;
  while Instant::now() < deadline && !resumed {
    let _ = dealer.send(Msg::from_static(b"two")).await;
    if router2.recv_multipart().await.is_ok() {
      resumed = true;
    }
  }
  let _ = tokio::time::timeout(Duration::from_secs(3), dealer.close()).await;
  let _ = tokio::time::timeout(Duration::from_secs(3), router2.close()).await;
  let _ = tokio::time::timeout(Duration::from_secs(12), ctx.term()).await;
  if resumed {
    "comeback=ok".into()
  } else {
    format!(
      "ORACLE-FAIL key=no-reconnect the peer went away and came back on the same address; {} ms later (RECONNECT_IVL {} ms) the {}DEALER has not resumed traffic",
      8 * ivl as u64 + 3000,
      ivl,
      if bind_too { "(also listening) " } else { "" }
    )
  }
}

/// `subhist <tcp|inproc> <history> <probe topics>`
/// A SUB socket is connected to a PUB socket and goes through a history of `+topic` / `-topic` (subscribe / unsubscribe,
/// `;`-separated, topics as hex, empty = the empty prefix). Then every probe topic (hex, `;`-separated) is published once,
/// followed by a sentinel every history subscribes to at the end. Reported: which probes arrived (`got=<indices>`).
async fn subhist(p: &[&str]) -> String {
  let transport = p[1];
  let history: Vec<String> = p[2].split(';').filter(|x| !x.is_empty()).map(|x| x.to_string()).collect();
  let probes: Vec<Vec<u8>> = p[3].split(';').map(|h| hex::decode(h.trim_start_matches('h')).unwrap_or_default()).collect();
  let ctx = Context::new().expect("ctx");
  let publ = ctx.socket(SocketType::Pub).unwrap();
  let sub = ctx.socket(SocketType::Sub).unwrap();
  let _ = set_i32(&sub, o::RCVTIMEO, 1500).await;
  let ep = if transport == "tcp" { "tcp://127.0.0.1:0".to_string() } else { format!("inproc://{}", unique_name("subhist")) };
  if publ.bind(&ep).await.is_err() {
    return "setup-error bind".into();
  }
  let target = if transport == "tcp" { last_endpoint(&publ).await } else { ep.clone() };
  // half of the history before the connection exists, the rest on the live connection
  let half = history.len() / 2;
  let apply = |h: String| {
    let sub = sub.clone();
    async move {
      let (sign, hexs) = h.split_at(1);
      let topic = hex::decode(hexs).unwrap_or_default();
      let opt = if sign == "+" { o::SUBSCRIBE } else { o::UNSUBSCRIBE };
      let _ = sub.set_option_raw(opt, &topic).await;
    }
  };
  for h in history.iter().take(half) {
    apply(h.clone()).await;
  }
  if sub.connect(&target).await.is_err() {
    return "setup-error connect".into();
  }
  tokio::time::sleep(Duration::from_millis(150)).await;
  for h in history.iter().skip(half) {
    apply(h.clone()).await;
  }
  let sentinel = b"\xfe\xfdsentinel".to_vec();
  let _ = sub.set_option_raw(o::SUBSCRIBE, &sentinel).await;
  tokio::time::sleep(Duration::from_millis(200)).await;
  for (i, t) in probes.iter().enumerate() {
    let mut body = t.clone();
    body.push(0xFC);
    body.push(i as u8);
    let _ = publ.send(Msg::from_vec(body)).await;
  }
  let _ = publ.send(Msg::from_vec(sentinel.clone())).await;
  let mut got: Vec<usize> = Vec::new();
  loop {
    match sub.recv().await {
      Ok(m) => {
        let d = m.data().unwrap_or(&[]).to_vec();
        if d == sentinel {
          break;
        }
        if d.len() >= 2 && d[d.len() - 2] == 0xFC {
          got.push(d[d.len() - 1] as usize);
        }
      }
      Err(_) => {
        let _ = tokio::time::timeout(Duration::from_secs(3), sub.close()).await;
        let _ = tokio::time::timeout(Duration::from_secs(3), publ.close()).await;
        let _ = tokio::time::timeout(Duration::from_secs(12), ctx.term()).await;
        return format!("ORACLE-FAIL key=subhist-sentinel the sentinel never arrived (got so far {:?})", got);
      }
    }
  }
  let _ = tokio::time::timeout(Duration::from_secs(3), sub.close()).await;
  let _ = tokio::time::timeout(Duration::from_secs(3), publ.close()).await;
  let _ = tokio::time::timeout(Duration::from_secs(12), ctx.term()).await;
  format!("got={}", got.iter().map(|x| x.to_string()).collect::<Vec<_>>().join(","))
}

/// `peerclose <options of the socket that closes> <options of the other socket>`
/// A PUSH connects to a PULL, both see the handshake, then the PUSH is closed (LINGER 0, nothing queued). The PULL side must
/// learn that its peer is gone (its monitor reports the disconnect) within 3 s - whatever backend either side runs on.
async fn peerclose(p: &[&str]) -> String {
  let mut ca = parse_kv(p[1]);
  let mut cb = parse_kv(p[2]);
  ca.insert("type".into(), "PUSH".into());
  cb.insert("type".into(), "PULL".into());
  let ctx = Context::new().expect("ctx");
  let (a, b) = match (make_socket(&ctx, &ca).await, make_socket(&ctx, &cb).await) {
    (Ok(a), Ok(b)) => (a, b),
    _ => return "setup-error socket".into(),
  };
  let (ma, mb) = match (a.monitor_default().await, b.monitor_default().await) {
    (Ok(x), Ok(y)) => (x, y),
    _ => return "setup-error monitor".into(),
  };
  if b.bind("tcp://127.0.0.1:0").await.is_err() {
    return "setup-error bind".into();
  }
  let ep = last_endpoint(&b).await;
  if a.connect(&ep).await.is_err() {
    return "setup-error connect".into();
  }
  let (ra, rb) = tokio::join!(wait_handshake(&ma, Duration::from_secs(3)), wait_handshake(&mb, Duration::from_secs(3)));
  if ra != "ok" || rb != "ok" {
    return "setup-error handshake".into();
  }
  tokio::time::sleep(Duration::from_millis(50)).await;
  let closed = tokio::time::timeout(Duration::from_secs(10), a.close()).await.is_ok();
  let t0 = Instant::now();
  let mut seen = false;
  while t0.elapsed() < Duration::from_secs(3) {
    match tokio::time::timeout(Duration::from_millis(50), mb.recv()).await {
      Ok(Ok(SocketEvent::Disconnected { .. })) => {
        seen = true;
        break;
      }
      Ok(Err(_)) => break,
      _ => {}
    }
  }
  let _ = tokio::time::timeout(Duration::from_secs(5), b.close()).await;
  let _ = tokio::time::timeout(Duration::from_secs(12), ctx.term()).await;
  if !closed {
    return "ORACLE-FAIL key=close-hang close() of the connected socket did not return in 10 s".into();
  }
  if seen {
    "peerclose=seen".into()
  } else {
    "ORACLE-FAIL key=peer-not-told the peer of a closed socket saw no disconnect within 3 s (the connection is still open)".into()
  }
}

/// `fanin <cfg extras> <n>`
/// `n` PUSH sockets are connected to one PULL at the same time (all with the cfg extras, e.g. `uring=1`); each sends
/// three numbered messages; all 3n must arrive. Result: `fanin=ok`.
async fn fanin(p: &[&str]) -> String {
  let extras = p[1].to_string();
  let n: usize = p[2].parse().unwrap();
  let per: usize = p.get(3).and_then(|x| x.parse().ok()).unwrap_or(3);
  let size: usize = p.get(4).and_then(|x| x.parse().ok()).unwrap_or(8).max(8);
  // `close`: every sender closes its socket as soon as its last send() has returned (LINGER decides what that means)
  // `closeint`: the same, and only the integrity of what arrives is judged (how much arrives is LINGER's business, C15)
  let close_early = p.get(5).map(|x| *x == "close" || *x == "closeint").unwrap_or(false);
  let integrity_only = p.get(5).map(|x| *x == "closeint").unwrap_or(false);
  // `<receiver options>/<sender options>`, or one list for both
  let (pull_extras, push_extras) = match extras.split_once('/') {
    Some((a, b)) => (a.to_string(), b.to_string()),
    None => (extras.clone(), extras.clone()),
  };
  let mk_cfg = |ty: &str| {
    let mut c = parse_kv(if ty == "PULL" { &pull_extras } else { &push_extras });
    c.insert("type".into(), ty.into());
    c
  };
  let ctx = Context::new().expect("ctx");
  let pull = match make_socket(&ctx, &mk_cfg("PULL")).await {
    Ok(s) => s,
    Err(e) => return format!("setup-error {}", err_class(&e)),
  };
  let _ = set_i32(&pull, o::RCVTIMEO, 4000).await;
  if pull.bind("tcp://127.0.0.1:0").await.is_err() {
    return "setup-error bind".into();
  }
  let ep = last_endpoint(&pull).await;
  let mut pushes = Vec::new();
  for _ in 0..n {
    let s = match make_socket(&ctx, &mk_cfg("PUSH")).await {
      Ok(s) => s,
      Err(e) => return format!("setup-error {}", err_class(&e)),
    };
    let _ = set_i32(&s, o::SNDTIMEO, 5000).await;
    if s.connect(&ep).await.is_err() {
      return "setup-error connect".into();
    }
    pushes.push(s);
  }
  tokio::time::sleep(Duration::from_millis(300)).await;
  // all senders at once
  let mut tasks = Vec::new();
  for (i, s) in pushes.iter().enumerate() {
    let s = s.clone();
    tasks.push(tokio::spawn(async move {
      let mut failures = 0usize;
      for k in 0..per {
        let mut body = vec![(i % 251) as u8; size];
        body[0..4].copy_from_slice(&(i as u32).to_be_bytes());
        body[4..8].copy_from_slice(&(k as u32).to_be_bytes());
        if s.send(Msg::from_vec(body)).await.is_err() {
          failures += 1;
        }
      }
      if close_early {
        let _ = tokio::time::timeout(Duration::from_secs(20), s.close()).await;
      }
      failures
    }));
  }
  let mut seen = std::collections::BTreeSet::new();
  let mut damaged: Option<String> = None;
  let mut last_seq: HashMap<u32, u32> = HashMap::new();
  while seen.len() < per * n {
    match pull.recv().await {
      Ok(m) => {
        let b = m.data().unwrap_or(&[]).to_vec();
        if b.len() != size {
          damaged = Some(format!("a message of {} bytes arrived, every message sent has {}", b.len(), size));
          break;
        }
        let i = u32::from_be_bytes([b[0], b[1], b[2], b[3]]);
        let k = u32::from_be_bytes([b[4], b[5], b[6], b[7]]);
        if let Some(pos) = b[8..].iter().position(|x| *x != (i % 251) as u8) {
          let at = 8 + pos;
          damaged = Some(format!(
            "message {}.{} has a damaged body: from offset {} it reads {}",
            i,
            k,
            at,
            hex::encode(&b[at..(at + 16).min(b.len())])
          ));
          break;
        }
        if let Some(prev) = last_seq.get(&i) {
          if k <= *prev {
            damaged = Some(format!("connection {}: message {} after {}", i, k, prev));
            break;
          }
        }
        last_seq.insert(i, k);
        seen.insert((i, k));
      }
      Err(_) => break,
    }
  }
  let mut send_failures = 0usize;
  for t in tasks {
    send_failures += tokio::time::timeout(Duration::from_secs(8), t).await.ok().and_then(|r| r.ok()).unwrap_or(per);
  }
  for s in &pushes {
    let _ = tokio::time::timeout(Duration::from_secs(5), s.close()).await;
  }
  let _ = tokio::time::timeout(Duration::from_secs(5), pull.close()).await;
  let _ = tokio::time::timeout(Duration::from_secs(12), ctx.term()).await;
  if let Some(d) = damaged {
    return format!("ORACLE-FAIL key=fanin-damaged {} ({} simultaneous connections)", d, n);
  }
  if integrity_only {
    return "fanin=intact".into();
  }
  if seen.len() == per * n && send_failures == 0 {
    "fanin=ok".into()
  } else {
    let silent: Vec<usize> = (0..n).filter(|i| !(0..per).any(|k| seen.contains(&(*i as u32, k as u32)))).collect();
    format!(
      "ORACLE-FAIL key=fanin-lost {} of {} messages arrived from {} simultaneous connections ({} sends refused; nothing at all from {} of them)",
      seen.len(),
      per * n,
      n,
      send_failures,
      silent.len()
    )
  }
}

// ---------------------------------------------------------------------------------------------------------------
// C18: encrypted connections through a recording / tampering proxy
// ---------------------------------------------------------------------------------------------------------------

struct SecKeys {
  server_sk: Vec<u8>,
  server_pk: Vec<u8>,
  client_sk: Vec<u8>,
}

fn sec_keys(mech: &str) -> SecKeys {
  if mech == "curve" {
    use dryoc::types::Bytes as _;
    let s = dryoc::keypair::StackKeyPair::r#gen();
    let c = dryoc::keypair::StackKeyPair::r#gen();
    SecKeys { server_sk: s.secret_key.as_slice().to_vec(), server_pk: s.public_key.as_slice().to_vec(), client_sk: c.secret_key.as_slice().to_vec() }
  } else {
    let b = || snow::Builder::new("Noise_XX_25519_ChaChaPoly_BLAKE2s".parse().unwrap()).generate_keypair().unwrap();
    let s = b();
    let c = b();
    SecKeys { server_sk: s.private, server_pk: s.public, client_sk: c.private }
  }
}

async fn sec_socket(ctx: &Context, ty: SocketType, mech: &str, server: bool, k: &SecKeys, hb: i32) -> Result<Socket, ZmqError> {
  let s = ctx.socket(ty)?;
  if mech == "curve" {
    if server {
      set_i32(&s, o::CURVE_SERVER, 1).await?;
      s.set_option_raw(o::CURVE_SECRET_KEY, &k.server_sk).await?;
    } else {
      s.set_option_raw(o::CURVE_SECRET_KEY, &k.client_sk).await?;
      s.set_option_raw(o::CURVE_SERVER_KEY, &k.server_pk).await?;
    }
  } else {
    s.set_option_raw(o::NOISE_XX_STATIC_SECRET_KEY, if server { &k.server_sk } else { &k.client_sk }).await?;
    if !server {
      s.set_option_raw(o::NOISE_XX_REMOTE_STATIC_PUBLIC_KEY, &k.server_pk).await?;
    }
    set_i32(&s, o::NOISE_XX_ENABLED, 1).await?;
  }
  if hb > 0 {
    set_i32(&s, o::HEARTBEAT_IVL, hb).await?;
    set_i32(&s, o::HEARTBEAT_TIMEOUT, hb * 4).await?;
  }
  Ok(s)
}

#[derive(Clone, Default)]
struct ProxyCtl {
  armed: std::sync::Arc<std::sync::atomic::AtomicBool>,
  captured: std::sync::Arc<std::sync::Mutex<Vec<u8>>>,        // client -> server, everything
  data_records: std::sync::Arc<std::sync::Mutex<Vec<Vec<u8>>>>, // client -> server records seen after arming (header included)
}

/// accepts ONE connection on `listener`, connects to `server_addr`, pumps both ways; the client->server direction is
/// recorded and, once armed, parsed into `[u16 len][ciphertext]` records to which `op` is applied
async fn run_proxy(listener: TcpListener, server_addr: String, op: String, ctl: ProxyCtl) {
  let (client, _) = match listener.accept().await {
    Ok(x) => x,
    Err(_) => return,
  };
  let server = match TcpStream::connect(&server_addr).await {
    Ok(x) => x,
    Err(_) => return,
  };
  let _ = client.set_nodelay(true);
  let _ = server.set_nodelay(true);
  let (mut cr, mut cw) = client.into_split();
  let (mut sr, mut sw) = server.into_split();
  let back = tokio::spawn(async move {
    let mut buf = vec![0u8; 65536];
    loop {
      match sr.read(&mut buf).await {
        Ok(0) | Err(_) => break,
        Ok(n) => {
          if cw.write_all(&buf[..n]).await.is_err() {
            break;
          }
        }
      }
    }
    let _ = cw.shutdown().await;
  });
  let parts: Vec<String> = op.split(':').map(|x| x.to_string()).collect();
  let kind = parts[0].clone();
  let target: usize = parts.get(1).and_then(|x| x.parse().ok()).unwrap_or(0);
  let byte: usize = parts.get(2).and_then(|x| x.parse().ok()).unwrap_or(0);
  let mut buf = vec![0u8; 65536];
  let mut pending: Vec<u8> = Vec::new();
  let mut held: Option<Vec<u8>> = None;
  let mut idx = 0usize;
  'pump: loop {
    let n = match cr.read(&mut buf).await {
      Ok(0) | Err(_) => break,
      Ok(n) => n,
    };
    ctl.captured.lock().unwrap().extend_from_slice(&buf[..n]);
    if !ctl.armed.load(std::sync::atomic::Ordering::Acquire) {
      if sw.write_all(&buf[..n]).await.is_err() {
        break;
      }
      continue;
    }
    pending.extend_from_slice(&buf[..n]);
    loop {
      if pending.len() < 2 {
        break;
      }
      let len = u16::from_be_bytes([pending[0], pending[1]]) as usize;
      if pending.len() < 2 + len {
        break;
      }
      let mut rec: Vec<u8> = pending.drain(..2 + len).collect();
      ctl.data_records.lock().unwrap().push(rec.clone());
      let mut out: Vec<Vec<u8>> = Vec::new();
      if idx == target {
        match kind.as_str() {
          "flip" => {
            let pos = 2 + (byte % len.max(1));
            if pos < rec.len() {
              rec[pos] ^= 0x01;
            }
            out.push(rec);
          }
          "drop" => {}
          "dup" => {
            out.push(rec.clone());
            out.push(rec);
          }
          "swap" => {
            held = Some(rec);
          }
          "cut" => {
            let keep = byte.min(rec.len().saturating_sub(1)).max(1);
            let _ = sw.write_all(&rec[..keep]).await;
            break 'pump;
          }
          _ => out.push(rec),
        }
      } else if idx == target + 1 && kind == "swap" {
        out.push(rec);
        if let Some(h) = held.take() {
          out.push(h);
        }
      } else {
        out.push(rec);
      }
      idx += 1;
      for r in out {
        if sw.write_all(&r).await.is_err() {
          break 'pump;
        }
      }
    }
  }
  let _ = sw.shutdown().await;
  back.abort();
}

fn secret_body(i: usize, size: usize) -> Vec<u8> {
  let tag = format!("SECRET-{:04}-PLAINTEXT-", i).into_bytes();
  let mut b = Vec::with_capacity(size.max(tag.len()));
  while b.len() < size.max(tag.len()) {
    b.extend_from_slice(&tag);
  }
  b.truncate(size.max(tag.len()));
  b
}

/// `secure <curve|noise> honest <size;size;..> [hb=<ms>]` | `secure <mech> tamper <flip:r:b|drop:r|dup:r|swap:r|cut:r:b>` |
/// `secure <mech> twice`
/// A PUSH client and a PULL server with the mechanism configured through the public options, connected through a proxy
/// that records the client->server bytes. honest: every message arrives intact and in order and no plaintext is visible
/// on the wire (with `hb`: heartbeats enabled and an idle pause in the middle). tamper: after the first message, the
/// proxy mutates the stream of encrypted records; what the server delivers must be a prefix of what the client sent.
/// twice: two sessions between the same key pairs carrying the same first message must not put the same bytes on the wire.
async fn secure(p: &[&str]) -> String {
  let mech = p[1].to_string();
  let mode = p[2];
  let keys = sec_keys(&mech);
  match mode {
    "twice" => {
      let mut firsts: Vec<Vec<u8>> = Vec::new();
      for _ in 0..2 {
        match secure_session(&mech, &keys, &[100, 100], 0, "none").await {
          Ok(r) => {
            if r.delivered.len() != 3 {
              return format!("ORACLE-FAIL key=secure-undecodable only {} of 3 messages arrived", r.delivered.len());
            }
            firsts.push(r.records.get(0).cloned().unwrap_or_default());
          }
          Err(e) => return e,
        }
      }
      if firsts[0].is_empty() || firsts[1].is_empty() {
        return "setup-error no data record captured".into();
      }
      if firsts[0] == firsts[1] {
        "ORACLE-FAIL key=secure-repeats two sessions between the same key pairs encrypted the same plaintext to the same bytes".into()
      } else {
        "secure=ok".into()
      }
    }
    "honest" => {
      let sizes: Vec<usize> = p[3].split(';').filter_map(|x| x.parse().ok()).collect();
      let hb: i32 = p.get(4).and_then(|x| x.strip_prefix("hb=")).and_then(|x| x.parse().ok()).unwrap_or(0);
      match secure_session(&mech, &keys, &sizes, hb, "none").await {
        Ok(r) => {
          if r.leaked {
            return "ORACLE-FAIL key=secure-cleartext an application payload is visible in the bytes on the wire".into();
          }
          let want: Vec<usize> = (0..sizes.len() + 1).collect();
          if r.delivered != want {
            return format!(
              "ORACLE-FAIL key=secure-undecodable sent {} messages (sizes {:?}{}), the peer delivered {:?}{}",
              sizes.len() + 1,
              sizes,
              if hb > 0 { format!(", heartbeats every {} ms", hb) } else { String::new() },
              r.delivered,
              if r.damaged { " and a damaged one" } else { "" }
            );
          }
          "secure=ok".into()
        }
        Err(e) => e,
      }
    }
    // `secure <mech> backlog <count> <size> hb=<ms>`: the server has heartbeats on and stops reading for a while; the
    // client streams on, so that its session holds a backlog of sealed records whenever a PING arrives and is answered.
    // Nobody tampers: every message must arrive, in order, and the connection must never break.
    "backlog" => {
      let count: usize = p[3].parse().unwrap();
      let size: usize = p[4].parse().unwrap();
      let hb: i32 = p.get(5).and_then(|x| x.strip_prefix("hb=")).and_then(|x| x.parse().ok()).unwrap_or(100);
      let ctx = Context::new().expect("ctx");
      let server = match sec_socket(&ctx, SocketType::Pull, &mech, true, &keys, hb).await {
        Ok(s) => s,
        Err(e) => return format!("setup-error server {}", err_class(&e)),
      };
      let client = match sec_socket(&ctx, SocketType::Push, &mech, false, &keys, 0).await {
        Ok(s) => s,
        Err(e) => return format!("setup-error client {}", err_class(&e)),
      };
      let _ = set_i32(&client, o::SNDTIMEO, 20000).await;
      let _ = set_i32(&server, o::RCVTIMEO, 3000).await;
      // (a reader that pauses longer than the heartbeat timeout loses the connection by design: the PONG waits behind the
      // data the full receiver no longer reads; the timeout is therefore generous here)
      let _ = set_i32(&server, o::HEARTBEAT_TIMEOUT, 15000).await;
      let mon = match server.monitor_default().await {
        Ok(m) => m,
        Err(_) => return "setup-error monitor".into(),
      };
      if server.bind("tcp://127.0.0.1:0").await.is_err() {
        return "setup-error bind".into();
      }
      let ep = last_endpoint(&server).await;
      if client.connect(&ep).await.is_err() {
        return "setup-error connect".into();
      }
      let c2 = client.clone();
      let sender = tokio::spawn(async move {
        for i in 0..count {
          let mut b = vec![(i % 251) as u8; size.max(8)];
          b[0..4].copy_from_slice(&(i as u32).to_be_bytes());
          if c2.send(Msg::from_vec(b)).await.is_err() {
            return i;
          }
        }
        count
      });
      // first message: the handshake is over; then the reader pauses for several heartbeat intervals, twice
      let mut got: Vec<u32> = Vec::new();
      let mut broken = false;
      let mut pauses = 0;
      while got.len() < count {
        if (got.len() == 1 || got.len() == count / 2) && pauses < 2 {
          pauses += 1;
          tokio::time::sleep(Duration::from_millis(6 * hb as u64 + 200)).await;
        }
        match server.recv().await {
          Ok(m) => {
            let d = m.data().unwrap_or(&[]);
            if d.len() != size.max(8) {
              return format!("ORACLE-FAIL key=secure-undecodable a message of {} bytes arrived, every message sent has {}", d.len(), size.max(8));
            }
            got.push(u32::from_be_bytes([d[0], d[1], d[2], d[3]]));
          }
          Err(_) => break,
        }
        while let Ok(Ok(ev)) = tokio::time::timeout(Duration::from_millis(0), mon.recv()).await {
          if matches!(ev, SocketEvent::Disconnected { .. } | SocketEvent::HandshakeFailed { .. }) {
            broken = true;
          }
        }
      }
      let sent = tokio::time::timeout(Duration::from_secs(25), sender).await.ok().and_then(|r| r.ok()).unwrap_or(0);
      let _ = tokio::time::timeout(Duration::from_secs(3), client.close()).await;
      let _ = tokio::time::timeout(Duration::from_secs(3), server.close()).await;
      let _ = tokio::time::timeout(Duration::from_secs(12), ctx.term()).await;
      let in_order = got.iter().enumerate().all(|(i, v)| *v as usize == i);
      if broken || !in_order || got.len() != count || sent != count {
        let first_gap = got.iter().enumerate().find(|(i, v)| **v as usize != *i).map(|(i, v)| format!("expected #{}, received #{}", i, v));
        return format!(
          "ORACLE-FAIL key=secure-undecodable {} of {} messages arrived ({} accepted by the sender){}{}: nobody touched the wire (heartbeats every {} ms while the sender had a backlog)",
          got.len(),
          count,
          sent,
          if broken { ", the connection broke" } else { "" },
          first_gap.map(|g| format!(", {}", g)).unwrap_or_default(),
          hb
        );
      }
      "secure=ok".into()
    }
    "tamper" => {
      let op = p[3];
      match secure_session(&mech, &keys, &[40, 40, 40, 40, 40, 40], 0, op).await {
        Ok(r) => {
          let is_prefix = r.delivered.iter().enumerate().all(|(i, d)| *d == i);
          if r.damaged || !is_prefix {
            return format!("ORACLE-FAIL key=secure-tamper after `{}` the peer delivered {:?}{} (must be a prefix of 0..7)", op, r.delivered, if r.damaged { " plus a damaged message" } else { "" });
          }
          "secure=ok".into()
        }
        Err(e) => e,
      }
    }
    _ => "bad-op".into(),
  }
}

struct SecResult {
  delivered: Vec<usize>,
  damaged: bool,
  leaked: bool,
  records: Vec<Vec<u8>>,
}

/// message 0 (40 bytes) is sent first and awaited (handshake over); then the proxy is armed and the messages of `sizes`
/// follow one at a time; with `hb` > 0 the sender pauses 3*hb in the middle
async fn secure_session(mech: &str, keys: &SecKeys, sizes: &[usize], hb: i32, op: &str) -> Result<SecResult, String> {
  let ctx = Context::new().expect("ctx");
  let server = sec_socket(&ctx, SocketType::Pull, mech, true, keys, hb).await.map_err(|e| format!("setup-error server {}", err_class(&e)))?;
  let client = sec_socket(&ctx, SocketType::Push, mech, false, keys, hb).await.map_err(|e| format!("setup-error client {}", err_class(&e)))?;
  let _ = set_i32(&server, o::RCVTIMEO, 1500).await;
  let _ = set_i32(&client, o::SNDTIMEO, 1500).await;
  let _ = set_i32(&client, o::RECONNECT_IVL, 60000).await; // one session only: no silent re-handshake behind the proxy
  server.bind("tcp://127.0.0.1:0").await.map_err(|_| "setup-error bind".to_string())?;
  let server_addr = last_endpoint(&server).await.trim_start_matches("tcp://").to_string();
  let l = TcpListener::bind("127.0.0.1:0").await.unwrap();
  let proxy_addr = l.local_addr().unwrap();
  let ctl = ProxyCtl::default();
  let proxy = tokio::spawn(run_proxy(l, server_addr, op.to_string(), ctl.clone()));
  client.connect(&format!("tcp://{}", proxy_addr)).await.map_err(|_| "setup-error connect".to_string())?;
  let mut delivered: Vec<usize> = Vec::new();
  let mut damaged = false;
  let classify = |m: &Msg, delivered: &mut Vec<usize>, damaged: &mut bool, all: &[Vec<u8>]| {
    let b = m.data().unwrap_or(&[]);
    match all.iter().position(|x| x.as_slice() == b) {
      Some(i) => delivered.push(i),
      None => *damaged = true,
    }
  };
  let mut all: Vec<Vec<u8>> = vec![secret_body(0, 40)];
  for (i, s) in sizes.iter().enumerate() {
    all.push(secret_body(i + 1, *s));
  }
  // message 0: the handshake is over once it has arrived
  if client.send(Msg::from_vec(all[0].clone())).await.is_err() {
    return Err("setup-error first send".into());
  }
  let _ = set_i32(&server, o::RCVTIMEO, 4000).await;
  match server.recv().await {
    Ok(m) => classify(&m, &mut delivered, &mut damaged, &all),
    Err(_) => return Err("setup-error the first message did not arrive (handshake)".into()),
  }
  let _ = set_i32(&server, o::RCVTIMEO, 1200).await;
  tokio::time::sleep(Duration::from_millis(50)).await;
  ctl.armed.store(true, std::sync::atomic::Ordering::Release);
  for (i, body) in all.iter().enumerate().skip(1) {
    if hb > 0 && i == 1 + sizes.len() / 2 {
      tokio::time::sleep(Duration::from_millis(3 * hb as u64 + 100)).await;
    }
    if client.send(Msg::from_vec(body.clone())).await.is_err() {
      break;
    }
    tokio::time::sleep(Duration::from_millis(25)).await;
  }
  loop {
    match server.recv().await {
      Ok(m) => classify(&m, &mut delivered, &mut damaged, &all),
      Err(_) => break,
    }
  }
  let captured = ctl.captured.lock().unwrap().clone();
  let leaked = captured.windows(7).any(|w| w == b"SECRET-");
  let records = ctl.data_records.lock().unwrap().clone();
  let _ = tokio::time::timeout(Duration::from_secs(3), client.close()).await;
  let _ = tokio::time::timeout(Duration::from_secs(3), server.close()).await;
  let _ = tokio::time::timeout(Duration::from_secs(12), ctx.term()).await;
  proxy.abort();
  Ok(SecResult { delivered, damaged, leaked, records })
}


/// `framewise <sender type> <receiver type> <peers> <messages>`
/// The sender is connected to `peers` receivers and sends `messages` three-frame messages FRAME BY FRAME with send()
/// (MORE on all but the last). Every receiver must see only whole messages: frames `i.0 i.1 i.2` of one message together.
async fn framewise(p: &[&str]) -> String {
  let sty = p[1];
  let rty = p[2];
  let peers: usize = p[3].parse().unwrap();
  let n: usize = p[4].parse().unwrap();
  let ctx = Context::new().expect("ctx");
  let snd = ctx.socket(socket_type(sty)).unwrap();
  let _ = set_i32(&snd, o::SNDTIMEO, 2000).await;
  if snd.bind("tcp://127.0.0.1:0").await.is_err() {
    return "setup-error bind".into();
  }
  let ep = last_endpoint(&snd).await;
  let mut rcvs = Vec::new();
  for _ in 0..peers {
    let r = ctx.socket(socket_type(rty)).unwrap();
    let _ = set_i32(&r, o::RCVTIMEO, 700).await;
    if r.connect(&ep).await.is_err() {
      return "setup-error connect".into();
    }
    rcvs.push(r);
  }
  tokio::time::sleep(Duration::from_millis(300)).await;
  for i in 0..n {
    for k in 0..3u8 {
      let mut m = Msg::from_vec(vec![i as u8, k]);
      if k < 2 {
        m.set_flags(rzmq::MsgFlags::MORE);
      }
      if let Err(e) = snd.send(m).await {
        return format!("ORACLE-FAIL key=framewise-send send of frame {}.{} failed: {}", i, k, err_class(&e));
      }
    }
  }
  let mut whole = 0usize;
  let mut problem: Option<String> = None;
  for (ri, r) in rcvs.iter().enumerate() {
    loop {
      match r.recv_multipart().await {
        Ok(frames) => {
          let skip = if rty == "ROUTER" { 1 } else { 0 }; // the peer's identity comes first
          let shape: Vec<(u8, u8)> = frames.iter().skip(skip).map(|f| { let b = f.data().unwrap_or(&[]); (b.first().copied().unwrap_or(255), b.get(1).copied().unwrap_or(255)) }).collect();
          let ok = shape.len() == 3 && shape[0].1 == 0 && shape[1].1 == 1 && shape[2].1 == 2 && shape[0].0 == shape[1].0 && shape[1].0 == shape[2].0;
          if ok {
            whole += 1;
          } else if problem.is_none() {
            problem = Some(format!("receiver {} got the frames {:?} as one message", ri, shape));
          }
        }
        Err(_) => break,
      }
    }
  }
  for r in &rcvs {
    let _ = tokio::time::timeout(Duration::from_secs(3), r.close()).await;
  }
  let _ = tokio::time::timeout(Duration::from_secs(3), snd.close()).await;
  let _ = tokio::time::timeout(Duration::from_secs(12), ctx.term()).await;
  match problem {
    Some(pr) => format!("ORACLE-FAIL key=framewise-torn {} ({} whole of {})", pr, whole, n),
    None if whole == n => "framewise=ok".into(),
    None => format!("ORACLE-FAIL key=framewise-lost {} whole messages of {}", whole, n),
  }
}


/// One poll of `fut`; between polls the caller decides what else happens. Returns the output if the future completed
/// within `k` polls, `None` if it was still pending after the k-th poll - the future is then DROPPED.
async fn poll_k_then_drop<T>(
  fut: impl std::future::Future<Output = T>,
  k: usize,
  mut between: impl FnMut() -> std::pin::Pin<Box<dyn std::future::Future<Output = ()> + Send>>,
) -> Option<T> {
  let mut fut = Box::pin(fut);
  for _ in 0..k {
    let polled = std::future::poll_fn(|cx| std::task::Poll::Ready(fut.as_mut().poll(cx))).await;
    if let std::task::Poll::Ready(v) = polled {
      return Some(v);
    }
    between().await;
  }
  None
}

/// `cancel <tr=tcp|inproc,sndhwm=..,rcvhwm=..,sndtimeo=..> <sender type> <receiver type> <script>`
/// One sender, one receiver, small high-water marks, the receiver reads only when the script says so - so calls park.
/// Script (`;`-separated): `s<i>` send message i (three frames `i.0 i.1 i.2`, send_multipart) and wait for the result;
/// `u<i>` the same as a single-frame send(); `c<i>:<k>` / `v<i>:<k>`: the same two calls, but the future is polled at
/// most k times (2 ms apart) and then DROPPED; with a trailing `r` the receiver takes one message between polls, so the
/// future gets to its later await points; `R` the receiver takes one message (recv_multipart); `F` the receiver takes
/// one FRAME with recv(); `d:<k>` / `f:<k>`: a recv_multipart() / recv() future polled at most k times and dropped (with a
/// trailing `s` the sender sends the next unsent message between polls); `w<ms>` sleep; `fill` send until a send is refused (or stays pending);
/// `T<ms>` set SNDTIMEO now; `m<i>:<k>[r]` message i frame by frame with send(), the future of the LAST frame's send polled k times and dropped.
/// Afterwards everything is drained and one more message is sent and received. Oracle: every message received is whole,
/// none arrives twice, what send() accepted arrives, in order; what send() refused does not; a dropped send arrives whole
/// or not at all; nothing the receiver had been given is lost by a dropped receive; the final exchange works.
async fn cancel_scn(p: &[&str]) -> String {
  let opts = parse_kv(p[1]);
  let sty = p[2].to_string();
  let rty = p[3].to_string();
  let script: Vec<String> = p[4].split(';').filter(|x| !x.is_empty()).map(|x| x.to_string()).collect();
  let transport = opts.get("tr").cloned().unwrap_or_else(|| "tcp".into());
  let geti = |k: &str, d: i32| opts.get(k).and_then(|v| v.parse::<i32>().ok()).unwrap_or(d);
  let ctx = Context::new().expect("ctx");
  let snd = ctx.socket(socket_type(&sty)).unwrap();
  let rcv = ctx.socket(socket_type(&rty)).unwrap();
  let _ = set_i32(&snd, o::SNDHWM, geti("sndhwm", 2)).await;
  let _ = set_i32(&rcv, o::RCVHWM, geti("rcvhwm", 2)).await;
  let _ = set_i32(&snd, o::SNDTIMEO, geti("sndtimeo", 150)).await;
  let _ = set_i32(&rcv, o::RCVTIMEO, 300).await;
  if transport == "tcp" {
    // small enough for back-pressure to set in after a few dozen messages, large enough for TCP not to fall into long
    // zero-window probe intervals while the receiver stalls (with 4 KiB the flow took seconds to restart after a stall)
    let _ = set_i32(&snd, o::SNDBUF, 32768).await;
    let _ = set_i32(&rcv, o::RCVBUF, 32768).await;
  }
  if rty == "SUB" {
    let _ = rcv.set_option_raw(o::SUBSCRIBE, b"").await;
  }
  if rty == "DEALER" && sty == "ROUTER" {
    let _ = rcv.set_option_raw(o::ROUTING_ID, b"peer").await;
    // a ROUTER that is not mandatory answers Ok and discards when the peer's queue is full: with the option set a send
    // that is not accepted says so
    let _ = set_i32(&snd, o::ROUTER_MANDATORY, 1).await;
  }
  let (ms, mr) = match (snd.monitor_default().await, rcv.monitor_default().await) {
    (Ok(a), Ok(b)) => (a, b),
    _ => return "setup-error monitor".into(),
  };
  let ep = if transport == "tcp" { "tcp://127.0.0.1:0".to_string() } else { format!("inproc://{}", unique_name("cancel")) };
  if rcv.bind(&ep).await.is_err() {
    return "setup-error bind".into();
  }
  let target = if transport == "tcp" { last_endpoint(&rcv).await } else { ep.clone() };
  if snd.connect(&target).await.is_err() {
    return "setup-error connect".into();
  }
  if transport == "tcp" {
    let (ra, rb) = tokio::join!(wait_handshake(&ms, Duration::from_secs(3)), wait_handshake(&mr, Duration::from_secs(3)));
    if ra != "ok" || rb != "ok" {
      return "setup-error handshake".into();
    }
  }
  tokio::time::sleep(Duration::from_millis(80)).await;
  let size = opts.get("size").and_then(|v| v.parse::<usize>().ok()).unwrap_or(3000);
  let mk = |i: usize, single: bool| -> Vec<Msg> {
    let mut v = Vec::new();
    if sty == "ROUTER" {
      let mut idf = Msg::from_static(b"peer");
      idf.set_flags(rzmq::MsgFlags::MORE);
      v.push(idf);
    }
    let parts = if single { 1 } else { 3 };
    for k in 0..parts {
      let mut b = vec![(i % 251) as u8; size];
      b[0] = i as u8;
      b[1] = k as u8;
      b[2] = parts as u8;
      let mut m = Msg::from_vec(b);
      if k + 1 < parts {
        m.set_flags(rzmq::MsgFlags::MORE);
      }
      v.push(m);
    }
    v
  };
  #[derive(Clone, Copy, PartialEq, Debug)]
  enum Fate {
    Accepted,
    Refused,
    Dropped,
  }
  let mut fate: Vec<(usize, Fate)> = Vec::new();
  let mut got: Vec<Vec<Msg>> = Vec::new(); // complete messages, in arrival order
  let mut partial: Vec<Msg> = Vec::new(); // frames taken one by one
  let mut problems: Vec<String> = Vec::new();
  let mut next_auto = 200usize; // messages the script sends "between polls"
  let mut late_sndtimeo: Option<i32> = None;
  // one message (or one frame) taken by the receiver in the ordinary way
  async fn take(rcv: &Socket, by_frame: bool, got: &mut Vec<Vec<Msg>>, partial: &mut Vec<Msg>) -> bool {
    if by_frame {
      match rcv.recv().await {
        Ok(f) => {
          let more = f.is_more();
          partial.push(f);
          if !more {
            got.push(std::mem::take(partial));
          }
          true
        }
        Err(_) => false,
      }
    } else {
      match rcv.recv_multipart().await {
        Ok(fr) => {
          partial.extend(fr);
          if !partial.last().map(|f| f.is_more()).unwrap_or(false) {
            got.push(std::mem::take(partial));
          }
          true
        }
        Err(_) => false,
      }
    }
  }
  for op in &script {
    let (k, arg) = op.split_at(1);
    match k {
      "s" | "u" => {
        let i: usize = arg.parse().unwrap();
        let frames = mk(i, k == "u");
        let r = if k == "u" && sty != "ROUTER" {
          tokio::time::timeout(Duration::from_secs(5), snd.send(frames.into_iter().next().unwrap())).await
        } else {
          tokio::time::timeout(Duration::from_secs(5), snd.send_multipart(frames)).await
        };
        match r {
          Ok(Ok(())) => fate.push((i, Fate::Accepted)),
          Ok(Err(_)) => fate.push((i, Fate::Refused)),
          Err(_) => {
            problems.push(match late_sndtimeo {
              Some(t) => format!("key=cancel-send-hangs send of message {} did not return in 5 s (SNDTIMEO {} ms set after the connection existed)", i, t),
              None => format!("key=cancel-send-hangs send of message {} did not return in 5 s (SNDTIMEO {} ms)", i, geti("sndtimeo", 150)),
            });
            fate.push((i, Fate::Dropped));
          }
        }
      }
      // `T<ms>`: SNDTIMEO is changed now, while the connection exists
      "T" => {
        let t: i32 = arg.parse().unwrap();
        let _ = set_i32(&snd, o::SNDTIMEO, t).await;
        late_sndtimeo = Some(t);
      }
      "c" | "v" => {
        let with_reads = arg.ends_with('r');
        let a = arg.trim_end_matches('r');
        let (is, ks) = a.split_once(':').unwrap();
        let i: usize = is.parse().unwrap();
        let polls: usize = ks.parse().unwrap();
        let frames = mk(i, k == "v");
        // the receiver's reads between polls happen on a task of their own and are collected afterwards
        let (tx, mut rx) = tokio::sync::mpsc::unbounded_channel::<Vec<Msg>>();
        let rcv2 = rcv.clone();
        let between = move || -> std::pin::Pin<Box<dyn std::future::Future<Output = ()> + Send>> {
          let rcv3 = rcv2.clone();
          let tx2 = tx.clone();
          Box::pin(async move {
            if with_reads {
              if let Ok(Ok(fr)) = tokio::time::timeout(Duration::from_millis(40), rcv3.recv_multipart()).await {
                let _ = tx2.send(fr);
              }
            } else {
              tokio::time::sleep(Duration::from_millis(2)).await;
            }
          })
        };
        let out = if k == "v" && sty != "ROUTER" {
          poll_k_then_drop(snd.send(frames.into_iter().next().unwrap()), polls, between).await
        } else {
          poll_k_then_drop(snd.send_multipart(frames), polls, between).await
        };
        match out {
          Some(Ok(())) => fate.push((i, Fate::Accepted)),
          Some(Err(_)) => fate.push((i, Fate::Refused)),
          None => fate.push((i, Fate::Dropped)),
        }
        while let Ok(fr) = rx.try_recv() {
          partial.extend(fr);
          if !partial.last().map(|f| f.is_more()).unwrap_or(false) {
            got.push(std::mem::take(&mut partial));
          }
        }
      }
      // `m<i>:<k>[r]`: message i sent FRAME BY FRAME with send(): all frames but the last are sent normally, the future of the
      // LAST frame's send() is polled at most k times and then dropped
      "m" => {
        let with_reads = arg.ends_with('r');
        let a = arg.trim_end_matches('r');
        let (is, ks) = a.split_once(':').unwrap();
        let i: usize = is.parse().unwrap();
        let polls: usize = ks.parse().unwrap();
        let mut frames = mk(i, false);
        let last = frames.pop().unwrap();
        let mut refused = false;
        for f in frames {
          match tokio::time::timeout(Duration::from_secs(5), snd.send(f)).await {
            Ok(Ok(())) => {}
            _ => {
              refused = true;
              break;
            }
          }
        }
        if refused {
          // the message was never completed: whatever was buffered of it must not surface later
          fate.push((i, Fate::Refused));
        } else {
          let rcv2 = rcv.clone();
          let (tx, mut rx) = tokio::sync::mpsc::unbounded_channel::<Vec<Msg>>();
          let between = move || -> std::pin::Pin<Box<dyn std::future::Future<Output = ()> + Send>> {
            let rcv3 = rcv2.clone();
            let tx2 = tx.clone();
            Box::pin(async move {
              if with_reads {
                if let Ok(Ok(fr)) = tokio::time::timeout(Duration::from_millis(40), rcv3.recv_multipart()).await {
                  let _ = tx2.send(fr);
                }
              } else {
                tokio::time::sleep(Duration::from_millis(2)).await;
              }
            })
          };
          match poll_k_then_drop(snd.send(last), polls, between).await {
            Some(Ok(())) => fate.push((i, Fate::Accepted)),
            Some(Err(_)) => fate.push((i, Fate::Refused)),
            None => fate.push((i, Fate::Dropped)),
          }
          while let Ok(fr) = rx.try_recv() {
            partial.extend(fr);
            if !partial.last().map(|f| f.is_more()).unwrap_or(false) {
              got.push(std::mem::take(&mut partial));
            }
          }
        }
      }
      "R" | "F" => {
        let _ = take(&rcv, k == "F", &mut got, &mut partial).await;
      }
      "d" | "f" if op != "fill" => {
        let with_sends = arg.ends_with('s');
        let a = arg.trim_end_matches('s').trim_start_matches(':');
        let polls: usize = a.parse().unwrap();
        let snd2 = snd.clone();
        let sent_between = std::sync::Arc::new(std::sync::Mutex::new(Vec::<(usize, bool)>::new()));
        let sb = sent_between.clone();
        let first_auto = next_auto;
        let counter = std::sync::Arc::new(std::sync::atomic::AtomicUsize::new(first_auto));
        let c2 = counter.clone();
        let sty2 = sty.clone();
        let between = move || -> std::pin::Pin<Box<dyn std::future::Future<Output = ()> + Send>> {
          let snd3 = snd2.clone();
          let sb2 = sb.clone();
          let c3 = c2.clone();
          let sty3 = sty2.clone();
          Box::pin(async move {
            if with_sends {
              let i = c3.fetch_add(1, std::sync::atomic::Ordering::SeqCst);
              let mut v = Vec::new();
              if sty3 == "ROUTER" {
                let mut idf = Msg::from_static(b"peer");
                idf.set_flags(rzmq::MsgFlags::MORE);
                v.push(idf);
              }
              for kk in 0..3u8 {
                let mut b = vec![(i % 251) as u8; 64];
                b[0] = i as u8;
                b[1] = kk;
                b[2] = 3;
                let mut m = Msg::from_vec(b);
                if kk < 2 {
                  m.set_flags(rzmq::MsgFlags::MORE);
                }
                v.push(m);
              }
              let ok = matches!(tokio::time::timeout(Duration::from_secs(2), snd3.send_multipart(v)).await, Ok(Ok(())));
              sb2.lock().unwrap().push((i, ok));
              tokio::time::sleep(Duration::from_millis(15)).await;
            } else {
              tokio::time::sleep(Duration::from_millis(2)).await;
            }
          })
        };
        if k == "d" {
          if let Some(Ok(fr)) = poll_k_then_drop(rcv.recv_multipart(), polls, between).await {
            partial.extend(fr);
            if !partial.last().map(|f| f.is_more()).unwrap_or(false) {
              got.push(std::mem::take(&mut partial));
            }
          }
        } else if let Some(Ok(f)) = poll_k_then_drop(rcv.recv(), polls, between).await {
          let more = f.is_more();
          partial.push(f);
          if !more {
            got.push(std::mem::take(&mut partial));
          }
        }
        for (i, ok) in sent_between.lock().unwrap().iter() {
          fate.push((*i, if *ok { Fate::Accepted } else { Fate::Refused }));
        }
        next_auto = counter.load(std::sync::atomic::Ordering::SeqCst);
      }
      "w" => tokio::time::sleep(Duration::from_millis(arg.parse().unwrap_or(1))).await,
      // `fill`: send (ids 100..) until a send is refused: from here on calls meet back-pressure
      "f" if op == "fill" => {}
      _ => {}
    }
    if op == "fill" {
      // (the option is not touched here: a SNDTIMEO that changes while connections exist is a scenario of its own, C14)
      let unlimited = geti("sndtimeo", 150) < 0;
      for i in 100..190usize {
        let r = if unlimited {
          // a send that waits without limit shows back-pressure by staying pending: give it 4 polls, then drop it
          let idle = || -> std::pin::Pin<Box<dyn std::future::Future<Output = ()> + Send>> {
            Box::pin(async { tokio::time::sleep(Duration::from_millis(15)).await })
          };
          match poll_k_then_drop(snd.send_multipart(mk(i, false)), 4, idle).await {
            Some(x) => Ok(x),
            None => {
              fate.push((i, Fate::Dropped));
              break;
            }
          }
        } else {
          tokio::time::timeout(Duration::from_secs(5), snd.send_multipart(mk(i, false))).await
        };
        match r {
          Ok(Ok(())) => fate.push((i, Fate::Accepted)),
          Ok(Err(_)) => {
            fate.push((i, Fate::Refused));
            break;
          }
          Err(_) => {
            problems.push(format!("key=cancel-send-hangs send of message {} did not return in 5 s", i));
            fate.push((i, Fate::Dropped));
            break;
          }
        }
      }
    }
  }
  // drain: until nothing has arrived for a while (2 s: a TCP flow that was stalled for long restarts at the kernel's pace)
  let mut idle = 0;
  while idle < 7 {
    if take(&rcv, false, &mut got, &mut partial).await {
      idle = 0;
    } else {
      idle += 1;
    }
  }
  // the final exchange: both sockets still work
  let probe = 199usize;
  let _ = set_i32(&snd, o::SNDTIMEO, 3000).await;
  for attempt in 0..3usize {
    let probe = probe - attempt; // a probe that was given up may still arrive: each attempt has its own number
    let probe_t0 = Instant::now();
    match tokio::time::timeout(Duration::from_secs(5), snd.send_multipart(mk(probe, false))).await {
      Ok(Ok(())) => {
        fate.push((probe, Fate::Accepted));
        break;
      }
      Ok(Err(e)) => {
        problems.push(format!(
          "key=cancel-unusable the send after the script is refused: {} (after {} ms; the receiver had drained everything and SNDTIMEO is 3000 ms)",
          err_class(&e),
          probe_t0.elapsed().as_millis()
        ));
        break;
      }
      Err(_) => {
        // does the receiver still find messages? then the drain above had ended early (a starved host) and the sender was
        // rightly waiting for room: drain and try again. If nothing can be read, the sender is stuck.
        let mut more = 0;
        while take(&rcv, false, &mut got, &mut partial).await {
          more += 1;
        }
        if more == 0 || attempt == 2 {
          problems.push(format!(
            "key=cancel-unusable the send after the script hangs (5 s; {} message(s) could still be read afterwards)",
            more
          ));
          break;
        }
      }
    }
  }
  let mut idle = 0;
  while idle < 2 {
    if take(&rcv, false, &mut got, &mut partial).await {
      idle = 0;
    } else {
      idle += 1;
    }
  }
  let _ = tokio::time::timeout(Duration::from_secs(3), snd.close()).await;
  let _ = tokio::time::timeout(Duration::from_secs(3), rcv.close()).await;
  let _ = tokio::time::timeout(Duration::from_secs(12), ctx.term()).await;
  // --- oracle
  let skip = if rty == "ROUTER" { 1 } else { 0 };
  let mut seen: Vec<usize> = Vec::new();
  if !partial.is_empty() {
    problems.push(format!("key=cancel-torn {} frame(s) of an unfinished message were delivered and the rest never came", partial.len()));
  }
  for m in &got {
    let shape: Vec<(u8, u8, u8, usize)> = m
      .iter()
      .skip(skip)
      .map(|f| {
        let b = f.data().unwrap_or(&[]);
        (b.first().copied().unwrap_or(255), b.get(1).copied().unwrap_or(255), b.get(2).copied().unwrap_or(255), b.len())
      })
      .collect();
    let whole = !shape.is_empty()
      && shape.len() == shape[0].2 as usize
      && shape.iter().enumerate().all(|(j, x)| x.0 == shape[0].0 && x.1 as usize == j && x.2 == shape[0].2)
      && m.iter().skip(skip).enumerate().all(|(j, f)| f.is_more() == (j + 1 < shape.len()))
      && m.iter().skip(skip).all(|f| f.data().map(|b| b[3..].iter().all(|x| *x == b[0] % 251 || *x == (b[0] as usize % 251) as u8)).unwrap_or(false));
    if !whole {
      problems.push(format!("key=cancel-torn a message arrived as the frames {:?}", shape.iter().map(|x| (x.0, x.1, x.2)).collect::<Vec<_>>()));
      continue;
    }
    let id = shape[0].0 as usize;
    if seen.contains(&id) {
      problems.push(format!("key=cancel-duplicate message {} arrived twice", id));
    }
    seen.push(id);
  }
  let accepted: Vec<usize> = fate.iter().filter(|(_, f)| *f == Fate::Accepted).map(|(i, _)| *i).collect();
  // a PUB may drop whole messages at its high-water mark: for it "accepted" does not promise arrival
  let lossy = sty == "PUB";
  for i in &accepted {
    if !lossy && !seen.contains(i) {
      problems.push(format!("key=cancel-lost message {} was accepted by send() and never arrived", i));
    }
  }
  for (i, f) in &fate {
    if *f == Fate::Refused && seen.contains(i) {
      problems.push(format!("key=cancel-refused-delivered message {} arrived although its send() returned an error", i));
    }
  }
  // order: accepted messages sent by the script's own task arrive in the order of their calls (messages sent between
  // the polls of a receive come from another task and are only ordered among themselves)
  let order: Vec<usize> = seen.iter().copied().filter(|i| accepted.contains(i) && *i < 190).collect();
  let want: Vec<usize> = accepted.iter().copied().filter(|i| *i < 190).collect();
  let want: Vec<usize> = if lossy { want.into_iter().filter(|i| order.contains(i)).collect() } else { want };
  if order != want && problems.is_empty() {
    problems.push(format!("key=cancel-order accepted {:?}, arrived {:?}", want, order));
  }
  if problems.is_empty() {
    if std::env::var("VERIF_CANCEL_STATS").is_ok() {
      let c = |w: Fate| fate.iter().filter(|(_, f)| *f == w).count();
      return format!("cancel=ok accepted={} refused={} dropped={} arrived={}", c(Fate::Accepted), c(Fate::Refused), c(Fate::Dropped), seen.len());
    }
    "cancel=ok".into()
  } else {
    problems.truncate(4);
    if std::env::var("VERIF_CANCEL_STATS").is_ok() {
      let c = |w: Fate| fate.iter().filter(|(_, f)| *f == w).count();
      problems.push(format!("[accepted={} refused={} dropped={} arrived={}]", c(Fate::Accepted), c(Fate::Refused), c(Fate::Dropped), seen.len()));
    }
    format!("ORACLE-FAIL {}", problems.join("; "))
  }
}

/// `pubstall <sndhwm> <messages> <size>`
/// A PUB socket has a healthy rzmq SUB and a raw TCP subscriber that subscribes to everything and then never reads.
/// The publisher must never be blocked by the stalled one (every send() returns within a second) and the healthy
/// subscriber gets every message, in publication order.
async fn pubstall(p: &[&str]) -> String {
  let sndhwm: i32 = p[1].parse().unwrap();
  let n: u32 = p[2].parse().unwrap();
  let size: usize = p[3].parse().unwrap();
  let ctx = Context::new().expect("ctx");
  let publ = ctx.socket(SocketType::Pub).unwrap();
  let _ = set_i32(&publ, o::SNDHWM, sndhwm).await;
  if publ.bind("tcp://127.0.0.1:0").await.is_err() {
    return "setup-error bind".into();
  }
  let ep = last_endpoint(&publ).await;
  let sub = ctx.socket(SocketType::Sub).unwrap();
  let _ = set_i32(&sub, o::RCVHWM, 100000).await;
  let _ = set_i32(&sub, o::RCVTIMEO, 1500).await;
  let _ = sub.set_option_raw(o::SUBSCRIBE, b"").await;
  if sub.connect(&ep).await.is_err() {
    return "setup-error connect".into();
  }
  // the stalled subscriber: greeting, READY(SUB), SUBSCRIBE "", then silence with a tiny receive window
  let mut raw = match TcpStream::connect(ep.trim_start_matches("tcp://")).await {
    Ok(s) => s,
    Err(_) => return "setup-error raw connect".into(),
  };
  let mut g = vec![0xffu8, 0, 0, 0, 0, 0, 0, 0, 1, 0x7f, 3, 0];
  let mut mech = b"NULL".to_vec();
  mech.resize(20, 0);
  g.extend_from_slice(&mech);
  g.push(0);
  g.resize(64, 0);
  let mut ready = vec![5u8];
  ready.extend_from_slice(b"READY");
  ready.push(11);
  ready.extend_from_slice(b"Socket-Type");
  ready.extend_from_slice(&3u32.to_be_bytes());
  ready.extend_from_slice(b"SUB");
  let mut hs = g;
  hs.push(0x04);
  hs.push(ready.len() as u8);
  hs.extend_from_slice(&ready);
  hs.extend_from_slice(&[0x00, 0x01, 0x01]); // SUBSCRIBE ""
  if raw.write_all(&hs).await.is_err() {
    return "setup-error raw write".into();
  }
  tokio::time::sleep(Duration::from_millis(400)).await;
  let sub2 = sub.clone();
  let reader = tokio::spawn(async move {
    let mut seqs = Vec::new();
    loop {
      match sub2.recv().await {
        Ok(m) => {
          let b = m.data().unwrap_or(&[]);
          if b.len() >= 4 {
            seqs.push(u32::from_be_bytes([b[0], b[1], b[2], b[3]]));
          }
        }
        Err(_) => break,
      }
    }
    seqs
  });
  let mut worst = Duration::ZERO;
  let mut blocked_at: Option<u32> = None;
  for i in 0..n {
    let mut body = vec![7u8; size.max(4)];
    body[..4].copy_from_slice(&i.to_be_bytes());
    let t0 = Instant::now();
    match tokio::time::timeout(Duration::from_secs(4), publ.send(Msg::from_vec(body))).await {
      Ok(_) => worst = worst.max(t0.elapsed()),
      Err(_) => {
        blocked_at = Some(i);
        break;
      }
    }
    tokio::time::sleep(Duration::from_millis(2)).await;
  }
  let seqs = reader.await.unwrap_or_default();
  drop(raw);
  let _ = tokio::time::timeout(Duration::from_secs(3), sub.close()).await;
  let _ = tokio::time::timeout(Duration::from_secs(3), publ.close()).await;
  let _ = tokio::time::timeout(Duration::from_secs(12), ctx.term()).await;
  if let Some(i) = blocked_at {
    return format!("ORACLE-FAIL key=pub-blocked send #{} did not return within 4 s because one subscriber does not read", i);
  }
  if worst > Duration::from_millis(1000) {
    return format!("ORACLE-FAIL key=pub-blocked a send took {} ms because one subscriber does not read", worst.as_millis());
  }
  let in_order = seqs.windows(2).all(|w| w[0] < w[1]);
  if !in_order {
    return format!("ORACLE-FAIL key=pub-order the healthy subscriber saw {:?}...", &seqs[..seqs.len().min(12)]);
  }
  if seqs.len() as u32 != n {
    return format!("ORACLE-FAIL key=pub-delayed the healthy subscriber got {} of {} messages while another subscriber stalled", seqs.len(), n);
  }
  "pubstall=ok".into()
}
