//! Stack-level scenarios (real sockets). Each scenario returns one canonical line.

use crate::*;
use rzmq::socket::events::SocketEvent;
use rzmq::socket::options as o;
use rzmq::{Context, Msg, Socket, SocketType, ZmqError};
use std::collections::HashMap;
use std::time::{Duration, Instant};
use tokio::io::{AsyncReadExt, AsyncWriteExt};
use tokio::net::{TcpListener, TcpStream};

pub fn socket_type(name: &str) -> SocketType {
  match name {
    "PUB" => SocketType::Pub,
    "SUB" => SocketType::Sub,
    "REQ" => SocketType::Req,
    "REP" => SocketType::Rep,
    "DEALER" => SocketType::Dealer,
    "ROUTER" => SocketType::Router,
    "PULL" => SocketType::Pull,
    "PUSH" => SocketType::Push,
    _ => panic!("socket type {name}"),
  }
}

pub fn parse_kv(s: &str) -> HashMap<String, String> {
  let mut m = HashMap::new();
  if s == "-" {
    return m;
  }
  for kv in s.split(',') {
    if let Some((k, v)) = kv.split_once('=') {
      m.insert(k.to_string(), v.to_string());
    }
  }
  m
}

async fn set_i32(s: &Socket, opt: i32, v: i32) -> Result<(), ZmqError> {
  s.set_option_raw(opt, &v.to_ne_bytes()).await
}

/// Creates a socket from the shared cfg grammar (engine keys + stack-only keys).
pub async fn make_socket(ctx: &Context, cfg: &HashMap<String, String>) -> Result<Socket, ZmqError> {
  let ty = cfg.get("type").map(|s| s.as_str()).unwrap_or("DEALER");
  let s = ctx.socket(socket_type(ty))?;
  for (k, v) in cfg {
    match k.as_str() {
      "type" | "role" => {}
      "id" => {
        let b = parse_bytes(v);
        if !b.is_empty() {
          s.set_option_raw(o::ROUTING_ID, &b).await?;
        }
      }
      "plain" => {
        if v == "1" {
          let server = cfg.get("role").map(|r| r == "s").unwrap_or(false);
          set_i32(&s, o::PLAIN_SERVER, server as i32).await?;
        }
      }
      "user" => {
        if v != "none" {
          s.set_option_raw(o::PLAIN_USERNAME, &parse_bytes(v)).await?;
        }
      }
      "pass" => {
        if v != "none" {
          s.set_option_raw(o::PLAIN_PASSWORD, &parse_bytes(v)).await?;
        }
      }
      "sec" | "curve" | "noise" => {}
      "zmtp2" => set_i32(&s, o::ALLOW_ZMTP2, v.parse().unwrap()).await?,
      "hbivl" => {
        if v != "none" {
          set_i32(&s, o::HEARTBEAT_IVL, v.parse().unwrap()).await?
        }
      }
      "hbto" => {
        if v != "none" {
          set_i32(&s, o::HEARTBEAT_TIMEOUT, v.parse().unwrap()).await?
        }
      }
      "cork" => set_i32(&s, o::TCP_CORK, v.parse().unwrap()).await?,
      "zc" => {}
      "max" => s.set_option_raw(o::MAXMSGSIZE, &v.parse::<i64>().unwrap().to_ne_bytes()).await?,
      "sndhwm" => set_i32(&s, o::SNDHWM, v.parse().unwrap()).await?,
      "rcvhwm" => set_i32(&s, o::RCVHWM, v.parse().unwrap()).await?,
      "linger" => set_i32(&s, o::LINGER, v.parse().unwrap()).await?,
      "sndtimeo" => set_i32(&s, o::SNDTIMEO, v.parse().unwrap()).await?,
      "rcvtimeo" => set_i32(&s, o::RCVTIMEO, v.parse().unwrap()).await?,
      "hsivl" => set_i32(&s, o::HANDSHAKE_IVL, v.parse().unwrap()).await?,
      "sbc" => set_i32(&s, o::SNDBATCH_COUNT, v.parse().unwrap()).await?,
      "sbb" => set_i32(&s, o::SNDBATCH_BYTES, v.parse().unwrap()).await?,
      "rbc" => set_i32(&s, o::RCVBATCH_COUNT, v.parse().unwrap()).await?,
      "rbb" => set_i32(&s, o::RCVBATCH_BYTES, v.parse().unwrap()).await?,
      "mandatory" => set_i32(&s, o::ROUTER_MANDATORY, v.parse().unwrap()).await?,
      "autodelim" => set_i32(&s, o::AUTO_DELIMITER, v.parse().unwrap()).await?,
      "rivl" => set_i32(&s, o::RECONNECT_IVL, v.parse().unwrap()).await?,
      "rivlmax" => set_i32(&s, o::RECONNECT_IVL_MAX, v.parse().unwrap()).await?,
      "uring" => set_i32(&s, o::IO_URING_SESSION_ENABLED, v.parse().unwrap()).await?,
      _ => {}
    }
  }
  Ok(s)
}

pub async fn last_endpoint(s: &Socket) -> String {
  String::from_utf8(s.get_option(o::LAST_ENDPOINT).await.unwrap_or_default()).unwrap_or_default()
}

pub fn show_msg(frames: &[Msg]) -> String {
  format!("D({})", show_frames(frames.iter()))
}

/// Collect whole messages with `recv_multipart` until nothing arrives for `idle` *after* `done` was set
/// (the scripted peer finished writing), or `hard` elapsed.
pub async fn collect_messages_until(
  s: &Socket,
  idle: Duration,
  hard: Duration,
  strip_first: bool,
  done: &std::sync::atomic::AtomicBool,
) -> Vec<String> {
  let mut out = Vec::new();
  let t0 = Instant::now();
  loop {
    if t0.elapsed() > hard {
      break;
    }
    let was_done = done.load(std::sync::atomic::Ordering::Acquire);
    match tokio::time::timeout(idle, s.recv_multipart()).await {
      Ok(Ok(mut frames)) => {
        if strip_first && !frames.is_empty() {
          frames.remove(0);
        }
        out.push(show_msg(&frames));
      }
      Ok(Err(ZmqError::Timeout)) | Err(_) => {
        if was_done {
          break;
        }
      }
      Ok(Err(e)) => {
        out.push(format!("E({})", err_class(&e)));
        break;
      }
    }
  }
  out
}

pub async fn collect_messages(s: &Socket, idle: Duration, hard: Duration, strip_first: bool) -> Vec<String> {
  let done = std::sync::atomic::AtomicBool::new(true);
  collect_messages_until(s, idle, hard, strip_first, &done).await
}

pub async fn scenario(line: &str) -> String {
  let p: Vec<&str> = line.split(' ').collect();
  match p[0] {
    "note" => "note".to_string(),
    "rawpeer" => rawpeer(&p).await,
    "slowdrip" => slowdrip(&p).await,
    "compat" => compat(&p).await,
    "hostile" => hostile(&p).await,
    "reqrace" => reqrace(&p).await,
    "reprace" => reprace(&p).await,
    "reqstale" => reqstale(&p).await,
    "stream" => stream(&p).await,
    "faultlocal" => faultlocal(&p).await,
    _ => "bad-op".to_string(),
  }
}

/// Write `data` in the given segmentation, pausing between writes so that the receiver's reads
/// (very likely) see the same boundaries.
async fn write_chunks(stream: &mut (impl AsyncWriteExt + Unpin), data: &[u8], cuts: &str, gap: Duration) -> std::io::Result<()> {
  for ch in crate::wire::chunks(data, cuts) {
    if ch.is_empty() {
      continue;
    }
    stream.write_all(ch).await?;
    stream.flush().await?;
    tokio::time::sleep(gap).await;
  }
  Ok(())
}

/// `rawpeer <cfg> <bytes> <cuts> [gap_ms]`
/// A raw TCP peer plays the byte transcript against a real rzmq socket (role s: rzmq listens and the raw
/// peer connects; role c: rzmq connects to a raw listener), with the given write boundaries. Reports what
/// the application received and whether the monitor saw the handshake succeed.
async fn rawpeer(p: &[&str]) -> String {
  let cfg = parse_kv(p[1]);
  let data = parse_bytes(p[2]);
  let cuts = p[3];
  let gap = Duration::from_millis(p.get(4).and_then(|s| s.parse().ok()).unwrap_or(15));
  let ctx = Context::new().expect("ctx");
  let sock = match make_socket(&ctx, &cfg).await {
    Ok(s) => s,
    Err(e) => return format!("setup-error {}", err_class(&e)),
  };
  let ty = cfg.get("type").cloned().unwrap_or_default();
  if ty == "SUB" {
    let _ = sock.set_option_raw(o::SUBSCRIBE, b"").await;
  }
  let monitor = sock.monitor_default().await.ok();
  let server = cfg.get("role").map(|r| r == "s").unwrap_or(true);

  let mut stream: TcpStream;
  if server {
    if let Err(e) = sock.bind("tcp://127.0.0.1:0").await {
      return format!("setup-error bind {}", err_class(&e));
    }
    let ep = last_endpoint(&sock).await;
    let addr = ep.trim_start_matches("tcp://").to_string();
    stream = match TcpStream::connect(&addr).await {
      Ok(s) => s,
      Err(_) => return "setup-error connect".into(),
    };
  } else {
    let l = TcpListener::bind("127.0.0.1:0").await.unwrap();
    let addr = l.local_addr().unwrap();
    if let Err(e) = sock.connect(&format!("tcp://{}", addr)).await {
      return format!("setup-error connect {}", err_class(&e));
    }
    stream = match tokio::time::timeout(Duration::from_secs(5), l.accept()).await {
      Ok(Ok((s, _))) => s,
      _ => return "setup-error accept".into(),
    };
  }
  let _ = stream.set_nodelay(true);
  let (mut rd, mut wr) = stream.into_split();
  // drain whatever rzmq sends so that it never blocks on us
  let (seen_tx, mut seen_rx) = tokio::sync::watch::channel(0usize);
  let drain = tokio::spawn(async move {
    let mut buf = vec![0u8; 65536];
    let mut total = 0usize;
    loop {
      match rd.read(&mut buf).await {
        Ok(0) | Err(_) => break,
        Ok(n) => {
          total += n;
          let _ = seen_tx.send(total);
        }
      }
    }
    total
  });
  // Do not start writing before rzmq's session exists and has sent its signature: otherwise several
  // of our writes would pile up in the kernel buffer and arrive as one read.
  let _ = tokio::time::timeout(Duration::from_millis(1500), async {
    while *seen_rx.borrow() < 10 {
      if seen_rx.changed().await.is_err() {
        break;
      }
    }
  })
  .await;
  let cuts_owned = cuts.to_string();
  let done = std::sync::Arc::new(std::sync::atomic::AtomicBool::new(false));
  let done2 = done.clone();
  let writer = tokio::spawn(async move {
    let _ = write_chunks(&mut wr, &data, &cuts_owned, gap).await;
    done2.store(true, std::sync::atomic::Ordering::Release);
    wr
  });
  let strip = ty == "ROUTER";
  let msgs = collect_messages_until(&sock, Duration::from_millis(350), Duration::from_secs(30), strip, &done).await;
  let wr = writer.await.ok();
  let mut hs = "none";
  if let Some(m) = monitor.as_ref() {
    while let Ok(ev) = m.try_recv() {
      match ev {
        SocketEvent::HandshakeSucceeded { .. } => hs = "ok",
        SocketEvent::HandshakeFailed { .. } => {
          if hs == "none" {
            hs = "failed"
          }
        }
        _ => {}
      }
    }
  }
  drop(wr);
  drain.abort();
  let _ = tokio::time::timeout(Duration::from_secs(5), sock.close()).await;
  let _ = tokio::time::timeout(Duration::from_secs(5), ctx.term()).await;
  format!("recv=[{}] hs={}", msgs.join(" "), if hs == "ok" { "ok" } else { "no" })
}

/// `slowdrip <cfg> <interval_ms> <bytes>`
/// A raw peer connects to an rzmq listener and sends one byte of `bytes` every `interval_ms` (cfg key
/// `hsivl` = HANDSHAKE_IVL in ms). Reports when rzmq gave up on the connection, relative to HANDSHAKE_IVL:
/// `closed=in-time` (by hsivl + 1 s), `closed=late`, or `closed=never` (still open after hsivl*4 + 2 s).
async fn slowdrip(p: &[&str]) -> String {
  let cfg = parse_kv(p[1]);
  let interval = Duration::from_millis(p[2].parse().unwrap());
  let data = parse_bytes(p[3]);
  let hsivl: u64 = cfg.get("hsivl").and_then(|v| v.parse().ok()).unwrap_or(15000);
  let ctx = Context::new().expect("ctx");
  let sock = match make_socket(&ctx, &cfg).await {
    Ok(s) => s,
    Err(e) => return format!("setup-error {}", err_class(&e)),
  };
  if let Err(e) = sock.bind("tcp://127.0.0.1:0").await {
    return format!("setup-error bind {}", err_class(&e));
  }
  let ep = last_endpoint(&sock).await;
  let stream = match TcpStream::connect(ep.trim_start_matches("tcp://")).await {
    Ok(s) => s,
    Err(_) => return "setup-error connect".into(),
  };
  let _ = stream.set_nodelay(true);
  let t0 = Instant::now();
  let (mut rd, mut wr) = stream.into_split();
  let writer = tokio::spawn(async move {
    for b in data {
      if wr.write_all(&[b]).await.is_err() {
        break;
      }
      tokio::time::sleep(interval).await;
    }
    // keep the write half open until the reader side reports the close
    tokio::time::sleep(Duration::from_secs(60)).await;
    drop(wr);
  });
  let hard = Duration::from_millis(hsivl * 4 + 2000);
  let mut buf = vec![0u8; 4096];
  let closed_at = loop {
    match tokio::time::timeout(hard.saturating_sub(t0.elapsed()), rd.read(&mut buf)).await {
      Ok(Ok(0)) | Ok(Err(_)) => break Some(t0.elapsed()),
      Ok(Ok(_)) => continue,
      Err(_) => break None,
    }
  };
  writer.abort();
  let _ = tokio::time::timeout(Duration::from_secs(5), sock.close()).await;
  let _ = tokio::time::timeout(Duration::from_secs(5), ctx.term()).await;
  match closed_at {
    Some(d) if d <= Duration::from_millis(hsivl + 1000) => "closed=in-time".into(),
    Some(d) => format!("ORACLE-FAIL key=handshake-deadline closed=late after_ms~{} hsivl={}", (d.as_millis() / 100) * 100, hsivl),
    None => format!("ORACLE-FAIL key=handshake-deadline closed=never hsivl={}", hsivl),
  }
}

static UNIQ: std::sync::atomic::AtomicUsize = std::sync::atomic::AtomicUsize::new(0);

pub fn unique_name(prefix: &str) -> String {
  format!(
    "{}-{}-{}",
    prefix,
    std::process::id(),
    UNIQ.fetch_add(1, std::sync::atomic::Ordering::Relaxed)
  )
}

async fn wait_handshake(m: &rzmq::socket::events::MonitorReceiver, total: Duration) -> &'static str {
  let t0 = Instant::now();
  while t0.elapsed() < total {
    match tokio::time::timeout(Duration::from_millis(50), m.recv()).await {
      Ok(Ok(SocketEvent::HandshakeSucceeded { .. })) => return "ok",
      Ok(Ok(SocketEvent::HandshakeFailed { .. })) => return "no",
      Ok(Ok(SocketEvent::ConnectFailed { .. })) => return "no",
      Ok(Ok(_)) => {}
      Ok(Err(_)) => return "no",
      Err(_) => {}
    }
  }
  "no"
}

/// `compat <tcp|ipc|inproc> <binder cfg> <connector cfg>`
/// One socket binds, the other connects; reports whether each side saw the handshake succeed
/// (`bind=ok|no conn=ok|no`; for inproc the connector's verdict is the result of `connect()`).
async fn compat(p: &[&str]) -> String {
  let transport = p[1];
  let ca = parse_kv(p[2]);
  let cb = parse_kv(p[3]);
  let ctx = Context::new().expect("ctx");
  let a = match make_socket(&ctx, &ca).await {
    Ok(s) => s,
    Err(e) => return format!("setup-error {}", err_class(&e)),
  };
  let b = match make_socket(&ctx, &cb).await {
    Ok(s) => s,
    Err(e) => return format!("setup-error {}", err_class(&e)),
  };
  let ma = a.monitor_default().await.unwrap();
  let mb = b.monitor_default().await.unwrap();
  let ep = match transport {
    "tcp" => "tcp://127.0.0.1:0".to_string(),
    "ipc" => format!("ipc:///tmp/{}.sock", unique_name("rzmq-verif")),
    _ => format!("inproc://{}", unique_name("compat")),
  };
  if let Err(e) = a.bind(&ep).await {
    return format!("setup-error bind {}", err_class(&e));
  }
  let target = if transport == "tcp" { last_endpoint(&a).await } else { ep.clone() };
  let res = b.connect(&target).await;
  let out = if transport == "inproc" {
    let conn = if res.is_ok() { "ok" } else { "no" };
    // the binder must stay usable whatever the verdict: a second, compatible connector still gets in
    format!("bind=- conn={}", conn)
  } else {
    let (ra, rb) = tokio::join!(
      wait_handshake(&ma, Duration::from_millis(1500)),
      wait_handshake(&mb, Duration::from_millis(1500))
    );
    format!("bind={} conn={}", ra, rb)
  };
  let _ = tokio::time::timeout(Duration::from_secs(5), b.close()).await;
  let _ = tokio::time::timeout(Duration::from_secs(5), a.close()).await;
  let _ = tokio::time::timeout(Duration::from_secs(5), ctx.term()).await;
  if transport == "ipc" {
    let _ = std::fs::remove_file(ep.trim_start_matches("ipc://"));
  }
  out
}

/// `faultlocal <tcp|ipc|inproc> <fault>`
/// A PULL socket binds; a healthy PUSH exchanges traffic with it before, during and after a fault injected
/// through ANOTHER connection of the same PULL socket. Faults: `mismatch` (a PUB socket connects: wrong
/// socket type), `garbage` (raw peer sends junk), `rst` (raw peer connects and drops), `halfgreeting`
/// (raw peer sends half a greeting and goes silent), `badframe` (valid handshake, then an oversized header).
/// Result: `healthy=ok` if every healthy message arrived in order, else an ORACLE-FAIL line.
async fn faultlocal(p: &[&str]) -> String {
  let transport = p[1];
  let fault = p[2];
  let ctx = Context::new().expect("ctx");
  let pull = ctx.socket(SocketType::Pull).unwrap();
  let _ = set_i32(&pull, o::RCVTIMEO, 2000).await;
  let ep = match transport {
    "tcp" => "tcp://127.0.0.1:0".to_string(),
    "ipc" => format!("ipc:///tmp/{}.sock", unique_name("rzmq-verif-fl")),
    _ => format!("inproc://{}", unique_name("faultlocal")),
  };
  if let Err(e) = pull.bind(&ep).await {
    return format!("setup-error bind {}", err_class(&e));
  }
  let target = if transport == "tcp" { last_endpoint(&pull).await } else { ep.clone() };
  let push = ctx.socket(SocketType::Push).unwrap();
  let _ = set_i32(&push, o::SNDTIMEO, 2000).await;
  if let Err(e) = push.connect(&target).await {
    return format!("setup-error connect {}", err_class(&e));
  }
  let mut got = Vec::new();
  let mut failure: Option<String> = None;
  // phase 1: before the fault
  for i in 0..3u8 {
    if let Err(e) = push.send(Msg::from_vec(vec![b'h', i])).await {
      failure = Some(format!("send-before {}", err_class(&e)));
      break;
    }
  }
  for _ in 0..3 {
    match pull.recv().await {
      Ok(m) => got.push(m.data().unwrap_or(&[]).to_vec()),
      Err(e) => {
        failure = Some(format!("recv-before {}", err_class(&e)));
        break;
      }
    }
  }
  // the fault, on a second connection
  let mut keep: Vec<Box<dyn std::any::Any + Send>> = Vec::new();
  if failure.is_none() {
    match fault {
      "mismatch" => {
        let bad = ctx.socket(SocketType::Pub).unwrap();
        let _ = tokio::time::timeout(Duration::from_secs(3), bad.connect(&target)).await;
        tokio::time::sleep(Duration::from_millis(150)).await;
        keep.push(Box::new(bad));
      }
      "garbage" | "rst" | "halfgreeting" | "badframe" if transport == "tcp" => {
        if let Ok(mut st) = TcpStream::connect(target.trim_start_matches("tcp://")).await {
          match fault {
            "garbage" => {
              let _ = st.write_all(&[0x13u8; 200]).await;
            }
            "halfgreeting" => {
              let _ = st.write_all(&[0xFF, 0, 0, 0, 0, 0, 0, 0, 0, 0x7F, 3, 0, b'N', b'U']).await;
            }
            "badframe" => {
              let mut g = vec![0xFFu8, 0, 0, 0, 0, 0, 0, 0, 0, 0x7F, 3, 0];
              g.extend_from_slice(b"NULL");
              g.extend(std::iter::repeat(0u8).take(16 + 1 + 31));
              g.extend_from_slice(b"\x04\x1a\x05READY\x0bSocket-Type\x00\x00\x00\x04PUSH");
              g.extend_from_slice(&[0x02, 0xFF, 0xFF, 0xFF, 0xFF, 0xFF, 0xFF, 0xFF, 0xFF, 1, 2, 3]);
              let _ = st.write_all(&g).await;
            }
            _ => {}
          }
          tokio::time::sleep(Duration::from_millis(100)).await;
          if fault != "halfgreeting" {
            drop(st);
          } else {
            keep.push(Box::new(st));
          }
        }
        tokio::time::sleep(Duration::from_millis(100)).await;
      }
      _ => {}
    }
  }
  // phase 2: after the fault
  if failure.is_none() {
    for i in 3..6u8 {
      match tokio::time::timeout(Duration::from_secs(4), push.send(Msg::from_vec(vec![b'h', i]))).await {
        Ok(Ok(())) => {}
        Ok(Err(e)) => {
          failure = Some(format!("send-after {}", err_class(&e)));
          break;
        }
        Err(_) => {
          failure = Some("send-after never-returned".into());
          break;
        }
      }
    }
  }
  if failure.is_none() {
    for _ in 3..6 {
      match tokio::time::timeout(Duration::from_secs(4), pull.recv()).await {
        Ok(Ok(m)) => got.push(m.data().unwrap_or(&[]).to_vec()),
        Ok(Err(e)) => {
          failure = Some(format!("recv-after {}", err_class(&e)));
          break;
        }
        Err(_) => {
          failure = Some("recv-after never-returned".into());
          break;
        }
      }
    }
  }
  let want: Vec<Vec<u8>> = (0..6u8).map(|i| vec![b'h', i]).collect();
  if failure.is_none() && got != want {
    failure = Some(format!("healthy-traffic-mismatch got={}", got.len()));
  }
  drop(keep);
  let _ = tokio::time::timeout(Duration::from_secs(5), push.close()).await;
  let _ = tokio::time::timeout(Duration::from_secs(5), pull.close()).await;
  let _ = tokio::time::timeout(Duration::from_secs(5), ctx.term()).await;
  if transport == "ipc" {
    let _ = std::fs::remove_file(ep.trim_start_matches("ipc://"));
  }
  match failure {
    None => "healthy=ok".into(),
    Some(f) => format!("ORACLE-FAIL key=failure-not-local:{}:{} {}", transport, fault, f),
  }
}

/// `hostile <cfg> <bytes> <cuts>`
/// A raw TCP peer throws `bytes` (in the given write segmentation) at a listening rzmq socket of type PULL;
/// afterwards a well-behaved PUSH connects to the same listener and its message must arrive: the socket
/// that owned the hostile connection keeps working (C07). Messages from the hostile peer are ignored.
async fn hostile(p: &[&str]) -> String {
  let cfg = parse_kv(p[1]);
  let data = parse_bytes(p[2]);
  let cuts = p[3];
  let ctx = Context::new().expect("ctx");
  let pull = match make_socket(&ctx, &cfg).await {
    Ok(s) => s,
    Err(e) => return format!("setup-error {}", err_class(&e)),
  };
  let _ = set_i32(&pull, o::RCVTIMEO, 300).await;
  if let Err(e) = pull.bind("tcp://127.0.0.1:0").await {
    return format!("setup-error bind {}", err_class(&e));
  }
  let ep = last_endpoint(&pull).await;
  if let Ok(stream) = TcpStream::connect(ep.trim_start_matches("tcp://")).await {
    let _ = stream.set_nodelay(true);
    let (mut rd, mut wr) = stream.into_split();
    let drain = tokio::spawn(async move {
      let mut buf = vec![0u8; 65536];
      while let Ok(n) = rd.read(&mut buf).await {
        if n == 0 {
          break;
        }
      }
    });
    tokio::time::sleep(Duration::from_millis(20)).await;
    let _ = write_chunks(&mut wr, &data, cuts, Duration::from_millis(5)).await;
    tokio::time::sleep(Duration::from_millis(100)).await;
    drop(wr);
    drain.abort();
  }
  // whatever the hostile peer managed to get delivered is drained and ignored
  let _ = collect_messages(&pull, Duration::from_millis(150), Duration::from_secs(3), false).await;
  let push = ctx.socket(SocketType::Push).unwrap();
  let _ = set_i32(&push, o::SNDTIMEO, 3000).await;
  let mut verdict = "survived=ok".to_string();
  if let Err(e) = push.connect(&ep).await {
    verdict = format!("ORACLE-FAIL key=hostile-peer-kills-socket connect {}", err_class(&e));
  } else if let Err(e) = push.send(Msg::new()).await {
    // (an empty message: admitted by every MAXMSGSIZE >= 0)
    verdict = format!("ORACLE-FAIL key=hostile-peer-kills-socket send {}", err_class(&e));
  } else {
    let _ = set_i32(&pull, o::RCVTIMEO, 3000).await;
    match pull.recv().await {
      Ok(m) if m.size() == 0 => {}
      Ok(_) => verdict = "ORACLE-FAIL key=hostile-peer-kills-socket wrong-message".into(),
      Err(e) => verdict = format!("ORACLE-FAIL key=hostile-peer-kills-socket recv {}", err_class(&e)),
    }
  }
  let _ = tokio::time::timeout(Duration::from_secs(5), push.close()).await;
  let _ = tokio::time::timeout(Duration::from_secs(5), pull.close()).await;
  let _ = tokio::time::timeout(Duration::from_secs(5), ctx.term()).await;
  verdict
}

/// `reqrace <tcp|inproc> <tasks> <millis>`
/// `tasks` tasks hammer send()/recv() on clones of one REQ socket (multi-thread runtime). The peer is a ROUTER
/// that answers every request only after a pause; it sees a violation if a second request of the same REQ
/// arrives while one is unanswered (REQ sent twice in a row). Race-free oracle: observed at the peer.
async fn reqrace(p: &[&str]) -> String {
  let transport = p[1];
  let ntasks: usize = p[2].parse().unwrap();
  let millis: u64 = p[3].parse().unwrap();
  let ctx = Context::new().expect("ctx");
  let router = ctx.socket(SocketType::Router).unwrap();
  let _ = set_i32(&router, o::RCVTIMEO, 50).await;
  let ep = if transport == "tcp" { "tcp://127.0.0.1:0".to_string() } else { format!("ipc:///tmp/{}.sock", unique_name("rzmq-verif-reqrace")) };
  if router.bind(&ep).await.is_err() {
    return "setup-error bind".into();
  }
  let target = if transport == "tcp" { last_endpoint(&router).await } else { ep };
  let req = ctx.socket(SocketType::Req).unwrap();
  // no RCVTIMEO: a recv() that times out abandons the exchange by design and a new send is then allowed
  let _ = set_i32(&req, o::SNDTIMEO, 20).await;
  if req.connect(&target).await.is_err() {
    return "setup-error connect".into();
  }
  tokio::time::sleep(Duration::from_millis(150)).await;
  let stop = std::sync::Arc::new(std::sync::atomic::AtomicBool::new(false));
  let mut handles = Vec::new();
  for t in 0..ntasks {
    let r = req.clone();
    let st = stop.clone();
    handles.push(tokio::spawn(async move {
      let mut n: u32 = 0;
      while !st.load(std::sync::atomic::Ordering::Relaxed) {
        n = n.wrapping_add(1);
        if (n.wrapping_mul(2654435761).wrapping_add(t as u32)) % 3 != 0 {
          let _ = r.send(Msg::from_vec(vec![t as u8])).await;
        } else {
          let _ = r.recv().await;
        }
        tokio::task::yield_now().await;
      }
    }));
  }
  // the peer: at most one unanswered request may exist at any time
  let t0 = Instant::now();
  let mut violation: Option<String> = None;
  let mut served = 0usize;
  while t0.elapsed() < Duration::from_millis(millis) {
    match router.recv_multipart().await {
      Ok(frames) if !frames.is_empty() => {
        let id = frames[0].clone();
        // pause, then look whether the SAME requester has already sent another request
        tokio::time::sleep(Duration::from_millis(3)).await;
        match tokio::time::timeout(Duration::from_millis(15), router.recv_multipart()).await {
          Ok(Ok(_second)) => {
            violation = Some(format!("two requests in a row without a reply in between (after {} exchanges)", served));
            break;
          }
          _ => {}
        }
        let _ = router.send_multipart(vec![id, Msg::from_static(b"reply")]).await;
        served += 1;
      }
      _ => {}
    }
  }
  stop.store(true, std::sync::atomic::Ordering::Relaxed);
  for h in handles {
    h.abort();
  }
  let _ = tokio::time::timeout(Duration::from_secs(5), req.close()).await;
  let _ = tokio::time::timeout(Duration::from_secs(5), router.close()).await;
  let _ = tokio::time::timeout(Duration::from_secs(5), ctx.term()).await;
  if let Some(path) = target.strip_prefix("ipc://") {
    let _ = std::fs::remove_file(path);
  }
  match violation {
    Some(v) => format!("ORACLE-FAIL key=req-alternation {}", v),
    None if served == 0 => "ORACLE-FAIL key=req-alternation-vacuous no exchange completed".into(),
    None => "alternation=ok".into(),
  }
}

/// `reqstale <tcp|ipc>`
/// Two tasks call recv_multipart() during the same exchange; the first reply is taken by one of them, the
/// other keeps waiting and later takes the reply of the NEXT exchange. After that successful receive the REQ
/// must accept a send again (the legal next operation), and a recv must be refused.
async fn reqstale(p: &[&str]) -> String {
  let transport = p[1];
  let ctx = Context::new().expect("ctx");
  let rep = ctx.socket(SocketType::Rep).unwrap();
  let _ = set_i32(&rep, o::RCVTIMEO, 2000).await;
  let ep = if transport == "tcp" { "tcp://127.0.0.1:0".to_string() } else { format!("ipc:///tmp/{}.sock", unique_name("rzmq-verif-reqstale")) };
  if rep.bind(&ep).await.is_err() {
    return "setup-error bind".into();
  }
  let target = if transport == "tcp" { last_endpoint(&rep).await } else { ep };
  let req = ctx.socket(SocketType::Req).unwrap();
  let _ = set_i32(&req, o::SNDTIMEO, 1000).await;
  if req.connect(&target).await.is_err() {
    return "setup-error connect".into();
  }
  tokio::time::sleep(Duration::from_millis(150)).await;
  let out = async {
    req.send(Msg::from_static(b"q0")).await.map_err(|e| format!("send0 {}", err_class(&e)))?;
    let (r1, r2) = (req.clone(), req.clone());
    let mut t1 = tokio::spawn(async move { r1.recv_multipart().await.map(|_| ()) });
    let mut t2 = tokio::spawn(async move { r2.recv_multipart().await.map(|_| ()) });
    tokio::time::sleep(Duration::from_millis(50)).await; // both are waiting inside exchange 0
    rep.recv().await.map_err(|e| format!("rep-recv0 {}", err_class(&e)))?;
    rep.send(Msg::from_static(b"a0")).await.map_err(|e| format!("rep-send0 {}", err_class(&e)))?;
    // exactly one of the two returns with the reply
    let first_is_t1 = tokio::select! {
      r = &mut t1 => { r.map_err(|_| "join".to_string())?.map_err(|e| format!("recv-a0 {}", err_class(&e)))?; true }
      r = &mut t2 => { r.map_err(|_| "join".to_string())?.map_err(|e| format!("recv-a0 {}", err_class(&e)))?; false }
    };
    let other = if first_is_t1 { t2 } else { t1 };
    tokio::time::sleep(Duration::from_millis(30)).await;
    req.send(Msg::from_static(b"q1")).await.map_err(|e| format!("send1 {}", err_class(&e)))?;
    rep.recv().await.map_err(|e| format!("rep-recv1 {}", err_class(&e)))?;
    rep.send(Msg::from_static(b"a1")).await.map_err(|e| format!("rep-send1 {}", err_class(&e)))?;
    // the reply of exchange 1 is consumed by the late waiter of exchange 0 (or it failed earlier: then nobody
    // has received a1 yet and a fresh recv gets it)
    match tokio::time::timeout(Duration::from_millis(1500), other).await {
      Ok(Ok(Ok(()))) => {}
      Ok(Ok(Err(_))) => {
        req.recv_multipart().await.map_err(|e| format!("recv-a1 {}", err_class(&e)))?;
      }
      _ => return Err("late waiter never returned".to_string()),
    }
    // a successful receive happened: recv must now be refused and send accepted
    match tokio::time::timeout(Duration::from_millis(300), req.recv_multipart()).await {
      Ok(Err(ZmqError::InvalidState(_))) => {}
      Ok(Ok(_)) => return Err("a second recv succeeded after the reply was consumed".to_string()),
      Ok(Err(e)) => return Err(format!("recv after reply: {}", err_class(&e))),
      Err(_) => return Err("recv after the reply was consumed is accepted and waits (state still ExpectingReply)".to_string()),
    }
    req.send(Msg::from_static(b"q2")).await.map_err(|e| format!("send after a consumed reply refused: {}", err_class(&e)))?;
    Ok::<(), String>(())
  }
  .await;
  let _ = tokio::time::timeout(Duration::from_secs(5), req.close()).await;
  let _ = tokio::time::timeout(Duration::from_secs(5), rep.close()).await;
  let _ = tokio::time::timeout(Duration::from_secs(5), ctx.term()).await;
  if let Some(path) = target.strip_prefix("ipc://") {
    let _ = std::fs::remove_file(path);
  }
  match out {
    Ok(()) => "alternation=ok".into(),
    Err(e) => format!("ORACLE-FAIL key=req-stale-receive {}", e),
  }
}

/// `reprace <tcp|inproc> <tasks> <millis>`
/// `tasks` tasks hammer recv()+send(echo) on clones of one REP socket while two DEALER peers each keep one
/// request outstanding (ids "A<n>" / "B<n>"). Every reply a peer receives must echo ITS OWN latest request:
/// a reply routed to the wrong peer, or two replies for one request, is a violation.
async fn reprace(p: &[&str]) -> String {
  let transport = p[1];
  let ntasks: usize = p[2].parse().unwrap();
  let millis: u64 = p[3].parse().unwrap();
  let ctx = Context::new().expect("ctx");
  let rep = ctx.socket(SocketType::Rep).unwrap();
  let _ = set_i32(&rep, o::RCVTIMEO, 20).await;
  let _ = set_i32(&rep, o::SNDTIMEO, 50).await;
  let ep = if transport == "tcp" { "tcp://127.0.0.1:0".to_string() } else { format!("ipc:///tmp/{}.sock", unique_name("rzmq-verif-reprace")) };
  if rep.bind(&ep).await.is_err() {
    return "setup-error bind".into();
  }
  let target = if transport == "tcp" { last_endpoint(&rep).await } else { ep };
  let stop = std::sync::Arc::new(std::sync::atomic::AtomicBool::new(false));
  let mut handles = Vec::new();
  for _ in 0..ntasks {
    let r = rep.clone();
    let st = stop.clone();
    handles.push(tokio::spawn(async move {
      while !st.load(std::sync::atomic::Ordering::Relaxed) {
        if let Ok(m) = r.recv().await {
          // simulate work between recv and send so that other tasks get to run
          tokio::task::yield_now().await;
          let _ = r.send(Msg::from_vec(m.data().unwrap_or(&[]).to_vec())).await;
        }
        tokio::task::yield_now().await;
      }
    }));
  }
  let mut clients = Vec::new();
  for name in [b'A', b'B'] {
    let target = target.clone();
    let ctx2 = ctx.clone();
    let st = stop.clone();
    clients.push(tokio::spawn(async move {
      let d = ctx2.socket(SocketType::Dealer).unwrap();
      let _ = set_i32(&d, o::RCVTIMEO, 300).await;
      let _ = set_i32(&d, o::SNDTIMEO, 300).await;
      if d.connect(&target).await.is_err() {
        return Err("connect".to_string());
      }
      tokio::time::sleep(Duration::from_millis(100)).await;
      let mut n = 0u32;
      let mut ok = 0usize;
      while !st.load(std::sync::atomic::Ordering::Relaxed) {
        n += 1;
        let body = format!("{}{}", name as char, n).into_bytes();
        if d.send_multipart(vec![Msg::from_vec(body.clone())]).await.is_err() {
          continue;
        }
        match d.recv_multipart().await {
          Ok(frames) => {
            let got = frames.last().map(|m| m.data().unwrap_or(&[]).to_vec()).unwrap_or_default();
            if got != body {
              let _ = d.close().await;
              return Err(format!(
                "peer {} expected echo {:?} got {:?}",
                name as char,
                String::from_utf8_lossy(&body),
                String::from_utf8_lossy(&got)
              ));
            }
            ok += 1;
          }
          Err(_) => {} // timeout: the request may have been dropped by a detached state; try the next
        }
      }
      let _ = d.close().await;
      Ok(ok)
    }));
  }
  tokio::time::sleep(Duration::from_millis(millis)).await;
  stop.store(true, std::sync::atomic::Ordering::Relaxed);
  let mut verdict = "routing=ok".to_string();
  let mut total = 0usize;
  for c in clients {
    match tokio::time::timeout(Duration::from_secs(3), c).await {
      Ok(Ok(Ok(n))) => total += n,
      Ok(Ok(Err(e))) => verdict = format!("ORACLE-FAIL key=rep-reply-routing {}", e),
      _ => {}
    }
  }
  for h in handles {
    h.abort();
  }
  if verdict == "routing=ok" && total == 0 {
    verdict = "ORACLE-FAIL key=rep-reply-routing-vacuous no exchange completed".into();
  }
  let _ = tokio::time::timeout(Duration::from_secs(5), rep.close()).await;
  let _ = tokio::time::timeout(Duration::from_secs(5), ctx.term()).await;
  if let Some(path) = target.strip_prefix("ipc://") {
    let _ = std::fs::remove_file(path);
  }
  verdict
}


/// `stream <opts> <sender cfg> <receiver cfg> <messages>`
/// One sender socket connects to one receiver socket and sends the listed messages as fast as it can; the
/// receiver reads them at its own pace. opts: `tr=tcp|ipc|inproc`, `rt=ct|mt` (runtime flavour; the scenario
/// gets a runtime of its own), `when=after|before` (first send after both handshakes succeeded / right after
/// connect() returned), `pace=<ms>` (receiver sleeps that long after every message), `side=bind|connect`
/// (which role the SENDER takes). Result: `delivered=<n>:<digest>` when every accepted message arrived exactly
/// once, unmodified and in order (digest over the canonical rendering of all of them), else an ORACLE-FAIL line.
async fn stream(p: &[&str]) -> String {
  let opts = parse_kv(p[1]);
  let scfg = parse_kv(p[2]);
  let rcfg = parse_kv(p[3]);
  let spec = p[4].to_string();
  let mt = opts.get("rt").map(|v| v == "mt").unwrap_or(false);
  let (tx, rx) = tokio::sync::oneshot::channel();
  std::thread::spawn(move || {
    let rt = if mt {
      tokio::runtime::Builder::new_multi_thread().worker_threads(3).enable_all().build().unwrap()
    } else {
      tokio::runtime::Builder::new_current_thread().enable_all().build().unwrap()
    };
    let r = rt.block_on(async move {
      match tokio::time::timeout(Duration::from_secs(60), stream_inner(opts, scfg, rcfg, spec)).await {
        Ok(r) => r,
        Err(_) => "ORACLE-FAIL key=stream-hang scenario did not finish in 60 s".to_string(),
      }
    });
    let _ = tx.send(r);
    rt.shutdown_background();
  });
  rx.await.unwrap_or_else(|_| "PANIC".to_string())
}

async fn stream_inner(opts: HashMap<String, String>, scfg: HashMap<String, String>, rcfg: HashMap<String, String>, spec: String) -> String {
  let transport = opts.get("tr").cloned().unwrap_or_else(|| "tcp".into());
  let when_after = opts.get("when").map(|v| v == "after").unwrap_or(true);
  let pace = Duration::from_millis(opts.get("pace").and_then(|v| v.parse().ok()).unwrap_or(0));
  let sender_binds = opts.get("side").map(|v| v == "bind").unwrap_or(false);
  let msgs: Vec<Vec<Msg>> = parse_batch(&spec);
  let ctx = Context::new().expect("ctx");
  let snd = match make_socket(&ctx, &scfg).await {
    Ok(s) => s,
    Err(e) => return format!("setup-error sender {}", err_class(&e)),
  };
  let rcv = match make_socket(&ctx, &rcfg).await {
    Ok(s) => s,
    Err(e) => return format!("setup-error receiver {}", err_class(&e)),
  };
  let sty = scfg.get("type").cloned().unwrap_or_default();
  let rty = rcfg.get("type").cloned().unwrap_or_default();
  if !scfg.contains_key("sndtimeo") {
    let _ = set_i32(&snd, o::SNDTIMEO, 10000).await;
  }
  let ms = snd.monitor_default().await.ok();
  let mr = rcv.monitor_default().await.ok();
  let ep = match transport.as_str() {
    "tcp" => "tcp://127.0.0.1:0".to_string(),
    "ipc" => format!("ipc:///tmp/{}.sock", unique_name("rzmq-verif-stream")),
    _ => format!("inproc://{}", unique_name("stream")),
  };
  let (binder, connector) = if sender_binds { (&snd, &rcv) } else { (&rcv, &snd) };
  if let Err(e) = binder.bind(&ep).await {
    return format!("setup-error bind {}", err_class(&e));
  }
  let target = if transport == "tcp" { last_endpoint(binder).await } else { ep.clone() };
  if let Err(e) = connector.connect(&target).await {
    return format!("setup-error connect {}", err_class(&e));
  }
  if when_after {
    if transport != "inproc" {
      if let (Some(a), Some(b)) = (ms.as_ref(), mr.as_ref()) {
        let (ra, rb) = tokio::join!(wait_handshake(a, Duration::from_secs(3)), wait_handshake(b, Duration::from_secs(3)));
        if ra != "ok" || rb != "ok" {
          return "setup-error handshake".into();
        }
      }
    }
    tokio::time::sleep(Duration::from_millis(60)).await;
  }
  // ROUTER sender: address the (only) peer by the identity the receiver was given
  let dest: Option<Vec<u8>> = if sty == "ROUTER" { rcfg.get("id").map(|v| parse_bytes(v)) } else { None };
  let total = msgs.len();
  let expected: Vec<String> = msgs.iter().map(|m| show_msg(m)).collect();
  let snd2 = snd.clone();
  let sender = tokio::spawn(async move {
    let mut accepted = Vec::new();
    for (i, m) in msgs.into_iter().enumerate() {
      let mut frames = m;
      if let Some(d) = dest.as_ref() {
        let mut idf = Msg::from_vec(d.clone());
        idf.set_flags(rzmq::MsgFlags::MORE);
        frames.insert(0, idf);
      }
      let r = if frames.len() == 1 && !matches!(sty.as_str(), "ROUTER") {
        snd2.send(frames.remove(0)).await
      } else {
        snd2.send_multipart(frames).await
      };
      match r {
        Ok(()) => accepted.push(i),
        Err(e) => return (accepted, Some(format!("send #{} {}", i, err_class(&e)))),
      }
    }
    (accepted, None)
  });
  let strip = rty == "ROUTER";
  let mut got: Vec<String> = Vec::new();
  let t0 = Instant::now();
  let mut sender = sender;
  let mut send_result: Option<(Vec<usize>, Option<String>)> = None;
  let mut idle_since: Option<Instant> = None;
  loop {
    if got.len() >= total + 4 || t0.elapsed() > Duration::from_secs(45) {
      break;
    }
    if send_result.is_none() && sender.is_finished() {
      send_result = (&mut sender).await.ok();
    }
    if let Some((acc, _)) = send_result.as_ref() {
      if got.len() >= acc.len() {
        // everything accepted has arrived: linger a little for duplicates
        match idle_since {
          None => idle_since = Some(Instant::now()),
          Some(t) if t.elapsed() > Duration::from_millis(150) => break,
          _ => {}
        }
      }
    }
    match tokio::time::timeout(Duration::from_millis(100), rcv.recv_multipart()).await {
      Ok(Ok(mut frames)) => {
        if strip && !frames.is_empty() {
          frames.remove(0);
        }
        got.push(show_msg(&frames));
        idle_since = None;
        if !pace.is_zero() {
          tokio::time::sleep(pace).await;
        }
      }
      Ok(Err(ZmqError::Timeout)) | Err(_) => {
        if let Some((_, _)) = send_result.as_ref() {
          match idle_since {
            None => idle_since = Some(Instant::now()),
            Some(t) if t.elapsed() > Duration::from_millis(2500) => break,
            _ => {}
          }
        }
      }
      Ok(Err(e)) => {
        got.push(format!("E({})", err_class(&e)));
        break;
      }
    }
  }
  if send_result.is_none() {
    sender.abort();
    send_result = Some((Vec::new(), Some("sender still blocked at the end".into())));
  }
  let (accepted, send_err) = send_result.unwrap();
  let want: Vec<&String> = accepted.iter().map(|i| &expected[*i]).collect();
  let _ = tokio::time::timeout(Duration::from_secs(5), snd.close()).await;
  let _ = tokio::time::timeout(Duration::from_secs(5), rcv.close()).await;
  let _ = tokio::time::timeout(Duration::from_secs(5), ctx.term()).await;
  if transport == "ipc" {
    let _ = std::fs::remove_file(ep.trim_start_matches("ipc://"));
  }
  if let Some(e) = send_err {
    return format!("ORACLE-FAIL key=stream-send-refused {} (accepted {} of {}, delivered {})", e, accepted.len(), total, got.len());
  }
  let same = want.len() == got.len() && want.iter().zip(got.iter()).all(|(a, b)| *a == b);
  if !same {
    let first = want.iter().zip(got.iter()).position(|(a, b)| *a != b).unwrap_or(want.len().min(got.len()));
    let kind = {
      let mut a: Vec<&String> = want.clone();
      let mut b: Vec<&String> = got.iter().collect();
      a.sort();
      b.sort();
      if a == b { "reordered" } else if got.len() < want.len() { "lost" } else if got.len() > want.len() { "duplicated" } else { "corrupted" }
    };
    return format!(
      "ORACLE-FAIL key=stream-fifo {} accepted={} delivered={} first-diff=#{} want={} got={}",
      kind,
      want.len(),
      got.len(),
      first,
      want.get(first).map(|s| s.as_str()).unwrap_or("-"),
      got.get(first).map(|s| s.as_str()).unwrap_or("-")
    );
  }
  let joined = got.join(" ");
  format!("delivered={}:{:016x}", got.len(), fnv64(joined.as_bytes()))
}
