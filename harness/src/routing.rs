//! `corr routing`: SubscriptionTrie, LoadBalancer, RouterMap (+ send strategies), auto-framing functions,
//! ReconnectState — the real structures driven through the verif facade.
//!
//! ops:
//!   trie new | sub <bytes> | unsub <bytes> | match <bytes> | topics
//!   lb new | add <n> | rm <n> | next | count
//!   map new | add <id> <pipe> <uri> | update <pipe> <id> <uri> <type|none> | rmpipe <pipe> | rmid <id>
//!       | get <id> | pipe <pipe> | prep <id> <manual> <idframe> <message>
//!   env renc|rdec|denc|ddec <message>
//!   backoff <attempts> <base_ms> <max_ms>
//!   stash new | pipe <id> <cap> | put <id> <message> | recv | recvmp | dereg <id>
//!   pool new <count> <cap> | acquire <len> | lease | droplease <id> <0|1> | release <id> | state

use crate::*;
use futures::executor::block_on;
use rzmq::verif::*;
use std::time::Duration;

pub struct State {
  trie: VTrie,
  lb: VLoadBalancer,
  map: VRouterMap,
  stash: VAnonIngress,
  stash_senders: std::collections::BTreeMap<usize, VAnonSender>,
  pool: Option<VSendPool>,
  trk: VOpTracker,
}

impl Default for State {
  fn default() -> Self {
    Self {
      trie: VTrie::new(),
      lb: VLoadBalancer::new(),
      map: VRouterMap::new(),
      stash: VAnonIngress::new(64),
      stash_senders: Default::default(),
      pool: None,
      trk: VOpTracker::new(),
    }
  }
}

fn b(v: bool) -> String {
  if v { "true".into() } else { "false".into() }
}

pub fn run_op(st: &mut State, p: &[&str]) -> String {
  match p[0] {
    // the io_uring worker's table of operations in the kernel
    "trk" => match p[1] {
      "new" => {
        st.trk = VOpTracker::new();
        "ok".into()
      }
      "submit" => st.trk.submit(p[2].parse().unwrap(), p[3]).to_string(),
      "closefd" => {
        st.trk.close_fd(p[2].parse().unwrap());
        "ok".into()
      }
      // `complete <key> <0|1>`: 1 = the completion is the notification of a zero-copy send
      "complete" => st.trk.complete(p[2].parse().unwrap(), p[3] == "1").unwrap_or_else(|| "unknown".into()),
      "notify" => st.trk.await_notification(p[2].parse().unwrap()).unwrap_or_else(|| "unknown".into()),
      "state" => st
        .trk
        .state()
        .iter()
        .map(|(k, d, n)| format!("{}{}={}", if *n { "n" } else { "" }, k, d))
        .collect::<Vec<_>>()
        .join(" "),
      _ => "bad-op".into(),
    },
    "pool" => {
      let show = |o: Option<u16>| o.map(|i| i.to_string()).unwrap_or_else(|| "none".into());
      match (p[1], st.pool.as_mut()) {
        ("new", _) => match VSendPool::new(p[2].parse().unwrap(), p[3].parse().unwrap()) {
          Ok(pl) => {
            st.pool = Some(pl);
            "ok".into()
          }
          Err(e) => format!("setup-error {}", e),
        },
        (_, None) => "no-pool".into(),
        ("acquire", Some(pl)) => show(pl.acquire(p[2].parse().unwrap())),
        ("lease", Some(pl)) => show(pl.lease()),
        ("droplease", Some(pl)) => b(pl.drop_lease(p[2].parse().unwrap(), p[3] == "1")),
        ("release", Some(pl)) => {
          // the worker only releases buffers it was given: one that a session still holds a lease on is not its to release
          let id: u16 = p[2].parse().unwrap();
          if pl.leased(id) {
            "held".into()
          } else {
            pl.release(id);
            "ok".into()
          }
        }
        ("state", Some(pl)) => {
          let (free, used) = pl.state();
          format!(
            "free=[{}] used=[{}]",
            free.iter().map(|x| x.to_string()).collect::<Vec<_>>().join(","),
            used.iter().map(|x| if *x { "1" } else { "0" }).collect::<Vec<_>>().join("")
          )
        }
        _ => "bad-op".into(),
      }
    }
    "stash" => match p[1] {
      "new" => {
        st.stash_senders.clear();
        st.stash = VAnonIngress::new(64);
        "ok".into()
      }
      "pipe" => {
        let id: usize = p[2].parse().unwrap();
        let s = st.stash.register_pipe(id, p[3].parse().unwrap());
        st.stash_senders.insert(id, s);
        "ok".into()
      }
      "put" => match st.stash_senders.get(&p[2].parse::<usize>().unwrap()) {
        Some(s) => {
          if s.try_send(to_frame_batch(parse_message(p[3]))) {
            "ok".into()
          } else {
            "refused".into()
          }
        }
        None => "no-pipe".into(),
      },
      "recv" => match block_on(st.stash.recv_now()) {
        Ok(m) => show_frame(&m),
        Err(e) => format!("E({})", err_class(&e)),
      },
      "recvmp" => match block_on(st.stash.recv_multipart_now()) {
        Ok(fb) => format!("[{}]", show_frames(fb.iter())),
        Err(e) => format!("E({})", err_class(&e)),
      },
      "dereg" => {
        let id: usize = p[2].parse().unwrap();
        st.stash.deregister_pipe(id);
        st.stash_senders.remove(&id);
        "ok".into()
      }
      _ => "bad-op".into(),
    },
    "trie" => match p[1] {
      "new" => {
        st.trie = VTrie::new();
        "ok".into()
      }
      "sub" => {
        st.trie.subscribe(&parse_bytes(p[2]));
        "ok".into()
      }
      "unsub" => b(st.trie.unsubscribe(&parse_bytes(p[2]))),
      "match" => b(st.trie.matches(&parse_bytes(p[2]))),
      "topics" => {
        let mut t: Vec<String> = st.trie.get_all_topics().iter().map(|x| format!("h{}", hex::encode(x))).collect();
        t.sort();
        format!("[{}]", t.join(","))
      }
      _ => "bad-op".into(),
    },
    "lb" => match p[1] {
      "new" => {
        st.lb = VLoadBalancer::new();
        "ok".into()
      }
      "add" => {
        st.lb.add(&format!("u{}", p[2]));
        "ok".into()
      }
      "rm" => {
        st.lb.remove(&format!("u{}", p[2]));
        "ok".into()
      }
      "next" => st.lb.next().map(|u| u[1..].to_string()).unwrap_or_else(|| "none".into()),
      "count" => st.lb.count().to_string(),
      _ => "bad-op".into(),
    },
    "map" => match p[1] {
      "new" => {
        st.map = VRouterMap::new();
        "ok".into()
      }
      "add" => {
        block_on(st.map.add_peer(&parse_bytes(p[2]), p[3].parse().unwrap(), &format!("u{}", p[4])));
        "ok".into()
      }
      "update" => {
        let ty = if p[5] == "none" { None } else { Some(p[5]) };
        block_on(st.map.update_peer_identity(p[2].parse().unwrap(), &parse_bytes(p[3]), &format!("u{}", p[4]), ty));
        "ok".into()
      }
      "rmpipe" => {
        block_on(st.map.remove_peer_by_read_pipe(p[2].parse().unwrap()));
        "ok".into()
      }
      "rmid" => {
        block_on(st.map.remove_peer_by_identity(&parse_bytes(p[2])));
        "ok".into()
      }
      "get" => match block_on(st.map.lookup(&parse_bytes(p[2]))) {
        Some((uri, strat)) => format!("{} {}", &uri[1..], strat),
        None => "none".into(),
      },
      "pipe" => match block_on(st.map.identity_of_pipe(p[2].parse().unwrap())) {
        Some(id) => format!("h{}", hex::encode(id)),
        None => "none".into(),
      },
      "prep" => {
        let idf = parse_frame(p[4]);
        let payload = to_frame_batch(parse_message(p[5]));
        match block_on(st.map.prepare(&parse_bytes(p[2]), p[3] == "1", idf, payload)) {
          Some(fb) => show_frames(fb.iter()),
          None => "none".into(),
        }
      }
      _ => "bad-op".into(),
    },
    "env" => {
      let mut fb = to_frame_batch(parse_message(p[2]));
      match p[1] {
        "renc" => v_router_auto_encode(&mut fb),
        "rdec" => v_router_auto_decode(&mut fb),
        "denc" => v_dealer_auto_encode(&mut fb),
        "ddec" => v_dealer_auto_decode(&mut fb),
        _ => return "bad-op".into(),
      }
      show_frames(fb.iter())
    }
    "backoff" => {
      let (d, att) = v_reconnect_delay(
        p[1].parse().unwrap(),
        Duration::from_millis(p[2].parse().unwrap()),
        Duration::from_millis(p[3].parse().unwrap()),
      );
      format!("{} {}", d.as_millis(), att)
    }
    _ => "bad-op".into(),
  }
}
