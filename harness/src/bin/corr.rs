//! Component-level lock-step executor: reads one operation per line on stdin, runs it against the
//! real rzmq code (built from /repo's current working tree with `--cfg rzmq_verif`) and prints one
//! canonical line per operation. The Lean driver consumes the same op files.

use rzmq_verif_harness as h;
use std::io::{BufRead, Write};

fn main() {
  let comp = std::env::args().nth(1).expect("component");
  std::panic::set_hook(Box::new(|_| {})); // panics are reported as the canonical `PANIC` line
  let stdin = std::io::stdin();
  let stdout = std::io::stdout();
  let mut out = std::io::BufWriter::new(stdout.lock());
  let mut engine_state = h::engine::State::default();
  let mut routing_state = h::routing::State::default();
  let mut conc_state = h::conc::State::default();
  for line in stdin.lock().lines() {
    let line = line.unwrap();
    let line = line.trim();
    if line.is_empty() || line.starts_with('#') {
      continue;
    }
    let parts: Vec<&str> = line.split(' ').collect();
    if parts[0] == "note" {
      writeln!(out, "note").unwrap();
      continue;
    }
    let res = match comp.as_str() {
      "wire" => h::guarded(|| h::wire::run_op(&parts)),
      "engine" => {
        let st = std::panic::AssertUnwindSafe(&mut engine_state);
        h::guarded(move || {
          let mut st = st;
          h::engine::run_op(&mut st, &parts)
        })
      }
      "routing" => {
        let st = std::panic::AssertUnwindSafe(&mut routing_state);
        h::guarded(move || {
          let mut st = st;
          h::routing::run_op(&mut st, &parts)
        })
      }
      "conc" => h::conc::run_op(&mut conc_state, &parts),
      _ => "bad-component".to_string(),
    };
    writeln!(out, "{}", res).unwrap();
  }
  out.flush().unwrap();
}
