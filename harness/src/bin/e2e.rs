//! Stack-level scenarios over real rzmq sockets (tcp / ipc / inproc), raw scripted TCP peers and
//! proxies. Same line protocol as `corr`: one scenario per input line, one canonical result line per
//! scenario, printed in input order; scenarios run concurrently (each in its own `Context`).

use rzmq_verif_harness as h;
use rzmq_verif_harness::stack;
use std::io::BufRead;
use std::sync::Arc;

fn main() {
  let comp = std::env::args().nth(1).unwrap_or_else(|| "stack".into());
  let par: usize = std::env::var("VERIF_E2E_PAR").ok().and_then(|s| s.parse().ok()).unwrap_or(24);
  // Panics of the library's own tasks do not end the process: they are recorded (place of the panic) so that the scenario
  // during which one happened can report it. VERIF_PANIC_LOG=1 also prints them.
  std::panic::set_hook(Box::new(|info| {
    let place = info.location().map(|l| format!("{}:{}", l.file(), l.line())).unwrap_or_else(|| "?".into());
    if std::env::var("VERIF_PANIC_LOG").is_ok() {
      eprintln!("PANIC-IN-PROCESS at {}", place);
    }
    stack::note_panic(place);
  }));
  // `VERIF_URING=<recv bufs>x<recv size>x<send bufs>x<send size>[,zc][,noms]`: start the global io_uring backend (a per-process
  // singleton) with these pool sizes; sockets opt in with `uring=1`.
  if let Ok(spec) = std::env::var("VERIF_URING") {
    let mut it = spec.split(',');
    let dims: Vec<usize> = it.next().unwrap_or("").split('x').filter_map(|x| x.parse().ok()).collect();
    let flags: Vec<&str> = it.collect();
    if dims.len() == 4 {
      let cfg = rzmq::uring::UringConfig {
        ring_entries: 256,
        default_send_zerocopy: flags.contains(&"zc"),
        default_recv_multishot: !flags.contains(&"noms"),
        default_recv_buffer_count: dims[0],
        default_recv_buffer_size: dims[1],
        default_send_buffer_count: dims[2],
        default_send_buffer_size: dims[3],
        ..Default::default()
      };
      match rzmq::uring::initialize_uring_backend(cfg) {
        Ok(()) => eprintln!("uring-backend=on"),
        Err(e) => eprintln!("uring-backend=unavailable {}", e),
      }
    }
  }
  if let Ok(level) = std::env::var("VERIF_TRACE") {
    let level = match level.as_str() {
      "warn" => tracing::Level::WARN,
      "info" => tracing::Level::INFO,
      "trace" => tracing::Level::TRACE,
      _ => tracing::Level::DEBUG,
    };
    let _ = tracing_subscriber::fmt().with_max_level(level).with_writer(std::io::stderr).try_init();
  }
  let lines: Vec<String> = std::io::stdin()
    .lock()
    .lines()
    .map(|l| l.unwrap())
    .filter(|l| !l.trim().is_empty() && !l.starts_with('#'))
    .collect();
  let rt = tokio::runtime::Builder::new_multi_thread()
    .worker_threads(8)
    .enable_all()
    .build()
    .unwrap();
  let _ = comp;
  let _ = h::fnv64(b"");
  let results = rt.block_on(async move {
    let sem = Arc::new(tokio::sync::Semaphore::new(par));
    let mut handles = Vec::new();
    for line in lines {
      let sem = sem.clone();
      handles.push(tokio::spawn(async move {
        let exclusive = line.starts_with('!');
        let _p = if exclusive {
          sem.clone().acquire_many_owned(par as u32).await.unwrap()
        } else {
          sem.clone().acquire_owned().await.unwrap()
        };
        let l = line.trim_start_matches('!').to_string();
        let before = stack::panics_so_far();
        let jh = tokio::spawn(async move { stack::scenario(&l).await });
        match jh.await {
          Ok(s) => {
            // a panic inside the library (a task of a socket, a session, the io_uring worker) while this scenario ran
            let lib: Vec<String> = stack::panics_since(before).into_iter().filter(|p| !p.contains("harness/src")).collect();
            if !lib.is_empty() && !s.starts_with("ORACLE-FAIL") && s != "PANIC" {
              format!("ORACLE-FAIL key=library-panic a task of the library panicked at {} (the scenario itself reported: {})", lib[0], s)
            } else if !lib.is_empty() && s.starts_with("ORACLE-FAIL") {
              format!("{} [meanwhile a task of the library panicked at {}]", s, lib[0])
            } else {
              s
            }
          }
          Err(e) => {
            if e.is_panic() {
              "PANIC".to_string()
            } else {
              "ORACLE-FAIL key=scenario-cancelled".to_string()
            }
          }
        }
      }));
    }
    let mut out = Vec::new();
    for hd in handles {
      out.push(hd.await.unwrap_or_else(|_| "PANIC".to_string()));
    }
    out
  });
  for r in results {
    println!("{}", r);
  }
  // Contexts that failed to terminate must not keep the process alive.
  std::process::exit(0);
}
