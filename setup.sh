#!/bin/sh
# MANIFEST.setup_cmd: build the framework from files on disk only (offline).
set -e
cd "$(dirname "$0")"
export CARGO_NET_OFFLINE=true
python3 tools/translate.py >/dev/null || true
(cd lean && lake build RzmqModel rzmq_model 2>&1 | tail -3)
(cd harness && cargo build --offline 2>&1 | tail -2)
