#!/usr/bin/env python3
"""Tie A: re-extract literal tables and constants from /repo's *current* Rust source into
lean/RzmqModel/Gen/*.lean.  Every model definition that depends on one of these literals is
written in terms of the generated name, so an edit of the literal in Rust changes the Lean
definition the theorems are about and the kernel re-checks them against it.

A pattern that can no longer be located is reported (exit 2, JSON on stdout) -- it is never
skipped silently.  Output files are only rewritten when their content changes (keeps lake
incremental).
"""
import json
import os
import re
import sys

REPO = os.environ.get("VERIF_REPO", "/repo")
OUT = os.path.join(os.path.dirname(os.path.abspath(__file__)), "..", "lean", "RzmqModel", "Gen")

errors = []
_cache = {}


def src(rel):
    if rel not in _cache:
        with open(os.path.join(REPO, rel), encoding="utf-8") as f:
            _cache[rel] = f.read()
    return _cache[rel]


def strip_comments(s):
    s = re.sub(r"//[^\n]*", "", s)
    s = re.sub(r"/\*.*?\*/", "", s, flags=re.S)
    return s


def fn_body(rel, name, nth=0, within=None):
    """Return the text of the body of the nth `fn name` in file rel (comments stripped)."""
    s = strip_comments(src(rel))
    if within is not None:
        i = s.find(within)
        if i < 0:
            errors.append(f"{rel}: context `{within}` not found")
            return ""
        s = s[i:]
    idxs = [m.start() for m in re.finditer(r"\bfn\s+" + re.escape(name) + r"\b", s)]
    if len(idxs) <= nth:
        errors.append(f"{rel}: fn {name} (#{nth}) not found")
        return ""
    i = s.find("{", idxs[nth])
    depth = 0
    j = i
    while j < len(s):
        if s[j] == "{":
            depth += 1
        elif s[j] == "}":
            depth -= 1
            if depth == 0:
                return s[i : j + 1]
        j += 1
    errors.append(f"{rel}: fn {name}: unbalanced braces")
    return ""


def num(tok):
    tok = tok.strip().replace("_", "")
    tok = re.sub(r"(u8|u16|u32|u64|usize|i64|i32)$", "", tok)
    # simple products / sums like 64 * 1024 * 1024 or 1 + 8
    if re.fullmatch(r"[0-9a-fA-Fxb+*\- ()]+", tok):
        return int(eval(tok, {"__builtins__": {}}))
    raise ValueError(tok)


def const(rel, name):
    m = re.search(r"\bconst\s+" + re.escape(name) + r"\s*:\s*[^=]+=\s*([^;]+);", strip_comments(src(rel)))
    if not m:
        errors.append(f"{rel}: const {name} not found")
        return 0
    try:
        return num(m.group(1))
    except Exception:
        errors.append(f"{rel}: const {name}: cannot evaluate `{m.group(1)}`")
        return 0


def grab(body, pattern, what, group=1, flags=re.S):
    m = re.search(pattern, body, flags)
    if not m:
        errors.append(f"pattern for {what} not found")
        return "0"
    return m.group(group)


def grab_all(body, pattern, what, expect=None):
    r = re.findall(pattern, body, re.S)
    if expect is not None and len(r) != expect:
        errors.append(f"pattern for {what}: expected {expect} occurrences, found {len(r)}")
        return ["0"] * (expect or 1)
    return r


lines = []  # (name, type, value-as-lean)


def emit(name, ty, val):
    lines.append((name, ty, val))


def emit_nat(name, v):
    emit(name, "Nat", str(int(v)))


def emit_u8(name, v):
    emit(name, "UInt8", str(int(v)))


def emit_bytes(name, bs):
    emit(name, "List UInt8", "[" + ", ".join(str(b) for b in bs) + "]")


def rust_bytes_literal(lit):
    """b"..." literal content -> list of ints"""
    out = []
    i = 0
    while i < len(lit):
        c = lit[i]
        if c == "\\":
            n = lit[i + 1]
            if n == "x":
                out.append(int(lit[i + 2 : i + 4], 16))
                i += 4
            elif n == "0":
                out.append(0)
                i += 2
            elif n == "n":
                out.append(10)
                i += 2
            elif n == "\\":
                out.append(92)
                i += 2
            elif n == '"':
                out.append(34)
                i += 2
            else:
                raise ValueError(lit)
        else:
            out.append(ord(c))
            i += 1
    return out


# ------------------------------------------------------------------------------------------
# Wire (C03, C07)
# ------------------------------------------------------------------------------------------
def wire():
    cmd = "core/src/protocol/zmtp/command.rs"
    emit_u8("ZMTP_FLAG_LONG", const(cmd, "ZMTP_FLAG_LONG"))
    emit_u8("ZMTP_FLAG_MORE", const(cmd, "ZMTP_FLAG_MORE"))
    emit_u8("ZMTP_FLAG_COMMAND", const(cmd, "ZMTP_FLAG_COMMAND"))

    codec = "core/src/protocol/zmtp/codec.rs"
    emit_nat("CODEC_MAX_FRAME_SIZE", const(codec, "CODEC_MAX_FRAME_SIZE"))
    b = fn_body(codec, "encode", within="impl Encoder<Msg> for ZmtpCodec")
    emit_nat("codecEncodeShortMax", num(grab(b, r"if\s+size\s*<=\s*([0-9_]+)", "codec.encode short threshold")))
    emit_nat("codecEncodeUsesFlagConsts",
             1 if ("ZMTP_FLAG_MORE" in b and "ZMTP_FLAG_COMMAND" in b and "ZMTP_FLAG_LONG" in b) else 0)
    b = fn_body(codec, "encode_header_only")
    emit_nat("hdrOnlyShortMax", num(grab(b, r"if\s+data_size\s*<=\s*([0-9_]+)", "encode_header_only threshold")))
    emit_nat("hdrOnlyUsesFlagConsts",
             1 if ("ZMTP_FLAG_MORE" in b and "ZMTP_FLAG_COMMAND" in b and "ZMTP_FLAG_LONG" in b) else 0)
    b = fn_body(codec, "decode", within="impl Decoder for ZmtpCodec")
    m = re.search(r"let\s+header_len\s*=\s*if\s+is_long\s*\{\s*([0-9 +]+)\}\s*else\s*\{\s*([0-9 +]+)\}", b)
    if not m:
        errors.append("codec.decode header_len pattern not found")
    else:
        emit_nat("codecDecLongHdr", num(m.group(1)))
        emit_nat("codecDecShortHdr", num(m.group(2)))

    enc = "core/src/security/framer/encoder.rs"
    b = fn_body(enc, "frame_contiguous")
    th = grab_all(b, r"len\s*<=\s*([0-9_]+)", "frame_contiguous thresholds", 2)
    emit_nat("contigSizeCalcShortMax", num(th[0]))
    emit_nat("contigShortMax", num(th[1]))
    m = re.search(r"required_size\s*\+=\s*if\s+len\s*<=\s*[0-9_]+\s*\{\s*([0-9]+)\s*\+\s*len\s*\}\s*else\s*\{\s*([0-9]+)\s*\+\s*len\s*\}", b)
    if not m:
        errors.append("frame_contiguous size calc pattern not found")
    else:
        emit_nat("contigSizeCalcShortHdr", num(m.group(1)))
        emit_nat("contigSizeCalcLongHdr", num(m.group(2)))
    emit_u8("contigMore", num(grab(b, r"MsgFlags::MORE\)\s*\{\s*zmtp_flags\s*\|=\s*(0x[0-9a-fA-F]+|[0-9]+)", "contig MORE bit")))
    emit_u8("contigCommand", num(grab(b, r"MsgFlags::COMMAND\)\s*\{\s*zmtp_flags\s*\|=\s*(0x[0-9a-fA-F]+|[0-9]+)", "contig COMMAND bit")))
    emit_u8("contigLong", num(grab(b, r"else\s*\{\s*zmtp_flags\s*\|=\s*(0x[0-9a-fA-F]+|[0-9]+)", "contig LONG bit")))

    def vect_like(body, prefix, lenvar):
        emit_nat(prefix + "ShortMax", num(grab(body, r"if\s+" + lenvar + r"\s*<=\s*([0-9_]+)", prefix + " threshold")))
        pairs = re.findall(r"put_u8\(\s*if\s+is_more\s*\{\s*(0x[0-9a-fA-F]+|[0-9]+)\s*\}\s*else\s*\{\s*(0x[0-9a-fA-F]+|[0-9]+)\s*\}\s*\)", body)
        if len(pairs) == 2:
            emit_u8(prefix + "ShortMoreByte", num(pairs[0][0]))
            emit_u8(prefix + "ShortLastByte", num(pairs[0][1]))
            emit_u8(prefix + "LongMoreByte", num(pairs[1][0]))
            emit_u8(prefix + "LongLastByte", num(pairs[1][1]))
            emit_nat(prefix + "HandlesCommand", 0)
        else:
            # Shape changed (e.g. the COMMAND bit is now handled).  Recognise the flag-accumulator
            # shape used by frame_contiguous; anything else is a located-pattern failure.
            mm = re.search(r"MsgFlags::MORE\)\s*\{\s*\w+\s*\|=\s*(0x[0-9a-fA-F]+|[0-9]+)", body)
            mc = re.search(r"MsgFlags::COMMAND\)\s*\{\s*\w+\s*\|=\s*(0x[0-9a-fA-F]+|[0-9]+)", body)
            ml = re.search(r"else\s*\{\s*\w+\s*\|=\s*(0x[0-9a-fA-F]+|[0-9]+)", body)
            if mm and mc and ml:
                mo, co, lo = num(mm.group(1)), num(mc.group(1)), num(ml.group(1))
                emit_u8(prefix + "ShortMoreByte", mo)
                emit_u8(prefix + "ShortLastByte", 0)
                emit_u8(prefix + "LongMoreByte", mo | lo)
                emit_u8(prefix + "LongLastByte", lo)
                emit_nat(prefix + "HandlesCommand", 1)
                emit_u8(prefix + "CommandBit", co)
                return
            errors.append(prefix + ": header byte pattern not found")
            return
        emit_u8(prefix + "CommandBit", 0)

    vect_like(fn_body(enc, "frame_vectored"), "vect", "len")
    fr = "core/src/security/framer/mod.rs"
    vect_like(fn_body(fr, "write_msg_split", within="impl ISecureFramer for NullFramer"), "split", "payload_len")

    mp = "core/src/protocol/zmtp/manual_parser.rs"
    for fname, pre in (("decode_frame_from_slice", "slice"), ("peek_frame_len", "peek"),
                       ("decode_frame_from_bytes", "bytes"), ("decode_from_buffer", "buffer")):
        b = fn_body(mp, fname)
        m = re.search(r"let\s+header_len\s*=\s*if\s+is_long\s*\{\s*([0-9 +]+)\}\s*else\s*\{\s*([0-9 +]+)\}", b)
        if not m:
            errors.append(f"{fname}: header_len pattern not found")
            continue
        emit_nat(pre + "LongHdr", num(m.group(1)))
        emit_nat(pre + "ShortHdr", num(m.group(2)))
        mm = re.search(r"if\s+src\.(?:len\(\)\s*<\s*([0-9]+)|is_empty\(\))", b)
        if not mm:
            errors.append(f"{fname}: initial length guard not found")
        else:
            emit_nat(pre + "MinLen", int(mm.group(1)) if mm.group(1) else 1)
        emit_nat(pre + "ChecksMax", 1 if re.search(r"self\.max_msg_size\s*>=\s*0\s*&&\s*raw_size\s*>\s*self\.max_msg_size\s+as\s+u64", b) else 0)

    fr_b = fn_body(fr, "try_read_msg", within="impl ISecureFramer for LengthPrefixedFramer")
    emit_nat("recordLenBytes", num(grab(fr_b, r"network_buffer\.len\(\)\s*<\s*([0-9]+)", "record length prefix size")))



# ------------------------------------------------------------------------------------------
# Protocol constants and tables (C04-C07, C19)
# ------------------------------------------------------------------------------------------
SOCKNAMES = ["PAIR", "PUB", "SUB", "REQ", "REP", "DEALER", "ROUTER", "PULL", "PUSH", "XPUB", "XSUB"]


def const_env(rel, env):
    """evaluate all `const NAME: ty = expr;` of a file in order, resolving earlier names"""
    for m in re.finditer(r"\bconst\s+([A-Z0-9_]+)\s*:\s*(?:usize|u8|u16|u32|u64|i64)\s*=\s*([^;]+);", strip_comments(src(rel))):
        name, expr = m.group(1), m.group(2).strip()
        expr = re.sub(r"\b(?:[a-z_][a-z0-9_]*::)+(?=[A-Z])", "", expr)     # crate::message::NAME -> NAME
        expr2 = re.sub(r"\b([A-Z][A-Z0-9_]+)\b", lambda mm: str(env[mm.group(1)]) if mm.group(1) in env else mm.group(0), expr)
        try:
            env[name] = num(expr2)
        except Exception:
            pass
    return env


def sockname(lit):
    if lit not in SOCKNAMES:
        errors.append(f"unknown socket type literal {lit!r}")
        return ".other"
    return "." + lit


def proto():
    gr = "core/src/protocol/zmtp/greeting.rs"
    en = "core/src/protocol/zmtp/engine.rs"
    env = const_env("core/src/message/mod.rs", {})
    env = const_env(gr, env)
    env = const_env(en, env)
    env = const_env("core/src/socket/dealer_socket.rs", env)
    emit_nat("MAX_WIRE_FRAMES_PER_MESSAGE", env.get("MAX_WIRE_FRAMES_PER_MESSAGE", 0))
    emit_nat("MAX_USER_FRAMES_PER_MESSAGE", env.get("MAX_USER_FRAMES_PER_MESSAGE", 0))
    emit_nat("MAX_DEALER_SEND_BUFFER_PARTS", env.get("MAX_DEALER_SEND_BUFFER_PARTS", 0))
    # the public send_multipart refuses what the pipeline cannot carry
    emit_nat("sendMultipartChecksFrameCount", 1 if re.search(
        r"if frames\.len\(\) > crate::message::MAX_USER_FRAMES_PER_MESSAGE \{\s*return Err", strip_comments(src("core/src/socket/types.rs"))) else 0)
    # FrameBatch capacity (xs_foundation VecU8: u8 length)
    emit_nat("FRAMEBATCH_CAPACITY", 255)
    for n in ["GREETING_LENGTH", "MECHANISM_LENGTH", "SIGNATURE_LENGTH", "VERSION_MAJOR_OFFSET", "VERSION_MINOR_OFFSET",
              "MECHANISM_OFFSET", "AS_SERVER_OFFSET", "PADDING_OFFSET", "PADDING_LENGTH", "REVISION_OFFSET",
              "V2_SOCKET_TYPE_OFFSET", "V2_GREETING_LENGTH", "FLAT_THRESHOLD"]:
        if n not in env:
            errors.append(f"const {n} not found / not evaluable")
        else:
            emit_nat(n, env[n])
    emit_nat("MAX_FRAMES_PER_MESSAGE", env.get("MAX_FRAMES_PER_MESSAGE", 0))
    # frame limit before the data phase (0 = the handshake uses MAXMSGSIZE as is)
    hs_lim = 0
    mm = re.search(r"const HANDSHAKE_FRAME_LIMIT\s*:\s*i64\s*=\s*([^;]+);", strip_comments(src(en)))
    bnew = fn_body(en, "new")
    if mm and "handshake_frame_limit(max_msg_size)" in bnew:
        hs_lim = num(mm.group(1))
        bh = fn_body(en, "handshake_frame_limit")
        if not re.search(r"if\s+max_msg_size\s*<\s*0\s*\{\s*-1\s*\}\s*else\s*\{\s*max_msg_size\.max\(HANDSHAKE_FRAME_LIMIT\)\s*\}", bh):
            errors.append("handshake_frame_limit: unexpected shape")
        bv2 = fn_body(en, "process_v2_identity")
        if "NullFramer::new(\n      self.config.max_msg_size" not in src(en) and "self.config.max_msg_size," not in bv2:
            errors.append("process_v2_identity no longer installs the data-phase framer")
    emit_nat("HANDSHAKE_FRAME_LIMIT", hs_lim)
    for n in ["GREETING_VERSION_MAJOR_BYTE", "GREETING_VERSION_MINOR_BYTE", "V2_REVISION", "V3_REVISION"]:
        if n not in env:
            errors.append(f"const {n} not found")
        else:
            emit_u8(n, env[n])
    # signature
    b = fn_body(gr, "encode_signature")
    m = re.search(r"put_u8\((0x[0-9A-Fa-f]+)\);\s*buffer\.put_bytes\((\d+),\s*(\d+)\);\s*buffer\.put_u8\((0x[0-9A-Fa-f]+)\)", b)
    if not m:
        errors.append("encode_signature shape not found")
    else:
        emit_bytes("SIGNATURE", [num(m.group(1))] + [int(m.group(2))] * int(m.group(3)) + [num(m.group(4))])
    # v3 tail shape: minor, mechanism, as_server, padding
    b = fn_body(gr, "encode_v3_tail")
    ok = re.search(r"put_u8\(GREETING_VERSION_MINOR_BYTE\);\s*buffer\.put_slice\(mechanism\);\s*buffer\.put_u8\(as_server as u8\);\s*buffer\.put_bytes\(0,\s*PADDING_LENGTH\)", b)
    emit_nat("v3TailShapeOk", 1 if ok else 0)
    if not ok:
        errors.append("encode_v3_tail shape changed")
    # signature check in process_greeting / decode
    b = fn_body(en, "process_greeting")
    m = re.search(r"sig\[0\]\s*!=\s*(0x[0-9A-Fa-f]+)\s*\|\|\s*sig\[SIGNATURE_LENGTH - 1\]\s*!=\s*(0x[0-9A-Fa-f]+)", b)
    if not m:
        errors.append("process_greeting signature check not found")
    else:
        emit_u8("sigFirst", num(m.group(1)))
        emit_u8("sigLast", num(m.group(2)))
    emit_nat("greetingV3IfRevGe", 1 if re.search(r"peer_revision\s*>=\s*V3_REVISION", b) else 0)
    emit_nat("greetingV2IfRevEq", 1 if re.search(r"peer_revision\s*==\s*V2_REVISION", b) else 0)
    # does the v2 branch refuse when a security mechanism is configured?
    m = re.search(r"peer_revision\s*==\s*V2_REVISION\s*\{\s*if\s+([^{]+)\{", b)
    cond = m.group(1).strip() if m else ""
    emit_nat("v2RefusedWhenSecurity", 1 if "security_enabled" in cond else 0)
    emit_nat("v2RefusedWhenDisallowed", 1 if "!self.config.allow_zmtp2" in cond else 0)
    b = fn_body(gr, "decode")
    m = re.search(r"data\[0\]\s*!=\s*(0x[0-9A-Fa-f]+)", b)
    emit_u8("greetDecodeFirst", num(m.group(1)) if m else 0)
    if not m:
        errors.append("ZmtpGreeting::decode first-byte check not found")
    m = re.search(r"match\s+as_server_byte\s*\{\s*(0x[0-9A-Fa-f]+)\s*=>\s*false,\s*(0x[0-9A-Fa-f]+)\s*=>\s*true", b)
    if not m:
        errors.append("as-server decode not found")
    else:
        emit_u8("asServerFalse", num(m.group(1)))
        emit_u8("asServerTrue", num(m.group(2)))
    # v2 socket type codes
    codes = {}
    for m in re.finditer(r"pub const V2_SOCKET_TYPE_([A-Z]+)\s*:\s*u8\s*=\s*(\d+);", strip_comments(src(gr))):
        codes[m.group(1)] = int(m.group(2))
    b = fn_body(gr, "socket_type_code")
    pairs = re.findall(r'"([A-Z]+)"\s*=>\s*V2_SOCKET_TYPE_([A-Z]+)', b)
    emit("socketTypeCode", "List (SockName × Nat)", "[" + ", ".join(f"({sockname(a)}, {codes.get(c, 999)})" for a, c in pairs) + "]")
    b = fn_body(gr, "socket_type_name_from_code")
    pairs = re.findall(r'V2_SOCKET_TYPE_([A-Z]+)\s*=>\s*"([A-Z]+)"', b)
    emit("socketTypeNameFromCode", "List (Nat × SockName)", "[" + ", ".join(f"({codes.get(c, 999)}, {sockname(a)})" for c, a in pairs) + "]")
    # one shared name-based table (socket_types_compatible) or, in older sources, the v2-only code table
    if re.search(r"\bfn\s+socket_types_compatible\b", strip_comments(src(en))):
        b = fn_body(en, "socket_types_compatible")
        pairs = re.findall(r'\(\s*"([A-Z]+)"\s*,\s*"([A-Z]+)"\s*\)', b)
        if not pairs:
            errors.append("socket_types_compatible table not found")
        emit("typeCompat", "List (SockName × SockName)", "[" + ", ".join(f"({sockname(a)}, {sockname(c)})" for a, c in pairs) + "]")
        bv2 = fn_body(en, "validate_v2_compatibility")
        emit_nat("v2UsesSharedTable", 1 if "socket_types_compatible(own, peer_name)" in bv2 else 0)
        if "socket_types_compatible(own, peer_name)" not in bv2:
            errors.append("validate_v2_compatibility no longer uses socket_types_compatible")
    else:
        b = fn_body(en, "validate_v2_compatibility")
        pairs = re.findall(r'\(\s*"([A-Z]+)"\s*,\s*V2_SOCKET_TYPE_([A-Z]+)\s*\)', b)
        if not pairs:
            errors.append("validate_v2_compatibility table not found")
        emit("typeCompat", "List (SockName × SockName)", "[" + ", ".join(f"({sockname(a)}, {sockname(c)})" for a, c in pairs) + "]")
        emit_nat("v2UsesSharedTable", 0)
    # inproc table
    ip = "core/src/transport/inproc/handshake.rs"
    b = fn_body(ip, "validate_socket_compatibility")
    pairs = re.findall(r"\(SocketType::([A-Za-z]+),\s*SocketType::([A-Za-z]+)\)", b)
    if not pairs:
        errors.append("inproc compatibility table not found")
    emit("inprocCompat", "List (SockName × SockName)", "[" + ", ".join(f"({sockname(a.upper())}, {sockname(c.upper())})" for a, c in pairs) + "]")
    # does the v3 READY path validate the peer's Socket-Type?
    b = fn_body(en, "process_ready")
    emit_nat("v3ValidatesSocketType", 1 if re.search(
        r"if\s+!socket_types_compatible\(self\.config\.socket_type_name\.as_str\(\),\s*peer_type\)", b) else 0)
    # mechanisms
    names = {}
    for rel, key in (("core/src/security/null.rs", "null"), ("core/src/security/plain.rs", "plain"),
                     ("core/src/security/curve/mechanism.rs", "curve"), ("core/src/security/noise_xx.rs", "noise")):
        m = re.search(r'NAME_BYTES\s*:\s*&\'static \[u8; 20\]\s*=\s*b"((?:[^"\\]|\\.)*)"', src(rel))
        if not m:
            errors.append(f"{rel}: NAME_BYTES not found")
            continue
        names[key] = rust_bytes_literal(m.group(1))
        emit_bytes("mechName_" + key, names[key])
    sm = strip_comments(src("core/src/security/mod.rs"))
    i = sm.find("const KNOWN_MECHANISMS")
    tab = sm[i: sm.find("];", i)] if i >= 0 else ""
    ents = re.findall(r"name_static_bytes:\s*(\w+)::NAME_BYTES.*?is_locally_enabled:\s*\|cfg\|\s*(\{[^}]*\}|[^,]+),", tab, re.S)
    kinds = {"NullMechanism": ".null", "PlainMechanism": ".plain", "CurveMechanism": ".curve", "NoiseXxMechanism": ".noise"}
    preds = {".null": "!cfg.security_enabled", ".plain": "cfg.use_plain", ".curve": "cfg.use_curve", ".noise": "cfg.use_noise_xx"}
    order = []
    for mech, pred in ents:
        k = kinds.get(mech)
        if k is None:
            errors.append(f"unknown mechanism {mech} in KNOWN_MECHANISMS")
            continue
        pr = pred.strip().strip("{}").strip()
        if pr != preds[k]:
            errors.append(f"KNOWN_MECHANISMS: enable predicate of {mech} changed to `{pr}`")
        order.append(k)
    if len(order) != 4:
        errors.append(f"KNOWN_MECHANISMS: expected 4 entries, found {len(order)}")
    emit("knownMechanisms", "List MechKind", "[" + ", ".join(order) + "]")
    b = fn_body(en, "local_mechanism_name_bytes")
    prio = re.findall(r"config\.use_(plain|curve|noise_xx)", b)
    emit("localMechPriority", "List MechKind", "[" + ", ".join({"plain": ".plain", "curve": ".curve", "noise_xx": ".noise"}[x] for x in prio) + "]")
    # command literals
    cm = "core/src/protocol/zmtp/command.rs"
    b = fn_body(cm, "parse")
    for nm, key in (("PING", "Ping"), ("PONG", "Pong"), ("READY", "Ready")):
        m = re.search(r'starts_with\(b"((?:[^"\\]|\\.)*' + nm + r')"\)\s*&&\s*body\.len\(\)\s*>=\s*(\d+)', b)
        if not m:
            errors.append(f"command parse: {nm} literal not found")
            continue
        emit_bytes("cmd" + key, rust_bytes_literal(m.group(1)))
        emit_nat("cmd" + key + "MinLen", int(m.group(2)))
    m = re.search(r'starts_with\(b"((?:[^"\\]|\\.)*ERROR)"\)', b)
    if not m:
        errors.append("command parse: ERROR literal not found")
    else:
        emit_bytes("cmdError", rust_bytes_literal(m.group(1)))
    m = re.search(r"&body\[(\d+)\s*\+\s*(\d+)\.\.\]", b)
    emit_nat("pingContextOffset", int(m.group(1)) + int(m.group(2)) if m else 0)
    if not m:
        errors.append("PING context offset not found")
    m = re.search(r"ZmtpCommand::Pong\(context\)", b)
    mm = re.findall(r"copy_from_slice\(&body\[(\d+)\.\.\]\)", b)
    emit_nat("pongContextOffset", int(mm[0]) if mm else 0)
    m = re.search(r"parse_properties\(&body\[(\d+)\.\.\]\)", b)
    emit_nat("readyPropsOffset", int(m.group(1)) if m else 0)
    for fnname, key in (("create_ping", "mkPing"), ("create_pong", "mkPong")):
        bb = fn_body(cm, fnname)
        m = re.search(r'extend_from_slice\(b"((?:[^"\\]|\\.)*)"\)', bb)
        if not m:
            errors.append(f"{fnname}: literal not found")
        else:
            emit_bytes(key, rust_bytes_literal(m.group(1)))
    m = re.search(r"ZMTP_CMD_READY_NAME\s*:\s*&\[u8\]\s*=\s*b\"([A-Z]+)\"", src(cm))
    emit_bytes("readyName", rust_bytes_literal(m.group(1)) if m else [])
    # PLAIN command names
    pl = src("core/src/security/plain.rs")
    for nm in ("HELLO", "WELCOME", "ERROR"):
        m = re.search(r"const CMD_" + nm + r"\s*:\s*&'static \[u8\]\s*=\s*b\"([A-Z]+)\"", pl)
        if not m:
            errors.append(f"plain.rs: CMD_{nm} not found")
        else:
            emit_bytes("plain" + nm.capitalize(), rust_bytes_literal(m.group(1)))
    # PLAIN server: a credential that was never configured matches nothing (not even the empty string)
    pls = re.sub(r"\s+", " ", strip_comments(pl))
    emit_nat("plainUnsetCredentialAdmitsNobody", 1 if "let is_valid = self .expected_username .as_ref() .map_or(false, |u| u == &username) && self .expected_password .as_ref() .map_or(false, |p| p == &password);" in pls else 0)
    # engine misc
    b = fn_body(en, "process_ready")
    cork = re.findall(r'"(PUSH|PULL|PUB|SUB|REQ|REP|DEALER|ROUTER|PAIR|XPUB|XSUB)"', b)
    emit("corkTypes", "List SockName", "[" + ", ".join(sockname(c) for c in cork) + "]")
    b = fn_body(en, "close")
    m = re.search(r"Duration::from_millis\((\d+)\)", b)
    emit_nat("closeCorkDelayMs", int(m.group(1)) if m else 0)
    b = fn_body(en, "get_pong_deadline")
    m = re.search(r"Duration::from_secs\((\d+)\)", b)
    emit_nat("defaultPongTimeoutMs", int(m.group(1)) * 1000 if m else 0)
    # does *any* inbound frame (not only PONG) clear waiting_for_pong?
    b = fn_body(en, "process_data")
    before_cmd = b[: b.find("if msg.is_command()")] if "if msg.is_command()" in b else ""
    emit_nat("trafficClearsWaitingForPong", 1 if "waiting_for_pong = false" in before_cmd else 0)
    emit_nat("dataFrameLimitChecked", 1 if re.search(r"partial_batch\.len\(\)\s*>=", b) else 0)


def lifecycle():
    tcp = "core/src/transport/tcp.rs"
    b = strip_comments(src(tcp))
    i = b.find("let mut current_retry_delay = initial_reconnect_ivl;")
    if i < 0:
        errors.append("tcp.rs: connecter retry-delay initialisation not found")
        return
    j = b.find("Fast-forward", i)
    seg = b[i: i + 600]
    emit_nat("connFirstDelayCapped", 1 if re.search(
        r"filter\(\|d\| \*d > Duration::ZERO\)\s*\{\s*current_retry_delay = current_retry_delay\.min\(max_d\);", seg) else 0)
    st = "core/src/socket/core/state.rs"
    bb = fn_body(st, "on_connection_failure")
    m = re.search(r"current_attempts\.min\((\d+)\)", bb)
    emit_nat("backoffPowerCap", int(m.group(1)) if m else 0)
    if not m:
        errors.append("state.rs: back-off power cap not found")
    emit_nat("DEFAULT_RECONNECT_IVL_MS", const("core/src/socket/options.rs", "DEFAULT_RECONNECT_IVL_MS"))
    # event handling: which events make a SocketCore shut itself down
    ev = "core/src/socket/core/event_processor.rs"
    b = fn_body(ev, "process_system_event")
    emit_nat("evContextTermShutsDown", 1 if re.search(r"SystemEvent::ContextTerminating\s*=>\s*\{[^}]*initiate_core_shutdown", b, re.S) else 0)
    emit_nat("evSocketClosingOnlyOwn", 1 if re.search(r"SystemEvent::SocketClosing\s*\{\s*socket_id\s*\}\s*=>\s*\{\s*if\s+socket_id\s*==\s*core_handle\s*\{[^}]*initiate_core_shutdown", b, re.S) else 0)
    n_shutdown = len(re.findall(r"initiate_core_shutdown", b))
    emit_nat("evShutdownCallSites", n_shutdown)
    n_q = len(re.findall(r"\.await\?;", b))
    emit_nat("evFallibleCalls", n_q)
    pm = "core/src/socket/core/pipe_manager.rs"
    bb = fn_body(pm, "process_inproc_binding_request_event")
    emit_nat("inprocRefusalKeepsBinder", 1 if re.search(
        r"validate_socket_compatibility\([^)]*\)\s*\{.{0,400}?reply_tx\.send\(Err\(e\)\);\s*return Ok\(\(\)\);", bb, re.S) else 0)
    # record layer of the encrypted mechanisms
    fr = strip_comments(src("core/src/security/framer/mod.rs"))
    mm = re.search(r"const MAX_RECORD_PLAINTEXT: usize = u16::MAX as usize - (\d+);", fr)
    emit_nat("MAX_RECORD_PLAINTEXT", 65535 - int(mm.group(1)) if mm else 0)
    emit_nat("recordsAreChunked", len(re.findall(r"self\.seal_records\(&plaintext\)", fr)) if re.search(r"for chunk in plaintext\.chunks\(MAX_RECORD_PLAINTEXT\)", fr) else 0)
    emit_nat("recordLengthChecked", 1 if re.search(r"if ciphertext\.len\(\) > u16::MAX as usize \{\s*return Err", fr) else 0)
    # every place where the session queues a control frame with priority is guarded by `output_must_keep_order()`
    actc = strip_comments(src("core/src/sessionx/actor.rs"))
    guarded = len(re.findall(r"if self\.zmtp_engine\.output_must_keep_order\(\) \{\s*egress_buffer\.push\(data, 0\);\s*\} else \{\s*egress_buffer\.push_priority\(data\);\s*\}", actc))
    emit_nat("priorityPushesGuardedByKeepOrder", 1 if guarded == actc.count("push_priority(") and guarded >= 2 else 0)
    emit_nat("recordReaderAppendsPlaintext", 1 if re.search(r"let plaintext = self\.cipher\.decrypt\(&encrypted_frame\)\?;\s*self\.decrypted_buffer\.extend_from_slice\(&plaintext\);", fr) else 0)
    en2 = strip_comments(src("core/src/protocol/zmtp/engine.rs"))
    emit_nat("controlFramesThroughFramer", len(re.findall(r"match self\.frame_control\((?:ping_msg|pong)\)", en2)))
    cc = strip_comments(src("core/src/security/curve/cipher.rs"))
    emit_nat("curveNonceCountersStartAtOne", 1 if re.search(r"send_nonce_counter: 1,\s*recv_nonce_counter: 1,", cc) else 0)
    emit_nat("curveNonceIncrementsPerRecord", len(re.findall(r"self\.(?:send|recv)_nonce_counter \+= 1;", cc)))
    ch = strip_comments(src("core/src/security/curve/handshake.rs"))
    bk = fn_body("core/src/security/curve/handshake.rs", "into_session_keys")
    emit_nat("curveDataKeysFromStaticKeysOnly", 1 if "crypto_kx_server_session_keys" in bk and "ephemeral" not in bk else 0)
    nx = strip_comments(src("core/src/security/noise_xx.rs"))
    emit_nat("noiseRefusesOversizeRecord", 1 if re.search(r"if plaintext\.len\(\) > \(u16::MAX as usize - NOISE_TAG_LEN\) \{\s*return Err", nx) else 0)
    # close/term: accounting of actors, what a closed socket answers, who notices a shutdown they missed the event of
    cx = strip_comments(src("core/src/context.rs"))
    emit_nat("actorStartedAddsToWaitGroup", 1 if re.search(r"fn publish_actor_started.*?wg\.add\(1\);", cx, re.S) else 0)
    bps = fn_body("core/src/context.rs", "publish_actor_stopping")
    emit_nat("actorStoppingAlwaysDecrements", 1 if re.search(r"if wg\.get_count\(\) > 0 \{.*?wg\.done\(\);", bps, re.S) and "return" not in bps else 0)
    dg = strip_comments(src("core/src/runtime/actor_drop_guard.rs"))
    emit_nat("dropGuardPublishesOnEveryExit", 1 if re.search(r"impl Drop for ActorDropGuard \{\s*fn drop\(&mut self\) \{.*?self\.context\.publish_actor_stopping\(", dg, re.S)
             and not re.search(r"fn drop\(&mut self\) \{[^}]*?return;", dg, re.S) else 0)
    bw = fn_body("core/src/context.rs", "wait_for_termination")
    mm = re.search(r"let wait_timeout = Duration::from_secs\((\d+)\);", bw)
    emit_nat("termStragglerTimeoutSecs", int(mm.group(1)) if mm else 0)
    wgb = fn_body("core/src/runtime/waitgroup.rs", "wait")
    emit_nat("waitGroupRegistersBeforeCheck", 1 if re.search(r"notified\.as_mut\(\)\.enable\(\);.*?if self\.count\.load\(Ordering::Acquire\) == 0", wgb, re.S) else 0)
    clx = strip_comments(src("core/src/socket/core/command_loop.rs"))
    emit_nat("commandLoopAnswersQueuedCommands", 1 if re.search(
        r"while let Ok\(cmd\) = command_receiver\.recv\(\)\.await \{\s*answer_command_after_close\(cmd\);", clx)
        and re.search(r"fn answer_command_after_close\(cmd: Command\) \{\s*match cmd \{\s*Command::UserClose \{ reply_tx \} => \{\s*let _ = reply_tx\.send\(Ok\(\(\)\)\);", clx) else 0)
    emit_nat("commandLoopUnregistersSocket", 1 if "context.inner().unregister_socket(core_handle)" in clx else 0)
    emit_nat("commandLoopUnregistersInprocNames", 1 if re.search(r"std::mem::take\(&mut core_s_guard\.bound_inproc_names\).*?unregister_inproc\(&name_val\)", clx, re.S) else 0)
    emit_nat("commandLoopStopsPatternAtExit", 1 if re.search(r"SocketCore loop exited.*?socket_logic_strong\.process_command\(Command::Stop\)\.await", src("core/src/socket/core/command_loop.rs"), re.S) else 0)
    rq2 = strip_comments(src("core/src/socket/patterns/ready_pipe_queue.rs"))
    emit_nat("queueCloseWakesParkedPop", 1 if re.search(r"pub fn close\(&self\) \{[^}]*?self\.closed\.store\(true, Ordering::Release\);\s*self\.close_notify\.notify_waiters\(\);", rq2, re.S)
             and re.search(r"_ = &mut closed => return Err", rq2) else 0)
    # parked senders: what Stop does about a send() waiting in the load balancer for its first peer
    lb = strip_comments(src("core/src/socket/patterns/load_balancer.rs"))
    mdeact = re.search(r"pub fn deactivate\(&self\) \{(.*?)\n  \}", lb, re.S)
    deact = mdeact.group(1) if mdeact else ""
    emit_nat("balancerDeactivateWakesAll", 1 if re.search(r"\.deactivated\s*\.store\(true", deact) and "notify_waiters.notify_waiters()" in deact
             and "notify_one" not in deact else 0)
    mwait = re.search(r"pub async fn wait_for_connection\(&self\).*?\n  \}", lb, re.S)
    wait = mwait.group(0) if mwait else ""
    emit_nat("balancerWaitChecksFlagAfterRegistering", 1 if re.search(r"notified\.as_mut\(\)\.enable\(\);\s*if self\.deactivated\.load\([^)]*\) \{\s*return Err", wait) else 0)
    def stop_arm(path):
        t = strip_comments(src(path))
        m = re.search(r"Command::Stop => \{(.*?)\n      \}", t, re.S)
        return m.group(1) if m else ""
    emit_nat("pushStopDeactivatesBalancer", 1 if "outgoing_orchestrator.deactivate()" in stop_arm("core/src/socket/push_socket.rs") else 0)
    emit_nat("dealerStopDeactivatesBalancer", 1 if "outgoing_orchestrator.deactivate()" in stop_arm("core/src/socket/dealer_socket.rs") else 0)
    emit_nat("reqStopDeactivatesBalancer", 1 if "load_balancer.deactivate()" in stop_arm("core/src/socket/req_socket.rs") else 0)
    emit_nat("orchestratorDeactivateReachesBalancer", 1 if re.search(r"pub fn deactivate\(&self\) \{\s*self\.load_balancer\.deactivate\(\);", strip_comments(src("core/src/socket/patterns/outgoing_orchestrator.rs"))) else 0)
    # a session that ends takes the unread commands out of its mailbox (they may own pipe ends)
    actf = strip_comments(src("core/src/sessionx/actor.rs"))
    mfin = re.search(r"async fn finalize\(mut self.*?\n  \}", actf, re.S)
    emit_nat("sessionDrainsMailboxAtExit", 1 if mfin and re.search(r"while self\.command_mailbox_receiver\.try_recv\(\)\.is_ok\(\) \{\}", mfin.group(0)) else 0)
    # io_uring worker: what happens to the table of in-kernel operations at a CloseFd completion, and how a completion finds its entry
    trk = strip_comments(src("core/src/io_uring_backend/worker/internal_op_tracker.rs"))
    cqp = strip_comments(src("core/src/io_uring_backend/worker/cqe_processor.rs"))
    morph = re.search(r"pub fn orphan_ops_for_fd\(&mut self, fd_closed: RawFd\) \{(.*?)\n  \}", trk, re.S)
    orph = morph.group(1) if morph else ""
    keeps_all = (re.search(r"for \(_, v\) in self\.op_to_details\.iter_mut\(\) \{\s*if v\.fd == fd_closed \{\s*v\.fd = ORPHANED_OP_FD;", orph)
                 and re.search(r"for d in self\.pending_notifications\.values_mut\(\) \{\s*if d\.fd == fd_closed \{\s*d\.fd = ORPHANED_OP_FD;", orph)
                 and "remove" not in orph
                 and "worker.internal_op_tracker.orphan_ops_for_fd(handler_fd);" in cqp
                 and "remove_ops_for_fd" not in cqp and "remove_ops_for_fd" not in trk)
    emit_nat("uringCloseKeepsAllInflightOps", 1 if keeps_all else 0)
    mtake = re.search(r"pub fn take_for_completion\(&mut self, user_data: UserData, is_notification: bool\).*?\n  \}", trk, re.S)
    take = mtake.group(0) if mtake else ""
    by_kind = (re.search(r"if is_notification \{\s*if let Some\(d\) = self\.pending_notifications\.remove\(&user_data\) \{\s*return Some\(d\);\s*\}\s*\}", take)
               and take.count("pending_notifications") == 1
               and re.search(r"\.get_for_completion\(cqe_user_data, is_notification_cqe\)", cqp)
               and re.search(r"\.take_for_completion\(cqe_user_data, is_notification_cqe\)", cqp)
               and "let is_notification_cqe = (cqe_flags & CQE_F_NOTIFY_FLAG) != 0;" in cqp
               and "take_op_details(cqe_user_data);\n    }\n\n    if let Some(op_details) = op_details_taken_for_final_processing" not in cqp)
    emit_nat("uringCompletionLookupByKind", 1 if by_kind else 0)
    mrein = re.search(r"pub fn reinsert_for_notification\(&mut self, user_data: UserData, details: InternalOpDetails\) \{(.*?)\n  \}", trk, re.S)
    rein = mrein.group(1) if mrein else ""
    emit_nat("uringNotificationKeepsSlot", 1 if re.search(r"if self\.op_to_details\.vacant_key\(\) == key \{\s*self\.op_to_details\.insert\(details\);\s*return;", rein) else 0)
    mreap = re.search(r"fn reap_orphaned_completion\(.*?\n\}", cqp, re.S)
    reap = mreap.group(0) if mreap else ""
    emit_nat("uringOrphanCompletionGivesBufferBack", 1 if re.search(r"if let Some\(bid\) = cqueue::buffer_select\(cqe_flags\) \{\s*if let Some\(bm\) = worker\.buffer_manager\.as_ref\(\) \{\s*if let Err\(e\) = bm\.reprovide_buffer\(bid\)", reap) and "pool.release_buffer(send_buf_id)" in reap
             and re.search(r"if handler_fd_peeked == ORPHANED_OP_FD \{\s*reap_orphaned_completion\(", cqp) else 0)
    # io_uring handler: when it closes its connection, and that exactly one RequestClose is issued for a descriptor
    zh = strip_comments(src("core/src/io_uring_backend/zmtp_handler.rs"))
    ml = strip_comments(src("core/src/io_uring_backend/worker/main_loop.rs"))
    emit_nat("uringOneCloseRequestPerDescriptor", 1 if re.search(r"fn request_close\(&mut self, ops: &mut HandlerIoOps\) \{\s*if !self\.close_requested \{\s*self\.close_requested = true;\s*ops\.sqe_blueprints\.push\(HandlerSqeBlueprint::RequestClose\);", zh)
             and zh.count("HandlerSqeBlueprint::RequestClose") == 1 else 0)
    emit_nat("uringHandlerPollsTimers", 1 if re.search(r"let tick_out = self\.engine\.on_tick\(now\);", zh) and re.search(r"else if let Some\(deadline\) = self\.handshake_deadline \{\s*if now >= deadline \{", zh)
             and re.search(r"AppAction::PeerError\(ZmqError::Timeout\)", zh) else 0)
    emit_nat("uringCloseShutsTheSocketDown", 1 if re.search(r"HandlerSqeBlueprint::RequestClose => \{\s*unsafe \{\s*libc::shutdown\(fd, libc::SHUT_RDWR\);\s*\}\s*let mut entry = opcode::Close::new", cqp) else 0)
    emit_nat("uringShutdownRequestNamesItsConnection", 1 if re.search(r"\.map_or\(false, \|h\| conn_token == 0 \|\| h\.io_config\(\)\.conn_token == conn_token\);\s*if !is_the_connection_meant \{", ml)
             and re.search(r"conn_token: self\.conn_token,", zh) else 0)
    tc = strip_comments(src("core/src/transport/tcp.rs"))
    emit_nat("connecterAbortIsFinal", 1 if re.search(r"Connect aborted: shutdown by system event", src("core/src/transport/tcp.rs")) and 's.contains("shutdown by")' in tc else 0)
    mwait2 = re.search(r"async fn wait_for_retry_delay_internal\(.*?\n  \}\n", tc, re.S)
    w2 = mwait2.group(0) if mwait2 else ""
    emit_nat("connecterWaitsOutItsDelay", 1 if re.search(r"let wake_at = tokio::time::Instant::now\(\) \+ delay;\s*loop \{", w2) and re.search(r"Ok\(_\) => \{\}", w2)
             and re.search(r"_ = tokio::time::sleep_until\(wake_at\) => return Ok\(true\),", w2) and "Ok(_) => Ok(true)" not in w2 and "Ok(_) => return Ok(true)" not in w2 else 0)
    emit_nat("connecterChecksParentRunning", 1 if re.search(r"if !self\.socket_logic\.core\(\)\.is_running\(\) \{\s*last_connect_attempt_error", tc) else 0)
    act2 = strip_comments(src("core/src/sessionx/actor.rs"))
    hs = act2[act2.index("'handshake: loop"):act2.index("self.read_half = Some(hs_read_half);")] if "'handshake: loop" in act2 else ""
    emit_nat("handshakeWatchesEvents", 1 if "self.system_event_receiver.recv()" in hs else 0)
    mm = re.search(r"tokio::time::sleep\(Duration::from_millis\((\d+)\)\) => \{\s*if !self\.socket_logic\.core\(\)\.is_running\(\)", hs)
    emit_nat("handshakePollsParentEveryMs", int(mm.group(1)) if mm else 0)
    # user operations look at is_running() first
    n_guard = 0
    for rel in ("push_socket.rs", "pull_socket.rs", "dealer_socket.rs", "router_socket.rs", "req_socket.rs", "rep_socket.rs", "pub_socket.rs", "sub_socket.rs"):
        txt = strip_comments(src("core/src/socket/" + rel))
        n_guard += len(re.findall(r"async fn (?:send|recv|send_multipart|recv_multipart)\([^)]*\)[^{]*\{\s*if !self\.core\.is_running\(\) \{\s*return Err", txt))
    emit_nat("userOpsGuardedByIsRunning", n_guard)
    # LINGER: what the linger check looks at, when sessions stop, whether they flush
    sh = strip_comments(src("core/src/socket/core/shutdown.rs"))
    bl = fn_body("core/src/socket/core/shutdown.rs", "is_linger_expired_or_queues_empty")
    emit_nat("lingerCheckLooksAtPipesOnly", 1 if re.search(r"pipes_tx\s*\.values\(\)\s*\.all\(\|sender\| sender\.is_empty\(\)\)", bl) and "egress" not in bl else 0)
    emit_nat("lingerDeadlineChecked", 1 if re.search(r"if let Some\(deadline\) = self\.linger_deadline \{\s*if Instant::now\(\) >= deadline", bl) else 0)
    bs = fn_body("core/src/socket/core/shutdown.rs", "start_linger_if_needed")
    emit_nat("lingerNoneHasNoDeadline", 1 if re.search(r"None => \{\s*self\.linger_deadline = None;", bs) else 0)
    mpl = re.search(r"pub\(crate\) fn parse_linger_option\(value: &\[u8\]\) -> Result<Option<Duration>, ZmqError> \{(.*?)\n\}", strip_comments(src("core/src/socket/options.rs")), re.S)
    pl = re.sub(r"\s+", " ", mpl.group(1)) if mpl else ""
    emit_nat("lingerOptionParsedAsGiven", 1 if "-1 => Ok(None)," in pl and "0.. => Ok(Some(Duration::from_millis(val as u64)))," in pl
             and pl.count("=>") == 3 else 0)
    emit_nat("lingerZeroDeadlineNow", 1 if re.search(r"Some\(d\) if d\.is_zero\(\) => \{\s*self\.linger_deadline = Some\(Instant::now\(\)\);", bs) else 0)
    emit_nat("lingerTimedDeadline", 1 if re.search(r"Some\(d\) => \{\s*self\.linger_deadline = Some\(Instant::now\(\) \+ d\);", bs) else 0)
    bi = fn_body("core/src/socket/core/shutdown.rs", "initiate_core_shutdown")
    i1 = bi.find("coordinator.state = ShutdownPhase::Lingering;")
    i2 = bi.find("coordinator.start_linger_if_needed(")
    emit_nat("lingerArmedAfterPhaseSet", 1 if 0 <= i1 < i2 else 0)    # start_linger_if_needed returns early in any other phase
    emit_nat("lingerStartRequiresLingeringPhase", 1 if re.search(r"if self\.state != ShutdownPhase::Lingering \{[^}]*?return;", bs, re.S) else 0)
    cl2 = strip_comments(src("core/src/socket/core/command_loop.rs"))
    mm = re.search(r"maintenance_interval: Interval = interval\(Duration::from_millis\((\d+)\)\)", cl2)
    emit_nat("lingerCheckIntervalMs", int(mm.group(1)) if mm else 0)
    bev = fn_body("core/src/sessionx/actor.rs", "process_system_event")
    emit_nat("sessionStopsOnSocketClosing", 1 if re.search(r"SystemEvent::SocketClosing \{ socket_id \} => \{\s*if socket_id == self\.parent_socket_id \{\s*self\.transition_to_shutdown_stream\(None\)", bev) else 0)
    emit_nat("sessionStopsOnContextTerminating", 1 if re.search(r"SystemEvent::ContextTerminating => \{[^}]*?self\.transition_to_shutdown_stream\(None\)", bev, re.S) else 0)
    bg = fn_body("core/src/sessionx/actor.rs", "perform_graceful_shutdown")
    emit_nat("sessionFlushesOnStop", 1 if ("egress_buffer" in bg or re.search(r"ShuttingDownStream[^;]*?EgressDriver::new", strip_comments(src("core/src/sessionx/actor.rs")), re.S)) else 0)
    so = strip_comments(src("core/src/socket/options.rs"))
    emit_nat("lingerDefaultIsZero", 1 if re.search(r"linger: Some\(Duration::ZERO\)", so) else 0)
    # HWM / timeouts: capacities of the two bounded queues of a connection, and what SNDTIMEO -1 means on a full one
    cp = strip_comments(src("core/src/socket/core/command_processor.rs"))
    emit_nat("pipeCapacityIsSndhwm", 1 if re.search(r"bounded_async::<FrameBatch>\(core_arc\.core_state\.read\(\)\.options\.sndhwm\.max\(1\)\)", cp) else 0)
    pl = strip_comments(src("core/src/socket/pull_socket.rs"))
    emit_nat("ingressCapacityIsRcvhwm", 1 if re.search(r"opts\.options\.rcvhwm\.max\(1\)", pl) and "register_pipe(pipe_read_id, rcvhwm" in pl else 0)
    caps = 0
    for rel in ("core/src/sessionx/iface.rs", "core/src/transport/inproc/connection.rs", "core/src/io_uring_backend/zmtp_handler.rs"):
        caps += len(re.findall(r"sndtimeo\s*\.unwrap_or\(Duration::from_secs\(\d+\)\)", strip_comments(src(rel))))
    emit_nat("sndtimeoNoneCappedSites", caps)
    ifc = strip_comments(src("core/src/sessionx/iface.rs"))
    emit_nat("sndtimeoZeroIsTrySend", len(re.findall(r"TrySendError::Full\(\w+\)\) if self\.sndtimeo == Some\(Duration::ZERO\)", ifc)))
    ai2 = strip_comments(src("core/src/socket/patterns/anonymous_ingress.rs"))
    emit_nat("rcvtimeoZeroIsTryPop", len(re.findall(r"Some\(d\) if d\.is_zero\(\) => self\.queue\.try_pop\(\)\.ok_or\(ZmqError::ResourceLimitReached\)\?", ai2)))
    emit_nat("rcvtimeoPositiveIsTimeout", len(re.findall(r"Some\(d\) => tokio::time::timeout\(d, self\.queue\.pop\(\)\)\s*\.await\s*\.map_err\(\|_\| ZmqError::Timeout\)\?\?", ai2)))
    emit_nat("rcvtimeoNoneWaits", len(re.findall(r"None => self\.queue\.pop\(\)\.await\?", ai2)))
    dl = strip_comments(src("core/src/socket/dealer_socket.rs"))
    emit_nat("dealerQueuesOnlyReturnedMessages", 1 if re.search(r"Err\(\(returned, ZmqError::ResourceLimitReached\)\) => \{\s*self\.queue_message_or_error", dl) and re.search(r"try_route_sync\(zmtp_frames_for_logical_message\)", dl) else 0)
    # PUSH: frames sent one by one with MORE are held until the last one and routed as one message
    ps = strip_comments(src("core/src/socket/push_socket.rs"))
    emit_nat("pushHoldsPartsUntilLast", 1 if re.search(r"let more = msg\.is_more\(\);\s*parts\.push\(msg\);\s*if more \{\s*return Ok\(\(\)\);\s*\}\s*std::mem::replace\(&mut \*parts, FrameBatch::new\(\)\)", ps)
             and re.search(r"self\.send_with_timeout\(fb, wait_for_peer, sndtimeo\)\.await", ps) else 0)
    emit_nat("pushOverlongMessageIsDroppedWhole", 1 if re.search(r"if parts\.len\(\) >= crate::message::MAX_USER_FRAMES_PER_MESSAGE \{\s*\*parts = FrameBatch::new\(\);\s*return Err", ps) else 0)
    # DEALER: a send queues behind older pending messages; the processor keeps a failed message at the FRONT and does not
    # wait inside the send; the backlog counter is raised with the push and lowered only after a successful hand-over
    emit_nat("dealerSendQueuesBehindBacklog", 1 if re.search(r"if self\.pending_backlog\.load\([^)]*\) > 0 \{\s*return self\.queue_message_or_error\(", dl) else 0)
    emit_nat("dealerProcessorRequeuesAtFront", 1 if re.search(r"Err\(\(returned, _\)\) => \{.*?self\.pending_queue\.lock\(\)\.await\.push_front\(returned\);", dl, re.S) else 0)
    emit_nat("dealerBacklogCountsPushAndHandOver", 1 if re.search(r"queue_guard\.push_back\(full_message_parts\);\s*self\.pending_backlog\.fetch_add\(1", dl)
             and re.search(r"Ok\(\(\)\) => \{\s*self\.pending_backlog\.fetch_sub\(1", dl) else 0)
    # frame-by-frame send() transactions (DEALER, ROUTER): nothing reaches the peer before the last frame, and the
    # transaction is emptied BEFORE the hand-over of the complete message is awaited (a dropped future runs no code)
    dsend = fn_body("core/src/socket/dealer_socket.rs", "send", within="impl ISocket for DealerSocket")
    more_branch = dsend[dsend.find("if msg.is_more() {"):dsend.find("} else {\n      let (parts_to_send_app_level")] if "if msg.is_more() {" in dsend else ".await"
    emit_nat("dealerTxBuffersUntilLast", 1 if "parts.push(msg);" in more_branch and ".await" not in more_branch else 0)
    emit_nat("dealerTxClosedBeforeAwait", 1 if re.search(
        r"match std::mem::replace\(&mut \*transaction_guard, DealerSendTransaction::Idle\) \{\s*DealerSendTransaction::Idle => \{[^}]*\}\s*"
        r"DealerSendTransaction::Buffering \{[^}]*\} => \{[^}]*\}\s*\};\s*drop\(transaction_guard\);\s*let full_message_for_wire =[^;]*;\s*"
        r"let result = self\.send_logical_message\(full_message_for_wire\)\.await;", dsend) and dsend.count(".await") == 2 else 0)
    rsend = fn_body("core/src/socket/router_socket.rs", "send", within="impl ISocket for RouterSocket")
    emit_nat("routerTxBuffersUntilLast", 1 if "conn_iface.send_message(" not in rsend and "conn_iface.send(" not in rsend
             and re.search(r"\.send_multipart\(FrameBatch::from\(active_info\.frames\)\)", rsend)
             and re.search(r"active_info\.frames\.push\(msg\);\s*if !is_last_user_part \{\s*return Ok\(\(\)\);", rsend) else 0)
    m_take = re.search(r"if let Some\(active_info\) = current_send_target_guard\.as_mut\(\) \{(.*?)let Some\(active_info\) = current_send_target_guard\.take\(\) else", rsend, re.S)
    emit_nat("routerTxClosedBeforeAwait", 1 if m_take and ".await" not in m_take.group(1) else 0)
    psend = fn_body("core/src/socket/pub_socket.rs", "send", within="impl ISocket for PubSocket")
    m_pub = re.search(r"let mut parts = self\.pending_parts\.lock\(\);\s*if msg\.is_more\(\) \|\| !parts\.is_empty\(\) \{(.*?)Err\(std::mem::replace\(&mut \*parts, FrameBatch::new\(\)\)\)", psend, re.S)
    emit_nat("pubTxBuffersUntilLast", 1 if m_pub and re.search(r"let more = msg\.is_more\(\);\s*parts\.push\(msg\);\s*if more \{\s*return Ok\(\(\)\);", m_pub.group(1)) else 0)
    emit_nat("pubTxClosedBeforeAwait", 1 if m_pub and ".await" not in psend[:psend.find("Err(std::mem::replace(&mut *parts, FrameBatch::new()))")]
             and re.search(r"Err\(frames\) => return self\.send_multipart\(frames\)\.await,", psend) else 0)
    emit_nat("dealerPendingBoundedBySndhwm", 1 if re.search(r"if queue_guard\.len\(\) < global_sndhwm \{", dl) else 0)
    # multipart stash: what happens to the unread frames of a message on deregister / recv_multipart
    ai = strip_comments(src("core/src/socket/patterns/anonymous_ingress.rs"))
    bd = fn_body("core/src/socket/patterns/anonymous_ingress.rs", "deregister_pipe")
    emit_nat("anonDeregKeepsStash", 0 if "local_cache" in bd else 1)
    for nm, rel in (("dealer", "core/src/socket/dealer_socket.rs"), ("router", "core/src/socket/router_socket.rs")):
        body = fn_body(rel, "recv_multipart")
        emit_nat(nm + "RecvMultipartDrainsStash", 1 if re.search(r"self\.frame_recv_buffer\.lock\(\)\.take\(\)", body) else 0)
        whole = strip_comments(src(rel))
        # pipe_detached must not touch the stash either
        emit_nat(nm + "DetachKeepsStash", 0 if re.search(r"fn pipe_detached.*?frame_recv_buffer", whole, re.S) and
                 "frame_recv_buffer" in fn_body(rel, "pipe_detached") else 1)
    # send_multipart: MORE on all but the last frame
    norm = r"if i (?:\+ 1 )?< \w+(?: - 1)? \{\s*frame\.set_flags\(frame\.flags\(\) \| MsgFlags::MORE\);\s*\} else \{\s*frame\.set_flags\(frame\.flags\(\) & !MsgFlags::MORE\);"
    for nm, rel, fn in (("push", "core/src/socket/push_socket.rs", "send_multipart"), ("pub", "core/src/socket/pub_socket.rs", "send_multipart"),
                        ("dealer", "core/src/socket/dealer_socket.rs", "prepare_full_multipart_send_sequence"),
                        ("router", "core/src/socket/router_socket.rs", "send_multipart")):
        try:
            body = fn_body(rel, fn)
        except Exception:
            body = ""
        emit_nat(nm + "SendNormalisesMore", 1 if re.search(norm, body) else 0)
    # session batch assembly: is the pipe tapped only when the carry-over is empty?
    act = strip_comments(src("core/src/sessionx/actor.rs"))
    emit_nat("topUpOnlyIfCarryEmpty", 1 if re.search(
        r"let start_len = outgoing_batch\.len\(\);\s*if core_carryover\.is_empty\(\) && start_len < max_count && total_bytes < logical_max_bytes", act) else 0)
    emit_nat("pipeBranchNeedsEmptyCarry", 1 if re.search(
        r"recv_from_core\(\)\.await \},\s*if self\.current_phase == ConnectionPhaseX::Operational\s*&& self\.core_pipe_manager\.is_attached\(\)\s*&& core_carryover\.is_empty\(\)", act) else 0)
    emit_nat("overflowGoesToCarry", len(re.findall(r"core_carryover\.extend\(outgoing_batch\.drain\(i\.\.\)\);", act)))
    emit_nat("carryBreakPushesFront", 1 if re.search(r"core_carryover\.push_front\(next_msg\);\s*break;", act) else 0)
    # REQ/REP: is the state transition claimed under the lock that checks it?
    rq = strip_comments(src("core/src/socket/req_socket.rs"))
    bsend = fn_body("core/src/socket/req_socket.rs", "send", within="impl ISocket for ReqSocket")
    emit_nat("reqSendClaims", 1 if re.search(
        r"let mut current_state_guard = self\.state\.lock\(\);\s*match \*current_state_guard \{\s*ReqState::ReadyToSend => \{\s*\*current_state_guard = ReqState::Sending;", bsend) else 0)
    emit_nat("reqSendRollsBack", 1 if re.search(r"impl Drop for ReqSendClaim.*?ReqState::Sending.*?ReqState::ReadyToSend", rq, re.S) else 0)
    # a FAILING receive finishes only its own exchange; a receive that RETURNS a reply finishes the current one
    emit_nat("reqExchangeGuard", len(re.findall(r"exchange == my_exchange", rq)))
    emit_nat("reqRecvOkFinishesCurrent", len(re.findall(r"ReqState::ExpectingReply \{ exchange, \.\. \} => \w+\.is_ok\(\) \|\| exchange == my_exchange", rq)))
    rp = strip_comments(src("core/src/socket/rep_socket.rs"))
    emit_nat("repRecvClaims", len(re.findall(
        r"RepState::ReadyToReceive => \{\s*\*guard = RepState::Receiving;", rp)))
    emit_nat("repRecvRollsBack", 1 if re.search(r"impl Drop for RepRecvClaim.*?RepState::Receiving.*?RepState::ReadyToReceive", rp, re.S) else 0)
    cl = "core/src/socket/core/command_loop.rs"
    emit_nat("busLagShutsSocketDown", 1 if re.search(r"RecvError::Lagged\(n\)\)\s*=>\s*\{.*?initiate_core_shutdown", strip_comments(src(cl)), re.S) else 0)


GENERATORS = [("Consts", [wire], []), ("Proto", [proto], ["RzmqModel.Model.Names"]), ("Life", [lifecycle], [])]


def main():
    os.makedirs(OUT, exist_ok=True)
    changed = []
    for modname, fns, imports in GENERATORS:
        del lines[:]
        for f in fns:
            try:
                f()
            except FileNotFoundError as e:
                errors.append(f"missing source file: {e.filename}")
            except Exception as e:  # noqa
                errors.append(f"{f.__name__}: {type(e).__name__}: {e}")
        text = ["import " + i for i in imports] + [
            "-- GENERATED by tools/translate.py from /repo's current source. Do not edit.",
            "namespace Rzmq.Gen", ""]
        seen = set()
        for name, ty, val in lines:
            if name in seen:
                errors.append(f"duplicate generated name {name}")
                continue
            seen.add(name)
            text.append(f"def {name} : {ty} := {val}")
        text += ["", "end Rzmq.Gen", ""]
        text = "\n".join(text)
        path = os.path.join(OUT, modname + ".lean")
        old = open(path).read() if os.path.exists(path) else None
        if old != text and not errors:
            with open(path, "w") as f:
                f.write(text)
            changed.append(modname)
    print(json.dumps({"errors": errors, "changed": changed}))
    return 2 if errors else 0


if __name__ == "__main__":
    sys.exit(main())
