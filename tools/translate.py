#!/usr/bin/env python3
"""Tie A: re-extract literal tables and constants from /repo's *current* Rust source into
lean/RzmqModel/Gen/*.lean.  Every model definition that depends on one of these literals is
written in terms of the generated name, so an edit of the literal in Rust changes the Lean
definition the theorems are about and the kernel re-checks them against it.

A pattern that can no longer be located is reported (exit 2, JSON on stdout) -- it is never
skipped silently.  Output files are only rewritten when their content changes (keeps lake
incremental).
"""
import json
import os
import re
import sys

REPO = os.environ.get("VERIF_REPO", "/repo")
OUT = os.path.join(os.path.dirname(os.path.abspath(__file__)), "..", "lean", "RzmqModel", "Gen")

errors = []
_cache = {}


def src(rel):
    if rel not in _cache:
        with open(os.path.join(REPO, rel), encoding="utf-8") as f:
            _cache[rel] = f.read()
    return _cache[rel]


def strip_comments(s):
    s = re.sub(r"//[^\n]*", "", s)
    s = re.sub(r"/\*.*?\*/", "", s, flags=re.S)
    return s


def fn_body(rel, name, nth=0, within=None):
    """Return the text of the body of the nth `fn name` in file rel (comments stripped)."""
    s = strip_comments(src(rel))
    if within is not None:
        i = s.find(within)
        if i < 0:
            errors.append(f"{rel}: context `{within}` not found")
            return ""
        s = s[i:]
    idxs = [m.start() for m in re.finditer(r"\bfn\s+" + re.escape(name) + r"\b", s)]
    if len(idxs) <= nth:
        errors.append(f"{rel}: fn {name} (#{nth}) not found")
        return ""
    i = s.find("{", idxs[nth])
    depth = 0
    j = i
    while j < len(s):
        if s[j] == "{":
            depth += 1
        elif s[j] == "}":
            depth -= 1
            if depth == 0:
                return s[i : j + 1]
        j += 1
    errors.append(f"{rel}: fn {name}: unbalanced braces")
    return ""


def num(tok):
    tok = tok.strip().replace("_", "")
    tok = re.sub(r"(u8|u16|u32|u64|usize|i64|i32)$", "", tok)
    # simple products / sums like 64 * 1024 * 1024 or 1 + 8
    if re.fullmatch(r"[0-9a-fA-Fxb+* ()]+", tok):
        return int(eval(tok, {"__builtins__": {}}))
    raise ValueError(tok)


def const(rel, name):
    m = re.search(r"\bconst\s+" + re.escape(name) + r"\s*:\s*[^=]+=\s*([^;]+);", strip_comments(src(rel)))
    if not m:
        errors.append(f"{rel}: const {name} not found")
        return 0
    try:
        return num(m.group(1))
    except Exception:
        errors.append(f"{rel}: const {name}: cannot evaluate `{m.group(1)}`")
        return 0


def grab(body, pattern, what, group=1, flags=re.S):
    m = re.search(pattern, body, flags)
    if not m:
        errors.append(f"pattern for {what} not found")
        return "0"
    return m.group(group)


def grab_all(body, pattern, what, expect=None):
    r = re.findall(pattern, body, re.S)
    if expect is not None and len(r) != expect:
        errors.append(f"pattern for {what}: expected {expect} occurrences, found {len(r)}")
        return ["0"] * (expect or 1)
    return r


lines = []  # (name, type, value-as-lean)


def emit(name, ty, val):
    lines.append((name, ty, val))


def emit_nat(name, v):
    emit(name, "Nat", str(int(v)))


def emit_u8(name, v):
    emit(name, "UInt8", str(int(v)))


def emit_bytes(name, bs):
    emit(name, "List UInt8", "[" + ", ".join(str(b) for b in bs) + "]")


def rust_bytes_literal(lit):
    """b"..." literal content -> list of ints"""
    out = []
    i = 0
    while i < len(lit):
        c = lit[i]
        if c == "\\":
            n = lit[i + 1]
            if n == "x":
                out.append(int(lit[i + 2 : i + 4], 16))
                i += 4
            elif n == "0":
                out.append(0)
                i += 2
            elif n == "n":
                out.append(10)
                i += 2
            elif n == "\\":
                out.append(92)
                i += 2
            elif n == '"':
                out.append(34)
                i += 2
            else:
                raise ValueError(lit)
        else:
            out.append(ord(c))
            i += 1
    return out


# ------------------------------------------------------------------------------------------
# Wire (C03, C07)
# ------------------------------------------------------------------------------------------
def wire():
    cmd = "core/src/protocol/zmtp/command.rs"
    emit_u8("ZMTP_FLAG_LONG", const(cmd, "ZMTP_FLAG_LONG"))
    emit_u8("ZMTP_FLAG_MORE", const(cmd, "ZMTP_FLAG_MORE"))
    emit_u8("ZMTP_FLAG_COMMAND", const(cmd, "ZMTP_FLAG_COMMAND"))

    codec = "core/src/protocol/zmtp/codec.rs"
    emit_nat("CODEC_MAX_FRAME_SIZE", const(codec, "CODEC_MAX_FRAME_SIZE"))
    b = fn_body(codec, "encode", within="impl Encoder<Msg> for ZmtpCodec")
    emit_nat("codecEncodeShortMax", num(grab(b, r"if\s+size\s*<=\s*([0-9_]+)", "codec.encode short threshold")))
    emit_nat("codecEncodeUsesFlagConsts",
             1 if ("ZMTP_FLAG_MORE" in b and "ZMTP_FLAG_COMMAND" in b and "ZMTP_FLAG_LONG" in b) else 0)
    b = fn_body(codec, "encode_header_only")
    emit_nat("hdrOnlyShortMax", num(grab(b, r"if\s+data_size\s*<=\s*([0-9_]+)", "encode_header_only threshold")))
    emit_nat("hdrOnlyUsesFlagConsts",
             1 if ("ZMTP_FLAG_MORE" in b and "ZMTP_FLAG_COMMAND" in b and "ZMTP_FLAG_LONG" in b) else 0)
    b = fn_body(codec, "decode", within="impl Decoder for ZmtpCodec")
    m = re.search(r"let\s+header_len\s*=\s*if\s+is_long\s*\{\s*([0-9 +]+)\}\s*else\s*\{\s*([0-9 +]+)\}", b)
    if not m:
        errors.append("codec.decode header_len pattern not found")
    else:
        emit_nat("codecDecLongHdr", num(m.group(1)))
        emit_nat("codecDecShortHdr", num(m.group(2)))

    enc = "core/src/security/framer/encoder.rs"
    b = fn_body(enc, "frame_contiguous")
    th = grab_all(b, r"len\s*<=\s*([0-9_]+)", "frame_contiguous thresholds", 2)
    emit_nat("contigSizeCalcShortMax", num(th[0]))
    emit_nat("contigShortMax", num(th[1]))
    m = re.search(r"required_size\s*\+=\s*if\s+len\s*<=\s*[0-9_]+\s*\{\s*([0-9]+)\s*\+\s*len\s*\}\s*else\s*\{\s*([0-9]+)\s*\+\s*len\s*\}", b)
    if not m:
        errors.append("frame_contiguous size calc pattern not found")
    else:
        emit_nat("contigSizeCalcShortHdr", num(m.group(1)))
        emit_nat("contigSizeCalcLongHdr", num(m.group(2)))
    emit_u8("contigMore", num(grab(b, r"MsgFlags::MORE\)\s*\{\s*zmtp_flags\s*\|=\s*(0x[0-9a-fA-F]+|[0-9]+)", "contig MORE bit")))
    emit_u8("contigCommand", num(grab(b, r"MsgFlags::COMMAND\)\s*\{\s*zmtp_flags\s*\|=\s*(0x[0-9a-fA-F]+|[0-9]+)", "contig COMMAND bit")))
    emit_u8("contigLong", num(grab(b, r"else\s*\{\s*zmtp_flags\s*\|=\s*(0x[0-9a-fA-F]+|[0-9]+)", "contig LONG bit")))

    def vect_like(body, prefix, lenvar):
        emit_nat(prefix + "ShortMax", num(grab(body, r"if\s+" + lenvar + r"\s*<=\s*([0-9_]+)", prefix + " threshold")))
        pairs = re.findall(r"put_u8\(\s*if\s+is_more\s*\{\s*(0x[0-9a-fA-F]+|[0-9]+)\s*\}\s*else\s*\{\s*(0x[0-9a-fA-F]+|[0-9]+)\s*\}\s*\)", body)
        if len(pairs) == 2:
            emit_u8(prefix + "ShortMoreByte", num(pairs[0][0]))
            emit_u8(prefix + "ShortLastByte", num(pairs[0][1]))
            emit_u8(prefix + "LongMoreByte", num(pairs[1][0]))
            emit_u8(prefix + "LongLastByte", num(pairs[1][1]))
            emit_nat(prefix + "HandlesCommand", 0)
        else:
            # Shape changed (e.g. the COMMAND bit is now handled).  Recognise the flag-accumulator
            # shape used by frame_contiguous; anything else is a located-pattern failure.
            mm = re.search(r"MsgFlags::MORE\)\s*\{\s*\w+\s*\|=\s*(0x[0-9a-fA-F]+|[0-9]+)", body)
            mc = re.search(r"MsgFlags::COMMAND\)\s*\{\s*\w+\s*\|=\s*(0x[0-9a-fA-F]+|[0-9]+)", body)
            ml = re.search(r"else\s*\{\s*\w+\s*\|=\s*(0x[0-9a-fA-F]+|[0-9]+)", body)
            if mm and mc and ml:
                mo, co, lo = num(mm.group(1)), num(mc.group(1)), num(ml.group(1))
                emit_u8(prefix + "ShortMoreByte", mo)
                emit_u8(prefix + "ShortLastByte", 0)
                emit_u8(prefix + "LongMoreByte", mo | lo)
                emit_u8(prefix + "LongLastByte", lo)
                emit_nat(prefix + "HandlesCommand", 1)
                emit_u8(prefix + "CommandBit", co)
                return
            errors.append(prefix + ": header byte pattern not found")
            return
        emit_u8(prefix + "CommandBit", 0)

    vect_like(fn_body(enc, "frame_vectored"), "vect", "len")
    fr = "core/src/security/framer/mod.rs"
    vect_like(fn_body(fr, "write_msg_split", within="impl ISecureFramer for NullFramer"), "split", "payload_len")

    mp = "core/src/protocol/zmtp/manual_parser.rs"
    for fname, pre in (("decode_frame_from_slice", "slice"), ("peek_frame_len", "peek"),
                       ("decode_frame_from_bytes", "bytes"), ("decode_from_buffer", "buffer")):
        b = fn_body(mp, fname)
        m = re.search(r"let\s+header_len\s*=\s*if\s+is_long\s*\{\s*([0-9 +]+)\}\s*else\s*\{\s*([0-9 +]+)\}", b)
        if not m:
            errors.append(f"{fname}: header_len pattern not found")
            continue
        emit_nat(pre + "LongHdr", num(m.group(1)))
        emit_nat(pre + "ShortHdr", num(m.group(2)))
        mm = re.search(r"if\s+src\.(?:len\(\)\s*<\s*([0-9]+)|is_empty\(\))", b)
        if not mm:
            errors.append(f"{fname}: initial length guard not found")
        else:
            emit_nat(pre + "MinLen", int(mm.group(1)) if mm.group(1) else 1)
        emit_nat(pre + "ChecksMax", 1 if re.search(r"self\.max_msg_size\s*>=\s*0\s*&&\s*raw_size\s*>\s*self\.max_msg_size\s+as\s+u64", b) else 0)

    fr_b = fn_body(fr, "try_read_msg", within="impl ISecureFramer for LengthPrefixedFramer")
    emit_nat("recordLenBytes", num(grab(fr_b, r"network_buffer\.len\(\)\s*<\s*([0-9]+)", "record length prefix size")))


GENERATORS = [("Consts", [wire])]


def main():
    os.makedirs(OUT, exist_ok=True)
    changed = []
    for modname, fns in GENERATORS:
        del lines[:]
        for f in fns:
            try:
                f()
            except FileNotFoundError as e:
                errors.append(f"missing source file: {e.filename}")
            except Exception as e:  # noqa
                errors.append(f"{f.__name__}: {type(e).__name__}: {e}")
        text = ["-- GENERATED by tools/translate.py from /repo's current source. Do not edit.",
                "namespace Rzmq.Gen", ""]
        seen = set()
        for name, ty, val in lines:
            if name in seen:
                errors.append(f"duplicate generated name {name}")
                continue
            seen.add(name)
            text.append(f"def {name} : {ty} := {val}")
        text += ["", "end Rzmq.Gen", ""]
        text = "\n".join(text)
        path = os.path.join(OUT, modname + ".lean")
        old = open(path).read() if os.path.exists(path) else None
        if old != text and not errors:
            with open(path, "w") as f:
                f.write(text)
            changed.append(modname)
    print(json.dumps({"errors": errors, "changed": changed}))
    return 2 if errors else 0


if __name__ == "__main__":
    sys.exit(main())
