#!/bin/bash
# runs the quick (or given) tier of every claimed check on the current tree, sequentially; prints one line per check
cd /verif
tier=${1:-quick}
for id in $(python3 -c "import json;print(' '.join(c['property_id'] for c in json.load(open('MANIFEST.json'))['checks']))"); do
  s=$(date +%s)
  out=$(./check $id --tier $tier 2>&1); rc=$?
  e=$(( $(date +%s) - s ))
  echo "$id rc=$rc ${e}s $(echo "$out" | grep -c '^VIOLATION') violation(s) $(echo "$out" | grep -c '^KNOWN-FINDING') known | $(echo "$out" | tail -1 | cut -c1-140)"
done
