#!/usr/bin/env python3
"""Regenerates /verif/MANIFEST.json from the table below (single source of truth for what is claimed)."""
import json
import os

VERIF = os.path.dirname(os.path.dirname(os.path.abspath(__file__)))

BASELINE = ("cd /repo/$(cat /w/out/cargo_root.txt) && cargo nextest run --workspace --no-fail-fast "
            "--tool-config-file pb:/w/lib/nextest.toml --profile pb --test-threads 8 --offline")

COMMON_NOTE = ("Trusted: Lean 4.33 kernel (axioms propext/Classical.choice/Quot.sound only, audited per theorem), "
               "tools/translate.py, the correspondence harness + Lean driver and their generators. ")

CLAIMED = {
    "C01": dict(
        engine="M3 Session + M13 Dealer",
        technique="Lean 4 theorems: conservation lemmas for the two batch-assembly passes, an egress-buffer refinement (partial writes, priority "
                  "chunks) and a wire-order invariant by induction over every event sequence of the session's send path; the same for the receive "
                  "path; composed with the C03 round-trip for any segmentation; tie: translator re-extracts the guards of the assembly code "
                  "(theorem `source_shape`), stack-level streaming scenarios on real sockets whose delivered sequence is compared with the "
                  "model's prediction (digest of exactly the accepted sequence)",
        text="Proof over the session model: for every configuration (SNDHWM, batch count, logical and physical byte limits) and every interleaving "
             "of application sends, loop passes, partial writes and PING/PONG insertions, the data written or buffered followed by carry-over and "
             "pipe is at all times exactly the framing of the accepted messages in acceptance order (no loss, duplicate or reordering); writes are "
             "chunk-aligned and control frames land only on chunk boundaries; a pass always takes the oldest message; batches respect count and "
             "byte ceilings; the session buffers at most SNDHWM messages plus one batch; on the receive side delivered ++ queued ++ buffered = "
             "decoded for every schedule of reads, drains, stalled and cancelled sends; end to end (drained, any cuts) the receiver regroups "
             "exactly the accepted messages; DEALER's pending queue in front of the pipe: for every interleaving of sends, the processor's "
             "pops and (failed or successful) hand-over attempts and the session's takes, wire ++ pipe ++ processor's hand ++ queue = "
             "the acceptance log, so nothing overtakes (two counterexample theorems for the earlier shapes: a send that ignored the "
             "backlog, a re-queue at the back). 22 theorems. Partial: the DEALER model is tied by translator flags and the streaming "
             "scenarios (no lock-step run: the processor is a timing-driven task); the load balancer across several peers, the ROUTER "
             "map, the inproc path and the io_uring backend are exercised by the streaming scenarios only; liveness (everything "
             "accepted is eventually written) is observed, not proved. KNOWN FINDING rare-connection-stall (symptom only: twice in ~10^5 stream cases a fresh tcp connection carried no data at all; a matching case is attributed to it only after three clean replays of the same case).",
        note=COMMON_NOTE + "The model's events are atomic with respect to each other because the session actor is a single task; fibre channels are assumed FIFO.",
        design="§8 C01"),
    "C02": dict(
        engine="M6 Multipart + M14 FrameWise + M2 Engine",
        technique="Lean 4 theorems: invariant by induction over every history of the receive-side stash (registration, arrival, recv, recv_multipart, "
                  "detach), MORE-flag normalisation lemmas, a frame-count limit chain, and an engine invariant (only whole messages are delivered) lifted "
                  "through step/run/feedAll; tie: translator re-extracts the stash/normalisation/limit shape of the sources (theorems "
                  "`current_source_is_the_proved_instance`, `senders_normalise`, `frame_limits_consistent`), lock-step correspondence on the real "
                  "AnonymousIngressEngine, multipart streaming / interrupted-read / oversized-message scenarios on real sockets",
        text="Proof over the models: for every history the frames handed to the application followed by the stashed rest are exactly the messages "
             "taken from the queue, in order, contiguous and complete, whatever other peers attach or detach and however recv() and recv_multipart() "
             "are mixed; every recv_multipart() result ends a message; per-pipe FIFO; one send_multipart call puts one well-formed message on the wire "
             "with payloads untouched; the frame limits of sender API, DEALER buffering, receiving engine and message container fit together; the "
             "engine hands over only whole messages within the limit for every byte stream and segmentation; the two earlier shapes (stash cleared on "
             "detach, recv_multipart ignoring the stash) are proved unsafe by explicit traces. a PUSH fed frame by frame (or with whole send_multipart calls in between, or with messages beyond the frame limit) hands only whole "
             "messages to its peers, each to one peer, for every sequence of calls and any number of peers (counterexample theorem for "
             "per-frame load balancing). 16 theorems. Partial: DEALER's and ROUTER's own stash "
             "code is tied by pattern flags and stack scenarios rather than a component run; ROUTER's frame-by-frame send() path can still put more "
             "than the limit on the wire (the receiver then closes the connection, which the property allows). KNOWN FINDING rare-connection-stall (symptom only: twice in ~10^5 stream cases a fresh tcp connection carried no data at all; a matching case is attributed to it only after three clean replays of the same case).",
        note=COMMON_NOTE + "The ready-pipe queue is modelled sequentially here (its concurrency is C08's subject).",
        design="§8 C02"),
    "C03": dict(
        engine="M1 Wire",
        technique="Lean 4 theorems (round-trip, encoder agreement, cut-independence by induction over the chunk list) "
                  "over a hand-written model; model tied to code by constant/table translator + lock-step differential "
                  "correspondence on the real encoders/decoders",
        text="Proof, full strength: for every frame list, every encoder (codec, contiguous, vectored, split, header-only), "
             "every decoder (stateful buffer, slice, Bytes, peek, tokio codec incl. primed prefix) and every segmentation, "
             "decode(encode fs) = fs; header shape per RFC 23; 19 theorems, unbounded sizes. The theorems are about "
             "lean/RzmqModel/Model/Wire.lean whose thresholds/flag bits/header lengths are re-extracted from the Rust "
             "source on every run and whose executable definitions are run against the real code on ~1.7k (quick) / "
             "~40k (thorough) structured cases including every boundary length and every cut of a corpus stream.",
        note=COMMON_NOTE + "Assumes payload length < 2^64 and that bytes::BytesMut behaves as a byte sequence. The tie "
             "between model and code is differential (generator-bounded), not a proof about the Rust text.",
        design="§8 C03"),
    "C04": dict(
        engine="M2 Engine",
        technique="Lean 4 theorem: the engine's output is invariant under every segmentation of the byte stream (termination measure + "
                  "append-monotone deterministic micro-step + induction over the chunk list); tie: translator + lock-step correspondence "
                  "(cut vs uncut on two real engines) + raw-TCP peer against real sockets with chosen write boundaries",
        text="Proof over the engine model: for every peer byte stream, every segmentation and every timing of the reads, final state and "
             "the whole sequence of net/app actions (HandshakeComplete, DeliverMessage, PeerError) equal those of a single read; the "
             "engine is quiescent between reads (the fuel of the model never runs out). 5 theorems. The session driver's part (frames "
             "that share a read with the last handshake bytes are forwarded, fixed in 5376220) is checked at stack level by trace "
             "comparison across write boundaries, not proved; CURVE/NOISE transcripts are covered by the abstract-mechanism theorems only.",
        note=COMMON_NOTE + "Kernel TCP coalescing decides which cuts occur; stack scenarios control write boundaries only.",
        design="§8 C04"),
    "C07": dict(
        engine="M1 Wire + M2 Engine",
        technique="Lean 4 theorems: totality/no-panic invariant, MAXMSGSIZE exactness for every decoder, accumulator and frame-count "
                  "bounds over all reachable engine states; tie: translator + correspondence on mutated transcripts under catch_unwind + "
                  "slow-drip / hostile raw peers against real sockets",
        text="Proof over the wire+engine model: no decoder outcome is `panic`; a frame of exactly MAXMSGSIZE is accepted and one of "
             "MAXMSGSIZE+1 rejected from its header alone by every decoder; between reads an open connection holds < max(64, 9+MAXMSGSIZE) "
             "undecoded bytes; a message never exceeds 255 frames (256th = protocol error, fixed in c52be1a); every PeerError closes and a "
             "closed engine is silent; READY metadata parsing is total and sound. 10 theorems. Partial: absence of panics in the Rust code is "
             "observed (catch_unwind over ~2k/50k mutated streams), not proved; the handshake deadline (fixed in 5c309d1) and slot release "
             "are measured at stack level; CURVE/NOISE parsers are not modelled.",
        note=COMMON_NOTE + "Memory safety and panic freedom of Rust code paths not reached by the generators are out of scope.",
        design="§8 C07"),
    "C05": dict(
        engine="M2 Engine + Pair",
        technique="Lean 4: Kahn-network confluence of the two-engine pair system (prefix-monotone responses, least fixpoint), convergence of "
                  "the staged greeting by a causal chain argument, failure theorems, table facts by kernel `decide` over the re-extracted "
                  "tables; tie: translator (three compatibility tables) + pair-mode correspondence under random delivery schedules + "
                  "bind/connect matrix over tcp/ipc/inproc",
        text="Proof over the pair model: for EVERY delivery schedule (direction, byte counts, one byte at a time .. all at once) two "
             "schedules that deliver everything end in the same states and app actions (pair_confluent); compatible NULL endpoints "
             "always both reach the data phase and agree on version, peer socket type and identity (no mutual wait); incompatible socket "
             "types, NULL-vs-PLAIN and wrong PLAIN credentials end with both sides closed and no handshake reported; the pairing relation "
             "is symmetric and is one table for ZMTP/2.0 and 3.x (fixed in 87f26bd). 11 theorems. KNOWN FINDING: the inproc table is "
             "narrower (theorem inproc_differs_counterexample). Partial: PLAIN convergence is checked by correspondence only; CURVE/NOISE "
             "pairs are outside the model.",
        note=COMMON_NOTE + "End-of-stream propagation is a rule of the pair model (performed by the session driver in the code).",
        design="§8 C05"),
    "C08": dict(
        engine="M4 Rpq",
        technique="Lean 4 inductive invariant over a transition system at schedule-point granularity (any number of pipes, producers, "
                  "consumers; every interleaving): exactly-one-token-iff-counted; tie: deterministic turnstile scheduler driving the "
                  "real ReadyPipeQueue through cfg(rzmq_verif) schedule points in lock-step with the model",
        text="Proof over the queue model: for every schedule the invariant holds (counter/channel consistency, reserved = queued + "
             "pending, one token per pipe iff something is counted); hence no lost wake-up (a counted item implies its pipe is on the "
             "ready list or a mid-operation task holds its token; a parked consumer's next grant proceeds), the ready list never "
             "overflows so arm/re-arm never block, per-pipe FIFO and exactly-once. Also: WaitGroup::wait / wait_for_connection as "
             "register-then-check never lose the wake-up (fixed in acd52f7; the check-then-register shape is a proved counterexample). "
             "12 theorems. Partial: atomicity inside a step (fibre channels, atomics and their orderings) is assumed; deregistration "
             "and close are covered by correspondence only.",
        note=COMMON_NOTE + "Interleavings finer than the schedule points are not explored; the ready-list capacity >= #pipes precondition is the code's own.",
        design="§8 C08"),
    "C09": dict(
        engine="M4 Rpq + M15 SendTx",
        technique="Lean 4: the queue invariant of C08 extended with a `cancel` action (drop of a future parked at an await), and an "
                  "invariant over all histories of the frame-by-frame send transaction of DEALER, ROUTER, PUB and PUSH with dropped futures (configuration "
                  "re-extracted from the source on every run); tie: turnstile "
                  "schedules with injected cancellations on the real ReadyPipeQueue, run in lock-step with the model; stack level: send()/"
                  "send_multipart()/recv()/recv_multipart() futures of real PUSH/PULL, DEALER/ROUTER, ROUTER/DEALER, DEALER/DEALER, PUB/SUB pairs "
                  "polled 1..6 times and dropped, under back-pressure with peer traffic in between, judged by a loss/duplicate/tear/order/"
                  "usability oracle",
        text="Proof over the queue model: dropping a future that is parked at an await (a consumer waiting for a ready entry, a producer "
             "waiting for channel space) or not yet polled preserves the invariant (reservation rolled back, no token lost), changes no "
             "channel, no log of accepted/taken/returned items, and a cancelled send has written nothing; the arm/re-arm awaits are never "
             "cancellation points; the invariant survives any mix of steps and cancellations. Proof over the send-transaction model (M15): for "
             "every history of frames, last frames, dropped futures and send_multipart calls the peer reads only messages the application "
             "gave, whole and in order, nothing is left half-sent, and the transaction is idle whenever the application is not in the "
             "middle of a message; counterexamples for a transaction emptied after the await and for frames handed over one by one (the "
             "ROUTER before its repair). 10 theorems. KNOWN FINDING: a use-after-free in "
             "the fibre dependency's async mpmc (dangling waiter) is reproduced by a valgrind witness. Partial: socket-level API futures "
             "(DEALER pending queue, ROUTER permits, PUSH pending parts, stashes of recv_multipart) are not part of the "
             "theorems: they are exercised by the sampled cancel scripts on real sockets (every message whole, none twice, accepted ones "
             "arrive in order, refused ones do not, the sockets stay usable); REQ/REP state claims under dropped futures are modelled and "
             "proved in C10.",
        note=COMMON_NOTE + "Cancellation inside third-party futures (fibre, tokio) is assumed safe except for the recorded finding.",
        design="§8 C09"),
    "C10": dict(
        engine="M5 ReqRep",
        technique="Lean 4 theorems: invariants by induction over every event sequence of a lock-scope-granularity model of the REQ and REP state "
                  "machines (any number of tasks, peer replies/detaches, failed/cancelled calls); tie: translator re-extracts which lock scopes "
                  "claim, roll back and guard (theorem `current_source_is_the_proved_instance`), stack-level race and scripted-history scenarios on "
                  "real sockets with race-free oracles at the peer",
        text="Proof over the model: REQ - with no exchange given up the successful operations strictly alternate send, recv, ... for every "
             "interleaving; for every history (time-outs, dropped futures, vanishing peers) two sends never succeed without a recv or a given-up "
             "exchange in between, never more replies than requests, the state the next call is judged by is exactly what the log says, refused "
             "calls change nothing but a counter, a failed send never leaves the socket stuck; REP - operations alternate recv, send and every reply "
             "goes to the peer whose request it answers; the three earlier shapes of the code (check-then-act, unguarded late receive, guarded "
             "successful receive) are proved unsafe by explicit traces. 17 theorems. Partial: lock scopes are taken as atomic and their list is "
             "matched by pattern; a recv() that times out gives the exchange up by design (the strict statement excludes such histories); the "
             "multi-thread runtime's schedules are searched, not enumerated.",
        note=COMMON_NOTE + "parking_lot mutex scopes are assumed atomic; the await points inside send/recv are modelled as separate events.",
        design="§8 C10"),
    "C11": dict(
        engine="M6 Routing",
        technique="Lean 4 refinement of the ROUTER identity map to a per-pipe specification for every history (soundness) and every "
                  "collision-free history (completeness); envelope algebra by case analysis over frame lists; tie: lock-step "
                  "correspondence on the real RouterMap/strategies/framing functions",
        text="Proof over the routing model: for EVERY history of add/re-identify/remove (identity collisions included) a lookup only ever "
             "yields the endpoint of a live pipe that currently holds exactly that identity, and the identity reported for a pipe is its "
             "current one; without collisions lookup is exact; the newest claimant of a colliding identity stays routable (fixed). Envelope "
             "round trips DEALER->ROUTER, ROUTER->DEALER, REQ->ROUTER, ROUTER->REQ, REQ<->REP, DEALER<->REP preserve payload frames "
             "(empty frames anywhere). 13 theorems. Partial: the identity gate (pipe_finalized/held_ingress), ROUTER_MANDATORY error "
             "mapping and the sockets' private envelope methods are tied only through the model of their pure parts; stack-level ROUTER "
             "scenarios are not yet part of this check. KNOWN FINDING rare-connection-stall (symptom only: twice in ~10^5 stream cases a fresh tcp connection carried no data at all; a matching case is attributed to it only after three clean replays of the same case).",
        note=COMMON_NOTE + "Socket-level envelope functions are modelled from the source text; they are private methods not reachable from the harness.",
        design="§8 C11"),
    "C14": dict(
        engine="M7 Hwm + M3 Session + M13 Dealer",
        technique="Lean 4 theorems: the send/recv decision functions at the high-water mark (try / timed / waiting branches) stated outright and "
                  "proved by case analysis; buffering bounds by induction over every interleaving of application offers and session events; tie: "
                  "translator re-extracts capacities and branch structure (theorem `source_shape`), stack scenarios on real sockets that measure "
                  "error class, timing, the number of messages accepted with a receiver that does not read, and what arrives afterwards",
        text="Proof over the models: SNDTIMEO 0 on a full connection fails at once with would-block; d > 0 fails exactly at d and only if no room "
             "appeared by then, succeeds when room appears; -1 never fails and returns exactly when room appears; no spurious success; the same "
             "three statements for RCVTIMEO on an empty socket; a refused send changes nothing and everything accepted stays accounted for in wire "
             "order; the sending side of a connection holds at most 2*SNDHWM + SNDBATCH_COUNT messages (pipe, egress buffer, carry-over) for every "
             "producer/consumer speed, the receiving side RCVHWM plus one read; the earlier 30 s cap on SNDTIMEO -1 is proved to violate the "
             "statement; DEALER's pending queue never holds more than SNDHWM messages plus the one in its processor's hand, and a refused DEALER "
             "send changes nothing. 15 theorems. KNOWN FINDING C14:sndtimeo-change-ignored-by-existing-connections (DEALER/ROUTER/PUB keep the SNDTIMEO their "
             "connection was created with; replayed on every run). Partial: wall-clock accuracy of Tokio timers, kernel socket buffers and DEALER's extra pending queue "
             "(bounded by SNDHWM in the code, matched by pattern) are outside the theorems and measured by the scenarios only.",
        note=COMMON_NOTE + "Timing oracles allow 600 ms of slack; kernel buffers are pinned with SNDBUF/RCVBUF in most scenarios.",
        design="§8 C14"),
    "C15": dict(
        engine="M8 Linger + M3 Session + M1 Wire",
        technique="Lean 4 theorems: the linger decision (first check that ends the phase, by induction over the check index with fuel), "
                  "prefix-safety of whatever the session had written at close composed from the C01 wire-order invariant and the C03 prefix-"
                  "monotone decoder, and the NEGATION of the full statement with an explicit witness for the code as it is; tie: translator "
                  "re-extracts the linger check, the events on which sessions stop and whether they flush (theorems `source_shape`, "
                  "`sessions_as_they_are`), stack scenarios on real sockets closed right after 0..20000 sends",
        text="Proof over the models: LINGER 0 ends the linger phase at the first check; a bounded LINGER ends it within LINGER + one 100 ms tick "
             "and earlier only because the pipes were empty; LINGER -1 ends it only when the pipes are empty; whatever the moment of the close "
             "and however far the last write got, the peer decodes only a prefix of the accepted messages' frames (never a truncated or "
             "corrupted one); a session that flushed on stop would deliver everything (`linger_delivers_all_partial`). The full statement "
             "'everything accepted is transmitted when LINGER allows' is FALSE of the code and proved so (`linger_loses_what_the_session_holds`): "
             "sessions stop when close() begins and drop what they hold - KNOWN FINDING C15:linger-sessions-drop-what-they-hold, replayed on "
             "every run (50 small messages, LINGER 10 s, term(): none arrives). 9 theorems. Partial by nature of the finding.",
        note=COMMON_NOTE + "The timing oracle allows LINGER + 2.5 s; term()'s own 10 s straggler allowance is outside LINGER.",
        design="§8 C15"),
    "C16": dict(
        engine="M9 Shutdown (+ M4 wait/notify)",
        technique="Lean 4 theorems: wait-group accounting invariant by induction over every history of spawns, exits (return / error / "
                  "cancellation) and polls of the term() waiter, reusing C08's register-first no-lost-wake-up result; decision functions for "
                  "'who learns of a shutdown and by when' and 'what the API of a closed socket answers' stated outright; registry invariant for "
                  "names; transition system of callers parked in a load balancer (arrive / Stop) with the invariant 'flag up => nobody "
                  "parked' for every history; tie: translator re-extracts 23 structural facts (theorems `source_shape`, "
                  "`parking_sites_as_proved`), stack scenarios running random API histories with close()/term() injected anywhere on real "
                  "sockets - including crowds of 3..6 tasks parked in one call and sends that wait without limit - and checking return "
                  "times, promptness of errors, re-bindability and the runtime's alive-task count",
        text="Proof over the models: the wait group counts exactly the living actors whatever the order and manner of their exits; the waiter "
             "in term() is released only at a poll where nothing is alive, and is released (one poll suffices) once everything has stopped; a "
             "session still handshaking and a connecter still retrying learn of the shutdown within 100 ms / one retry interval even when they "
             "subscribed to the bus too late (the earlier bus-only shape never learns); once close()/term() has begun every API call returns at "
             "once with an error (Ok for a repeated close) - the earlier unanswered mailbox hangs; after a socket's loop has ended none of its "
             "inproc names is registered; however many tasks are parked in send() on a PUSH, DEALER or REQ socket without a peer, whenever they "
             "arrived, nobody is parked any more once the pattern has processed Stop, and nobody is lost on the way (the notify_one shape "
             "strands the third sender, the earlier REQ shape strands everyone: stated as counterexample theorems). 15 theorems. Partial: the interleavings of the actor tasks, timer accuracy and OS port release are "
             "covered by the sampled lifecycle histories, not by the theorems; term()'s 10 s straggler allowance still exists (the scenarios "
             "flag any run in which it is needed).",
        note=COMMON_NOTE + "The runtime's alive-task counter is the observation of 'nothing left running'.",
        design="§8 C16"),
    "C17": dict(
        engine="M6 Routing + M7 Lifecycle",
        technique="Lean 4 arithmetic theorems for both back-off schedules over all (RECONNECT_IVL, RECONNECT_IVL_MAX, attempt); decision-table "
                  "theorem for event handling with the shutdown-triggering arms re-extracted from source; tie: translator + correspondence "
                  "on ReconnectState + stack-level fault-injection, bystander and retry-pace scenarios",
        text="Proof: the core's delay starts at RECONNECT_IVL (or the cap), never more than doubles, is monotone, never exceeds "
             "RECONNECT_IVL_MAX when set, cannot overflow, saturates at 2^31; the connecter's own schedule is capped for every attempt "
             "(fixed in a21453b) and hands over consistently; a socket shuts itself down only on events about itself — a failed/refused "
             "connection of any kind, another socket closing or a refused inproc connector (fixed in b9fdf8d) leave it running; a connecter "
             "that ignores the events of other sockets waits its delay out in full; the code as it is does not (theorem "
             "current_code_cuts_the_wait_short: the full statement is false for the current sources). 18 theorems. KNOWN FINDING "
             "C17:retry-wait-cut-short-by-unrelated-events (retries far below RECONNECT_IVL in a busy context; a repair was withdrawn "
             "because a pinned test relies on the early wake-up; replayed on every run). Partial: the event-handling model is a decision table whose arms are re-extracted by pattern matching; resumption of "
             "traffic after a peer returns is observed at stack level only; a lagging event-bus receiver does shut a socket down (theorem "
             "bus_lag_shuts_down; suspected defect, not reproduced on the real code).",
        note=COMMON_NOTE + "Fault injection covers wrong socket type (inproc/tcp/ipc), garbage, reset, half greeting, oversized frame on a second connection; "
                           "other sockets of the context closing / failing / being created while a connecter waits.",
        design="§8 C17"),
    "C12": dict(
        engine="M6 Routing",
        technique="Lean 4 refinement proof: the subscription trie refines the multiset of active subscriptions for every call history "
                  "(structural induction over topic and history); tie: lock-step correspondence on the real SubscriptionTrie + multiset oracle",
        text="Proof, full strength for the matcher: after any history of subscribe/unsubscribe over arbitrary byte strings, matches(t) holds "
             "iff some active subscription is a byte-prefix of t; N subscribes need N unsubscribes; unsubscribing an absent topic is a "
             "no-op; the empty topic matches everything; get_all_topics lists exactly the active topics once. 10 theorems. Partial with "
             "respect to the whole property: filter-on-first-frame glue, per-publisher ordering (C01/C08) and the non-blocking publisher are "
             "not yet covered by theorems here; concurrent match-while-modify only at lock granularity.",
        text_extra=" KNOWN FINDING C12:pub-blocks-on-stalled-subscriber (the publisher is blocked by a subscriber that stops reading once SNDHWM is reached; a pinned stress test relies on that back-pressure), witnessed by the `pubstall` scenario on every run.",
        note=COMMON_NOTE + "HashMap iteration order is canonicalised (sorted) before comparison.",
        design="§8 C12"),
    "C13": dict(
        engine="M6 Routing",
        technique="Lean 4 invariant + refinement to cyclic order for the load balancer (every reachable state, every add/remove/next history); "
                  "tie: lock-step correspondence on the real LoadBalancer + round-robin oracle",
        text="Proof for the rotation: every reachable balancer state satisfies the representation invariant; k consecutive selections return "
             "the peers in cyclic list order; each peer is selected exactly once per round (no starvation); adding never changes who is "
             "next and is idempotent; removing never skips or repeats a peer; a removed peer is never selected. 13 theorems. Partial: the "
             "readiness-aware sweep of the orchestrator (skip full peers, exactly-one placement) and the wait-for-first-peer wake-up are "
             "not yet covered by theorems here.",
        note=COMMON_NOTE,
        design="§8 C13"),
    "C06": dict(
        engine="M2 Engine",
        technique="Lean 4 inductive invariant over every reachable engine state for every peer byte stream and segmentation "
                  "(PLAIN byte-exact, CURVE/NOISE as abstract mechanism); tie: translator (mechanism table, v2-refusal condition) + "
                  "lock-step differential correspondence on the real ZmtpEngine with an attacker grammar + raw TCP attacker against a real PLAIN listener",
        text="Proof over the engine model: for all read sequences from the initial state, HandshakeComplete implies a locally enabled, "
             "non-NULL mechanism was negotiated and (PLAIN server) a HELLO with exactly the configured credentials was accepted, "
             "(PLAIN client) a WELCOME was received, (CURVE/NOISE) the mechanism itself reported ready on exactly the accepted tokens; "
             "no delivery precedes HandshakeComplete; a secured engine never becomes a ZMTP/2.0 session. 11 theorems. Partial with respect to "
             "the full property: the cryptographic soundness of CURVE/Noise_XX (snow/dryoc, and rzmq's home-grown CURVE key schedule) is a "
             "parameter of the theorems, not proved.",
        note=COMMON_NOTE + "The engine model is hand-written; it is compared with the real engine on ~1.5k/40k attacker streams per run. "
             "CURVE/NOISE mechanisms are abstract in the model (AbsSpec).",
        design="§8 C06"),
    "C18": dict(
        engine="M11 Record + M1 Wire",
        technique="Lean 4 theorems about the record layer under an IDEAL AEAD (only the honest record number j opens in slot j): acceptance is an "
                  "in-order prefix for every adversarial record stream (induction over the stream), composed with C03's prefix-monotone decoder; "
                  "chunking lemmas (reassembly, exact 16-bit length); the negation of session freshness for CURVE with a witness; tie: translator "
                  "re-extracts chunking, length check, control-frame path, nonce and key-schedule facts (theorems `source_shape`, "
                  "`curve_as_it_is`), stack scenarios on real CURVE / Noise_XX sockets through a recording and tampering proxy",
        text="Proof over the model: whatever an on-path adversary does to the record stream (any order, multiplicity and mixture of honest and "
             "foreign records) the receiver accepts exactly records 0..k-1, its parser sees a prefix of the sender's plaintext and decodes a "
             "prefix of the sender's frames - never a wrong, partial, reordered or duplicated one; each single mutation named by the property "
             "(flip, drop, duplicate, swap, cut, inject) stops the receiver at that record; a batch of any size is cut into non-empty pieces "
             "that reassemble exactly and whose 16-bit length is exact (the earlier one-record-per-batch shape wraps at 65520 bytes); honest "
             "streams decode completely. 11 theorems. 'Two sessions never encrypt the same plaintext to the same bytes' is FALSE of CURVE and "
             "proved so (`curve_sessions_repeat`) - KNOWN FINDING C18:curve-sessions-repeat, replayed on every run. Partial: secrecy and "
             "unforgeability are the AEAD's (assumed ideal); 'no cleartext on the wire' is observed by the proxy, not proved.",
        note=COMMON_NOTE + "Ideal-AEAD assumption: crypto_box (XSalsa20-Poly1305) and ChaChaPoly are not modelled.",
        design="§8 C18"),
    "C19": dict(
        engine="M2 Engine",
        technique="Lean 4 theorems about the heartbeat state machine (time as Nat ms): exact ping condition, deadline arithmetic, "
                  "traffic-keeps-alive, PONG echo; tie: translator + lock-step correspondence on scripted timelines of the real engine",
        text="Proof over the engine model: a tick sends a PING iff data phase, v3, no PING outstanding and >= HEARTBEAT_IVL since last "
             "activity (not early; not later than 2*ivl given ticks every ivl); no PONG/traffic within HEARTBEAT_TIMEOUT closes with a "
             "timeout error and only then; any inbound frame clears the outstanding PING; every well-formed PING is answered by one PONG "
             "with the same context; never on ZMTP/2.0 or before the data phase. 12 theorems. Partial: timer accuracy/tick frequency of "
             "the Tokio actor, the io_uring backend's clock and PONG placement in the egress buffer are not part of these theorems.",
        note=COMMON_NOTE + "Engine time is scripted via a cfg(rzmq_verif) accessor; the session actor's interval timer is assumed to tick at least every HEARTBEAT_IVL.",
        design="§8 C19"),
    "C20": dict(
        engine="M10 Pool + M12 Tracker + M2 Engine",
        technique="Lean 4 theorems: equivalence of everything the shared engine decides for any two segmentations/timings of the same byte "
                  "stream (corollary of C04); invariants of the send-buffer pool by induction over every history of acquire / lease / "
                  "hand-over / drop / release; invariant of the worker's table of in-kernel operations by induction over every history "
                  "of submit / CloseFd completion / first and final completions (attribution, buffer ownership, unique user_data, no "
                  "leak); tie: translator flags for the table's close/lookup/re-insert shapes, lock-step correspondence on the real "
                  "SendBufferPool and InternalOpTracker, and the C01/C02/C14 workload generators replayed with IO_URING_SESSION_ENABLED "
                  "against three configurations of the backend, whose canonical results must equal the model's predictions (= the Tokio "
                  "backend's), plus churn, fan-in (up to 32 connections, payload integrity, senders closing right after their last "
                  "send) and peer-sees-close scenarios",
        text="Proof over the models: for the same peer bytes, however the two backends cut and time their reads, the engine ends in the same "
             "state and emits the same handshake outcome, deliveries in order and errors; the pool's bookkeeping stays consistent under every "
             "history (including double and unknown releases), never hands out a buffer that is in use, gets every buffer back once all are "
             "released, a lease dropped before hand-over returns its buffer by itself, oversize data never takes a buffer; in the operation "
             "table every completion is processed with the entry of the operation it was submitted as, the buffers of every operation the "
             "kernel holds stay owned, no two kernel-held operations share a user_data, the table is empty when the kernel holds nothing "
             "and a closed descriptor is no longer named - whatever is submitted, closed and completed in whatever order; four "
             "counterexample theorems state what the earlier shapes of the table did; a shutdown request only ever hits the connection it was "
             "issued for, however descriptor numbers are reused (FdTable; counterexample for requests that name the number only). 22 theorems. KNOWN FINDING "
             "C20:uring-rare-connection-stall (about one fresh connection in 1500 never carried data; a cause was found and repaired - late "
             "shutdown requests hitting the next owner of a descriptor number, see the FdTable theorems - and it has not been seen in 144 "
             "stress runs since; kept listed because that evidence is statistical; a matching case is attributed to it only after three "
             "clean replays). Six defects the machinery found were repaired (9th connection never "
             "attached; in-flight send buffers freed at close and freed memory transmitted; completions attributed to the wrong "
             "operation after a close; zero-copy notifications shadowed; two zero-copy sends sharing a user_data; the handler never "
             "closed a connection by itself - protocol errors, handshake deadline, heartbeat timeout - and a close was not seen by the "
             "peer: the former known finding uring-no-timers). Partial: the receive "
             "ring, the worker's SQE submission and wake-up logic, and the spill-over queue are covered by the equivalence scenarios only.",
        note=COMMON_NOTE + "io_uring is a per-process singleton: each backend configuration is a separate harness process.",
        design="§8 C20"),
}

NOT_YET = "check not built yet (work in progress; see DESIGN.md build order)"


def main():
    props = [json.loads(l) for l in open(os.path.join(VERIF, "properties.jsonl"))]
    hooks_commits = []
    p = os.path.join(VERIF, "hooks_commits.txt")
    if os.path.exists(p):
        hooks_commits = [l.split()[0] for l in open(p) if l.strip() and not l.startswith("#")]
    m = {
        "version": 1,
        "setup_cmd": "./setup.sh",
        "hooks": {
            "guard": "rzmq_verif",
            "enable": "RUSTFLAGS='--cfg rzmq_verif' (set for the harness in /verif/harness/.cargo/config.toml)",
            "baseline_off_cmd": BASELINE,
            "source_commits": hooks_commits,
            "add_only": True,
        },
        "engines": [
            {"name": "lean-model", "path": "lean/", "serves_properties": sorted(CLAIMED),
             "kind_free_text": "Lean 4 model (lean/RzmqModel/Model), theorems (Props), generated constants (Gen), compiled driver rzmq_model"},
            {"name": "corr-harness", "path": "harness/", "serves_properties": sorted(CLAIMED),
             "kind_free_text": "Rust harness linking /repo/core with --cfg rzmq_verif; lock-step executor `corr`, stack-level scenarios `e2e`"},
        ],
        "checks": [],
        "notes": "Lean 4 proofs over a hand-written model tied to /repo by a translator (Gen/*.lean) and a correspondence "
                 "harness; see DESIGN.md. ./check <id> --tier quick|thorough.",
        "not_applicable": [],
    }
    for pr in props:
        pid = pr["id"]
        if pid in CLAIMED:
            c = CLAIMED[pid]
            m["checks"].append({
                "property_id": pid,
                "quick_cmd": "./check %s --tier quick" % pid,
                "thorough_cmd": "./check %s --tier thorough" % pid,
                "evidence_file": "/verif/evidence/%s.json" % pid,
                "replay_cmd_template": "./check %s --replay {path}" % pid,
                "engine": c["engine"],
                "level_claimed": {"category": "proof", "text": c["text"] + c.get("text_extra", ""), "design_ref": "§0.3 (as built) and " + c["design"] + " (design)"},
                "level_note": c["note"],
                "technique": c["technique"],
            })
        else:
            m["not_applicable"].append({"property_id": pid, "reason": NOT_YET})
    with open(os.path.join(VERIF, "MANIFEST.json"), "w") as f:
        json.dump(m, f, indent=1)
    print("claimed:", sorted(CLAIMED))


if __name__ == "__main__":
    main()
