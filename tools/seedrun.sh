#!/bin/bash
# usage: tools/seedrun.sh <seed-id-dir> <check-id> [tier]   — applies /verif/seeded/<dir>/patch.diff to /repo, runs the check, undoes it
set -u
cd /verif
d=$1; c=$2; t=${3:-quick}
git -C /repo diff --quiet || { echo "repo dirty"; exit 2; }
git -C /repo apply /verif/seeded/$d/patch.diff || { echo "patch does not apply"; exit 2; }
./check $c --tier $t > /tmp/seedrun-$d-$c.log 2>&1; rc=$?
git -C /repo checkout -- .
echo "seed=$d check=$c tier=$t rc=$rc"; grep -E "VIOLATION|obligations" /tmp/seedrun-$d-$c.log | head -5
