#!/bin/bash
# usage: tools/seedrun.sh <seed-id-dir> <check-id> [tier]   — applies /verif/seeded/<dir>/patch.diff to /repo, runs the check, undoes it.
# The evidence file of the check describes runs on the UNCHANGED tree only: it is saved before and restored after.
set -u
cd /verif
d=$1; c=$2; t=${3:-quick}
git -C /repo diff --quiet || { echo "repo dirty"; exit 2; }
git -C /repo apply /verif/seeded/$d/patch.diff || { echo "patch does not apply"; exit 2; }
cp evidence/$c.json /tmp/evidence-$c.bak 2>/dev/null
./check $c --tier $t > /tmp/seedrun-$d-$c.log 2>&1; rc=$?
git -C /repo checkout -- .
cp /tmp/evidence-$c.bak evidence/$c.json 2>/dev/null
echo "seed=$d check=$c tier=$t rc=$rc"; grep -E "VIOLATION|obligations" /tmp/seedrun-$d-$c.log | head -5
