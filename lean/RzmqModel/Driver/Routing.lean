import RzmqModel.Driver.Common
import RzmqModel.Model.Routing
import RzmqModel.Model.Multipart
import RzmqModel.Model.Pool
import RzmqModel.Model.Tracker
namespace Rzmq.Driver.Routing
open Rzmq Rzmq.Driver

structure St where
  trie : Trie := Trie.empty
  lb : Lb := {}
  map : RouterMap := {}
  stash : Stash := {}
  pool : Option Pool := none
  trk : Tracker := {}

def b (v : Bool) : String := if v then "true" else "false"

def stratName : Strat → String
  | .default => "DefaultRouterStrategy" | .req => "ReqPeerStrategy"
  | .dealer => "DealerPeerStrategy" | .router => "RouterPeerStrategy"

def stratOfType (t : String) : Strat :=
  if t == "REQ" then .req else if t == "DEALER" then .dealer else if t == "ROUTER" then .router else .default

/-- insertion sort on strings (canonical order for `topics`) -/
def insertSorted (x : String) : List String → List String
  | [] => [x]
  | y :: ys => if x ≤ y then x :: y :: ys else y :: insertSorted x ys

def sortStrings (l : List String) : List String := l.foldr insertSorted []

def showStashOut : StashOut → String
  | .ok => "ok" | .refused => "refused" | .noPipe => "no-pipe" | .wouldBlock => "E(WouldBlock)"
  | .frame f => showFrame f
  | .frames fs => s!"[{showFrames fs}]"

def stashOp (st : St) (ev : StashEv) : St × String :=
  let r := st.stash.step ev
  ({ st with stash := r.1 }, showStashOut r.2)

def parseKind (k : String) : OpKind :=
  match k.splitOn ":" with
  | ["send"] => .send | ["vec"] => .vec | ["read"] => .read | ["mread"] => .mread | ["accept"] => .accept
  | ["zc", b] => .zc b.toNat! | ["lease", b] => .lease b.toNat!
  | _ => .cancel

def showOp (o : TOp) : String :=
  let k := match o.kind with
    | .accept => "accept" | .read => "read" | .mread => "mread" | .cancel => "cancel"
    | .send => "send:10b" | .vec => "vec:10b" | .zc b => s!"zc:{b}" | .lease b => s!"lease:{b}"
  s!"{k}@{o.fd}"

/-- order of the harness: (key, description, waiting for a notification) -/
def trkLe (a b : Nat × String × Bool) : Bool :=
  a.1 < b.1 || (a.1 == b.1 && (a.2.1 < b.2.1 || (a.2.1 == b.2.1 && (!a.2.2 || b.2.2))))

def trkInsert (x : Nat × String × Bool) : List (Nat × String × Bool) → List (Nat × String × Bool)
  | [] => [x]
  | y :: ys => if trkLe x y then x :: y :: ys else y :: trkInsert x ys

def trkState (t : Tracker) : String :=
  let slabEntries := (List.range t.slab.length).filterMap fun k => (t.slabGet k).map fun o => (k, showOp o, false)
  let notifEntries := t.notif.map fun p => (p.1, showOp p.2, true)
  let all := (slabEntries ++ notifEntries).foldr trkInsert []
  " ".intercalate (all.map fun e => s!"{if e.2.2 then "n" else ""}{e.1}={e.2.1}")

def parseInt (s : String) : Int := s.toInt?.getD 0

def runOp (st : St) (p : List String) : St × String :=
  match p with
  | ["trk", "new"] => ({ st with trk := {} }, "ok")
  | ["trk", "submit", fd, kind] =>
    let r := st.trk.insert { fd := parseInt fd, kind := parseKind kind }
    ({ st with trk := r.1 }, toString r.2)
  | ["trk", "closefd", fd] => ({ st with trk := (st.trk.closeFd currentTrkCfg.close (parseInt fd)).1 }, "ok")
  | ["trk", "complete", k, n] =>
    let r := st.trk.take currentTrkCfg.byKind k.toNat! (n == "1")
    ({ st with trk := r.1 }, match r.2 with | some o => showOp o | none => "unknown")
  | ["trk", "notify", k] =>
    let key := k.toNat!
    let r := st.trk.take currentTrkCfg.byKind key false
    match r.2 with
    | none => ({ st with trk := r.1 }, "unknown")
    | some o =>
      let t' := match o.kind.buf with
        | some bf => r.1.awaitNotification currentTrkCfg.keepsSlot key { fd := o.fd, kind := .lease bf }
        | none => r.1
      ({ st with trk := t' }, showOp o)
  | ["trk", "state"] => (st, trkState st.trk)
  | ["pool", "new", c, cap] => ({ st with pool := some (Pool.new c.toNat! cap.toNat!) }, "ok")
  | "pool" :: rest =>
    match st.pool with
    | none => (st, "no-pool")
    | some pl =>
      let showId : Option Nat → String := fun o => match o with | some i => toString i | none => "none"
      match rest with
      | ["acquire", len] => let r := pl.step (.acquire len.toNat!); ({ st with pool := some r.1 }, showId r.2)
      | ["lease"] => let r := pl.step .lease; ({ st with pool := some r.1 }, showId r.2)
      | ["droplease", id, handed] =>
        let i := id.toNat!
        let had := pl.leases.any (·.1 == i)
        let pl1 := if handed == "1" then (pl.step (.handOver i)).1 else pl
        ({ st with pool := some (pl1.step (.dropLease i)).1 }, b had)
      | ["release", id] =>
        if pl.leases.any (·.1 == id.toNat!) then (st, "held")     -- not the worker's to release: a session holds the lease
        else ({ st with pool := some (pl.step (.release id.toNat!)).1 }, "ok")
      | ["state"] =>
        (st, s!"free=[{",".intercalate (pl.free.map toString)}] used=[{String.join (pl.used.map fun u => if u then "1" else "0")}]")
      | _ => (st, "bad-op")
  | ["stash", "new"] => ({ st with stash := {} }, "ok")
  | ["stash", "pipe", id, cap] => stashOp st (.register id.toNat! cap.toNat!)
  | ["stash", "put", id, m] => stashOp st (.put id.toNat! (parseMessage m))
  | ["stash", "recv"] => stashOp st .recv
  | ["stash", "recvmp"] => stashOp st .recvMultipart
  | ["stash", "dereg", id] => stashOp st (.detach id.toNat!)
  | ["trie", "new"] => ({ st with trie := Trie.empty }, "ok")
  | ["trie", "sub", t] => ({ st with trie := st.trie.subscribe (parseBytes t) }, "ok")
  | ["trie", "unsub", t] =>
    let r := st.trie.unsubscribe (parseBytes t)
    ({ st with trie := r.1 }, b r.2)
  | ["trie", "match", t] => (st, b (st.trie.matches (parseBytes t)))
  | ["trie", "topics"] =>
    (st, "[" ++ ",".intercalate (sortStrings (st.trie.topics.map fun t => "h" ++ hexOf t)) ++ "]")
  | ["lb", "new"] => ({ st with lb := {} }, "ok")
  | ["lb", "add", n] => ({ st with lb := st.lb.add n.toNat! }, "ok")
  | ["lb", "rm", n] => ({ st with lb := st.lb.remove n.toNat! }, "ok")
  | ["lb", "next"] =>
    let r := st.lb.next
    ({ st with lb := r.2 }, match r.1 with | some u => toString u | none => "none")
  | ["lb", "count"] => (st, toString st.lb.peers.length)
  | ["map", "new"] => ({ st with map := {} }, "ok")
  | ["map", "add", id, pipe, uri] => ({ st with map := st.map.addPeer (parseBytes id) pipe.toNat! uri.toNat! }, "ok")
  | ["map", "update", pipe, id, uri, ty] =>
    ({ st with map := st.map.updateIdentity pipe.toNat! (parseBytes id) uri.toNat! (stratOfType ty) }, "ok")
  | ["map", "rmpipe", pipe] => ({ st with map := st.map.removeByPipe pipe.toNat! }, "ok")
  | ["map", "rmid", id] => ({ st with map := st.map.removeByIdentity (parseBytes id) }, "ok")
  | ["map", "get", id] =>
    (st, match st.map.lookup (parseBytes id) with
      | some i => s!"{i.uri} {stratName i.strat}"
      | none => "none")
  | ["map", "pipe", pipe] =>
    (st, match st.map.identityOfPipe pipe.toNat! with | some id => "h" ++ hexOf id | none => "none")
  | ["map", "prep", id, manual, idf, msg] =>
    (st, match st.map.lookup (parseBytes id) with
      | some i => showFrames (prepareWire i.strat (manual == "1") (parseFrame idf) (parseMessage msg))
      | none => "none")
  | ["env", "renc", m] => (st, showFrames (routerAutoEncode (parseMessage m)))
  | ["env", "rdec", m] => (st, showFrames (routerAutoDecode (parseMessage m)))
  | ["env", "denc", m] => (st, showFrames (dealerAutoEncode (parseMessage m)))
  | ["env", "ddec", m] => (st, showFrames (dealerAutoDecode (parseMessage m)))
  | ["backoff", k, base, max] =>
    -- `current_attempts.saturating_add(1)` on a u32
    (st, s!"{coreDelay base.toNat! max.toNat! k.toNat!} {min (k.toNat! + 1) 4294967295}")
  | _ => (st, "bad-op")

end Rzmq.Driver.Routing
