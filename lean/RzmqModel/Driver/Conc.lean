import RzmqModel.Driver.Common
import RzmqModel.Model.Rpq
namespace Rzmq.Driver.Conc
open Rzmq Rzmq.Driver

structure St where
  rpq : RpqSt := {}
  wgCount : Nat := 0
  wg : WaitSt := {}
  wgTask : Option String := none
  lbCond : Bool := false                      -- the load balancer has a peer
  lbDeact : Bool := false                     -- `deactivate()` has been called
  lbW : List (String × WaitSt) := []          -- tasks inside `wait_for_connection()`
  /-- scripted tasks: remaining op starts and results so far -/
  scripts : List (String × (List Pc × List String)) := []
  /-- scheduler-level status of each task: "new" | "blocked" | "run" | "done" (a future can only be dropped when
  it was never polled or is parked) -/
  status : List (String × String) := []

def showOut : StepOut → String
  | .at l => "@" ++ l
  | .blocked => "blocked"
  | .done r => s!"done({r})"

def parseItems (s : String) : List Nat := (s.splitOn ",").map String.toNat!

def parseScriptOp (op : String) : Pc :=
  match op.splitOn ":" with
  | ["send", p, i] => .sendStart p.toNat! i.toNat!
  | ["trysend", p, i] => .trySendStart p.toNat! i.toNat!
  | ["batch", p, is] => .batchStart p.toNat! (parseItems is)
  | ["pop"] => .popStart
  | ["trypop"] => .tryPopStart
  | _ => .finished "bad-op"

/-- a scripted task runs its ops back to back: finishing one op continues into the next within the same grant -/
def stepScript (rpq : RpqSt) (tid : String) : Nat → List Pc → List String → RpqSt × List Pc × List String × StepOut
  | 0, rem, acc => (rpq, rem, acc, .blocked)
  | fuel + 1, rem, acc =>
    let r := rpq.step tid
    match r.2 with
    | .done res =>
      match rem with
      | [] => (r.1, [], acc ++ [res], .done (";".intercalate (acc ++ [res])))
      | nxt :: rest => stepScript (r.1.setTask tid nxt) tid fuel rest (acc ++ [res])
    | o => (r.1, rem, acc, o)

def relabel (pfx : String) : StepOut → StepOut
  | .at _ => .at (pfx ++ ".wait.checked")
  | o => o

def runOp0 (st : St) (p : List String) : St × String :=
  match p with
  | ["rpq", "new", cap] => ({ st with rpq := { readyCap := max cap.toNat! 1 }, scripts := [] }, "ok")
  | ["rpq", "pipe", id, cap] =>
    if (st.rpq.pipe? id.toNat!).isSome then (st, "ok")
    else ({ st with rpq := { st.rpq with pipes := st.rpq.pipes ++ [{ id := id.toNat!, cap := max cap.toNat! 1 }] } }, "ok")
  | ["rpq", "dereg", id] => ({ st with rpq := st.rpq.deregister id.toNat! }, "ok")
  | ["wg", "new"] => ({ st with wgCount := 0, wg := { cond := true }, wgTask := none }, "ok")
  | ["wg", "add", n] =>
    let c := st.wgCount + n.toNat!
    ({ st with wgCount := c, wg := { st.wg with cond := c == 0 } }, "ok")
  | ["wg", "done"] =>
    let c := st.wgCount - 1
    ({ st with wgCount := c, wg := if c == 0 then st.wg.signal else st.wg }, "ok")
  | ["lb", "new"] => ({ st with lbCond := false, lbDeact := false, lbW := [] }, "ok")
  | ["lb", "add", _] => ({ st with lbCond := true, lbW := st.lbW.map fun e => (e.1, e.2.signal) }, "ok")
  | ["lb", "deactivate"] =>
    -- sets the flag, then `notify_waiters()`: every registered waiter is woken
    ({ st with lbDeact := true, lbW := st.lbW.map fun e => (e.1, { e.2 with notified := e.2.notified || e.2.registered }) }, "ok")
  | "task" :: tid :: kind :: rest =>
    let mk (pc : Pc) : St × String :=
      ({ st with rpq := { st.rpq with tasks := (st.rpq.tasks.filter (·.1 != tid)) ++ [(tid, pc)] } }, "ok")
    match kind, rest with
    | "send", [p, i] => mk (.sendStart p.toNat! i.toNat!)
    | "trysend", [p, i] => mk (.trySendStart p.toNat! i.toNat!)
    | "batch", [p, is] => mk (.batchStart p.toNat! (parseItems is))
    | "pop", _ => mk .popStart
    | "trypop", _ => mk .tryPopStart
    | "script", [ops] =>
      match (ops.splitOn ";").map parseScriptOp with
      | first :: restOps =>
        ({ st with rpq := { st.rpq with tasks := (st.rpq.tasks.filter (·.1 != tid)) ++ [(tid, first)] },
                   scripts := (st.scripts.filter (·.1 != tid)) ++ [(tid, (restOps, []))] }, "ok")
      | [] => (st, "bad-op")
    | "wgwait", _ => ({ st with lbW := st.lbW.filter (·.1 != tid), wgTask := some tid, wg := { st.wg with pc := 0, registered := false, notified := false } }, "ok")
    | "lbwait", _ => ({ st with wgTask := (if st.wgTask == some tid then none else st.wgTask),
                                lbW := st.lbW.filter (·.1 != tid) ++ [(tid, {})] }, "ok")
    | _, _ => (st, "bad-op")
  | ["step", tid] =>
    if st.wgTask == some tid then
      let r := st.wg.stepRegisterFirst
      ({ st with wg := r.1 }, showOut (relabel "wg" r.2))
    else if (st.lbW.find? (·.1 == tid)).isSome then
      -- `wait_for_connection`: register, look at the deactivation flag, then at the peers, then wait
      let w := ((st.lbW.find? (·.1 == tid)).map (·.2)).getD {}
      let decide (w : WaitSt) : WaitSt × StepOut :=
        if st.lbDeact then ({ w with pc := 2 }, .done "err:InvalidState")
        else if st.lbCond then ({ w with pc := 2 }, .done "ok")
        else ({ w with pc := 1, notified := false }, .at "checked")
      let r : WaitSt × StepOut :=
        match w.pc with
        | 0 => decide { w with registered := true }
        | 1 => if w.notified then decide w else (w, .blocked)
        | _ => (w, .done "ok")
      ({ st with lbW := st.lbW.map fun e => if e.1 == tid then (tid, r.1) else e }, showOut (relabel "lb" r.2))
    else match st.scripts.find? (·.1 == tid) with
      | some (_, (rem, acc)) =>
        if (st.rpq.task? tid).isNone then (st, "no-task") else
        match st.rpq.task? tid, rem with
        | some (.finished _), [] => (st, showOut (.done (";".intercalate acc)))
        | _, _ =>
          let r := stepScript st.rpq tid (rem.length + 1) rem acc
          ({ st with rpq := r.1, scripts := (st.scripts.filter (·.1 != tid)) ++ [(tid, (r.2.1, r.2.2.1))] }, showOut r.2.2.2)
      | none =>
        let r := st.rpq.step tid
        ({ st with rpq := r.1 }, if r.2 == .done "no-task" then "no-task" else showOut r.2)
  | ["cancel", tid] =>
    if st.wgTask == some tid then
      if st.wg.pc == 2 then (st, "done(ok)") else ({ st with wg := { st.wg with pc := 2 } }, "done(cancelled)")
    else if (st.lbW.find? (·.1 == tid)).isSome then
      let w := ((st.lbW.find? (·.1 == tid)).map (·.2)).getD {}
      if w.pc == 2 then (st, "done(ok)")
      else ({ st with lbW := st.lbW.map fun e => if e.1 == tid then (tid, { e.2 with pc := 2 }) else e }, "done(cancelled)")
    else
      let r := st.rpq.cancel tid
      ({ st with rpq := r.1, scripts := st.scripts.map fun e => if e.1 == tid then (tid, ([], e.2.2)) else e },
       if r.2 == .done "no-task" then "no-task" else showOut r.2)
  | ["res", tid] =>
    (st, match st.scripts.find? (·.1 == tid) with
      | some (_, (_, acc)) => "[" ++ ";".intercalate acc ++ "]"
      | none => "[]")
  | ["obs"] =>
    let ps := st.rpq.pipes.map fun q => s!"p{q.id}:q{q.queued},r{q.reserved},l{q.chan.length}"
    (st, s!"{" ".intercalate ps} ready={st.rpq.ready.length} wg={st.wgCount}")
  | _ => (st, "bad-op")

def setStatus (st : St) (tid v : String) : St :=
  { st with status := (st.status.filter (·.1 != tid)) ++ [(tid, v)] }

def runOp (st : St) (p : List String) : St × String :=
  match p with
  | "task" :: tid :: _ =>
    let r := runOp0 st p
    (setStatus r.1 tid "new", r.2)
  | ["step", tid] =>
    match (st.status.find? (·.1 == tid)).map (·.2) with
    | none => (st, "no-task")
    | some v =>
      if v.startsWith "done:" then (st, (v.drop 5).toString)   -- a finished task keeps reporting its final outcome
      else
        let r := runOp0 st p
        let v' := if r.2 == "blocked" then "blocked" else if r.2.startsWith "done(" then "done:" ++ r.2 else "run"
        (setStatus r.1 tid v', r.2)
  | ["cancel", tid] =>
    match (st.status.find? (·.1 == tid)).map (·.2) with
    | none => (st, "no-task")
    | some v =>
      if v == "run" then (st, "done(cannot-cancel-here)")
      else if v.startsWith "done:" then (st, (v.drop 5).toString)
      else
        let r := runOp0 st p
        (setStatus r.1 tid ("done:" ++ r.2), r.2)
  | _ => runOp0 st p

end Rzmq.Driver.Conc
