import RzmqModel.Model.Wire
/-! Line-protocol helpers shared by all component drivers (grammar identical to `harness/src/lib.rs`). -/
namespace Rzmq.Driver

def hexDigit (c : Char) : Option Nat :=
  if '0' ≤ c ∧ c ≤ '9' then some (c.toNat - '0'.toNat)
  else if 'a' ≤ c ∧ c ≤ 'f' then some (c.toNat - 'a'.toNat + 10)
  else if 'A' ≤ c ∧ c ≤ 'F' then some (c.toNat - 'A'.toNat + 10)
  else none

def parseHexList : List Char → List UInt8
  | a :: b :: rest =>
    match hexDigit a, hexDigit b with
    | some x, some y => UInt8.ofNat (x * 16 + y) :: parseHexList rest
    | _, _ => []
  | _ => []

def parseHex (s : String) : List UInt8 := parseHexList s.toList

def pattern (len seed : Nat) : List UInt8 :=
  (List.range len).map fun i => UInt8.ofNat ((seed + 31 * i) % 256)

def parseTok (tok : String) : List UInt8 :=
  let k := tok.take 1
  let rest := (tok.drop 1).toString
  if k == "h" then parseHex rest
  else if k == "z" then List.replicate rest.toNat! 0
  else if k == "p" then
    match rest.splitOn "x" with
    | [l, s] => pattern l.toNat! s.toNat!
    | _ => []
  else []

def parseBytes (spec : String) : List UInt8 :=
  if spec == "-" || spec.isEmpty then [] else
  ((spec.splitOn "+").map parseTok).flatten

def parseFrame (spec : String) : Frame :=
  let d := ((spec.take 1).toString).toNat!
  { payload := parseBytes (spec.drop 1).toString, more := d % 2 == 1, command := (d / 2) % 2 == 1 }

def parseMessage (spec : String) : Message :=
  if spec == "~" then [] else (spec.splitOn ",").map parseFrame

def parseBatch (spec : String) : List Message :=
  if spec == "~~" then [] else (spec.splitOn ";").map parseMessage

def fnv64 (data : List UInt8) : UInt64 :=
  data.foldl (fun h b => (h ^^^ b.toUInt64) * 0x100000001b3) 0xcbf29ce484222325

def hexNib (n : Nat) : Char := if n < 10 then Char.ofNat (48 + n) else Char.ofNat (87 + n)

def hexByte (b : UInt8) : String := String.ofList [hexNib (b.toNat / 16), hexNib (b.toNat % 16)]

def hexOf (bs : List UInt8) : String := String.join (bs.map hexByte)

def hex64 (v : UInt64) : String :=
  String.ofList ((List.range 16).map fun i => hexNib ((v.toNat >>> (4 * (15 - i))) % 16))

def summ (data : List UInt8) : String :=
  s!"{data.length}:{hex64 (fnv64 data)}:{hexOf (data.take 12)}"

def flagDigit (f : Frame) : Nat := (if f.more then 1 else 0) + (if f.command then 2 else 0)

def showFrame (f : Frame) : String := s!"F{flagDigit f}:{summ f.payload}"

def showFrames (fs : List Frame) : String :=
  if fs.isEmpty then "-" else ",".intercalate (fs.map showFrame)

/-- split `data` according to `cuts` (chunk lengths; the rest is the last chunk) -/
def chunksOf (data : List UInt8) (cuts : String) : List (List UInt8) :=
  let ns := if cuts == "-" then [] else (cuts.splitOn ",").map String.toNat!
  let rec go (d : List UInt8) : List Nat → List (List UInt8)
    | [] => [d]
    | n :: ns => d.take n :: go (d.drop n) ns
  go data ns

def parseInt (s : String) : Int :=
  if s.startsWith "-" then - ((s.drop 1).toString.toNat! : Int) else (s.toNat! : Int)

end Rzmq.Driver
