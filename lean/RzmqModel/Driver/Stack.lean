import RzmqModel.Driver.Engine
import RzmqModel.Model.Pair
import RzmqModel.Driver.Fsm
import RzmqModel.Model.Routing
/-! Model-side predictions for the stack-level scenarios of `harness/src/stack.rs` (trace acceptance). -/
namespace Rzmq.Driver.Stack
open Rzmq Rzmq.Driver

def cfgGet (s : String) (k : String) : Option String :=
  (s.splitOn ",").findSome? fun kv => match kv.splitOn "=" with
    | [k', v] => if k' == k then some v else none
    | _ => none

/-- `ZmtpEngineConfig::from(&SocketOptions)`: security_enabled is derived from the mechanism options -/
def normCfg (c : Cfg) : Cfg := { c with securityEnabled := c.usePlain || c.useCurve || c.useNoise }

/-- what the application behind a receiving socket sees of the engine's deliveries -/
def appView (ty : SockName) (o : Out) : List String :=
  o.app.filterMap fun a => match a with
    | .deliver m => some s!"D({showFrames m})"
    | _ => none

def runOp (p : List String) : String :=
  match p with
  | "rawpeer" :: c :: bytes :: cuts :: _ =>
    let cfg := normCfg (Engine.parseCfg c)
    let chunks := chunksOf (parseBytes bytes) cuts
    let r := feedAll Engine.spec cfg Eng.init (chunks.map fun ch => (0, ch))
    let hs := if r.2.app.any isHandshakeComplete then "ok" else "no"
    s!"recv=[{" ".intercalate (appView cfg.sockType r.2)}] hs={hs}"
  | "slowdrip" :: _ => "closed=in-time"
  | "faultlocal" :: _ => "healthy=ok"
  | "hostile" :: _ => "survived=ok"
  | "reqrace" :: _ => "alternation=ok"      -- the specification (C10.req_alternates): the peer never sees two requests in a row
  | "reqstale" :: _ => "alternation=ok"     -- C10.req_state_tracks_log: after a successful receive a send is accepted, a receive refused
  | ["stream", _opts, _scfg, _rcfg, msgs] =>
    -- the specification (C01.sendpath_fifo + end_to_end + recvpath_fifo): exactly the accepted messages, in order
    -- what the receiver must see: the frames as given, MORE on all but the last (C02.normalise_*)
    let ms := (parseBatch msgs).map fun m => m.mapIdx fun i f => { f with more := decide (i + 1 < m.length) }
    let shown := " ".intercalate (ms.map fun m => s!"D({showFrames m})")
    s!"delivered={ms.length}:{hex64 (fnv64 shown.toUTF8.toList)}"
  | ["fsmscript", kind, script] => Fsm.run kind script
  | ["linger", opts, scfg, _rcfg, _count, _size] =>
    -- the full statement of C15: a LINGER of -1, or one comfortably longer than the transfer needs, delivers everything
    -- (to a peer that reads: `stall=1` peers do not)
    let l := ((cfgGet scfg "linger").map parseInt).getD 0
    let stalled := cfgGet opts "stall" == some "1"
    s!"linger=ok all={if (l < 0 || l ≥ 8000) && !stalled then "yes" else "n/a"}"
  | "pubstall" :: _ => "pubstall=ok"     -- C12: a stalled subscriber neither blocks the publisher nor delays the others
  | "framewise" :: _ => "framewise=ok"   -- C02: one message, one peer, whole - also when it is sent frame by frame
  | "secure" :: _ => "secure=ok"         -- C18: decodable, no cleartext, tampering yields a prefix, sessions do not repeat
  | "churn" :: _ => "churn=ok"           -- C20: buffers and descriptors are given back, whatever the backend
  | "cancel" :: _ => "cancel=ok"          -- C09: dropped API futures lose, duplicate and tear nothing; the sockets stay usable
  | "rchurn" :: _ => "rchurn=ok"          -- C20: receive buffers of closed connections come back, whatever the backend
  | "retrypace" :: _ => "retrypace=ok"    -- C17: the delay between two attempts is waited out in full
  | "routerframes" :: _ => "routerframes=ok"  -- C02: a frame-by-frame ROUTER message is not torn by what other peers do meanwhile
  | "errclose" :: _ => "errclose=closed"  -- C07/C19/C20: an error, a dead peer or close() ends the connection and the peer sees it
  | "routerlate" :: _ => "routerlate=ok"  -- C11: what a ROUTER delivers of a peer that has gone carries that peer's announced identity
  | "comeback" :: _ => "comeback=ok"      -- C17: a lost connection is retried and traffic resumes once the peer is back
  | "bystander" :: _ => "bystander=ok"    -- C17: what another socket of the context does never stops this socket's retries
  | ["subhist", _, history, probes] =>
    -- C12: the probes that arrive are those some ACTIVE subscription is a prefix of (subscriptions are counted)
    let ops := (history.splitOn ";").filter (· != "")
    let t := ops.foldl (fun (t : Trie) (h : String) =>
      let topic := parseHex (String.ofList (h.toList.drop 1))
      if h.toList.head? == some '+' then t.subscribe topic else (t.unsubscribe topic).1) Trie.empty
    let ps := (probes.splitOn ";").map fun h => parseHex (String.ofList (h.toList.dropWhile (· == 'h')))
    let got := (List.range ps.length).filter fun i => t.matches (ps[i]!)
    s!"got={",".intercalate (got.map toString)}"
  | "peerclose" :: _ => "peerclose=seen"  -- C20/C16: the peer of a closed socket learns of it, whatever the backend
  | ["fanin", _, _, _, _, "closeint"] => "fanin=intact"   -- C15/C20: whatever a closing sender still transmits is undamaged
  | "fanin" :: _ => "fanin=ok"           -- C20/C01: every connection of a socket is served, whatever the backend
  | "lifecycle" :: _ => "lifecycle=ok"   -- C16: close/term finish, nothing hangs, names are free again, nothing is left running
  | "hwm" :: _ => "hwm=ok"     -- C14: timeouts honoured, buffering within the bound, exactly the accepted messages arrive
  | "partialread" :: _ => "frames=[a1+ a2+ a3 b1]"      -- C02.stash_contiguous: the rest of the message comes next, whatever other peers do
  | ["bigmulti", _tr, _scfg, _rcfg, n] =>
    -- C02.frame_limits_consistent: refused at the sender above the limit, delivered whole up to it
    if n.toNat! > Gen.MAX_USER_FRAMES_PER_MESSAGE then "outcome=refused" else "outcome=delivered"
  | "reprace" :: _ => "routing=ok"          -- the specification (C10.rep_alternates_and_routes)         -- the specification: the owning socket keeps working     -- the specification: a fault on another connection is never visible here
  | ["compat", transport, ca, cb] =>
    let cfgA := { normCfg (Engine.parseCfg ca) with isServer := true }
    let cfgB := { normCfg (Engine.parseCfg cb) with isServer := false }
    if transport == "inproc" then
      -- `validate_socket_compatibility(connector, binder)`
      s!"bind=- conn={if Gen.inprocCompat.contains (cfgB.sockType, cfgA.sockType) then "ok" else "no"}"
    else
      -- any complete schedule gives the same result (C05.pair_confluent): deliver everything, alternately
      let sched := (List.replicate 8 [Move.ab 100000, Move.ba 100000]).flatten
      let p := Pair.run Engine.spec cfgA cfgB Pair.start sched
      let okA := p.appA.any isHandshakeComplete
      let okB := p.appB.any isHandshakeComplete
      s!"bind={if okA then "ok" else "no"} conn={if okB then "ok" else "no"}"
  | _ => "bad-op"

end Rzmq.Driver.Stack
