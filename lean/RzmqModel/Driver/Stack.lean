import RzmqModel.Driver.Engine
/-! Model-side predictions for the stack-level scenarios of `harness/src/stack.rs` (trace acceptance). -/
namespace Rzmq.Driver.Stack
open Rzmq Rzmq.Driver

def cfgGet (s : String) (k : String) : Option String :=
  (s.splitOn ",").findSome? fun kv => match kv.splitOn "=" with
    | [k', v] => if k' == k then some v else none
    | _ => none

/-- what the application behind a receiving socket sees of the engine's deliveries -/
def appView (ty : SockName) (o : Out) : List String :=
  o.app.filterMap fun a => match a with
    | .deliver m => some s!"D({showFrames m})"
    | _ => none

def runOp (p : List String) : String :=
  match p with
  | "rawpeer" :: c :: bytes :: cuts :: _ =>
    let cfg := Engine.parseCfg c
    let chunks := chunksOf (parseBytes bytes) cuts
    let r := feedAll Engine.spec cfg Eng.init (chunks.map fun ch => (0, ch))
    let hs := if r.2.app.any isHandshakeComplete then "ok" else "no"
    s!"recv=[{" ".intercalate (appView cfg.sockType r.2)}] hs={hs}"
  | "slowdrip" :: _ => "closed=in-time"
  | _ => "bad-op"

end Rzmq.Driver.Stack
