import RzmqModel.Driver.Common
import RzmqModel.Model.Engine
namespace Rzmq.Driver.Engine
open Rzmq Rzmq.Driver

structure Slot where
  cfg : Cfg
  eng : Eng

structure St where
  a : Option Slot := none
  b : Option Slot := none
  ab : Bytes := []
  ba : Bytes := []

def optBytes (v : String) : Option Bytes := if v == "none" then none else some (parseBytes v)
def optNat (v : String) : Option Nat := if v == "none" then none else some v.toNat!

def parseCfg (s : String) : Cfg :=
  (s.splitOn ",").foldl (fun c kv =>
    match kv.splitOn "=" with
    | [k, v] =>
      match k with
      | "role" => { c with isServer := v == "s" }
      | "type" => { c with sockType := SockName.ofString v }
      | "id" => { c with routingId := parseBytes v }
      | "sec" => { c with securityEnabled := v == "1" }
      | "zmtp2" => { c with allowZmtp2 := v == "1" }
      | "plain" => { c with usePlain := v == "1" }
      | "curve" => { c with useCurve := v == "1" }
      | "noise" => { c with useNoise := v == "1" }
      | "user" => { c with plainUser := optBytes v }
      | "pass" => { c with plainPass := optBytes v }
      | "hbivl" => { c with heartbeatIvl := optNat v }
      | "hbto" => { c with heartbeatTimeout := optNat v }
      | "cork" => { c with useCork := v == "1" }
      | "zc" => { c with sendZc := v == "1" }
      | "max" => { c with maxMsgSize := parseInt v }
      | _ => c
    | _ => c) {}

def errStr : ErrClass → String
  | .proto => "Proto" | .sec => "Sec" | .auth => "Auth" | .timeout => "Timeout"
  | .internal => "Internal" | .other => "Other"

def containsFFFD : Bytes → Bool
  | 0xEF :: 0xBF :: 0xBD :: _ => true
  | _ :: r => containsFFFD r
  | [] => false

def showNet : NetAct → String
  | .send d zc => s!"S({summ d}){if zc then "Z" else ""}"
  | .setCork b => if b then "C1" else "C0"
  | .scheduleClose none => "Xnone"
  | .scheduleClose (some d) => s!"X{d}"

def showApp : AppAct → String
  | .handshakeComplete id ty =>
    let i := match id with | none => "none" | some b => "h" ++ hexOf b
    let t := match ty with
      | none => "none"
      | some b => if !validUtf8 b || containsFFFD b then "LOSSY" else "h" ++ hexOf b
    s!"H(id={i},type={t})"
  | .deliver m => s!"D({showFrames m})"
  | .peerError e => s!"E({errStr e})"

def showOut (o : Out) : String :=
  s!"net=[{" ".intercalate (o.net.map showNet)}] app=[{" ".intercalate (o.app.map showApp)}]"

def sendsOf (o : Out) : Bytes :=
  (o.net.map fun a => match a with | .send d _ => d | _ => []).flatten

def spec : AbsSpec := AbsSpec.unavailable

def getSlot (st : St) (n : String) : Option Slot := if n == "A" then st.a else if n == "B" then st.b else none
def setSlot (st : St) (n : String) (s : Slot) : St := if n == "A" then { st with a := some s } else { st with b := some s }

def phaseStr : Phase → String
  | .greeting => "greeting" | .security => "security" | .ready => "ready" | .v2Identity => "v2identity"
  | .data => "data" | .closed => "closed"

def feedChunksE (cfg : Cfg) (now : Nat) (e : Eng) : List Bytes → Eng × List String
  | [] => (e, [])
  | c :: cs =>
    let r := onNetworkBytes spec cfg now e c
    let r2 := feedChunksE cfg now r.1 cs
    (r2.1, (if r.1.panicked then "PANIC" else showOut r.2) :: r2.2)

def runOp (st : St) (p : List String) : St × String :=
  match p with
  | ["new", n, c] =>
    let st := if n == "A" then { st with ab := [], ba := [] } else st
    (setSlot st n { cfg := parseCfg c, eng := {} }, "ok")
  | ["pstart"] =>
    match st.a, st.b with
    | some a, some b =>
      let oa := start a.eng
      let ob := start b.eng
      ({ st with ab := st.ab ++ sendsOf oa.2, ba := st.ba ++ sendsOf ob.2 },
       s!"A:{showOut oa.2} B:{showOut ob.2}")
    | _, _ => (st, "no-slot")
  | ["deliver", dir, n, now] =>
    let q := if dir == "ab" then st.ab else st.ba
    let rx := if dir == "ab" then "B" else "A"
    let k := if n.toNat! == 0 then q.length else min n.toNat! q.length
    match getSlot st rx with
    | none => (st, "no-slot")
    | some sl =>
      if sl.eng.panicked then (st, "PANIC") else
      let r := onNetworkBytes spec sl.cfg now.toNat! sl.eng (q.take k)
      let st := setSlot st rx { sl with eng := r.1 }
      let st := if dir == "ab" then { st with ab := q.drop k } else { st with ba := q.drop k }
      if r.1.panicked then (st, "PANIC") else
      let st := if dir == "ab" then { st with ba := st.ba ++ sendsOf r.2 } else { st with ab := st.ab ++ sendsOf r.2 }
      (st, s!"n={k} {showOut r.2}")
  | op :: n :: rest =>
    match getSlot st n with
    | none => (st, "no-slot")
    | some sl =>
      if sl.eng.panicked then (st, "PANIC") else
      match op, rest with
      | "start", [] => let r := start sl.eng; (setSlot st n { sl with eng := r.1 }, showOut r.2)
      | "bytes", [now, bytes, cuts] =>
        let r := feedChunksE sl.cfg now.toNat! sl.eng (chunksOf (parseBytes bytes) cuts)
        (setSlot st n { sl with eng := r.1 },
         if r.1.panicked then "PANIC" else " | ".intercalate r.2)
      | "app", [m] => let r := onAppMessage sl.cfg sl.eng (parseMessage m); (setSlot st n { sl with eng := r.1 }, showOut r.2)
      | "papp", [m] =>
        let r := onAppMessage sl.cfg sl.eng (parseMessage m)
        let st := setSlot st n { sl with eng := r.1 }
        let st := if n == "A" then { st with ab := st.ab ++ sendsOf r.2 } else { st with ba := st.ba ++ sendsOf r.2 }
        (st, showOut r.2)
      | "tick", [now] => let r := onTick sl.cfg now.toNat! sl.eng; (setSlot st n { sl with eng := r.1 }, showOut r.2)
      | "close", [] => let r := close sl.cfg sl.eng; (setSlot st n { sl with eng := r.1 }, showOut r.2)
      | "state", [] =>
        let e := sl.eng
        let ver := match e.version with | none => "none" | some .v2 => "v2" | some .v3 => "v3"
        (st, s!"phase={phaseStr e.phase} acc={e.acc.length} wfp={if e.waitingForPong then 1 else 0} partial={e.partialBatch.length} ver={ver}")
      | _, _ => (st, "bad-op")
  | _ => (st, "bad-op")

end Rzmq.Driver.Engine
