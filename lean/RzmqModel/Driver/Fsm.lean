import RzmqModel.Model.ReqRep
/-! Model-side run of the scripted REQ/REP call histories of `harness/src/stack.rs::fsmscript`. -/
namespace Rzmq.Driver.Fsm
open Rzmq

def insertSorted (x : String) : List String → List String
  | [] => [x]
  | y :: ys => if x ≤ y then x :: y :: ys else y :: insertSorted x ys

def sortStrings (l : List String) : List String := l.foldl (fun acc x => insertSorted x acc) []

-- REP -------------------------------------------------------------------------------------------------

structure RepSim where
  sys : RepSys := {}
  waiting : List Nat := []                 -- tasks with a receive in flight, oldest first
  ready : List Nat := []                   -- the ready-pipe queue: peers whose pipe holds requests, in service order
  delivered : List (Nat × Nat) := []       -- per peer: requests handed to the application so far
  log : List String := []

def RepSim.count (s : RepSim) (p : Nat) : Nat := ((s.delivered.find? (·.1 == p)).map (·.2)).getD 0

/-- in-flight receives take queued requests (oldest waiter first) -/
def RepSim.settle : Nat → RepSim → List String → RepSim × List String
  | 0, s, outs => (s, outs)
  | fuel + 1, s, outs =>
    match s.waiting, s.ready with
    | t :: rest, src :: readyRest =>
      match s.sys.pending.idxOf? src with
      | none => (s, outs)
      | some i =>
        let sys' := s.sys.step (.recvGot t i)
        if sys'.log.length == s.sys.log.length then (s, outs)
        else
          let k := s.count src + 1
          -- a pipe that still holds requests goes to the back of the ready list
          let ready' := if sys'.pending.contains src then readyRest ++ [src] else readyRest
          RepSim.settle fuel { s with sys := sys', waiting := rest, ready := ready',
                                      delivered := (s.delivered.filter (·.1 != src)) ++ [(src, k)] }
            (outs ++ [s!"got:p{src}-{k}"])
    | _, _ => (s, outs)

def RepSim.finish (s : RepSim) (outs : List String) : RepSim :=
  let r := RepSim.settle 16 s []
  { r.1 with log := r.1.log ++ outs ++ sortStrings r.2 }

def RepSim.event (s : RepSim) (ev : String) : RepSim :=
  let op := (ev.take 1).toString
  let arg := ((ev.drop 1).toString.toNat?).getD 0
  match op with
  | "r" =>
    let sys' := s.sys.step (.recvBegin arg)
    if sys'.rejected > s.sys.rejected then ({ s with sys := sys' }).finish ["invalid"]
    else ({ s with sys := sys', waiting := s.waiting ++ [arg] }).finish []
  | "q" =>
    ({ s with sys := s.sys.step (.peerRequests arg),
              ready := if s.sys.pending.contains arg then s.ready else s.ready ++ [arg] }).finish []
  | "s" =>
    let out := match s.sys.st with
      | .receivedRequest peer => s!"s=ok>P{peer}"
      | _ => "s=invalid"
    ({ s with sys := s.sys.step (.sendReply 0), log := s.log ++ [out] }).finish []
  | "x" =>
    if s.waiting.contains arg then
      ({ s with sys := s.sys.step (.recvGiveUp arg), waiting := s.waiting.filter (· != arg), log := s.log ++ ["dropped"] }).finish []
    else s
  | _ => s

-- REQ -------------------------------------------------------------------------------------------------

structure ReqSim where
  sys : ReqSys := {}
  waiting : List (Nat × Bool) := []        -- (task, uses the reply notifier = recv() style), oldest first
  got : Nat := 0                           -- replies handed to the application so far
  log : List String := []

/-- a queued reply goes to the oldest waiter; the recv()-style waiters still waiting are then woken by the
notifier and return empty-handed -/
def ReqSim.settle : Nat → ReqSim → List String → ReqSim × List String
  | 0, s, outs => (s, outs)
  | fuel + 1, s, outs =>
    match s.waiting with
    | (t, _) :: rest =>
      if s.sys.replies == 0 then (s, outs)
      else
        let sys1 := s.sys.step (.recvGot t)
        let woken := rest.filter (·.2)
        let sys2 := woken.foldl (fun acc w => acc.step (.recvFail w.1)) sys1
        ReqSim.settle fuel { s with sys := sys2, waiting := rest.filter (!·.2), got := s.got + 1 }
          (outs ++ [s!"got:a{s.got + 1}"] ++ woken.map (fun _ => "invalid"))
    | [] => (s, outs)

def ReqSim.finish (s : ReqSim) (outs : List String) : ReqSim :=
  let r := ReqSim.settle 16 s []
  { r.1 with log := r.1.log ++ outs ++ sortStrings r.2 }

def ReqSim.event (s : ReqSim) (ev : String) : ReqSim :=
  let op := (ev.take 1).toString
  let arg := ((ev.drop 1).toString.toNat?).getD 0
  match op with
  | "s" =>
    let sys1 := s.sys.step (.sendBegin 0)
    if sys1.rejected > s.sys.rejected then ({ s with sys := sys1 }).finish ["s=invalid"]
    else ({ s with sys := sys1.step (.sendOk 0) }).finish ["s=ok"]
  | "r" | "m" =>
    let sys' := s.sys.step (.recvBegin arg)
    if sys'.rejected > s.sys.rejected then ({ s with sys := sys' }).finish ["invalid"]
    else ({ s with sys := sys', waiting := s.waiting ++ [(arg, op == "r")] }).finish []
  | "p" =>
    if s.sys.atPeer == 0 then ({ s with log := s.log ++ ["p=none"] }).finish []
    else ({ s with sys := s.sys.step .peerReplies }).finish []
  | "x" =>
    if s.waiting.any (·.1 == arg) then
      ({ s with sys := s.sys.step (.recvDropped arg), waiting := s.waiting.filter (·.1 != arg), log := s.log ++ ["dropped"] }).finish []
    else s
  | _ => s

def run (kind script : String) : String :=
  let evs := script.splitOn ","
  if kind == "REP" then
    let s := evs.foldl RepSim.event {}
    s!"log=[{" ".intercalate s.log}] waiting={s.waiting.length}"
  else
    let s := evs.foldl ReqSim.event {}
    s!"log=[{" ".intercalate s.log}] waiting={s.waiting.length}"

end Rzmq.Driver.Fsm
