import RzmqModel.Driver.Common
namespace Rzmq.Driver.Wire
open Rzmq Rzmq.Driver

def statusStr : Status → String
  | .more => "more" | .err => "err" | .panic => "PANIC"

/-- repeated single-shot decoding at successive offsets (what the harness does with the slice decoders) -/
def drainWith (dec : List UInt8 → Dec) : Nat → List UInt8 → List Frame × Status × List UInt8
  | 0, src => ([], .more, src)
  | fuel + 1, src =>
    match dec src with
    | .needMore => ([], .more, src)
    | .error => ([], .err, src)
    | .panic => ([], .panic, src)
    | .frame f rest =>
      let r := drainWith dec fuel rest
      (f :: r.1, r.2.1, r.2.2)

def enc (p : List String) : String :=
  match p with
  | ["enc", "codec", f] => s!"ok {summ (encodeCodec (parseFrame f))}"
  | ["enc", "hdronly", f] => s!"ok {summ (encodeHeaderOnly (parseFrame f))}"
  | ["enc", "split", f] =>
    let r := writeMsgSplit (parseFrame f)
    let pl := match r.2 with | some b => summ b | none => "none"
    s!"ok {summ r.1} {pl}"
  | ["enc", "contig", b] => s!"ok {summ (frameContiguous (parseBatch b))}"
  | ["enc", "batch", b] => s!"ok {summ (frameContiguous (parseBatch b))}"
  | ["enc", "multipart", b] => s!"ok {summ (frameContiguous ((parseBatch b).take 1))}"
  | ["enc", "vect", b] =>
    let v := frameVectored (parseBatch b)
    let lens := if v.isEmpty then "-" else ",".intercalate (v.map fun c => toString c.length)
    s!"ok {summ v.flatten} chunks={lens}"
  | _ => "bad-op"

def dec (p : List String) : String :=
  match p with
  | ["dec", "buffer", max, bytes, cuts] =>
    let r := feedChunks (parseInt max) {} (chunksOf (parseBytes bytes) cuts)
    let st := if r.1.closed then "err" else "more"
    s!"{st} {showFrames r.2} left={r.1.acc.length}"
  | ["dec", "rdbytes", max, bytes, cuts] =>
    -- `try_read_msgs_from_bytes` returns Err for the whole call: frames decoded earlier in the failing
    -- call are not returned to the caller.
    let m := parseInt max
    let rec go (s : RxState) (acc : List Frame) : List (List UInt8) → String
      | [] => s!"more {showFrames acc} left={s.acc.length}"
      | c :: cs =>
        let r := feed m s c
        if r.1.closed then s!"err {showFrames acc} left={r.1.acc.length}"
        else go r.1 (acc ++ r.2) cs
    go {} [] (chunksOf (parseBytes bytes) cuts)
  | ["dec", "slice", max, bytes] =>
    let d := parseBytes bytes
    let r := drainWith (decodeSlice (parseInt max)) (d.length + 1) d
    if r.2.1 == .panic then "PANIC" else s!"{statusStr r.2.1} {showFrames r.1} left={r.2.2.length}"
  | ["dec", "bytes", max, bytes] =>
    let d := parseBytes bytes
    let r := drainWith (decodeBytes (parseInt max)) (d.length + 1) d
    if r.2.1 == .panic then "PANIC" else s!"{statusStr r.2.1} {showFrames r.1} left={r.2.2.length}"
  | ["dec", "peek", max, bytes] =>
    match peekFrameLen (parseInt max) (parseBytes bytes) with
    | .needMore => "more" | .error => "err" | .panic => "PANIC" | .total n => s!"total {n}"
  | ["dec", "codec", plen, bytes, cuts] =>
    let d := parseBytes bytes
    let n := min plen.toNat! d.length
    let r := codecFeedChunks { pfx := d.take n } (chunksOf (d.drop n) cuts)
    let st := if r.1.failed then "err" else "more"
    s!"{st} {showFrames r.2} left={r.1.buf.length}"
  | _ => "bad-op"

def runOp (p : List String) : String :=
  match p with
  | "enc" :: _ => enc p
  | "dec" :: _ => dec p
  | _ => "bad-op"

end Rzmq.Driver.Wire
