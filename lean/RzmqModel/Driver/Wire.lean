import RzmqModel.Driver.Common
namespace Rzmq.Driver.Wire
open Rzmq Rzmq.Driver

def statusStr : Status → String
  | .more => "more" | .err => "err" | .panic => "PANIC"

/-- repeated single-shot decoding at successive offsets (what the harness does with the slice decoders) -/
def drainWith (dec : List UInt8 → Dec) : Nat → List UInt8 → List Frame × Status × List UInt8
  | 0, src => ([], .more, src)
  | fuel + 1, src =>
    match dec src with
    | .needMore => ([], .more, src)
    | .error => ([], .err, src)
    | .panic => ([], .panic, src)
    | .frame f rest =>
      let r := drainWith dec fuel rest
      (f :: r.1, r.2.1, r.2.2)

def enc (p : List String) : String :=
  match p with
  | ["enc", "codec", f] => s!"ok {summ (encodeCodec (parseFrame f))}"
  | ["enc", "hdronly", f] => s!"ok {summ (encodeHeaderOnly (parseFrame f))}"
  | ["enc", "split", f] =>
    let r := writeMsgSplit (parseFrame f)
    let pl := match r.2 with | some b => summ b | none => "none"
    s!"ok {summ r.1} {pl}"
  | ["enc", "contig", b] => s!"ok {summ (frameContiguous (parseBatch b))}"
  | ["enc", "batch", b] => s!"ok {summ (frameContiguous (parseBatch b))}"
  | ["enc", "multipart", b] => s!"ok {summ (frameContiguous ((parseBatch b).take 1))}"
  | ["enc", "vect", b] =>
    let v := frameVectored (parseBatch b)
    let lens := if v.isEmpty then "-" else ",".intercalate (v.map fun c => toString c.length)
    s!"ok {summ v.flatten} chunks={lens}"
  | _ => "bad-op"

def dec (p : List String) : String :=
  match p with
  | ["dec", "buffer", max, bytes, cuts] =>
    let r := feedChunks (parseInt max) {} (chunksOf (parseBytes bytes) cuts)
    let st := if r.1.closed then "err" else "more"
    s!"{st} {showFrames r.2} left={r.1.acc.length}"
  | ["dec", "rdbytes", max, bytes, cuts] =>
    -- `try_read_msgs_from_bytes` returns Err for the whole call: frames decoded earlier in the failing
    -- call are not returned to the caller.
    let m := parseInt max
    let rec go (s : RxState) (acc : List Frame) : List (List UInt8) → String
      | [] => s!"more {showFrames acc} left={s.acc.length}"
      | c :: cs =>
        let r := feed m s c
        if r.1.closed then s!"err {showFrames acc} left={r.1.acc.length}"
        else go r.1 (acc ++ r.2) cs
    go {} [] (chunksOf (parseBytes bytes) cuts)
  | ["dec", "slice", max, bytes] =>
    let d := parseBytes bytes
    let r := drainWith (decodeSlice (parseInt max)) (d.length + 1) d
    if r.2.1 == .panic then "PANIC" else s!"{statusStr r.2.1} {showFrames r.1} left={r.2.2.length}"
  | ["dec", "bytes", max, bytes] =>
    let d := parseBytes bytes
    let r := drainWith (decodeBytes (parseInt max)) (d.length + 1) d
    if r.2.1 == .panic then "PANIC" else s!"{statusStr r.2.1} {showFrames r.1} left={r.2.2.length}"
  | ["dec", "peek", max, bytes] =>
    match peekFrameLen (parseInt max) (parseBytes bytes) with
    | .needMore => "more" | .error => "err" | .total n => s!"total {n}"
  | ["dec", "codec", plen, bytes, cuts] =>
    let d := parseBytes bytes
    let n := min plen.toNat! d.length
    let r := codecFeedChunks { pfx := d.take n } (chunksOf (d.drop n) cuts)
    let st := if r.1.failed then "err" else "more"
    s!"{st} {showFrames r.2} left={r.1.buf.length}"
  | _ => "bad-op"

/-- RFC 23 header shape, written out independently of the model's encoders -/
def expectBytes (fs : List Frame) : List UInt8 :=
  (fs.map fun f =>
    let fl : UInt8 := (if f.more then 1 else 0) ||| (if f.command then 4 else 0)
    let n := f.payload.length
    (if n ≤ 255 then [fl, UInt8.ofNat n]
     else (fl ||| 2) :: ((List.range 8).map fun i => UInt8.ofNat (n >>> (8 * (7 - i)))))
    ++ f.payload).flatten

def peekWalk (max : Int) : Nat → List UInt8 → Nat → Option Nat
  | 0, _, _ => none
  | fuel + 1, src, n =>
    if src.isEmpty then some n else
    match peekFrameLen max src with
    | .total t => if t == 0 || src.length < t then none else peekWalk max fuel (src.drop t) (n + 1)
    | _ => none

def rt (p : List String) : String :=
  match p with
  | ["rt", b, cuts, max] =>
    let batch := parseBatch b
    let flat := batch.flatten
    let expect := expectBytes flat
    let encs : List (String × List UInt8) :=
      [("codec", (flat.map encodeCodec).flatten),
       ("hdronly", (flat.map fun f => encodeHeaderOnly f ++ f.payload).flatten),
       ("split", (flat.map fun f => (writeMsgSplit f).1 ++ (writeMsgSplit f).2.getD []).flatten),
       ("contig", frameContiguous batch),
       ("vect", (frameVectored batch).flatten)]
    match encs.find? (fun e => e.2 != expect) with
    | some e => s!"ORACLE-FAIL encoder={e.1} got={summ e.2} want={summ expect}"
    | none =>
      let hexed := "h" ++ hexOf expect
      let want := s!"more {showFrames flat} left=0"
      let decs : List (String × String) :=
        [("buffer", dec ["dec", "buffer", max, hexed, cuts]),
         ("rdbytes", dec ["dec", "rdbytes", max, hexed, cuts]),
         ("slice", dec ["dec", "slice", max, hexed]),
         ("bytes", dec ["dec", "bytes", max, hexed]),
         ("codec", dec ["dec", "codec", "0", hexed, cuts]),
         ("codec-prefix", dec ["dec", "codec", "1", hexed, cuts])]
      match decs.find? (fun d => d.2 != want) with
      | some d => s!"ORACLE-FAIL decoder={d.1} got=[{d.2}] want=[{want}]"
      | none =>
        match peekWalk (parseInt max) (expect.length + 1) expect 0 with
        | some n => if n == flat.length then s!"rt ok n={flat.length} len={expect.length}"
                    else s!"ORACLE-FAIL decoder=peek frames={n}"
        | none => "ORACLE-FAIL decoder=peek"
  | _ => "bad-op"

def runOp (p : List String) : String :=
  match p with
  | "enc" :: _ => enc p
  | "dec" :: _ => dec p
  | "rt" :: _ => rt p
  | _ => "bad-op"

end Rzmq.Driver.Wire
