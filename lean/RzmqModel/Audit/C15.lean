import RzmqModel.Props.C15
#print axioms Rzmq.C15.source_shape
#print axioms Rzmq.C15.linger_zero_is_prompt
#print axioms Rzmq.C15.linger_bounded
#print axioms Rzmq.C15.linger_infinite_waits
#print axioms Rzmq.C15.linger_infinite_never_gives_up
#print axioms Rzmq.C15.linger_ends_once_drained
#print axioms Rzmq.C15.close_never_truncates
#print axioms Rzmq.C15.linger_delivers_all_partial
#print axioms Rzmq.C15.sessions_as_they_are
#print axioms Rzmq.C15.linger_loses_what_the_session_holds
