import RzmqModel.Props.C02
#print axioms Rzmq.C02.current_source_is_the_proved_instance
#print axioms Rzmq.C02.senders_normalise
#print axioms Rzmq.C02.normalise_whole
#print axioms Rzmq.C02.normalise_keeps_payloads
#print axioms Rzmq.C02.normalise_idempotent
#print axioms Rzmq.C02.frame_limits_consistent
#print axioms Rzmq.C02.engine_delivers_only_whole_messages
#print axioms Rzmq.C02.stash_contiguous
#print axioms Rzmq.C02.recv_multipart_ends_message
#print axioms Rzmq.C02.stash_is_message_tail
#print axioms Rzmq.C02.per_pipe_fifo
#print axioms Rzmq.C02.detach_cleared_stash_counterexample
#print axioms Rzmq.C02.mp_ignores_stash_counterexample
#print axioms Rzmq.C02.push_source_shape
#print axioms Rzmq.C02.push_routes_only_whole_messages
#print axioms Rzmq.C02.framewise_load_balancing_tears_messages
