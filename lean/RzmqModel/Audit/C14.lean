import RzmqModel.Props.C14
#print axioms Rzmq.C14.source_shape
#print axioms Rzmq.C14.send_zero_fails_at_once
#print axioms Rzmq.C14.send_positive
#print axioms Rzmq.C14.send_infinite_waits
#print axioms Rzmq.C14.send_never_spurious
#print axioms Rzmq.C14.send_infinite_cap_counterexample
#print axioms Rzmq.C14.recv_zero_fails_at_once
#print axioms Rzmq.C14.recv_positive
#print axioms Rzmq.C14.recv_infinite_waits
#print axioms Rzmq.C14.sender_buffer_bounded
#print axioms Rzmq.C14.refused_send_changes_nothing
#print axioms Rzmq.C14.accepted_still_in_order
#print axioms Rzmq.C14.receiver_buffer_bounded
#print axioms Rzmq.C14.dealer_pending_queue_is_bounded
#print axioms Rzmq.C14.dealer_refused_send_changes_nothing
#print axioms Rzmq.C14.dealer_refuses_only_at_the_high_water_mark
