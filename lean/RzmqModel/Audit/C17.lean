import RzmqModel.Props.C17
#print axioms Rzmq.C17.core_first
#print axioms Rzmq.C17.core_at_most_doubles
#print axioms Rzmq.C17.core_monotone
#print axioms Rzmq.C17.core_capped
#print axioms Rzmq.C17.core_bounded
#print axioms Rzmq.C17.core_saturates
#print axioms Rzmq.C17.conn_at_most_doubles
#print axioms Rzmq.C17.conn_capped
#print axioms Rzmq.C17.conn_constant_without_cap
#print axioms Rzmq.C17.handover_consistent
#print axioms Rzmq.C17.conn_first_capped
#print axioms Rzmq.C17.conn_always_capped
#print axioms Rzmq.C17.event_result_local
#print axioms Rzmq.C17.inproc_refusal_is_local
#print axioms Rzmq.C17.other_sockets_events_are_ignored
#print axioms Rzmq.C17.bus_lag_shuts_down
