import RzmqModel.Props.C17
#print axioms Rzmq.C17.core_first
#print axioms Rzmq.C17.core_at_most_doubles
#print axioms Rzmq.C17.core_monotone
#print axioms Rzmq.C17.core_capped
#print axioms Rzmq.C17.core_bounded
#print axioms Rzmq.C17.core_saturates
#print axioms Rzmq.C17.conn_at_most_doubles
#print axioms Rzmq.C17.conn_capped
#print axioms Rzmq.C17.conn_constant_without_cap
#print axioms Rzmq.C17.handover_consistent
#print axioms Rzmq.C17.conn_first_exceeds_cap_counterexample
