import RzmqModel.Props.C13
#print axioms Rzmq.C13.good_init
#print axioms Rzmq.C13.good_add
#print axioms Rzmq.C13.good_reachable
#print axioms Rzmq.C13.good_remove
#print axioms Rzmq.C13.good_next
#print axioms Rzmq.C13.next_returns_cursor
#print axioms Rzmq.C13.round_robin
#print axioms Rzmq.C13.each_peer_once_per_round
#print axioms Rzmq.C13.add_keeps_cursor
#print axioms Rzmq.C13.add_idempotent
#print axioms Rzmq.C13.remove_no_skip
#print axioms Rzmq.C13.remove_current_moves_to_successor
#print axioms Rzmq.C13.removed_never_selected
