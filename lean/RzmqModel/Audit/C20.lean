import RzmqModel.Props.C20
#print axioms Rzmq.C20.backends_agree_on_any_stream
#print axioms Rzmq.C20.pool_always_consistent
#print axioms Rzmq.C20.pool_hands_out_only_free_buffers
#print axioms Rzmq.C20.pool_never_leaks
#print axioms Rzmq.C20.dropped_lease_returns_buffer
#print axioms Rzmq.C20.handed_over_lease_keeps_its_buffer
#print axioms Rzmq.C20.oversize_never_takes_a_buffer
