import RzmqModel.Props.C20
#print axioms Rzmq.C20.backends_agree_on_any_stream
#print axioms Rzmq.C20.pool_always_consistent
#print axioms Rzmq.C20.pool_hands_out_only_free_buffers
#print axioms Rzmq.C20.pool_never_leaks
#print axioms Rzmq.C20.dropped_lease_returns_buffer
#print axioms Rzmq.C20.handed_over_lease_keeps_its_buffer
#print axioms Rzmq.C20.oversize_never_takes_a_buffer
#print axioms Rzmq.C20.op_table_shape
#print axioms Rzmq.C20.current_table_is_the_proved_one
#print axioms Rzmq.C20.dropping_at_close_frees_inflight_buffers
#print axioms Rzmq.C20.keeping_only_sends_misattributes
#print axioms Rzmq.C20.slab_first_lookup_misattributes_notifications
#print axioms Rzmq.C20.vacated_slot_lets_two_sends_share_a_user_data
