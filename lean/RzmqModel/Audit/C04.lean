import RzmqModel.Props.C04
#print axioms Rzmq.C04.quiescent_init
#print axioms Rzmq.C04.quiescent_after
#print axioms Rzmq.C04.engine_cut_independent
#print axioms Rzmq.C04.engine_outputs_clock_independent
#print axioms Rzmq.C04.deliveries_depend_on_bytes_only
