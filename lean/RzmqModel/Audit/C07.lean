import RzmqModel.Props.C07
#print axioms Rzmq.C07.limit_accepts_exact
#print axioms Rzmq.C07.limit_rejects_next
#print axioms Rzmq.C07.any_decoded_frame_is_within_the_limit
#print axioms Rzmq.C07.decoders_never_panic
#print axioms Rzmq.C07.needMore_bounded
#print axioms Rzmq.C07.engine_never_panics
#print axioms Rzmq.C07.partial_bounded
#print axioms Rzmq.C07.accumulator_bounded
#print axioms Rzmq.C07.error_closes
#print axioms Rzmq.C07.closed_is_silent
#print axioms Rzmq.C07.parseProps_sound
