import RzmqModel.Props.C19
#print axioms Rzmq.C19.tick_pings_iff
#print axioms Rzmq.C19.tick_net_only_ping
#print axioms Rzmq.C19.ping_not_early
#print axioms Rzmq.C19.ping_not_late
#print axioms Rzmq.C19.dead_peer_closed
#print axioms Rzmq.C19.timeout_only_after_deadline
#print axioms Rzmq.C19.traffic_keeps_alive
#print axioms Rzmq.C19.answering_peer_survives
#print axioms Rzmq.C19.pong_echoes_context
#print axioms Rzmq.C19.pong_roundtrip
#print axioms Rzmq.C19.v2_never_pings
#print axioms Rzmq.C19.no_ping_before_data
#print axioms Rzmq.C19.heartbeat_commands_are_rfc37
