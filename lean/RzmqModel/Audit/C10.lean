import RzmqModel.Props.C10
#print axioms Rzmq.C10.req_alternates
#print axioms Rzmq.C10.req_no_double_send
#print axioms Rzmq.C10.req_recv_bounded
#print axioms Rzmq.C10.req_state_tracks_log
#print axioms Rzmq.C10.req_guarded_success_wedges
#print axioms Rzmq.C10.req_one_outstanding
#print axioms Rzmq.C10.req_invalid_call_noop
#print axioms Rzmq.C10.req_invalid_recv_noop
#print axioms Rzmq.C10.req_failed_send_rolls_back
#print axioms Rzmq.C10.req_check_then_act_counterexample
#print axioms Rzmq.C10.req_stale_receive_counterexample
#print axioms Rzmq.C10.rep_alternates_and_routes
#print axioms Rzmq.C10.rep_invalid_send_noop
#print axioms Rzmq.C10.rep_invalid_recv_noop
#print axioms Rzmq.C10.rep_failed_recv_rolls_back
#print axioms Rzmq.C10.rep_check_then_act_counterexample
#print axioms Rzmq.C10.current_source_is_the_proved_instance
