import RzmqModel.Props.C16
#print axioms Rzmq.C16.source_shape
#print axioms Rzmq.C16.wait_group_counts_the_living
#print axioms Rzmq.C16.term_returns_only_when_all_stopped
#print axioms Rzmq.C16.term_returns_when_all_stopped
#print axioms Rzmq.C16.handshaking_session_always_learns
#print axioms Rzmq.C16.retrying_connecter_always_learns
#print axioms Rzmq.C16.bus_only_actor_misses_the_event
#print axioms Rzmq.C16.closed_socket_never_hangs
#print axioms Rzmq.C16.unanswered_mailbox_hangs
#print axioms Rzmq.C16.parking_sites_as_proved
#print axioms Rzmq.C16.parked_senders_are_released
#print axioms Rzmq.C16.parked_senders_all_accounted_for
#print axioms Rzmq.C16.notify_one_strands_the_third_sender
#print axioms Rzmq.C16.unreached_site_strands_everyone
#print axioms Rzmq.C16.names_are_released
