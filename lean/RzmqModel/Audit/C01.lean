import RzmqModel.Props.C01
#print axioms Rzmq.C01.source_shape
#print axioms Rzmq.C01.assemble_carry_conserves
#print axioms Rzmq.C01.assemble_pipe_conserves
#print axioms Rzmq.C01.assemble_carry_progress
#print axioms Rzmq.C01.batch_count_bounded
#print axioms Rzmq.C01.batch_bytes_bounded
#print axioms Rzmq.C01.advance_writes_prefix
#print axioms Rzmq.C01.priority_at_chunk_boundary
#print axioms Rzmq.C01.sendpath_fifo
#print axioms Rzmq.C01.written_is_chunk_aligned
#print axioms Rzmq.C01.drained_stream
#print axioms Rzmq.C01.session_buffer_bounded
#print axioms Rzmq.C01.recvpath_fifo
#print axioms Rzmq.C01.recv_queue_bounded
#print axioms Rzmq.C01.regroup_flatten
#print axioms Rzmq.C01.end_to_end
#print axioms Rzmq.C01.delivered_is_prefix
