import RzmqModel.Props.C08
#print axioms Rzmq.C08.inv_initial
#print axioms Rzmq.C08.inv_step
#print axioms Rzmq.C08.queued_le_reserved
#print axioms Rzmq.C08.inv_reachable
#print axioms Rzmq.C08.ready_never_overflows
#print axioms Rzmq.C08.arm_never_blocks
#print axioms Rzmq.C08.no_lost_wakeup
#print axioms Rzmq.C08.parked_consumer_proceeds
#print axioms Rzmq.C08.nonempty_channel_is_ready
#print axioms Rzmq.C08.fifo_exactly_once
#print axioms Rzmq.C08.register_first_no_lost_wakeup
#print axioms Rzmq.C08.check_first_counterexample
