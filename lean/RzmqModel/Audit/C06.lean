import RzmqModel.Props.C06
#print axioms Rzmq.C06.negotiate_sound
#print axioms Rzmq.C06.secure_never_null
#print axioms Rzmq.C06.no_v2_when_secure
#print axioms Rzmq.C06.no_deliver_before_handshake
#print axioms Rzmq.C06.handshake_requires_negotiated_mechanism
#print axioms Rzmq.C06.plain_server_requires_credentials
#print axioms Rzmq.C06.plain_server_without_credentials_rejects
#print axioms Rzmq.C06.plain_client_requires_welcome
#print axioms Rzmq.C06.abstract_mechanism_not_skipped
#print axioms Rzmq.C06.plain_source_shape
#print axioms Rzmq.C06.unset_credential_admits_nobody
#print axioms Rzmq.C06.mechanism_and_command_names_are_the_rfc_ones
