import RzmqModel.Props.C09
#print axioms Rzmq.C09.arm_points_never_park
#print axioms Rzmq.C09.cancel_preserves_inv
#print axioms Rzmq.C09.cancel_loses_nothing
#print axioms Rzmq.C09.cancelled_send_not_delivered
#print axioms Rzmq.C09.inv_with_cancellation
