import RzmqModel.Props.C09
#print axioms Rzmq.C09.arm_points_never_park
#print axioms Rzmq.C09.cancel_preserves_inv
#print axioms Rzmq.C09.cancel_loses_nothing
#print axioms Rzmq.C09.cancelled_send_not_delivered
#print axioms Rzmq.C09.inv_with_cancellation
#print axioms Rzmq.C09.tx_source_shape
#print axioms Rzmq.C09.cancelled_frame_by_frame_send_is_all_or_nothing
#print axioms Rzmq.C09.cancelled_last_frame_leaves_the_socket_usable
#print axioms Rzmq.C09.keeping_the_transaction_across_the_await_breaks_it
#print axioms Rzmq.C09.handing_frames_over_one_by_one_breaks_it
#print axioms Rzmq.C09.frame_by_frame_send_without_cancellation_delivers_everything
#print axioms Rzmq.C09.each_dropped_future_loses_at_most_one_message
