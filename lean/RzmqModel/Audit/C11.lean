import RzmqModel.Props.C11
#print axioms Rzmq.C11.pipe_identity_refines
#print axioms Rzmq.C11.lookup_sound
#print axioms Rzmq.C11.router_map_refines
#print axioms Rzmq.C11.remove_is_local
#print axioms Rzmq.C11.collision_newest_wins
#print axioms Rzmq.C11.collision_newest_removed
#print axioms Rzmq.C11.dealer_to_router
#print axioms Rzmq.C11.router_to_dealer_auto
#print axioms Rzmq.C11.req_to_router
#print axioms Rzmq.C11.router_to_req
#print axioms Rzmq.C11.req_rep_roundtrip
#print axioms Rzmq.C11.dealer_rep_roundtrip
#print axioms Rzmq.C11.wire_flags_wellformed
