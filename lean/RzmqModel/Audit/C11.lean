import RzmqModel.Props.C11
#print axioms Rzmq.C11.router_map_refines
#print axioms Rzmq.C11.remove_is_local
#print axioms Rzmq.C11.collision_counterexample
#print axioms Rzmq.C11.dealer_to_router
#print axioms Rzmq.C11.router_to_dealer_auto
#print axioms Rzmq.C11.req_to_router
#print axioms Rzmq.C11.router_to_req
#print axioms Rzmq.C11.req_rep_roundtrip
#print axioms Rzmq.C11.dealer_rep_roundtrip
#print axioms Rzmq.C11.wire_flags_wellformed
