import RzmqModel.Props.C18
#print axioms Rzmq.C18.source_shape
#print axioms Rzmq.C18.pieces_reassemble
#print axioms Rzmq.C18.pieces_fit_the_length_field
#print axioms Rzmq.C18.unchunked_length_wraps
#print axioms Rzmq.C18.honest_stream_decodes
#print axioms Rzmq.C18.accepted_is_a_prefix
#print axioms Rzmq.C18.tampered_plaintext_is_a_prefix
#print axioms Rzmq.C18.tampered_frames_are_a_prefix
#print axioms Rzmq.C18.single_mutation_cuts_at_the_record
#print axioms Rzmq.C18.curve_as_it_is
#print axioms Rzmq.C18.curve_sessions_repeat
