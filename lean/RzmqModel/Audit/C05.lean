import RzmqModel.Props.C05
#print axioms Rzmq.C05.compat_symmetric
#print axioms Rzmq.C05.verdict_is_the_zeromq_pairing
#print axioms Rzmq.C05.wire_layout_is_zmtp
#print axioms Rzmq.C05.v2_v3_same_table
#print axioms Rzmq.C05.inproc_subset_zmtp
#print axioms Rzmq.C05.inproc_differs_counterexample
#print axioms Rzmq.C05.emitted_mono
#print axioms Rzmq.C05.pair_state_determined
#print axioms Rzmq.C05.pair_confluent
#print axioms Rzmq.C05.null_handshake_converges
#print axioms Rzmq.C05.incompatible_types_both_fail
#print axioms Rzmq.C05.mechanism_mismatch_both_fail
#print axioms Rzmq.C05.wrong_credentials_both_fail
