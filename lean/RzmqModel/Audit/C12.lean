import RzmqModel.Props.C12
#print axioms Rzmq.C12.countAt_subscribe
#print axioms Rzmq.C12.countAt_unsubscribe
#print axioms Rzmq.C12.unsubscribe_result
#print axioms Rzmq.C12.matches_iff
#print axioms Rzmq.C12.trie_refines_multiset
#print axioms Rzmq.C12.sub_delivers_iff
#print axioms Rzmq.C12.subscribe_unsubscribe_restores
#print axioms Rzmq.C12.delivery_depends_only_on_the_multiset
#print axioms Rzmq.C12.empty_subscription_matches_all
#print axioms Rzmq.C12.unsubscribe_absent_noop
#print axioms Rzmq.C12.topics_iff
#print axioms Rzmq.C12.topics_nodup
