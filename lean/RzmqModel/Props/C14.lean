import RzmqModel.Model.Hwm
import RzmqModel.Props.C01
import RzmqModel.Proofs.Hwm
/-!
# C14 — high-water marks bound buffering and SNDTIMEO/RCVTIMEO mean what they say
-/
namespace Rzmq.C14
open Rzmq

/-- the shape of the sources the decision functions stand for (re-extracted on every run): pipe capacity = SNDHWM,
per-pipe ingress capacity = RCVHWM, no cap on SNDTIMEO -1 anywhere, the three branches of send and of recv, DEALER's
pending queue bounded by SNDHWM and fed only with messages that really came back -/
theorem source_shape :
    Gen.pipeCapacityIsSndhwm = 1 ∧ Gen.ingressCapacityIsRcvhwm = 1 ∧ Gen.sndtimeoNoneCappedSites = 0
    ∧ Gen.sndtimeoZeroIsTrySend = 3 ∧ Gen.rcvtimeoZeroIsTryPop = 2 ∧ Gen.rcvtimeoPositiveIsTimeout = 2
    ∧ Gen.rcvtimeoNoneWaits = 2 ∧ Gen.dealerQueuesOnlyReturnedMessages = 1 ∧ Gen.dealerPendingBoundedBySndhwm = 1 := by
  decide

-- send ------------------------------------------------------------------------------------------------------

/-- SNDTIMEO 0 on a full connection fails immediately with a would-block error -/
theorem send_zero_fails_at_once (owned : Bool) (room : Option Nat) :
    sendOnFull none owned .zero room = .wouldBlock 0 := by
  exact sendOnFull_zero none owned room

/-- SNDTIMEO d > 0: the call fails (would-block or timeout) exactly when no room appeared within d, and then exactly
at d: never earlier; otherwise it succeeds at the moment room appeared -/
theorem send_positive (owned : Bool) (d : Nat) (room : Option Nat) :
    (∀ t, (sendOnFull none owned (.ms d) room).failedAt = some t → t = d ∧ (∀ r, room = some r → d < r))
    ∧ (∀ t, sendOnFull none owned (.ms d) room = .ok t → room = some t ∧ t ≤ d)
    ∧ sendOnFull none owned (.ms d) room ≠ .waiting := by
  exact sendOnFull_ms_spec owned d room

/-- SNDTIMEO -1 waits until there is room: it never fails, and it returns exactly when room appears -/
theorem send_infinite_waits (owned : Bool) (room : Option Nat) :
    (sendOnFull none owned .infinite room).failedAt = none
    ∧ (∀ t, sendOnFull none owned .infinite room = .ok t ↔ room = some t) := by
  exact sendOnFull_infinite_spec owned room

/-- no spurious success, whatever the option: Ok means there was room at that moment -/
theorem send_never_spurious (owned : Bool) (t : Timeo) (room : Option Nat) (at_ : Nat)
    (h : sendOnFull none owned t room = .ok at_) : room = some at_ := by
  exact sendOnFull_ok_room owned t room at_ h

/-- the earlier shape (`unwrap_or(30 s)`): with SNDTIMEO -1 a send failed after 30 s although it was told to wait -/
theorem send_infinite_cap_counterexample :
    sendOnFull (some 30000) false .infinite none = .wouldBlock 30000
    ∧ sendOnFull (some 30000) false .infinite (some 45000) = .wouldBlock 30000 := by
  decide

-- recv ------------------------------------------------------------------------------------------------------

theorem recv_zero_fails_at_once (arrival : Option Nat) : recvOnEmpty .zero arrival = .wouldBlock 0 := by
  exact recvOnEmpty_zero arrival

theorem recv_positive (d : Nat) (arrival : Option Nat) :
    (∀ t, (recvOnEmpty (.ms d) arrival).failedAt = some t → t = d ∧ (∀ a, arrival = some a → d < a))
    ∧ (∀ t, recvOnEmpty (.ms d) arrival = .ok t → arrival = some t ∧ t ≤ d) := by
  exact recvOnEmpty_ms_spec d arrival

theorem recv_infinite_waits (arrival : Option Nat) :
    (recvOnEmpty .infinite arrival).failedAt = none ∧ (∀ t, recvOnEmpty .infinite arrival = .ok t ↔ arrival = some t) := by
  exact recvOnEmpty_infinite_spec arrival

-- buffering ---------------------------------------------------------------------------------------------------

/-- however fast the producer offers and however slowly (or never) the transport accepts bytes: the sending side of a
connection holds at most SNDHWM messages in the pipe, SNDHWM in the egress buffer and one batch in carry-over -/
theorem sender_buffer_bounded (cfg : BatchCfg) (hc : 1 ≤ cfg.count) (evs : List HwmEv) :
    (HwmSend.run { path := { cfg := cfg } } evs).buffered ≤ 2 * max cfg.sndhwm 1 + cfg.count := by
  exact HwmSend.run_buffered cfg hc evs

/-- a refused send changes nothing: the message is not accepted, not buffered, and everything accepted is still
accounted for in wire order (so it can never be delivered, and nothing accepted is lost) -/
theorem refused_send_changes_nothing (s : HwmSend) (m : Message)
    (hfull : ¬ s.path.pipe.length < max s.path.cfg.sndhwm 1) :
    (s.step (.offer m)).path = s.path := by
  exact HwmSend.step_refused s m hfull

theorem accepted_still_in_order (cfg : BatchCfg) (evs : List HwmEv) :
    let s := HwmSend.run { path := { cfg := cfg } } evs
    s.path.wire = frameBatch s.path.accepted := by
  exact HwmSend.run_fifo cfg evs

/-- the receiving side: at most RCVHWM messages queued per connection (C01.recv_queue_bounded), plus what one read
decoded -/
theorem receiver_buffer_bounded (r0 : Nat) (evs : List RecvEv) (k : Nat)
    (hread : ∀ msgs, RecvEv.read msgs ∈ evs → msgs.length ≤ k) :
    let r := RecvPath.run { rcvhwm := r0 } evs
    r.queue.length ≤ max r0 1 ∧ r.buffer.length ≤ k := by
  exact ⟨C01.recv_queue_bounded r0 evs, RecvPath.run_buffer r0 evs k hread⟩

-- non-vacuity
example : sendOnFull none true (.ms 100) (some 40) = .ok 40 ∧ sendOnFull none true (.ms 100) (some 140) = .timedOut 100
    ∧ sendOnFull none false .infinite none = .waiting := by
  decide

-- DEALER's pending queue ---------------------------------------------------------------------------------------------------------------------

/-- DEALER buffers at most SNDHWM messages in its pending queue plus the one its processor holds, in every reachable state -/
theorem dealer_pending_queue_is_bounded (cap hwm : Nat) (evs : List DealerEv) :
    (Dealer.run currentDealerCfg { cap := cap, hwm := hwm } evs).pending.length
      + (Dealer.run currentDealerCfg { cap := cap, hwm := hwm } evs).hand.toList.length ≤ max hwm 1 + 1 := by
  rw [C01.dealer_source_shape]
  have h := (Dealer.run_inv _ evs (Dealer.inv_init cap hwm)).bound
  have hh : (Dealer.run goodDealer { cap := cap, hwm := hwm } evs).hwm = hwm := Dealer.run_hwm _ _ evs
  rw [hh] at h
  exact h

/-- a DEALER send that is refused (queue and pipe full) changes nothing: no message is half-queued, none is dropped, the
counter is untouched -/
theorem dealer_refused_send_changes_nothing (d : Dealer) (m : Nat)
    (h : (Dealer.step currentDealerCfg d (.send m)).accepted = d.accepted) :
    Dealer.step currentDealerCfg d (.send m) = { d with refused := d.refused ++ [m] } :=
  Dealer.refused_send_changes_nothing _ d m h

/-- … and it is refused only for cause, in every reachable state: the pending queue holds SNDHWM messages, and the message
could not go straight to the pipe (the pipe is full, or older messages are still pending and go first); the pending messages
are real (the counter equals what is pending plus what the processor holds) -/
theorem dealer_refuses_only_at_the_high_water_mark (cap hwm : Nat) (evs : List DealerEv) (m : Nat) :
    let d := Dealer.run currentDealerCfg { cap := cap, hwm := hwm } evs
    (Dealer.step currentDealerCfg d (.send m)).accepted = d.accepted →
      max hwm 1 ≤ d.pending.length ∧ (max cap 1 ≤ d.pipe.length ∨ 0 < d.pending.length + d.hand.toList.length) := by
  intro d h
  have hr := Dealer.refusal_only_when_full _ d m h
  have hi : d.Inv := by
    show (Dealer.run currentDealerCfg { cap := cap, hwm := hwm } evs).Inv
    rw [C01.dealer_source_shape]; exact Dealer.run_inv _ evs (Dealer.inv_init cap hwm)
  have hh : d.hwm = hwm := Dealer.run_hwm _ _ evs
  have hc : d.cap = cap := Dealer.run_cap _ _ evs
  rw [hh, hc, hi.count] at hr
  exact hr

end Rzmq.C14
