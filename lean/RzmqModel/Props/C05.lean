import RzmqModel.Model.Pair
import RzmqModel.Proofs.Pair
/-!
# C05 — handshakes converge, agree, and give one verdict on compatibility

The pair system of `Model/Pair.lean`: two engines, two in-flight byte queues, schedules = arbitrary lists of
deliveries (any direction next, any number of bytes, one byte at a time … everything at once).
-/
namespace Rzmq.C05
open Rzmq

-- one compatibility relation --------------------------------------------------------------------------

/-- the pairing relation is symmetric: both endpoints reach the same verdict -/
theorem compat_symmetric (x y : SockName) : typesCompatible x y = typesCompatible y x := by
  cases x <;> cases y <;> decide

/-- the valid ZeroMQ pairings, written down from the pattern RFCs (28/REQREP: REQ–REP, REQ–ROUTER, DEALER–REP, DEALER–ROUTER,
DEALER–DEALER, ROUTER–ROUTER; 29/PUBSUB: PUB–SUB, PUB–XSUB, XPUB–SUB, XPUB–XSUB; 30/PIPELINE: PUSH–PULL; 31/EXPAIR:
PAIR–PAIR) — a specification independent of the source, unlike `Gen.typeCompat`, which is re-extracted from it -/
def zeromqPairing : SockName → SockName → Bool
  | .REQ, .REP | .REP, .REQ | .REQ, .ROUTER | .ROUTER, .REQ => true
  | .DEALER, .REP | .REP, .DEALER | .DEALER, .ROUTER | .ROUTER, .DEALER => true
  | .DEALER, .DEALER | .ROUTER, .ROUTER => true
  | .PUB, .SUB | .SUB, .PUB | .PUB, .XSUB | .XSUB, .PUB => true
  | .XPUB, .SUB | .SUB, .XPUB | .XPUB, .XSUB | .XSUB, .XPUB => true
  | .PUSH, .PULL | .PULL, .PUSH => true
  | .PAIR, .PAIR => true
  | _, _ => false

/-- the verdict of the code's table (as it is in the source now) is the ZeroMQ pairing relation, for every pair of socket
type names including the ones rzmq only meets on the wire and unknown names: a pairing added to or dropped from
`socket_types_compatible` — symmetrically or not — breaks this theorem -/
theorem verdict_is_the_zeromq_pairing (x y : SockName) : typesCompatible x y = zeromqPairing x y := by
  cases x <;> cases y <;> decide

/-- the greeting layout and the ZMTP/2.0 socket-type codes in the source are the ones of RFC 23/37 and RFC 15 (a specification
independent of the source: the models are written in terms of the re-extracted constants, so a change made consistently to
encoder and decoder would keep every rzmq↔rzmq theorem true while no other ZeroMQ implementation could be talked to) -/
theorem wire_layout_is_zmtp :
    Gen.GREETING_LENGTH = 64 ∧ Gen.SIGNATURE = [0xFF, 0, 0, 0, 0, 0, 0, 0, 0, 0x7F] ∧ Gen.SIGNATURE_LENGTH = 10
    ∧ Gen.VERSION_MAJOR_OFFSET = 10 ∧ Gen.VERSION_MINOR_OFFSET = 11 ∧ Gen.GREETING_VERSION_MAJOR_BYTE = 3
    ∧ Gen.MECHANISM_OFFSET = 12 ∧ Gen.MECHANISM_LENGTH = 20 ∧ Gen.AS_SERVER_OFFSET = 32
    ∧ Gen.PADDING_OFFSET = 33 ∧ Gen.PADDING_LENGTH = 31
    ∧ Gen.asServerFalse = 0 ∧ Gen.asServerTrue = 1
    ∧ Gen.V2_GREETING_LENGTH = 12 ∧ Gen.REVISION_OFFSET = 10 ∧ Gen.V2_SOCKET_TYPE_OFFSET = 11 ∧ Gen.V2_REVISION = 1
    ∧ [SockName.PAIR, .PUB, .SUB, .REQ, .REP, .DEALER, .ROUTER, .PULL, .PUSH].map codeOfName
        = [some 0, some 1, some 2, some 3, some 4, some 5, some 6, some 7, some 8]
    ∧ (List.range 9).map nameFromCode
        = [some .PAIR, some .PUB, some .SUB, some .REQ, some .REP, some .DEALER, some .ROUTER, some .PULL, some .PUSH] := by
  decide

/-- ZMTP/2.0 and ZMTP/3.x use the same table (`socket_types_compatible`) -/
theorem v2_v3_same_table : Gen.v2UsesSharedTable = 1 ∧ Gen.v3ValidatesSocketType = 1 := by
  decide

/-- the inproc table never accepts a pair that ZMTP refuses … -/
theorem inproc_subset_zmtp (x y : SockName) (h : (x, y) ∈ Gen.inprocCompat) : typesCompatible x y = true := by
  revert h; cases x <;> cases y <;> decide

/-- … but (KNOWN FINDING C05:inproc-table-narrower) it refuses valid pairings that ZMTP accepts: the verdict is
not the same over inproc. Exactly these pairs of rzmq's eight socket types differ. -/
theorem inproc_differs_counterexample :
    ([SockName.PUB, .SUB, .REQ, .REP, .DEALER, .ROUTER, .PULL, .PUSH].flatMap fun x =>
      ([SockName.PUB, .SUB, .REQ, .REP, .DEALER, .ROUTER, .PULL, .PUSH].filter fun y =>
        typesCompatible x y && !Gen.inprocCompat.contains (x, y)).map fun y => (x, y))
    = [(.REQ, .ROUTER), (.REP, .DEALER), (.DEALER, .REP), (.DEALER, .DEALER), (.ROUTER, .REQ), (.ROUTER, .ROUTER)] := by
  decide

-- determinism of the pair (Kahn network) ----------------------------------------------------------------

/-- what an endpoint has emitted only grows (as a byte string) when it receives more -/
theorem emitted_mono (spec : AbsSpec) (hw : WellBehaved spec) (cfg : Cfg) (x y : Bytes) :
    emitted spec cfg x <+: emitted spec cfg (x ++ y) := by
  exact emitted_mono' hw (List.prefix_append _ _)

/-- Invariant of every schedule: each engine's state is the one reached by feeding it, in one read, exactly the
bytes delivered to it so far; and what is in flight is what the sender emitted minus what was delivered. -/
theorem pair_state_determined (spec : AbsSpec) (hw : WellBehaved spec) (cfgA cfgB : Cfg) (s : List Move)
    (hne : ∀ m ∈ s, m ≠ .eofA ∧ m ≠ .eofB) :
    let p := Pair.run spec cfgA cfgB Pair.start s
    p.a = (onNetworkBytes spec cfgA 0 Eng.init p.recvA).1
    ∧ p.b = (onNetworkBytes spec cfgB 0 Eng.init p.recvB).1
    ∧ p.appA = (onNetworkBytes spec cfgA 0 Eng.init p.recvA).2.app
    ∧ p.appB = (onNetworkBytes spec cfgB 0 Eng.init p.recvB).2.app
    ∧ p.recvB ++ p.ab = emitted spec cfgA p.recvA
    ∧ p.recvA ++ p.ba = emitted spec cfgB p.recvB := by
  intro p
  have h := PSD.of_start (cfgA := cfgA) (cfgB := cfgB) hw s hne
  exact ⟨h.stA, h.stB, h.appA, h.appB, h.emA, h.emB⟩

/-- Confluence: whatever the delivery schedule (which direction next, how many bytes), two schedules that
deliver everything end in the same engine states with the same application-visible actions. -/
theorem pair_confluent (spec : AbsSpec) (hw : WellBehaved spec) (cfgA cfgB : Cfg) (s1 s2 : List Move)
    (hne1 : ∀ m ∈ s1, m ≠ .eofA ∧ m ≠ .eofB) (hne2 : ∀ m ∈ s2, m ≠ .eofA ∧ m ≠ .eofB)
    (h1 : (Pair.run spec cfgA cfgB Pair.start s1).ab = [] ∧ (Pair.run spec cfgA cfgB Pair.start s1).ba = [])
    (h2 : (Pair.run spec cfgA cfgB Pair.start s2).ab = [] ∧ (Pair.run spec cfgA cfgB Pair.start s2).ba = []) :
    let p1 := Pair.run spec cfgA cfgB Pair.start s1
    let p2 := Pair.run spec cfgA cfgB Pair.start s2
    p1.a = p2.a ∧ p1.b = p2.b ∧ p1.appA = p2.appA ∧ p1.appB = p2.appB := by
  intro p1 p2
  have q1 := PSD.of_start (cfgA := cfgA) (cfgB := cfgB) hw s1 hne1
  have q2 := PSD.of_start (cfgA := cfgA) (cfgB := cfgB) hw s2 hne2
  obtain ⟨hA, hB⟩ := complete_recv_eq hw s1 s2 hne1 hne2 h1 h2
  refine ⟨?_, ?_, ?_, ?_⟩
  · show p1.a = p2.a; rw [q1.stA, q2.stA, hA]
  · show p1.b = p2.b; rw [q1.stB, q2.stB, hB]
  · show p1.appA = p2.appA; rw [q1.appA, q2.appA, hA]
  · show p1.appB = p2.appB; rw [q1.appB, q2.appB, hB]

-- convergence and agreement -------------------------------------------------------------------------------

/-- the READY command of `cfg` fits the receiver's MAXMSGSIZE and identities respect the 255-byte limit -/
def ReadyAdmitted (sender receiver : Cfg) : Prop :=
  sender.routingId.length ≤ 255 ∧
  (receiver.maxMsgSize < 0 ∨ 6 + (encodeProps (localReadyProps sender)).length ≤ receiver.maxMsgSize.toNat)

/-- Compatible NULL endpoints (one listener, one connector, compatible socket types): under EVERY schedule that
delivers everything, both reach the data phase — no mutual wait in the staged greeting — and agree: each
reports exactly the other's socket type and identity, both speak ZMTP/3. -/
theorem null_handshake_converges (spec : AbsSpec) (hw : WellBehaved spec) (cfgA cfgB : Cfg)
    (hA : NullCfg cfgA) (hB : NullCfg cfgB) (hrole : cfgA.isServer = !cfgB.isServer)
    (hcompat : typesCompatible cfgA.sockType cfgB.sockType = true)
    (hrA : ReadyAdmitted cfgA cfgB) (hrB : ReadyAdmitted cfgB cfgA)
    (s : List Move) (hne : ∀ m ∈ s, m ≠ .eofA ∧ m ≠ .eofB)
    (hq : (Pair.run spec cfgA cfgB Pair.start s).ab = [] ∧ (Pair.run spec cfgA cfgB Pair.start s).ba = []) :
    let p := Pair.run spec cfgA cfgB Pair.start s
    p.a.phase = .data ∧ p.b.phase = .data ∧ p.a.version = some .v3 ∧ p.b.version = some .v3
    ∧ p.appA = [handshakeOf cfgB] ∧ p.appB = [handshakeOf cfgA] := by
  intro p
  obtain ⟨h1, h2, h3, h4⟩ := null_converges hw hA hB hrole hcompat hrA hrB s hne hq
  refine ⟨?_, ?_, ?_, ?_, h3, h4⟩
  · show p.a.phase = _; rw [h1]; rfl
  · show p.b.phase = _; rw [h2]; rfl
  · show p.a.version = _; rw [h1]; rfl
  · show p.b.version = _; rw [h2]; rfl

/-- socket types that are not a valid pairing: neither side ever reports a completed handshake, and once
everything (including end-of-stream) is delivered both are closed — nobody waits forever. -/
theorem incompatible_types_both_fail (spec : AbsSpec) (hw : WellBehaved spec) (cfgA cfgB : Cfg)
    (hA : NullCfg cfgA) (hB : NullCfg cfgB) (hrole : cfgA.isServer = !cfgB.isServer)
    (hcompat : typesCompatible cfgA.sockType cfgB.sockType = false)
    (hrA : ReadyAdmitted cfgA cfgB) (hrB : ReadyAdmitted cfgB cfgA)
    (s : List Move) (hq : (Pair.run spec cfgA cfgB Pair.start s).Settled) :
    let p := Pair.run spec cfgA cfgB Pair.start s
    p.a.phase = .closed ∧ p.b.phase = .closed
    ∧ (∀ x ∈ p.appA, isHandshakeComplete x = false) ∧ (∀ x ∈ p.appB, isHandshakeComplete x = false) := by
  exact incompat_both_fail hw hA hB hrole hcompat hrA hrB s hq

/-- mechanism mismatch (NULL against PLAIN): both fail, neither completes -/
theorem mechanism_mismatch_both_fail (spec : AbsSpec) (hw : WellBehaved spec) (cfgA cfgB : Cfg)
    (hA : NullCfg cfgA) (hB : PlainCfg cfgB)
    (s : List Move) (hq : (Pair.run spec cfgA cfgB Pair.start s).Settled) :
    let p := Pair.run spec cfgA cfgB Pair.start s
    p.a.phase = .closed ∧ p.b.phase = .closed
    ∧ (∀ x ∈ p.appA, isHandshakeComplete x = false) ∧ (∀ x ∈ p.appB, isHandshakeComplete x = false) := by
  exact mismatch_both_fail hw hA hB s hq

/-- wrong PLAIN credentials: the server never completes; after end-of-stream both are closed -/
theorem wrong_credentials_both_fail (spec : AbsSpec) (hw : WellBehaved spec) (cfgA cfgB : Cfg)
    (hA : PlainCfg cfgA) (hB : PlainCfg cfgB) (hcl : cfgA.isServer = false) (hsrv : cfgB.isServer = true)
    (hu : (cfgA.plainUser.getD []).length ≤ 255) (hp : (cfgA.plainPass.getD []).length ≤ 255)
    (hwrong : cfgB.plainUser ≠ some (cfgA.plainUser.getD []) ∨ cfgB.plainPass ≠ some (cfgA.plainPass.getD []))
    (hmax : cfgB.maxMsgSize < 0)
    (s : List Move) (hq : (Pair.run spec cfgA cfgB Pair.start s).Settled) :
    let p := Pair.run spec cfgA cfgB Pair.start s
    p.a.phase = .closed ∧ p.b.phase = .closed
    ∧ (∀ x ∈ p.appA, isHandshakeComplete x = false) ∧ (∀ x ∈ p.appB, isHandshakeComplete x = false) := by
  exact creds_both_fail hw hA hB hcl hsrv hu hp hwrong hmax s hq

end Rzmq.C05
