import RzmqModel.Model.Linger
import RzmqModel.Props.C01
import RzmqModel.Proofs.Linger
/-!
# C15 — LINGER governs what happens to accepted messages at close

Proved: when the socket leaves `Lingering` (LINGER 0 at once, a bounded LINGER within LINGER + one tick, LINGER -1 only when
the pipes are empty); closing never delivers a truncated or corrupted message, whatever the moment and however far the last
write got. NOT a theorem of the code as it is (see `linger_loses_what_the_session_holds`): "everything accepted is transmitted
when LINGER allows it" — the sessions stop as soon as close() begins and drop what they hold; the statement is proved under the
two conditions the code would have to meet (`linger_delivers_all_partial`).
-/
namespace Rzmq.C15
open Rzmq

/-- the shape of the sources (re-extracted on every run) -/
theorem source_shape :
    Gen.lingerCheckLooksAtPipesOnly = 1 ∧ Gen.lingerDeadlineChecked = 1 ∧ Gen.lingerNoneHasNoDeadline = 1
    ∧ Gen.lingerZeroDeadlineNow = 1 ∧ Gen.lingerTimedDeadline = 1 ∧ Gen.lingerCheckIntervalMs = 100
    ∧ Gen.lingerDefaultIsZero = 1 ∧ Gen.lingerStartRequiresLingeringPhase = 1 ∧ Gen.lingerArmedAfterPhaseSet = 1
    ∧ Gen.lingerOptionParsedAsGiven = 1 := by
  decide

-- how long close() lingers --------------------------------------------------------------------------------------

/-- LINGER 0: the very first check ends the linger phase, whatever is queued -/
theorem linger_zero_is_prompt (tick fuel : Nat) (emptyAt : Option Nat) :
    lingerEnds tick .zero emptyAt (fuel + 1) 0 = some 0 := by
  rw [lingerEnds_zero, Nat.zero_mul]

/-- a bounded LINGER bounds the linger phase: it ends at the first check at or after the deadline at the latest — within
LINGER + one tick — and earlier only because the pipes were empty -/
theorem linger_bounded (tick : Nat) (ht : 0 < tick) (d : Nat) (emptyAt : Option Nat) (fuel : Nat) (hf : d / tick + 1 < fuel) :
    ∃ t, lingerEnds tick (.ms d) emptyAt fuel 0 = some t ∧ t < d + tick
      ∧ (t < d → ∃ e, emptyAt = some e ∧ e ≤ t) := by
  exact lingerEnds_ms_bounded tick ht d emptyAt fuel hf

/-- LINGER -1: the linger phase ends only once the pipes are empty, however long that takes -/
theorem linger_infinite_waits (tick fuel : Nat) (emptyAt : Option Nat) (t : Nat)
    (h : lingerEnds tick .infinite emptyAt fuel 0 = some t) : ∃ e, emptyAt = some e ∧ e ≤ t := by
  exact lingerEnds_infinite tick emptyAt fuel 0 t h

theorem linger_infinite_never_gives_up (tick fuel : Nat) : lingerEnds tick .infinite none fuel 0 = none := by
  exact lingerEnds_infinite_none tick fuel 0

/-- whatever LINGER is — −1 included — close() does not hang around once everything is out: if the pipes are empty at time e
the phase ends at the first check at or after e, less than one tick later -/
theorem linger_ends_once_drained (tick : Nat) (ht : 0 < tick) (linger : Timeo) (e fuel : Nat) (hf : e / tick + 1 < fuel) :
    ∃ t, lingerEnds tick linger (some e) fuel 0 = some t ∧ t < e + tick := by
  apply lingerEnds_drained tick linger e fuel 0
  · simpa using linger_fuel_enough tick ht e fuel hf
  · omega

/-- non-vacuity: LINGER −1, tick 100 ms, pipes empty 250 ms after close(): the phase ends at the check at 300 ms -/
example : lingerEnds 100 .infinite (some 250) 10 0 = some 300 := by decide

-- what the peer sees -----------------------------------------------------------------------------------------------

/-- Whatever the moment of the close, whatever the session had written by then (any byte position, mid-chunk included) and
however the peer's reads cut the stream: the peer's decoder yields only frames that were really sent, in order — a prefix of
the accepted messages' frames. Closing never produces a truncated, corrupted or invented frame. (No control traffic; frames
within the length/size limits, as in C01.) -/
theorem close_never_truncates (cfg : BatchCfg) (evs : List SendEv) (max : Int) (k : Nat)
    (hctl : ∀ e ∈ evs, ∀ f, e ≠ .control f)
    (hok : ∀ m ∈ (SendPath.run { cfg := cfg } evs).accepted, ∀ f ∈ m, C03.FrameOk f ∧ C03.Admits max f) :
    (decodeAll max (((SendPath.run { cfg := cfg } evs).sentAtClose false).take k)).1
      <+: (SendPath.run { cfg := cfg } evs).accepted.flatten := by
  exact SendPath.run_close_prefix cfg evs max k hctl hok

/-- a session that flushed on stop would have sent exactly the accepted messages -/
theorem linger_delivers_all_partial (cfg : BatchCfg) (evs : List SendEv) (hctl : ∀ e ∈ evs, ∀ f, e ≠ .control f) :
    (SendPath.run { cfg := cfg } evs).sentAtClose true = frameBatch (SendPath.run { cfg := cfg } evs).accepted := by
  exact SendPath.run_flushed cfg evs hctl

/-- … but the sessions do not flush, and they stop when close() begins rather than when the linger phase ends -/
theorem sessions_as_they_are :
    Gen.sessionFlushesOnStop = 0 ∧ Gen.sessionStopsOnSocketClosing = 1 ∧ Gen.sessionStopsOnContextTerminating = 1 := by
  decide

/-- The negation of the full statement, with a witness: three messages accepted, one loop pass (the pipe is empty, so the linger
check is satisfied whatever LINGER is), nothing written yet, the session stops: nothing reaches the peer although everything
was accepted. (Known finding C15:linger-sessions-drop-what-they-hold; replayed on the implementation on every run.) -/
theorem linger_loses_what_the_session_holds :
    let m : Message := [{ payload := [1, 2, 3], more := false, command := false }]
    let s := SendPath.run {} [.accept m, .accept m, .accept m, .assemblePipe]
    s.pipe = [] ∧ s.holdsUnsent = true ∧ lingerDone .infinite s.pipe.isEmpty 0 = true
      ∧ s.sentAtClose (Gen.sessionFlushesOnStop == 1) = [] ∧ s.accepted.length = 3 := by
  decide

end Rzmq.C15
