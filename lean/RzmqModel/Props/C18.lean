import RzmqModel.Model.Record
import RzmqModel.Props.C03
import RzmqModel.Proofs.Record
/-!
# C18 — encrypted connections keep data secret, detect tampering, and stay decodable

Under an ideal AEAD (see `Model/Record.lean`).  Proved: whatever an on-path adversary does to the stream of records, the
receiver's parser sees a prefix of the sender's plaintext, hence delivers a prefix of the sender's frames — never a wrong,
partial, reordered or duplicated one; every batch of every size is cut into records whose length field is exact and which
reassemble to the batch.  NOT true of the code (`curve_sessions_repeat`): two CURVE sessions between the same key pairs seal
the same first plaintext with the same key and nonce.
-/
namespace Rzmq.C18
open Rzmq

/-- the shape of the sources (re-extracted on every run) -/
theorem source_shape :
    Gen.MAX_RECORD_PLAINTEXT = 65519 ∧ Gen.recordsAreChunked = 2 ∧ Gen.recordLengthChecked = 1
    ∧ Gen.recordReaderAppendsPlaintext = 1 ∧ Gen.controlFramesThroughFramer = 2 ∧ Gen.curveNonceIncrementsPerRecord = 2
    ∧ Gen.noiseRefusesOversizeRecord = 1 ∧ Gen.priorityPushesGuardedByKeepOrder = 1 := by
  decide

-- everything the endpoint emits is decodable ------------------------------------------------------------------------------------

/-- a batch of any size is cut into pieces that reassemble to it exactly, … -/
theorem pieces_reassemble (limit : Nat) (p : List UInt8) : (recordPieces limit p).flatten = p := by
  exact recordPieces_flatten limit p

/-- … none of them empty, each within the record limit, so that with the 16-byte tag the 16-bit length field is exact -/
theorem pieces_fit_the_length_field (p : List UInt8) :
    ∀ c ∈ recordPieces Gen.MAX_RECORD_PLAINTEXT p, c ≠ [] ∧ c.length ≤ Gen.MAX_RECORD_PLAINTEXT
      ∧ lengthField (c.length + 16) = c.length + 16 := by
  intro c hc
  obtain ⟨hne, hle⟩ := recordPieces_mem Gen.MAX_RECORD_PLAINTEXT (by decide) p c hc
  refine ⟨hne, hle, ?_⟩
  simp only [Gen.MAX_RECORD_PLAINTEXT] at hle
  simp only [lengthField]
  omega

/-- the earlier shape: one record per batch with the length written `as u16`: a batch of 65520 bytes (plus tag: 65536)
announces a record of length 0 -/
theorem unchunked_length_wraps : lengthField (65520 + 16) = 0 ∧ lengthField (70000 + 16) ≠ 70000 + 16 := by
  decide

/-- honest transmission: the receiver's parser gets exactly the sender's plaintext, whatever the batch sizes -/
theorem honest_stream_decodes (pieces : List (List UInt8)) :
    receivedPlaintext pieces (honestStream pieces.length) = pieces.flatten := by
  exact receivedPlaintext_honest pieces

-- tampering ---------------------------------------------------------------------------------------------------------------------------

/-- Whatever the adversary puts on the wire — any sequence of honest records in any order and multiplicity mixed with
anything else — the receiver accepts exactly the records 0..k-1 for some k: an in-order prefix, each once. -/
theorem accepted_is_a_prefix (stream : List WireRec) :
    ∃ k, acceptedRecords 0 stream = List.range k := by
  exact acceptedRecords_range stream

/-- … so its parser sees a prefix of the plaintext the sender produced -/
theorem tampered_plaintext_is_a_prefix (pieces : List (List UInt8)) (stream : List WireRec) :
    receivedPlaintext pieces stream <+: pieces.flatten := by
  exact receivedPlaintext_prefix pieces stream

/-- … and therefore decodes a prefix of the frames the sender framed: never a wrong, partial, reordered or duplicated
frame (C03's prefix-monotone decoder; frames within the length/size limits) -/
theorem tampered_frames_are_a_prefix (max : Int) (frames : List Frame) (limit : Nat) (stream : List WireRec)
    (hok : ∀ f ∈ frames, C03.FrameOk f ∧ C03.Admits max f) :
    (decodeAll max (receivedPlaintext (recordPieces limit (frames.map encodeCodec).flatten) stream)).1 <+: frames := by
  apply decodeAll_prefix_of_encoded' max frames _ (fun f hf => (hok f hf).1) (fun f hf => (hok f hf).2)
  have h := receivedPlaintext_prefix (recordPieces limit (frames.map encodeCodec).flatten) stream
  rw [recordPieces_flatten] at h
  exact h

/-- each single mutation named by the property stops the receiver at the mutated record at the latest -/
theorem single_mutation_cuts_at_the_record (n : Nat) (m : Mutation) :
    ∃ k, acceptedRecords 0 (mutate (honestStream n) m) = List.range k ∧ k ≤ n
      ∧ (match m with
         | .flip r => r < n → k = r
         | .drop r => r < n → k = r
         | .dup r => r < n → k = r + 1
         | .swap r => r + 1 < n → k = r
         | .cut r => k = min r n
         | .inject r => r ≤ n → k = r) := by
  exact single_mutation_accepted n m

-- two sessions --------------------------------------------------------------------------------------------------------------------------

/-- what the CURVE implementation does, as extracted -/
theorem curve_as_it_is : Gen.curveDataKeysFromStaticKeysOnly = 1 ∧ Gen.curveNonceCountersStartAtOne = 1 := by
  decide

/-- The negation of "two sessions between the same key pairs never encrypt the same plaintext to the same bytes": with the
data key a function of the static keys alone and the counter restarting at 1, the first record of two sessions (whatever
their ephemeral keys) that carry the same first plaintext has the same key, nonce and plaintext — the same bytes.
(Known finding C18:curve-sessions-repeat, replayed on the implementation on every run.) -/
theorem curve_sessions_repeat (staticPair e1 e2 : Nat) (p : List UInt8) :
    curveFirstRecord staticPair e1 p = curveFirstRecord staticPair e2 p := by
  rfl

end Rzmq.C18
