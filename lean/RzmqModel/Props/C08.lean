import RzmqModel.Model.Rpq
import RzmqModel.Proofs.Rpq
/-!
# C08 — a receiver never sleeps while a message is queued for it (no lost wake-ups)

`RpqSt` is the ready-pipe queue as a transition system at schedule-point granularity, for ANY number of
pipes, producer and consumer tasks and ANY interleaving (`RpqSt.step s t` = one grant to task `t`).
A *token* for pipe `p` is an entry of `p` on the ready list or a task that is in the middle of an operation
and is still going to put `p` back on (or is holding it off) the ready list.
-/
namespace Rzmq.C08
open Rzmq

/-- task at `pc` currently holds pipe `p`'s token -/
def holdsToken (p : Nat) : Pc → Bool
  | .sendCounted q prev => q == p && prev == 0
  | .trySendCounted q prev => q == p && prev == 0
  | .batchWritten q _ _ _ zero => q == p && zero
  | .batchCounted q _ _ _ zero => q == p && zero
  | .batchRolledBack q _ _ zero => q == p && zero
  | .popGotSlot q => q == p
  | .popTaken q _ => q == p
  | .popDecremented q _ prev => q == p && decide (prev > 1)
  | .tryPopGotSlot q => q == p
  | .tryPopTaken q _ => q == p
  | .tryPopDecremented q _ prev => q == p && decide (prev > 1)
  | _ => false

/-- a producer has written into `p`'s channel but not yet incremented `queued_count` -/
def uncounted (p : Nat) : Pc → Bool
  | .sendWritten q => q == p
  | .trySendWritten q => q == p
  | .batchWritten q _ _ _ _ => q == p
  | _ => false

/-- a consumer has taken an item out of `p`'s channel but not yet decremented `queued_count` -/
def takenNotCounted (p : Nat) : Pc → Bool
  | .popTaken q _ => q == p
  | .tryPopTaken q _ => q == p
  | _ => false

/-- the task is a producer operating on pipe `p` (between its start and its completion) -/
def producerOn (p : Nat) : Pc → Bool
  | .sendStart q _ | .sendReserved q _ | .sendWritten q | .sendCounted q _ => q == p
  | .trySendStart q _ | .trySendWritten q | .trySendCounted q _ => q == p
  | .batchStart q _ | .batchReserved q _ _ _ _ | .batchWritten q _ _ _ _ | .batchCounted q _ _ _ _
  | .batchRolledBack q _ _ _ => q == p
  | _ => false

def countTasks (s : RpqSt) (f : Pc → Bool) : Nat := (s.tasks.filter fun e => f e.2).length

/-- reservations on pipe `p` taken by the task at `pc` and neither committed (counted) nor rolled back yet -/
def pendingRes (p : Nat) : Pc → Int
  | .sendReserved q _ => if q == p then 1 else 0
  | .sendWritten q => if q == p then 1 else 0
  | .trySendWritten q => if q == p then 1 else 0
  | .batchReserved q n _ sent _ => if q == p then (n : Int) - sent else 0
  | .batchWritten q n _ sent _ => if q == p then (n : Int) - sent + 1 else 0
  | .batchCounted q n _ sent _ => if q == p then (n : Int) - sent else 0
  | _ => 0

def sumPending (s : RpqSt) (p : Nat) : Int := (s.tasks.map fun e => pendingRes p e.2).sum

def tokens (s : RpqSt) (p : Nat) : Nat := s.ready.count p + countTasks s (holdsToken p)

/-- structural well-formedness the harness guarantees: distinct pipe ids, distinct task names, the per-pipe
channel is single-producer (`fibre::spsc`), every pipe is registered, the ready list can hold one entry per pipe -/
def WellFormed (s : RpqSt) : Prop :=
  (s.pipes.map (·.id)).Nodup ∧ (s.tasks.map (·.1)).Nodup
  ∧ (∀ ps ∈ s.pipes, countTasks s (producerOn ps.id) ≤ 1 ∧ ps.registered = true ∧ 0 < ps.cap)
  ∧ s.pipes.length ≤ s.readyCap
  ∧ (∀ e ∈ s.tasks, ∀ p, (producerOn p e.2 ∨ holdsToken p e.2 ∨ takenNotCounted p e.2) → (s.pipe? p).isSome)

/-- THE invariant (per pipe): counter/channel consistency and "exactly one token iff something is counted" -/
def Inv (s : RpqSt) : Prop :=
  ∀ ps ∈ s.pipes,
    ps.queued + (countTasks s (uncounted ps.id) : Int) = (ps.chan.length : Int) + (countTasks s (takenNotCounted ps.id) : Int)
    ∧ 0 ≤ ps.queued ∧ ps.reserved = ps.queued + sumPending s ps.id
    ∧ (∀ e ∈ s.tasks, 0 ≤ pendingRes ps.id e.2)
    ∧ tokens s ps.id = (if ps.queued ≥ 1 then 1 else 0)
    ∧ (∀ p' ∈ s.ready, (s.pipe? p').isSome)

/-- a state in which no task has started yet and all queues are empty -/
def Initial (s : RpqSt) : Prop :=
  s.ready = [] ∧ (∀ ps ∈ s.pipes, ps.chan = [] ∧ ps.queued = 0 ∧ ps.reserved = 0)
  ∧ (∀ e ∈ s.tasks, match e.2 with
      | .sendStart .. | .trySendStart .. | .batchStart .. | .popStart | .tryPopStart | .finished _ => True
      | _ => False)

theorem inv_initial (s : RpqSt) (h : Initial s) : Inv s := by
  sorry

/-- every grant of the scheduler, to any task, preserves well-formedness and the invariant -/
theorem inv_step (s : RpqSt) (t : String) (hw : WellFormed s) (hi : Inv s) :
    WellFormed (s.step t).1 ∧ Inv (s.step t).1 := by
  sorry

/-- `reserved_count >= queued_count` at all times (the code's documented invariant) -/
theorem queued_le_reserved (s : RpqSt) (hi : Inv s) (ps : PipeSt) (hps : ps ∈ s.pipes) : ps.queued ≤ ps.reserved := by
  sorry

/-- hence the invariant holds after ANY schedule -/
theorem inv_reachable (s : RpqSt) (hw : WellFormed s) (h0 : Initial s) (sched : List String) :
    Inv (sched.foldl (fun st t => (st.step t).1) s) ∧ WellFormed (sched.foldl (fun st t => (st.step t).1) s) := by
  sorry

/-- at most one ready-list entry per pipe, so the ready list never overflows: the re-arm / arm sends in
`send`, `try_send`, `try_send_batch`, `pop` never park (and the spin loops never spin) -/
theorem ready_never_overflows (s : RpqSt) (hw : WellFormed s) (hi : Inv s) : s.ready.length ≤ s.pipes.length := by
  sorry

theorem arm_never_blocks (s : RpqSt) (hw : WellFormed s) (hi : Inv s) (p : Nat) (hp : (s.pipe? p).isSome)
    (hfree : s.ready.count p = 0) : (s.pushReady p).isSome := by
  sorry

/-- NO LOST WAKE-UP: whenever a committed item is queued on a pipe, either the pipe is on the ready list or
some task is in the middle of an operation that holds its token (and will put it back / hand it on). -/
theorem no_lost_wakeup (s : RpqSt) (hw : WellFormed s) (hi : Inv s) (ps : PipeSt) (hps : ps ∈ s.pipes)
    (hq : ps.queued ≥ 1) :
    ps.id ∈ s.ready ∨ ∃ e ∈ s.tasks, holdsToken ps.id e.2 = true := by
  sorry

/-- in particular: if every task is idle (not started, finished, or a consumer parked in `pop`) and an item is
queued, a parked consumer is NOT blocked — its next grant takes the pipe off the ready list. -/
theorem parked_consumer_proceeds (s : RpqSt) (hw : WellFormed s) (hi : Inv s) (c : String)
    (hc : s.task? c = some .popStart)
    (hidle : ∀ e ∈ s.tasks, ∀ p, holdsToken p e.2 = false)
    (ps : PipeSt) (hps : ps ∈ s.pipes) (hq : ps.queued ≥ 1) :
    (s.step c).2 ≠ .blocked := by
  sorry

/-- no item is stranded: when no task is mid-operation, everything physically in a channel is counted, so by
`no_lost_wakeup` its pipe is on the ready list -/
theorem nonempty_channel_is_ready (s : RpqSt) (hw : WellFormed s) (hi : Inv s)
    (hidle : ∀ e ∈ s.tasks, ∀ p, holdsToken p e.2 = false ∧ uncounted p e.2 = false ∧ takenNotCounted p e.2 = false)
    (ps : PipeSt) (hps : ps ∈ s.pipes) (hne : ps.chan ≠ []) : ps.id ∈ s.ready := by
  sorry

/-- FIFO and exactly-once per pipe: what consumers have taken out of a pipe, followed by what is still in its
channel, is exactly what was written into it, in write order -/
theorem fifo_exactly_once (s : RpqSt) (hw : WellFormed s) (h0 : Initial s) (hlog : s.accepted = [] ∧ s.takenLog = [])
    (sched : List String) (p : Nat) :
    let s' := sched.foldl (fun st t => (st.step t).1) s
    ((s'.takenLog.filter (·.1 == p)).map (·.2)) ++ ((s'.pipe? p).map (·.chan)).getD []
      = (s'.accepted.filter (·.1 == p)).map (·.2) := by
  sorry

-- check-then-wait on Notify ---------------------------------------------------------------------------------

inductive WaitEv where
  | signal | poll
deriving DecidableEq, Repr

def runRegisterFirst (w : WaitSt) : List WaitEv → WaitSt
  | [] => w
  | .signal :: r => runRegisterFirst w.signal r
  | .poll :: r => runRegisterFirst w.stepRegisterFirst.1 r

def runCheckFirst (w : WaitSt) : List WaitEv → WaitSt
  | [] => w
  | .signal :: r => runCheckFirst w.signal r
  | .poll :: r => runCheckFirst w.stepCheckFirst.1 r

/-- `WaitGroup::wait` / `wait_for_connection` as they are now (register, then check): for EVERY interleaving of
the signal with the waiter's steps, once the condition has been signalled two more polls complete the wait. -/
theorem register_first_no_lost_wakeup (evs : List WaitEv) (h : WaitEv.signal ∈ evs) :
    (runRegisterFirst {} (evs ++ [.poll, .poll])).pc = 2 := by
  sorry

/-- the pre-fix shape (check, then register) loses the wake-up on this interleaving -/
theorem check_first_counterexample :
    (runCheckFirst {} [.poll, .signal, .poll, .poll, .poll]).pc = 1 := by
  sorry

end Rzmq.C08
