import RzmqModel.Model.Rpq
import RzmqModel.Proofs.RpqInv
/-!
# C08 — a receiver never sleeps while a message is queued for it (no lost wake-ups)

`RpqSt` is the ready-pipe queue as a transition system at schedule-point granularity, for ANY number of
pipes, producer and consumer tasks and ANY interleaving (`RpqSt.step s t` = one grant to task `t`).
A *token* for pipe `p` is an entry of `p` on the ready list or a task that is in the middle of an operation
and is still going to put `p` back on (or is holding it off) the ready list.
-/
namespace Rzmq.C08
open Rzmq

theorem inv_initial (s : RpqSt) (h : Initial s) : Inv s := by
  obtain ⟨hr, hp, htk⟩ := h
  have hstart : ∀ e ∈ s.tasks, ∀ x, uncounted x e.2 = false ∧ takenNotCounted x e.2 = false
      ∧ holdsToken x e.2 = false ∧ pendingRes x e.2 = 0 ∧ pcOk e.2 := by
    intro e he x
    have := htk e he
    obtain ⟨n, pc⟩ := e
    cases pc <;> simp_all [uncounted, takenNotCounted, holdsToken, pendingRes, pcOk]
  refine ⟨?_, by simp [hr], fun e he => (hstart e he 0).2.2.2.2⟩
  intro ps hps
  obtain ⟨h1, h2, h3⟩ := hp ps hps
  have hU := countTasks_eq_zero s (uncounted ps.id) (fun e he => (hstart e he _).1)
  have hT := countTasks_eq_zero s (takenNotCounted ps.id) (fun e he => (hstart e he _).2.1)
  have hH := countTasks_eq_zero s (holdsToken ps.id) (fun e he => (hstart e he _).2.2.1)
  have hP : sumPending s ps.id = 0 :=
    sum_map_eq_zero s.tasks (fun e => pendingRes ps.id e.2) (fun e he => (hstart e he _).2.2.2.1)
  refine ⟨by simp [h1, h2, hU, hT], by omega, by simp [h2, h3, hP], ?_, by simp [tokens, hr, hH, h2], by simp [hr]⟩
  intro e he
  rw [(hstart e he _).2.2.2.1]
  exact Int.le_refl _

/-- every grant of the scheduler, to any task, preserves well-formedness and the invariant -/
theorem inv_step (s : RpqSt) (t : String) (hw : WellFormed s) (hi : Inv s) :
    WellFormed (s.step t).1 ∧ Inv (s.step t).1 := by
  cases ht : s.task? t with
  | none =>
    have : s.step t = (s, .done "no-task") := by unfold RpqSt.step; simp only [ht]
    rw [this]; exact ⟨hw, hi⟩
  | some pc =>
    cases pc with
    | finished r =>
      have : s.step t = (s, .done r) := by unfold RpqSt.step; simp only [ht]
      rw [this]; exact ⟨hw, hi⟩
    | sendStart p item => exact step_sendStart s t hw hi p item ht
    | sendReserved p item => exact step_sendReserved s t hw hi p item ht
    | sendWritten p => exact step_sendWritten s t hw hi p ht
    | sendCounted p prev => exact step_sendCounted s t hw hi p prev ht
    | trySendStart p item => exact step_trySendStart s t hw hi p item ht
    | trySendWritten p => exact step_trySendWritten s t hw hi p ht
    | trySendCounted p prev => exact step_trySendCounted s t hw hi p prev ht
    | batchStart p items => exact step_batchStart s t hw hi p items ht
    | batchReserved p n items sent zero => exact step_batchGo s t hw hi p n items sent zero _ (Or.inl rfl) ht
    | batchWritten p n items sent zero => exact step_batchWritten s t hw hi p n items sent zero ht
    | batchCounted p n items sent zero => exact step_batchGo s t hw hi p n items sent zero _ (Or.inr rfl) ht
    | batchRolledBack p items sent zero => exact step_batchRolledBack s t hw hi p items sent zero ht
    | popStart => exact step_popStart s t hw hi ht
    | popGotSlot p => exact step_popGotSlot s t hw hi p ht
    | popTaken p item => exact step_popTaken s t hw hi p item ht
    | popDecremented p item prev => exact step_popDecremented s t hw hi p item prev ht
    | tryPopStart => exact step_tryPopStart s t hw hi ht
    | tryPopGotSlot p => exact step_tryPopGotSlot s t hw hi p ht
    | tryPopTaken p item => exact step_tryPopTaken s t hw hi p item ht
    | tryPopDecremented p item prev => exact step_tryPopDecremented s t hw hi p item prev ht

/-- `reserved_count >= queued_count` at all times (the code's documented invariant) -/
theorem queued_le_reserved (s : RpqSt) (hi : Inv s) (ps : PipeSt) (hps : ps ∈ s.pipes) : ps.queued ≤ ps.reserved := by
  obtain ⟨_, _, h3, h4, _⟩ := hi.1 ps hps
  have : 0 ≤ sumPending s ps.id := by
    unfold sumPending
    apply sum_nonneg_of_forall
    intro x hx
    obtain ⟨e, he, rfl⟩ := List.mem_map.1 hx
    exact h4 e he
  omega

/-- hence the invariant holds after ANY schedule -/
theorem inv_reachable (s : RpqSt) (hw : WellFormed s) (h0 : Initial s) (sched : List String) :
    Inv (sched.foldl (fun st t => (st.step t).1) s) ∧ WellFormed (sched.foldl (fun st t => (st.step t).1) s) := by
  have hi := inv_initial s h0
  clear h0
  induction sched generalizing s with
  | nil => exact ⟨hi, hw⟩
  | cons t r ih =>
    have := inv_step s t hw hi
    exact ih (s.step t).1 this.1 this.2

/-- at most one ready-list entry per pipe, so the ready list never overflows: the re-arm / arm sends in
`send`, `try_send`, `try_send_batch`, `pop` never park (and the spin loops never spin) -/
theorem ready_never_overflows (s : RpqSt) (hw : WellFormed s) (hi : Inv s) : s.ready.length ≤ s.pipes.length := by
  have := length_le_of_count_le_one s.ready (s.pipes.map (·.id)) (ready_count_le_one s hi)
    (fun x hx => s.pipe?_isSome_mem_ids x (hi.2.1 x hx))
  simpa using this

theorem arm_never_blocks (s : RpqSt) (hw : WellFormed s) (hi : Inv s) (p : Nat) (hp : (s.pipe? p).isSome)
    (hfree : s.ready.count p = 0) : (s.pushReady p).isSome := by
  have := length_lt_of_count_le_one s.ready (s.pipes.map (·.id)) p (s.pipe?_isSome_mem_ids p hp)
    (List.count_eq_zero.1 hfree) (ready_count_le_one s hi) (fun x hx => s.pipe?_isSome_mem_ids x (hi.2.1 x hx))
  have h4 := hw.2.2.2.1
  simp at this
  have : s.ready.length < s.readyCap := by omega
  simp [RpqSt.pushReady, this]

/-- NO LOST WAKE-UP: whenever a committed item is queued on a pipe, either the pipe is on the ready list or
some task is in the middle of an operation that holds its token (and will put it back / hand it on). -/
theorem no_lost_wakeup (s : RpqSt) (hw : WellFormed s) (hi : Inv s) (ps : PipeSt) (hps : ps ∈ s.pipes)
    (hq : ps.queued ≥ 1) :
    ps.id ∈ s.ready ∨ ∃ e ∈ s.tasks, holdsToken ps.id e.2 = true := by
  have h5 := (hi.1 ps hps).2.2.2.2.1
  simp only [hq, if_true, tokens] at h5
  by_cases hc : 0 < s.ready.count ps.id
  · exact Or.inl (List.count_pos_iff.1 hc)
  · exact Or.inr (exists_of_countTasks_pos s _ (by omega))

/-- in particular: if every task is idle (not started, finished, or a consumer parked in `pop`) and an item is
queued, a parked consumer is NOT blocked — its next grant takes the pipe off the ready list. -/
theorem parked_consumer_proceeds (s : RpqSt) (hw : WellFormed s) (hi : Inv s) (c : String)
    (hc : s.task? c = some .popStart)
    (hidle : ∀ e ∈ s.tasks, ∀ p, holdsToken p e.2 = false)
    (ps : PipeSt) (hps : ps ∈ s.pipes) (hq : ps.queued ≥ 1) :
    (s.step c).2 ≠ .blocked := by
  rcases no_lost_wakeup s hw hi ps hps hq with h | ⟨e, he, h⟩
  · unfold RpqSt.step
    rw [hc]
    simp only [popRecv]
    cases hr : s.ready with
    | nil => simp [hr] at h
    | cons a r => simp
  · rw [hidle e he ps.id] at h
    cases h

/-- no item is stranded: when no task is mid-operation, everything physically in a channel is counted, so by
`no_lost_wakeup` its pipe is on the ready list -/
theorem nonempty_channel_is_ready (s : RpqSt) (hw : WellFormed s) (hi : Inv s)
    (hidle : ∀ e ∈ s.tasks, ∀ p, holdsToken p e.2 = false ∧ uncounted p e.2 = false ∧ takenNotCounted p e.2 = false)
    (ps : PipeSt) (hps : ps ∈ s.pipes) (hne : ps.chan ≠ []) : ps.id ∈ s.ready := by
  have h1 := (hi.1 ps hps).1
  rw [countTasks_eq_zero s (uncounted ps.id) (fun e he => (hidle e he _).2.1),
    countTasks_eq_zero s (takenNotCounted ps.id) (fun e he => (hidle e he _).2.2)] at h1
  have : 0 < ps.chan.length := List.length_pos_iff.2 hne
  rcases no_lost_wakeup s hw hi ps hps (by omega) with h | ⟨e, he, h⟩
  · exact h
  · rw [(hidle e he ps.id).1] at h
    cases h

/-- FIFO and exactly-once per pipe: what consumers have taken out of a pipe, followed by what is still in its
channel, is exactly what was written into it, in write order -/
theorem fifo_exactly_once (s : RpqSt) (hw : WellFormed s) (h0 : Initial s) (hlog : s.accepted = [] ∧ s.takenLog = [])
    (sched : List String) (p : Nat) :
    let s' := sched.foldl (fun st t => (st.step t).1) s
    ((s'.takenLog.filter (·.1 == p)).map (·.2)) ++ ((s'.pipe? p).map (·.chan)).getD []
      = (s'.accepted.filter (·.1 == p)).map (·.2) := by
  have hf : Fifo s := by
    intro x
    cases hps : s.pipe? x with
    | none => simp [hlog.1, hlog.2]
    | some ps => simp [hlog.1, hlog.2, (h0.2.1 ps (s.pipe?_some x ps hps).1).1]
  clear h0 hlog hw
  intro s'
  suffices Fifo s' from this p
  show Fifo (sched.foldl (fun st t => (st.step t).1) s)
  induction sched generalizing s with
  | nil => exact hf
  | cons t r ih => exact ih (s.step t).1 (fifo_step s t hf)

-- check-then-wait on Notify ---------------------------------------------------------------------------------

/-- `WaitGroup::wait` / `wait_for_connection` as they are now (register, then check): for EVERY interleaving of
the signal with the waiter's steps, once the condition has been signalled two more polls complete the wait. -/
theorem register_first_no_lost_wakeup (evs : List WaitEv) (h : WaitEv.signal ∈ evs) :
    (runRegisterFirst {} (evs ++ [.poll, .poll])).pc = 2 := by
  exact runRegisterFirst_pre {} WaitSt.pre_init evs h

/-- the pre-fix shape (check, then register) loses the wake-up on this interleaving -/
theorem check_first_counterexample :
    (runCheckFirst {} [.poll, .signal, .poll, .poll, .poll]).pc = 1 := by
  decide


end Rzmq.C08
