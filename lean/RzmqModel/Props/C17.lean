import RzmqModel.Model.Routing
import RzmqModel.Model.Lifecycle
import RzmqModel.Proofs.Backoff
/-!
# C17 — reconnect back-off arithmetic (both schedules in the code), all (RECONNECT_IVL, RECONNECT_IVL_MAX, attempt)

`coreDelay base max k`: `ReconnectState::on_connection_failure` with `k` earlier failures (milliseconds;
`max = 0` means "not set"). `connDelay maxOpt base inherited j`: the connecter actor's own schedule.
-/
namespace Rzmq.C17
open Rzmq

/-- starts at RECONNECT_IVL (or at the cap, if the cap is smaller) -/
theorem core_first (base max : Nat) : coreDelay base max 0 = if max > 0 then min base max else base := by
  simp [coreDelay, Gen.backoffPowerCap]

/-- grows at most geometrically: never more than doubles from one attempt to the next -/
theorem core_at_most_doubles (base max k : Nat) : coreDelay base max (k + 1) ≤ 2 * coreDelay base max k := by
  have h1 := pow_min_succ_le k
  have h2 : base * 2 ^ (min (k + 1) 31) ≤ 2 * (base * 2 ^ (min k 31)) := by
    rw [← Nat.mul_assoc, Nat.mul_comm 2 base, Nat.mul_assoc]
    exact Nat.mul_le_mul_left _ h1
  simp only [coreDelay, Gen.backoffPowerCap]
  split <;> omega

/-- … and, while the exponent has not saturated and the cap has not been reached, it doubles EXACTLY: the schedule below the
cap is base, 2·base, 4·base, … (not merely "at most doubling") -/
theorem core_doubles_exactly_below_cap (base max k : Nat) (hk : k < 31)
    (hc : max = 0 ∨ coreDelay base max (k + 1) < max) : coreDelay base max (k + 1) = 2 * coreDelay base max k := by
  have e1 : min (k + 1) 31 = k + 1 := by omega
  have e2 : min k 31 = k := by omega
  have h2 : base * 2 ^ (k + 1) = 2 * (base * 2 ^ k) := by
    rw [Nat.pow_succ, ← Nat.mul_assoc, Nat.mul_comm]
  simp only [coreDelay, Gen.backoffPowerCap, e1, e2] at hc ⊢
  rcases hc with h0 | hlt
  · subst h0; simp only [Nat.lt_irrefl, if_false]; exact h2
  · split
    · rename_i hm; simp only [hm, if_true] at hlt; omega
    · exact h2

/-- closed form without a cap: attempt k waits base · 2^min(k, 31) -/
theorem core_closed_form_uncapped (base k : Nat) : coreDelay base 0 k = base * 2 ^ (min k 31) := by
  simp [coreDelay, Gen.backoffPowerCap]

/-- never shrinks -/
theorem core_monotone (base max k : Nat) : coreDelay base max k ≤ coreDelay base max (k + 1) := by
  have h2 : base * 2 ^ (min k 31) ≤ base * 2 ^ (min (k + 1) 31) :=
    Nat.mul_le_mul_left _ (pow_min_mono k)
  simp only [coreDelay, Gen.backoffPowerCap]
  split <;> omega

/-- never exceeds RECONNECT_IVL_MAX when that is set -/
theorem core_capped (base max k : Nat) (h : 0 < max) : coreDelay base max k ≤ max := by
  simp only [coreDelay, Gen.backoffPowerCap, h, if_true]
  omega

/-- no overflow for any attempt number: the result fits 64 bits of milliseconds for i32-millisecond options -/
theorem core_bounded (base max k : Nat) (hb : base < 2 ^ 31) : coreDelay base max k < 2 ^ 63 := by
  have h1 := pow_min_le k
  have h2 : base * 2 ^ (min k 31) ≤ base * 2 ^ 31 := Nat.mul_le_mul_left _ h1
  have h3 : base * 2 ^ 31 < 2 ^ 31 * 2 ^ 31 := Nat.mul_lt_mul_of_pos_right hb (by decide)
  have h4 : (2:Nat) ^ 31 * 2 ^ 31 < 2 ^ 63 := by decide
  simp only [coreDelay, Gen.backoffPowerCap]
  split <;> omega

/-- exponent saturates at 31: the schedule is constant from attempt 31 on -/
theorem core_saturates (base max k : Nat) (hk : 31 ≤ k) : coreDelay base max k = coreDelay base max 31 := by
  have h : min k 31 = min 31 31 := by omega
  simp only [coreDelay, Gen.backoffPowerCap, h]

/-- connecter schedule with a cap: never more than doubles, never above the cap once below it, monotone -/
theorem conn_at_most_doubles (m base inh j : Nat) :
    connDelay (some m) base inh (j + 1) ≤ 2 * connDelay (some m) base inh j
    ∨ connDelay (some m) base inh (j + 1) = connDelay (some m) base inh j := by
  simp only [connDelay, connDouble]
  split
  · left; omega
  · right; rfl

theorem conn_capped (m base inh j : Nat) (hm : 0 < m) (hb : base ≤ m) : connDelay (some m) base inh j ≤ m := by
  exact connDelay_le_cap m base inh j hm

/-- without a cap the connecter retries at a constant RECONNECT_IVL -/
theorem conn_constant_without_cap (base inh j : Nat) : connDelay none base inh j = base := by
  induction j with
  | zero => simp [connDelay, connFastForward, connInitial]
  | succ j ih => simp [connDelay, connDouble, ih]

/-- hand-over consistency: a connecter that inherits `k` failed attempts from the core starts from the very
delay the core computed for attempt `k` (cap set, base within the cap) -/
theorem handover_consistent (m base k : Nat) (hm : 0 < m) (hb : 0 < base) (hbm : base ≤ m) :
    connDelay (some m) base k 0 = coreDelay base m k := by
  have h0 : connInitial (some m) base = base := by
    rw [connInitial_some m base hm]; omega
  simp only [connDelay, connFastForward, coreDelay, Gen.backoffPowerCap, h0]
  rw [foldl_double_cap m _ base hbm]
  simp [hm, hb]

/-- the connecter's first in-actor wait respects the cap too (fixed: it used to be the raw RECONNECT_IVL even
when RECONNECT_IVL > RECONNECT_IVL_MAX > 0) -/
theorem conn_first_capped (m base inh : Nat) (hm : 0 < m) : connDelay (some m) base inh 0 ≤ m := by
  exact connDelay_le_cap m base inh 0 hm

/-- and therefore every delay of the connecter's schedule does, with no side condition on RECONNECT_IVL -/
theorem conn_always_capped (m base inh j : Nat) (hm : 0 < m) : connDelay (some m) base inh j ≤ m := by
  exact connDelay_le_cap m base inh j hm

-- failure locality --------------------------------------------------------------------------------------------

/-- A socket starts its own shutdown only on an event that is about the socket itself (its own close, the
termination of its context, a failure of its own internals) — never because of what another socket or a
peer did: a failed or refused connection of any kind (child actor stopped with an error, connect attempt
failed, an incompatible inproc connector) leaves it running.  (Assumption: the shared event bus does not lag;
see `bus_lag_shuts_down`.) -/
theorem event_result_local (self : Nat) (e : SysEvent) (hlag : e ≠ .busLagged)
    (h : handleEvent self e = .shutDown) : aboutSelf self e = true := by
  cases e with
  | contextTerminating => rfl
  | socketClosing id =>
    simp only [handleEvent, Gen.evSocketClosingOnlyOwn] at h
    simp only [aboutSelf]
    by_cases hid : (id == self) = true
    · exact hid
    · simp [hid] at h
  | actorStopping p er => simp [handleEvent] at h
  | peerIdentityEstablished p => simp [handleEvent] at h
  | connectionAttemptFailed p => simp [handleEvent] at h
  | inprocBindingRequest forMe compatible taken mailboxClosed =>
    simp only [handleEvent, Gen.inprocRefusalKeepsBinder] at h
    cases forMe <;> cases compatible <;> cases taken <;> cases mailboxClosed <;> simp_all [aboutSelf]
  | actorStarted => simp [handleEvent] at h
  | busLagged => exact absurd rfl hlag

/-- a refused (incompatible) inproc connector does not touch the binder (fixed in b9fdf8d) -/
theorem inproc_refusal_is_local (self : Nat) :
    handleEvent self (.inprocBindingRequest true false false false) = .carryOn := by
  simp [handleEvent, Gen.inprocRefusalKeepsBinder]

/-- another socket closing, or any child/connection failure, never shuts this socket down -/
theorem other_sockets_events_are_ignored (self other : Nat) (hne : other ≠ self) (p : Option Nat) (er : Bool) :
    handleEvent self (.socketClosing other) = .carryOn ∧ handleEvent self (.actorStopping p er) = .carryOn
    ∧ handleEvent self (.connectionAttemptFailed self) = .carryOn := by
  refine ⟨?_, rfl, rfl⟩
  simp [handleEvent, Gen.evSocketClosingOnlyOwn, hne]

/-- (suspected defect, not reproduced on the real code: see DESIGN §11 row 23) a lagging receiver on the shared
event bus does shut the socket down — an event caused by the *volume* of other sockets' activity -/
theorem bus_lag_shuts_down (self : Nat) : handleEvent self .busLagged = .shutDown := by
  simp [handleEvent, Gen.busLagShutsSocketDown]

-- is the delay really waited? ----------------------------------------------------------------------------------------------------------------

/-- a connecter that ignores the system events of other sockets while it waits starts its next attempt after exactly the
scheduled delay, however many such events arrive and whenever (what the schedule of `connDelay` needs in order to be what
happens, not just what is computed) -/
theorem retry_delay_is_waited_out_if_unrelated_events_are_ignored (delay : Nat) (evs : List (Nat × WaitEv))
    (h : ∀ e ∈ evs, e.2 = .unrelated) : retryWait true delay evs = some delay := by
  induction evs with
  | nil => rfl
  | cons e rest ih =>
    obtain ⟨t, w⟩ := e
    have hw : w = .unrelated := h (t, w) (by simp)
    subst hw
    simp only [retryWait, if_true]
    exact ih (fun e he => h e (by simp [he]))

/-- the code as it is (flag re-extracted on every run): the first event of ANY other socket of the context ends the wait -
in a busy context the retries come as fast as the events, far below RECONNECT_IVL. The full statement of the property ("delays
that start at RECONNECT_IVL") is therefore FALSE for the current sources; this is the known finding
C17:retry-wait-cut-short-by-unrelated-events, replayed on every run (a repair was made and withdrawn: a pinned test of the
repository relies on the early wake-up) -/
theorem current_code_cuts_the_wait_short :
    Gen.connecterWaitsOutItsDelay = 0 ∧ retryWait (Gen.connecterWaitsOutItsDelay == 1) 300 [(5, .unrelated)] = some 5 := by
  decide

end Rzmq.C17
