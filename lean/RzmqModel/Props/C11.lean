import RzmqModel.Model.Routing
import RzmqModel.Proofs.RouterMap
/-!
# C11 — ROUTER addresses by true peer identity; envelopes round-trip unchanged

Part 1: `RouterMap` (identity ↔ pipe bookkeeping) refines the obvious specification as long as no two live
pipes hold the same identity; the collision case is a counterexample (known finding).
Part 2: envelope algebra — payload frames survive every DEALER/REQ/ROUTER/REP send–receive combination.
-/
namespace Rzmq.C11
open Rzmq

-- Part 1: the identity map ------------------------------------------------------------------------------

inductive MapOp where
  | add (id : Ident) (pipe uri : Nat)
  | update (pipe : Nat) (id : Ident) (uri : Nat) (s : Strat)
  | removePipe (pipe : Nat)
deriving DecidableEq, Repr

def applyOp (m : RouterMap) : MapOp → RouterMap
  | .add id pipe uri => m.addPeer id pipe uri
  | .update pipe id uri s => m.updateIdentity pipe id uri s
  | .removePipe pipe => m.removeByPipe pipe

/-- the specification: per live pipe, its current identity and endpoint -/
abbrev Spec := List (Nat × (Ident × PeerInfo))

def specApply (sp : Spec) : MapOp → Spec
  | .add id pipe uri => amInsert sp pipe (id, { uri := uri, strat := .default, pipe := pipe })
  | .update pipe id uri s => amInsert sp pipe (id, { uri := uri, strat := s, pipe := pipe })
  | .removePipe pipe => amRemove sp pipe

/-- an operation that would give a pipe an identity currently held by ANOTHER live pipe -/
def collides (sp : Spec) : MapOp → Bool
  | .add id pipe _ => sp.any fun e => e.1 != pipe && e.2.1 == id
  | .update pipe id _ _ => sp.any fun e => e.1 != pipe && e.2.1 == id
  | .removePipe _ => false

def collisionFree : Spec → List MapOp → Bool
  | _, [] => true
  | sp, op :: rest => !collides sp op && collisionFree (specApply sp op) rest

/-- For EVERY history (identity collisions included): the identity reported for a pipe is its current one … -/
theorem pipe_identity_refines (h : List MapOp) (pipe : Nat) (id : Ident) :
    (h.foldl applyOp {}).identityOfPipe pipe = some id ↔ ∃ info, amGet (h.foldl specApply []) pipe = some (id, info) := by
  have gen : ∀ (h : List MapOp) (m : RouterMap) (sp : Spec), RouterInv m sp →
      RouterInv (h.foldl applyOp m) (h.foldl specApply sp) := by
    intro h
    induction h with
    | nil => intro m sp hinv; exact hinv
    | cons op rest ih =>
      intro m sp hinv
      simp only [List.foldl_cons]
      refine ih _ _ ?_
      cases op with
      | add id pipe uri => exact RouterInv.addPeer m sp pipe id uri hinv
      | update pipe id uri s => exact RouterInv.updateIdentity m sp pipe id uri s hinv
      | removePipe pipe => exact RouterInv.removeByPipe m sp pipe hinv
  exact (gen h {} [] RouterInv.init).1 pipe id

/-- … and a lookup never yields a dead or a wrong connection: whatever it returns is the endpoint of a LIVE pipe
that currently holds exactly that identity (with the strategy that pipe registered). -/
theorem lookup_sound (h : List MapOp) (id : Ident) (info : PeerInfo)
    (hl : (h.foldl applyOp {}).lookup id = some info) :
    amGet (h.foldl specApply []) info.pipe = some (id, info) := by
  have gen : ∀ (h : List MapOp) (m : RouterMap) (sp : Spec), RouterInv m sp →
      RouterInv (h.foldl applyOp m) (h.foldl specApply sp) := by
    intro h
    induction h with
    | nil => intro m sp hinv; exact hinv
    | cons op rest ih =>
      intro m sp hinv
      simp only [List.foldl_cons]
      refine ih _ _ ?_
      cases op with
      | add id pipe uri => exact RouterInv.addPeer m sp pipe id uri hinv
      | update pipe id uri s => exact RouterInv.updateIdentity m sp pipe id uri s hinv
      | removePipe pipe => exact RouterInv.removeByPipe m sp pipe hinv
  exact (gen h {} [] RouterInv.init).2 id info hl

/-- Refinement: for every collision-free history of add / re-identify / remove, looking an identity up yields
exactly the endpoint (and send strategy) of the live pipe that currently holds that identity. -/
theorem router_map_refines (h : List MapOp) (hc : collisionFree [] h = true) :
    let m := h.foldl applyOp {}
    let sp := h.foldl specApply []
    (∀ id info, m.lookup id = some info ↔ ∃ pipe, amGet sp pipe = some (id, info)) := by
  have gen : ∀ (h : List MapOp) (m : RouterMap) (sp : Spec), RouterInv m sp → RouterInvCF m sp →
      collisionFree sp h = true →
      RouterInv (h.foldl applyOp m) (h.foldl specApply sp)
        ∧ RouterInvCF (h.foldl applyOp m) (h.foldl specApply sp) := by
    intro h
    induction h with
    | nil => intro m sp hinv hcf _; exact ⟨hinv, hcf⟩
    | cons op rest ih =>
      intro m sp hinv hcf hfree
      simp only [collisionFree, Bool.and_eq_true, Bool.not_eq_true'] at hfree
      obtain ⟨hnc, hrest⟩ := hfree
      simp only [List.foldl_cons]
      cases op with
      | add id pipe uri =>
        exact ih _ _ (RouterInv.addPeer m sp pipe id uri hinv)
          (RouterInvCF.addPeer m sp pipe id uri hcf (noCollision_of_any sp pipe id hnc)) hrest
      | update pipe id uri s =>
        exact ih _ _ (RouterInv.updateIdentity m sp pipe id uri s hinv)
          (RouterInvCF.updateIdentity m sp pipe id uri s hcf (noCollision_of_any sp pipe id hnc)) hrest
      | removePipe pipe =>
        exact ih _ _ (RouterInv.removeByPipe m sp pipe hinv) (RouterInvCF.removeByPipe m sp pipe hcf) hrest
  obtain ⟨⟨_, hB⟩, hC, _⟩ := gen h {} [] RouterInv.init RouterInvCF.init hc
  intro m sp id info
  constructor
  · intro hl; exact ⟨info.pipe, hB id info hl⟩
  · rintro ⟨pipe, hp⟩; exact hC pipe id info hp

/-- a disconnected peer's identity stops being routable; everybody else is unaffected -/
theorem remove_is_local (h : List MapOp) (pipe : Nat) (id : Ident)
    (hid : (h.foldl applyOp {}).identityOfPipe pipe ≠ some id) :
    ((h.foldl applyOp {}).removeByPipe pipe).lookup id = (h.foldl applyOp {}).lookup id := by
  exact removeByPipe_lookup_other _ pipe id hid

/-- identity collision (two live pipes announce the same identity): the newest claimant is addressed, and it
stays routable when the older one disconnects (fixed: the older pipe's removal used to unroute it) -/
theorem collision_newest_wins :
    let h : List MapOp := [MapOp.add [7] 1 100, MapOp.add [7] 2 200, MapOp.removePipe 1]
    let m := h.foldl applyOp {}
    m.identityOfPipe 2 = some ([7] : Ident) ∧ (m.lookup ([7] : Ident)).map (·.uri) = some 200 := by
  decide

/-- … and when the newest claimant disconnects the identity becomes unroutable rather than pointing at a
dead connection -/
theorem collision_newest_removed :
    let h : List MapOp := [MapOp.add [7] 1 100, MapOp.add [7] 2 200, MapOp.removePipe 2]
    (h.foldl applyOp {}).lookup ([7] : Ident) = none := by
  decide

-- Part 2: envelopes ----------------------------------------------------------------------------------------

def payloadsOf (fs : List Frame) : List (List UInt8) := fs.map (·.payload)

/-- DEALER → ROUTER (both auto-delimiter, or both manual): the ROUTER application receives the sender's
identity followed by exactly the payload frames (bytes and order; empty frames anywhere preserved), MORE on all
but the last -/
theorem dealer_to_router (manual : Bool) (id : List UInt8) (payload : List Frame) (hne : payload ≠ []) :
    routerToApp id (routerProcessIncoming manual .dealer (dealerPrepareSend manual payload))
      = normFlags ({ payload := id, more := true, command := false } :: payload) := by
  have he := isEmpty_eq_false_of_ne_nil payload hne
  have hn := normFlags_ne_nil payload hne
  have hne' := isEmpty_eq_false_of_ne_nil _ hn
  rw [normFlags_cons_of_ne_nil _ _ hne]
  cases manual with
  | true =>
    simp only [dealerPrepareSend, routerProcessIncoming, routerToApp, if_true, hne', Bool.not_false]
    rw [clearLastMore_cons_of_ne_nil _ _ hn, clearLastMore_normFlags]
  | false =>
    simp only [dealerPrepareSend, dealerAutoEncode, he, Bool.false_eq_true, if_false]
    rw [normFlags_cons_of_ne_nil _ _ hne]
    simp only [routerProcessIncoming, Bool.false_eq_true, if_false, emptyFrame, List.isEmpty_nil, if_true,
      routerToApp, hne', Bool.not_false]
    rw [clearLastMore_cons_of_ne_nil _ _ hn, clearLastMore_normFlags]

/-- ROUTER → DEALER, default and DEALER strategies, auto-delimiter on both sides: the DEALER application
receives exactly the payload frames (given the user set MORE on all but the last, as the API requires) -/
theorem router_to_dealer_auto (s : Strat) (hs : s = .default ∨ s = .dealer) (id : Frame) (hid : id.payload ≠ [])
    (payload : List Frame) (hn : normFlags payload = payload) :
    dealerProcessIncoming false (routerSendWire s false (id :: payload)) = payload := by
  have hidne : id.payload.isEmpty = false := isEmpty_eq_false_of_ne_nil _ hid
  have hw : routerSendWire s false (id :: payload)
      = clearLastMore (setMore (if payload.isEmpty then id else setMore id) :: emptyFrame (!payload.isEmpty) :: payload) := by
    rcases hs with rfl | rfl <;> simp [routerSendWire, prepareWire, routerAutoEncode]
  rw [hw]
  cases payload with
  | nil =>
    simp [clearLastMore, dealerProcessIncoming, setMore, emptyFrame, hidne]
  | cons f rest =>
    rw [clearLastMore_cons_of_ne_nil _ _ (by simp), clearLastMore_cons_of_ne_nil _ _ (by simp),
      clearLastMore_of_normFlags_eq _ hn]
    simp [dealerProcessIncoming, setMore, emptyFrame, hidne]

/-- REQ → ROUTER: `[delimiter, request]` arrives as `[identity, request]` -/
theorem req_to_router (id : List UInt8) (msg : Frame) :
    routerToApp id (routerProcessIncoming false .req (reqSendWire msg))
      = [{ payload := id, more := true, command := false }, { msg with more := false }] := by
  simp [reqSendWire, routerProcessIncoming, routerToApp, emptyFrame, clearLastMore]

/-- ROUTER → REQ (REQ strategy): the REQ application receives exactly the payload -/
theorem router_to_req (manual : Bool) (id : Frame) (payload : List Frame) (hne : payload ≠ []) :
    reqProcessIncoming (routerSendWire .req manual (id :: payload)) = clearLastMore payload := by
  have he := isEmpty_eq_false_of_ne_nil payload hne
  simp only [routerSendWire, prepareWire, he, Bool.not_false]
  rw [clearLastMore_cons_of_ne_nil _ _ hne]
  simp [reqProcessIncoming, emptyFrame]

/-- REQ → REP → REQ: the REP sees exactly the request; its reply reaches the REQ unchanged, with the routing
prefix (everything up to the delimiter) restored in front of it -/
theorem req_rep_roundtrip (msg : Frame) (reply : List Frame) (hne : reply ≠ []) :
    (repExtractPrefix (reqSendWire msg)).2 = [{ msg with more := false }]
    ∧ reqProcessIncoming (repReplyWire (repExtractPrefix (reqSendWire msg)).1 reply) = normFlags reply := by
  have he := isEmpty_eq_false_of_ne_nil reply hne
  have hx : repExtractPrefix (reqSendWire msg) = ([emptyFrame true], [{ msg with more := false }]) := by
    simp [repExtractPrefix, reqSendWire, emptyFrame, List.findIdx?_cons]
  rw [hx]
  refine ⟨rfl, ?_⟩
  simp only [repReplyWire, he, Bool.false_eq_true, if_false, List.singleton_append]
  rw [normFlags_cons_of_ne_nil _ _ hne]
  simp [reqProcessIncoming, emptyFrame]

/-- DEALER → REP → DEALER through the delimiter convention -/
theorem dealer_rep_roundtrip (payload reply : List Frame) (hne : payload ≠ []) (hr : reply ≠ []) :
    payloadsOf (repExtractPrefix (dealerPrepareSend false payload)).2 = payloadsOf payload
    ∧ payloadsOf (dealerProcessIncoming false
        (repReplyWire (repExtractPrefix (dealerPrepareSend false payload)).1 reply)) = payloadsOf reply := by
  have he := isEmpty_eq_false_of_ne_nil payload hne
  have her := isEmpty_eq_false_of_ne_nil reply hr
  have hx : repExtractPrefix (dealerPrepareSend false payload) = ([emptyFrame true], normFlags payload) := by
    simp only [dealerPrepareSend, dealerAutoEncode, he, Bool.false_eq_true, if_false]
    rw [normFlags_cons_of_ne_nil _ _ hne]
    simp [repExtractPrefix, emptyFrame, List.findIdx?_cons]
  rw [hx]
  refine ⟨map_payload_normFlags payload, ?_⟩
  simp only [repReplyWire, her, Bool.false_eq_true, if_false, List.singleton_append]
  rw [normFlags_cons_of_ne_nil _ _ hr]
  simp only [dealerProcessIncoming, Bool.false_eq_true, if_false, emptyFrame, List.isEmpty_nil, Bool.not_true]
  exact map_payload_normFlags reply

/-- every wire message a ROUTER / DEALER / REQ / REP emits is well formed: MORE exactly on all but the last
frame (for ROUTER: given well-flagged user frames) -/
theorem wire_flags_wellformed (manual : Bool) (payload : List Frame) :
    normFlags (dealerPrepareSend manual payload) = dealerPrepareSend manual payload := by
  simp only [dealerPrepareSend]
  split
  · exact normFlags_idem _
  · split
    · rfl
    · exact normFlags_idem _

end Rzmq.C11
