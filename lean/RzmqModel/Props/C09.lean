import RzmqModel.Model.RpqInv
import RzmqModel.Proofs.RpqInv
import RzmqModel.Proofs.RpqCancel
import RzmqModel.Props.C08
import RzmqModel.Proofs.SendTx
/-!
# C09 — dropping a send or recv future is safe at every await point (ready-pipe-queue level)

A future can only be dropped while it is parked at an `.await` (or before its first poll).  In the queue these
are: a consumer parked in `pop` waiting for a ready entry, a producer parked in `send` on a full channel,
and — only if the ready list were full — the arm/re-arm sends.  `RpqSt.cancel` models the drop.
-/
namespace Rzmq.C09
open Rzmq Rzmq.C08

/-- the task is at a point where its future may be dropped: not started, parked waiting for a ready entry,
or parked on a full per-pipe channel -/
def Parked (s : RpqSt) (t : String) : Prop :=
  match s.task? t with
  | some (.sendStart ..) | some (.trySendStart ..) | some (.batchStart ..) | some .popStart | some .tryPopStart => True
  | some (.sendReserved p _) => ∃ ps, s.pipe? p = some ps ∧ ps.cap ≤ ps.chan.length
  | some (.finished _) => True
  | _ => False

/-- the arm / re-arm awaits are never cancellation points: under the invariant they complete immediately -/
theorem arm_points_never_park (s : RpqSt) (t : String) (hw : WellFormed s) (hi : Inv s) (p : Nat) (prev : Int)
    (ht : s.task? t = some (.sendCounted p prev) ∨ (∃ item, s.task? t = some (.popDecremented p item prev))) :
    (s.step t).2 ≠ .blocked := by
  unfold RpqSt.step
  rcases ht with ht | ⟨item, ht⟩
  · simp only [ht]
    split
    · rename_i hprev
      have hprev' : prev = 0 := by simpa using hprev
      have := arm_not_blocked s t hw hi p _ ht (by simp [holdsToken, hprev'])
      cases hpush : s.pushReady p with
      | none => simp [hpush] at this
      | some s' => simp [finish]
    · simp [finish]
  · simp only [ht]
    split
    · rename_i hprev
      have := arm_not_blocked s t hw hi p _ ht (by simp [holdsToken, hprev])
      cases hpush : s.pushReady p with
      | none => simp [hpush] at this
      | some s' => simp [finish]
    · simp [finish]

/-- dropping a parked future preserves the queue invariant (reservations are rolled back, no token is lost) -/
theorem cancel_preserves_inv (s : RpqSt) (t : String) (hw : WellFormed s) (hi : Inv s) (hp : Parked s t) :
    WellFormed (s.cancel t).1 ∧ Inv (s.cancel t).1 := by
  unfold Parked at hp
  cases ht : s.task? t with
  | none => simp [ht] at hp
  | some pc =>
    cases pc <;> simp only [ht] at hp <;>
      first
      | exact hp.elim
      | exact cancel_inv_idle s t hw hi _ ht rfl
      | exact cancel_inv_finished s t hw hi _ ht
      | (obtain ⟨ps, hps, _⟩ := hp; exact cancel_inv_sendReserved s t hw hi _ _ ps ht hps)

/-- dropping a parked future loses nothing that was queued and delivers nothing: channels, ready list and
the logs of accepted / taken / returned items are untouched -/
theorem cancel_loses_nothing (s : RpqSt) (t : String) (hp : Parked s t) :
    (s.cancel t).1.ready = s.ready ∧ (s.cancel t).1.accepted = s.accepted ∧ (s.cancel t).1.takenLog = s.takenLog
    ∧ (s.cancel t).1.returned = s.returned
    ∧ ∀ p, ((s.cancel t).1.pipe? p).map (·.chan) = (s.pipe? p).map (·.chan) := by
  exact cancel_fields s t

/-- a cancelled `send` is all-or-nothing: dropped while parked on the full channel it has written nothing -/
theorem cancelled_send_not_delivered (s : RpqSt) (t : String) (p item : Nat)
    (ht : s.task? t = some (.sendReserved p item)) :
    (s.cancel t).1.accepted = s.accepted ∧ (s.cancel t).1.task? t = some (.finished "cancelled") := by
  exact ⟨(cancel_fields s t).2.1, cancel_sendReserved_task s t p item ht⟩

/-- after any mix of steps and cancellations of parked tasks the invariant still holds, so the no-lost-wake-up
guarantee (C08) survives cancellation -/
inductive Act where
  | step (t : String)
  | cancel (t : String)
deriving DecidableEq, Repr

def applyAct (s : RpqSt) : Act → RpqSt
  | .step t => (s.step t).1
  | .cancel t => (s.cancel t).1

/-- every cancellation in the history hits a parked task -/
def CancelsParked : RpqSt → List Act → Prop
  | _, [] => True
  | s, .step t :: rest => CancelsParked (s.step t).1 rest
  | s, .cancel t :: rest => Parked s t ∧ CancelsParked (s.cancel t).1 rest

theorem inv_with_cancellation (s : RpqSt) (hw : WellFormed s) (h0 : Initial s) (acts : List Act)
    (hc : CancelsParked s acts) :
    Inv (acts.foldl applyAct s) ∧ WellFormed (acts.foldl applyAct s) := by
  have hi := inv_initial s h0
  clear h0
  induction acts generalizing s with
  | nil => exact ⟨hi, hw⟩
  | cons a r ih =>
    cases a with
    | step t =>
      have := inv_step s t hw hi
      exact ih (s.step t).1 this.1 hc this.2
    | cancel t =>
      have := cancel_preserves_inv s t hw hi hc.1
      exact ih (s.cancel t).1 this.1 hc.2 this.2

/-! ## messages handed to `send()` frame by frame (DEALER, ROUTER, PUB, PUSH), with futures dropped while pending (M15) -/

/-- the code as it is now: DEALER, ROUTER, PUB and PUSH keep the frames until the last one is given and empty the transaction
before they await the hand-over (flags re-extracted from the four socket files on every run) -/
theorem tx_source_shape : dealerTxCfg = goodTx ∧ routerTxCfg = goodTx ∧ pubTxCfg = goodTx ∧ pushTxCfg = goodTx := by decide

/-- whatever the application does — frames, last frames, dropping the pending future of a last frame, send_multipart in
between — the peer reads only messages the application gave, each whole, in the order given (a cancelled one is there or
is not), and no frame ever sits in the pipe without the end of its message -/
theorem cancelled_frame_by_frame_send_is_all_or_nothing (c : TxCfg) (hc : c = dealerTxCfg ∨ c = routerTxCfg ∨ c = pubTxCfg ∨ c = pushTxCfg)
    (evs : List TxEv) :
    let s := ({} : SendTx).run c evs
    s.pipe.Sublist s.offered ∧ s.half = [] ∧ (s.inflight = none → ∀ m ∈ s.pipe, m ∈ s.offered) := by
  have hg : c = goodTx := by
    rcases hc with h | h | h | h
    · rw [h]; exact tx_source_shape.1
    · rw [h]; exact tx_source_shape.2.1
    · rw [h]; exact tx_source_shape.2.2.1
    · rw [h]; exact tx_source_shape.2.2.2
  subst hg
  have hi := SendTx.inv_run evs {} SendTx.inv_init
  have hfly := hi.fly
  refine ⟨?_, hi.half_nil, ?_⟩
  · cases hfl : (({} : SendTx).run goodTx evs).inflight with
    | none => simpa [hfl] using hfly
    | some m =>
      simp only [hfl] at hfly
      obtain ⟨_, o, ho, hs⟩ := hfly
      rw [ho]; exact hs.trans (List.sublist_append_left o [m])
  · intro hn m hm
    simp only [hn] at hfly
    exact hfly.subset hm

/-- … and the socket stays usable: whenever the application is not in the middle of a message the transaction is idle
(the next frame starts a new message, send_multipart does not wait), however many futures were dropped before -/
theorem cancelled_last_frame_leaves_the_socket_usable (c : TxCfg) (hc : c = dealerTxCfg ∨ c = routerTxCfg ∨ c = pubTxCfg ∨ c = pushTxCfg)
    (evs : List TxEv) :
    let s := ({} : SendTx).run c evs
    s.stuck = 0 ∧ (s.cur = [] → s.busy = false) ∧ s.buf = s.cur := by
  have hg : c = goodTx := by
    rcases hc with h | h | h | h
    · rw [h]; exact tx_source_shape.1
    · rw [h]; exact tx_source_shape.2.1
    · rw [h]; exact tx_source_shape.2.2.1
    · rw [h]; exact tx_source_shape.2.2.2
  subst hg
  have hi := SendTx.inv_run evs {} SendTx.inv_init
  refine ⟨hi.stuck_zero, ?_, hi.buf_cur⟩
  intro hcur
  cases hb : (({} : SendTx).run goodTx evs).busy with
  | false => rfl
  | true => exact absurd hcur (hi.busy_cur hb)

/-- the hypotheses are met by a history that does cancel: the cancelled message [1,2] is not delivered, [3] and [4,5] are -/
example :
    let s := ({} : SendTx).run goodTx [.frame 1, .last 2, .cancel, .last 3, .complete, .whole [4, 5]]
    s.pipe = [[3], [4, 5]] ∧ s.offered = [[1, 2], [3], [4, 5]] ∧ s.busy = false := by decide

/-- why the order matters (the shape of a seeded change): a transaction that is emptied only AFTER the await keeps the
frames of a cancelled message, glues them to the next one and makes send_multipart wait for ever -/
theorem keeping_the_transaction_across_the_await_breaks_it :
    let c : TxCfg := { buffersUntilLast := true, closesBeforeAwait := false }
    (({} : SendTx).run c [.frame 1, .last 2, .cancel, .last 3, .complete]).pipe = [[1, 2, 3]]
    ∧ (({} : SendTx).run c [.frame 1, .last 2, .cancel, .whole [9]]).stuck = 1 := by decide

/-- why the frames must wait in the socket (ROUTER before its repair): frames handed to the pipe one by one leave half a
message there when the future of a later frame is dropped — the next message is read glued to it, or, with the permit
still held, send_multipart waits for ever -/
theorem handing_frames_over_one_by_one_breaks_it :
    (({} : SendTx).run { buffersUntilLast := false, closesBeforeAwait := true } [.frame 1, .last 2, .cancel, .whole [9]]).pipe
      = [[1, 9]]
    ∧ (({} : SendTx).run { buffersUntilLast := false, closesBeforeAwait := false } [.frame 1, .last 2, .cancel, .whole [9]]).stuck
      = 1 := by decide

/-- completeness, the other half of all-or-nothing: in a history in which no future is dropped, every message the
application gave completely is in the peer's pipe, in order, as soon as no hand-over is pending — the transaction
machinery itself never loses or merges a message -/
theorem frame_by_frame_send_without_cancellation_delivers_everything (c : TxCfg)
    (hc : c = dealerTxCfg ∨ c = routerTxCfg ∨ c = pubTxCfg ∨ c = pushTxCfg)
    (evs : List TxEv) (hev : ∀ e ∈ evs, e ≠ .cancel) :
    let s := ({} : SendTx).run c evs
    (s.inflight = none → s.pipe = s.offered) ∧ (∀ m, s.inflight = some m → s.offered = s.pipe ++ [m]) := by
  have hg : c = goodTx := by
    rcases hc with h | h | h | h
    · rw [h]; exact tx_source_shape.1
    · rw [h]; exact tx_source_shape.2.1
    · rw [h]; exact tx_source_shape.2.2.1
    · rw [h]; exact tx_source_shape.2.2.2
  subst hg
  have hf := SendTx.full_run evs hev {} SendTx.inv_init (by simp [SendTx.Full])
  unfold SendTx.Full at hf
  constructor
  · intro hn; simpa [hn] using hf
  · intro m hm; simpa [hm] using hf

/-- … and a dropped future costs at most the one message it was handing over: the number of given messages that are not
(yet) in the peer's pipe is at most the number of futures dropped, plus the one whose hand-over is pending -/
theorem each_dropped_future_loses_at_most_one_message (c : TxCfg)
    (hc : c = dealerTxCfg ∨ c = routerTxCfg ∨ c = pubTxCfg ∨ c = pushTxCfg) (evs : List TxEv) :
    let s := ({} : SendTx).run c evs
    s.offered.length ≤ s.pipe.length + cancelCount evs + s.pendingCount := by
  have hg : c = goodTx := by
    rcases hc with h | h | h | h
    · rw [h]; exact tx_source_shape.1
    · rw [h]; exact tx_source_shape.2.1
    · rw [h]; exact tx_source_shape.2.2.1
    · rw [h]; exact tx_source_shape.2.2.2
  subst hg
  have := SendTx.loss_run evs {} 0 SendTx.inv_init (by simp [SendTx.pendingCount])
  simpa using this

/-- non-vacuity of both: a history without cancel delivers all three; with one cancel exactly one is missing -/
example :
    (({} : SendTx).run goodTx [.frame 1, .last 2, .complete, .whole [3], .last 4, .complete]).pipe = [[1, 2], [3], [4]]
    ∧ (let s := ({} : SendTx).run goodTx [.frame 1, .last 2, .cancel, .whole [3]]
       s.offered.length = 2 ∧ s.pipe.length = 1 ∧ cancelCount [TxEv.frame 1, .last 2, .cancel, .whole [3]] = 1) := by decide

end Rzmq.C09
