import RzmqModel.Model.RpqInv
import RzmqModel.Proofs.RpqInv
import RzmqModel.Proofs.RpqCancel
import RzmqModel.Props.C08
/-!
# C09 — dropping a send or recv future is safe at every await point (ready-pipe-queue level)

A future can only be dropped while it is parked at an `.await` (or before its first poll).  In the queue these
are: a consumer parked in `pop` waiting for a ready entry, a producer parked in `send` on a full channel,
and — only if the ready list were full — the arm/re-arm sends.  `RpqSt.cancel` models the drop.
-/
namespace Rzmq.C09
open Rzmq Rzmq.C08

/-- the task is at a point where its future may be dropped: not started, parked waiting for a ready entry,
or parked on a full per-pipe channel -/
def Parked (s : RpqSt) (t : String) : Prop :=
  match s.task? t with
  | some (.sendStart ..) | some (.trySendStart ..) | some (.batchStart ..) | some .popStart | some .tryPopStart => True
  | some (.sendReserved p _) => ∃ ps, s.pipe? p = some ps ∧ ps.cap ≤ ps.chan.length
  | some (.finished _) => True
  | _ => False

/-- the arm / re-arm awaits are never cancellation points: under the invariant they complete immediately -/
theorem arm_points_never_park (s : RpqSt) (t : String) (hw : WellFormed s) (hi : Inv s) (p : Nat) (prev : Int)
    (ht : s.task? t = some (.sendCounted p prev) ∨ (∃ item, s.task? t = some (.popDecremented p item prev))) :
    (s.step t).2 ≠ .blocked := by
  unfold RpqSt.step
  rcases ht with ht | ⟨item, ht⟩
  · simp only [ht]
    split
    · rename_i hprev
      have hprev' : prev = 0 := by simpa using hprev
      have := arm_not_blocked s t hw hi p _ ht (by simp [holdsToken, hprev'])
      cases hpush : s.pushReady p with
      | none => simp [hpush] at this
      | some s' => simp [finish]
    · simp [finish]
  · simp only [ht]
    split
    · rename_i hprev
      have := arm_not_blocked s t hw hi p _ ht (by simp [holdsToken, hprev])
      cases hpush : s.pushReady p with
      | none => simp [hpush] at this
      | some s' => simp [finish]
    · simp [finish]

/-- dropping a parked future preserves the queue invariant (reservations are rolled back, no token is lost) -/
theorem cancel_preserves_inv (s : RpqSt) (t : String) (hw : WellFormed s) (hi : Inv s) (hp : Parked s t) :
    WellFormed (s.cancel t).1 ∧ Inv (s.cancel t).1 := by
  unfold Parked at hp
  cases ht : s.task? t with
  | none => simp [ht] at hp
  | some pc =>
    cases pc <;> simp only [ht] at hp <;>
      first
      | exact hp.elim
      | exact cancel_inv_idle s t hw hi _ ht rfl
      | exact cancel_inv_finished s t hw hi _ ht
      | (obtain ⟨ps, hps, _⟩ := hp; exact cancel_inv_sendReserved s t hw hi _ _ ps ht hps)

/-- dropping a parked future loses nothing that was queued and delivers nothing: channels, ready list and
the logs of accepted / taken / returned items are untouched -/
theorem cancel_loses_nothing (s : RpqSt) (t : String) (hp : Parked s t) :
    (s.cancel t).1.ready = s.ready ∧ (s.cancel t).1.accepted = s.accepted ∧ (s.cancel t).1.takenLog = s.takenLog
    ∧ (s.cancel t).1.returned = s.returned
    ∧ ∀ p, ((s.cancel t).1.pipe? p).map (·.chan) = (s.pipe? p).map (·.chan) := by
  exact cancel_fields s t

/-- a cancelled `send` is all-or-nothing: dropped while parked on the full channel it has written nothing -/
theorem cancelled_send_not_delivered (s : RpqSt) (t : String) (p item : Nat)
    (ht : s.task? t = some (.sendReserved p item)) :
    (s.cancel t).1.accepted = s.accepted ∧ (s.cancel t).1.task? t = some (.finished "cancelled") := by
  exact ⟨(cancel_fields s t).2.1, cancel_sendReserved_task s t p item ht⟩

/-- after any mix of steps and cancellations of parked tasks the invariant still holds, so the no-lost-wake-up
guarantee (C08) survives cancellation -/
inductive Act where
  | step (t : String)
  | cancel (t : String)
deriving DecidableEq, Repr

def applyAct (s : RpqSt) : Act → RpqSt
  | .step t => (s.step t).1
  | .cancel t => (s.cancel t).1

/-- every cancellation in the history hits a parked task -/
def CancelsParked : RpqSt → List Act → Prop
  | _, [] => True
  | s, .step t :: rest => CancelsParked (s.step t).1 rest
  | s, .cancel t :: rest => Parked s t ∧ CancelsParked (s.cancel t).1 rest

theorem inv_with_cancellation (s : RpqSt) (hw : WellFormed s) (h0 : Initial s) (acts : List Act)
    (hc : CancelsParked s acts) :
    Inv (acts.foldl applyAct s) ∧ WellFormed (acts.foldl applyAct s) := by
  have hi := inv_initial s h0
  clear h0
  induction acts generalizing s with
  | nil => exact ⟨hi, hw⟩
  | cons a r ih =>
    cases a with
    | step t =>
      have := inv_step s t hw hi
      exact ih (s.step t).1 this.1 hc this.2
    | cancel t =>
      have := cancel_preserves_inv s t hw hi hc.1
      exact ih (s.cancel t).1 this.1 hc.2 this.2

end Rzmq.C09
