import RzmqModel.Proofs.FrameWise
import RzmqModel.Model.Multipart
import RzmqModel.Model.Engine
import RzmqModel.Proofs.Multipart
/-!
# C02 — multipart messages stay whole, contiguous and correctly flagged

Three places decide this: the sender normalises the MORE flags of the frames it is given (one call = one message);
the receiving session only ever passes on complete messages, and refuses to assemble more frames than a message
container can carry; the receiving socket hands a message out frame by frame or whole without ever letting another
message — or another peer's attach / detach — get in between.
-/
namespace Rzmq.C02
open Rzmq

/-- which shape of the code the theorems are about: re-extracted from the sources on every run -/
def anonCfg : StashCfg := { keepOnDetach := Gen.anonDeregKeepsStash == 1, mpUsesStash := true }
def dealerCfg : StashCfg :=
  { keepOnDetach := Gen.dealerDetachKeepsStash == 1, mpUsesStash := Gen.dealerRecvMultipartDrainsStash == 1 }
def routerCfg : StashCfg :=
  { keepOnDetach := Gen.routerDetachKeepsStash == 1, mpUsesStash := Gen.routerRecvMultipartDrainsStash == 1 }

theorem current_source_is_the_proved_instance : anonCfg = {} ∧ dealerCfg = {} ∧ routerCfg = {} := by
  decide

theorem senders_normalise :
    Gen.pushSendNormalisesMore = 1 ∧ Gen.pubSendNormalisesMore = 1 ∧ Gen.dealerSendNormalisesMore = 1
    ∧ Gen.routerSendNormalisesMore = 1 := by
  decide

-- sender ---------------------------------------------------------------------------------------------------

/-- whatever flags the caller left on the frames, one `send_multipart` call puts one well-formed message on the
wire, payloads untouched -/
theorem normalise_whole (fs : List Frame) (h : fs ≠ []) : WholeMsg (normaliseMore fs) := by
  exact normaliseMore_whole fs h

theorem normalise_keeps_payloads (fs : List Frame) :
    (normaliseMore fs).map (·.payload) = fs.map (·.payload) ∧ (normaliseMore fs).length = fs.length := by
  exact ⟨normaliseMore_payloads fs, normaliseMore_length fs⟩

theorem normalise_idempotent (fs : List Frame) (h : WholeMsg fs) : normaliseMore fs = fs := by
  exact normaliseMore_of_whole fs h

/-- the limits fit together: what `send_multipart` accepts, plus the one envelope frame a sending socket may add,
is within what the receiving engine accepts; that, plus the identity frame a receiving socket may prepend, is within
what a message container can hold; DEALER's frame-by-frame buffering stays within the same limit; and the public
API enforces it -/
theorem frame_limits_consistent :
    Gen.MAX_USER_FRAMES_PER_MESSAGE + 1 ≤ Gen.MAX_WIRE_FRAMES_PER_MESSAGE
    ∧ Gen.MAX_FRAMES_PER_MESSAGE = Gen.MAX_WIRE_FRAMES_PER_MESSAGE
    ∧ Gen.MAX_WIRE_FRAMES_PER_MESSAGE + 1 ≤ Gen.FRAMEBATCH_CAPACITY
    ∧ Gen.MAX_DEALER_SEND_BUFFER_PARTS + 1 ≤ Gen.MAX_USER_FRAMES_PER_MESSAGE
    ∧ Gen.sendMultipartChecksFrameCount = 1 := by
  decide

-- receiving session ------------------------------------------------------------------------------------------

/-- whatever bytes arrive and however they are cut, every message the engine hands to the socket is whole (all
frames but the last carry MORE, the last does not) and within the frame-count limit — never a truncated one -/
theorem engine_delivers_only_whole_messages (spec : AbsSpec) (cfg : Cfg)
    (hlim : Gen.MAX_FRAMES_PER_MESSAGE ≤ cfg.frameLimit) (reads : List (Nat × Bytes)) (m : Message)
    (h : AppAct.deliver m ∈ (feedAll spec cfg Eng.init reads).2.app) :
    WholeMsg m ∧ m.length ≤ Gen.MAX_FRAMES_PER_MESSAGE := by
  have _ := hlim   -- not needed: the engine's own check comes before the container limit
  exact (feedAll_mp spec cfg reads).2 m h

-- receiving socket -------------------------------------------------------------------------------------------

/-- every message that enters the queues is whole -/
def PutsWhole (evs : List StashEv) : Prop := ∀ p m, StashEv.put p m ∈ evs → WholeMsg m

/-- For every history of registrations, arrivals, detaches and receive calls in either style: the frames handed to
the application so far, followed by the stashed rest, are exactly the messages taken from the queue, in order, each
one contiguous and complete (nothing lost, nothing interleaved, whatever other peers do). -/
theorem stash_contiguous (evs : List StashEv) (h : PutsWhole evs) :
    let s := Stash.run {} evs
    s.returned ++ s.stashed = s.taken.flatten := by
  exact (StashInv.init.run evs h).contig

/-- every `recv_multipart()` result ends a message: it is a whole message, or the whole rest of the one being read -/
theorem recv_multipart_ends_message (evs : List StashEv) (h : PutsWhole evs) :
    ∀ r ∈ (Stash.run {} evs).mpResults, r ≠ [] ∧ (∀ f, r.getLast? = some f → f.more = false)
      ∧ (∀ f ∈ r.dropLast, f.more = true) := by
  intro r hr
  obtain ⟨h0, h1, h2⟩ := (StashInv.init.run evs h).mp r hr
  exact ⟨h0, h2, h1⟩

/-- what is stashed is always the proper rest of one message: its last frame closes the message -/
theorem stash_is_message_tail (evs : List StashEv) (h : PutsWhole evs) :
    let s := Stash.run {} evs
    s.stashed ≠ [] → (∀ f ∈ s.stashed.dropLast, f.more = true) ∧ (∀ f, s.stashed.getLast? = some f → f.more = false) := by
  exact (StashInv.init.run evs h).stashed_tail

/-- messages of one peer are taken in the order they arrived, none skipped: what was taken from a pipe, followed by
what still waits in it, is what was queued into it -/
theorem per_pipe_fifo (evs : List StashEv) (p : Nat) :
    let s := Stash.run {} evs
    ((s.takenFrom.filter (·.1 == p)).map (·.2)) ++ s.queueOf p = (s.accepted.filter (·.1 == p)).map (·.2) := by
  exact FifoInv.init.run evs p

/-- the earlier shape (`deregister_pipe` cleared the stash): a peer detaching in the middle of a frame-by-frame read
loses the rest of the message — the next frame returned belongs to another message although the last one said MORE -/
theorem detach_cleared_stash_counterexample :
    let a1 : Frame := { payload := [1], more := true, command := false }
    let a2 : Frame := { payload := [2], more := false, command := false }
    let b1 : Frame := { payload := [3], more := false, command := false }
    let s := Stash.run { cfg := { keepOnDetach := false } }
      [.register 1 8, .register 2 8, .put 1 [a1, a2], .put 1 [b1], .recv, .detach 2, .recv]
    s.returned = [a1, b1] := by
  decide

/-- the earlier shape of DEALER/ROUTER (`recv_multipart` ignored the stash): mixing the two styles returned the next
message while the rest of the current one was still stashed -/
theorem mp_ignores_stash_counterexample :
    let a1 : Frame := { payload := [1], more := true, command := false }
    let a2 : Frame := { payload := [2], more := false, command := false }
    let b1 : Frame := { payload := [3], more := false, command := false }
    let s := Stash.run { cfg := { mpUsesStash := false } }
      [.register 1 8, .put 1 [a1, a2], .put 1 [b1], .recv, .recvMultipart]
    s.returned = [a1, b1] ∧ s.stashed = [a2] := by
  decide

-- PUSH fed frame by frame --------------------------------------------------------------------------------------------------------------------

/-- the PUSH send path as the proofs need it (re-extracted from the sources on every run) -/
theorem push_source_shape : currentFwCfg = { holdsParts := true, limit := 253 } := by decide

/-- however a PUSH socket is fed - single frames with and without MORE, whole send_multipart calls in between, messages that
grow beyond the frame limit - every unit it hands to a peer is a whole message (MORE on every frame but the last), and a
message is handed to ONE peer: no peer ever sees part of a message, with any number of peers -/
theorem push_routes_only_whole_messages (peers : Nat) (evs : List FwEv) :
    ∀ u ∈ (Fw.run currentFwCfg { peers := peers } evs).got, wholeUnit u.2 = true := by
  rw [push_source_shape]
  exact (Fw.run_inv 253 _ evs ⟨by simp, by simp⟩).2

/-- non-vacuity: two three-frame messages sent frame by frame to two peers arrive as two whole messages, one each -/
example : (Fw.run currentFwCfg { peers := 2 }
    [.send ⟨true, 0, 0⟩, .send ⟨true, 0, 1⟩, .send ⟨false, 0, 2⟩, .send ⟨true, 1, 0⟩, .send ⟨true, 1, 1⟩, .send ⟨false, 1, 2⟩]).got
    = [(0, [⟨true, 0, 0⟩, ⟨true, 0, 1⟩, ⟨false, 0, 2⟩]), (1, [⟨true, 1, 0⟩, ⟨true, 1, 1⟩, ⟨false, 1, 2⟩])] := by decide

/-- the earlier shape (every frame load-balanced on its own): with two peers the frames of one message go to different peers -/
theorem framewise_load_balancing_tears_messages :
    ((Fw.run { holdsParts := false, limit := 253 } { peers := 2 }
      [.send ⟨true, 0, 0⟩, .send ⟨true, 0, 1⟩, .send ⟨false, 0, 2⟩]).got.map (·.1)) = [0, 1, 0] := by decide

/-- … and, as long as no message is discarded for being over-long, every frame the application gave is routed or still
held exactly once: nothing is duplicated, nothing is lost, whatever mix of frame-wise sends and send_multipart calls -/
theorem push_keeps_every_frame_exactly_once (peers : Nat) (evs : List FwEv)
    (h : (Fw.run currentFwCfg { peers := peers } evs).errors = 0) :
    (Fw.run currentFwCfg { peers := peers } evs).out.Perm (fwGiven evs) := by
  rw [push_source_shape] at h ⊢
  simpa [Fw.out] using Fw.out_run 253 evs { peers := peers } h

/-- … and whole messages are handed to the peers strictly in turn: the i-th message goes to peer i mod peers -/
theorem push_serves_peers_in_turn (peers : Nat) (evs : List FwEv) (i : Nat)
    (hi : i < (Fw.run currentFwCfg { peers := peers } evs).got.length) :
    ((Fw.run currentFwCfg { peers := peers } evs).got[i]).1 = i % max peers 1 := by
  have := Fw.rr_run currentFwCfg evs { peers := peers } 0 ⟨by simp, by simp⟩
  simpa [this.1] using this.2.2 i hi

/-- non-vacuity: an interleaved history with three peers, nothing discarded -/
example :
    let s := Fw.run currentFwCfg { peers := 3 }
      [.send ⟨true, 0, 0⟩, .sendMultipart [⟨false, 1, 0⟩, ⟨false, 1, 1⟩], .send ⟨false, 0, 1⟩, .send ⟨false, 2, 0⟩]
    s.errors = 0 ∧ s.got.map (·.1) = [0, 1, 2] ∧ s.out = [(1, 0), (1, 1), (0, 0), (0, 1), (2, 0)] := by decide

end Rzmq.C02
