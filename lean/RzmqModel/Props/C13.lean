import RzmqModel.Model.Routing
import RzmqModel.Proofs.Lb
/-!
# C13 — PUSH/DEALER round-robin (load balancer part)

`Lb` models `LoadBalancer { peers, next_idx }`.
-/
namespace Rzmq.C13
open Rzmq

theorem good_init : Lb.Good {} := by
  sorry

theorem good_add (l : Lb) (u : Nat) (h : Lb.Good l) : Lb.Good (l.add u) := by
  sorry

theorem good_remove (l : Lb) (u : Nat) (h : Lb.Good l) : Lb.Good (l.remove u) := by
  sorry

theorem good_next (l : Lb) (h : Lb.Good l) : Lb.Good l.next.2 := by
  sorry

theorem next_returns_cursor (l : Lb) (h : Lb.Good l) : l.next.1 = l.upNext := by
  sorry

/-- round robin: `k` consecutive `get_next_connection` calls return the peers in cyclic list order starting at
the cursor -/
theorem round_robin (l : Lb) (h : Lb.Good l) (hne : l.peers ≠ []) (k : Nat) :
    Lb.nexts k l = (List.range k).map fun j => l.peers[(l.nextIdx + j) % l.peers.length]? := by
  sorry

/-- fairness / no starvation: in any window of `n` consecutive selections (n = number of peers) every peer is
selected exactly once -/
theorem each_peer_once_per_round (l : Lb) (h : Lb.Good l) (hne : l.peers ≠ []) (u : Nat) (hu : u ∈ l.peers) :
    (Lb.nexts l.peers.length l).count (some u) = 1 := by
  sorry

/-- adding a peer never changes who is served next (it joins at the end of the rotation), and adding a present
peer is a no-op: no message is sent twice because of a re-add -/
theorem add_keeps_cursor (l : Lb) (u : Nat) (h : Lb.Good l) (hne : l.peers ≠ []) :
    (l.add u).upNext = l.upNext := by
  sorry

theorem add_idempotent (l : Lb) (u : Nat) : (l.add u).add u = l.add u := by
  sorry

/-- cursor repair on removal neither skips nor repeats: removing a peer other than the one under the cursor
leaves the next selection unchanged; removing the one under the cursor moves on to its successor -/
theorem remove_no_skip (l : Lb) (u : Nat) (h : Lb.Good l) (v : Nat) (hv : l.upNext = some v) (huv : u ≠ v) :
    (l.remove u).upNext = some v := by
  sorry

theorem remove_current_moves_to_successor (l : Lb) (u : Nat) (h : Lb.Good l) (hu : l.upNext = some u)
    (hlen : 1 < l.peers.length) :
    (l.remove u).upNext = l.peers[(l.nextIdx + 1) % l.peers.length]? := by
  sorry

/-- a removed peer is never selected again (until re-added) -/
theorem removed_never_selected (l : Lb) (u : Nat) (h : Lb.Good l) (k : Nat) :
    some u ∉ Lb.nexts k (l.remove u) := by
  sorry

end Rzmq.C13
