import RzmqModel.Model.Routing
import RzmqModel.Proofs.Lb
/-!
# C13 — PUSH/DEALER round-robin (load balancer part)

`Lb` models `LoadBalancer { peers, next_idx }`.
-/
namespace Rzmq.C13
open Rzmq

theorem good_init : Lb.Good {} := by
  exact ⟨List.nodup_nil, Or.inl rfl⟩

theorem good_add (l : Lb) (u : Nat) (h : Lb.Good l) (h0 : l.peers = [] → l.nextIdx = 0) :
    Lb.Good (l.add u) := by
  exact Lb.good_add_fixed l u h h0

inductive LbOp where
  | add (u : Nat) | remove (u : Nat) | next
deriving DecidableEq, Repr

def applyLb (l : Lb) : LbOp → Lb
  | .add u => l.add u
  | .remove u => l.remove u
  | .next => l.next.2

/-- every state reachable from the empty balancer by any history of add/remove/next satisfies the invariant
all the theorems below assume -/
theorem good_reachable (ops : List LbOp) : Lb.Good (ops.foldl applyLb {}) := by
  suffices h : ∀ (l : Lb), Lb.Good' l → Lb.Good' (ops.foldl applyLb l) from (h {} Lb.good'_init).good
  induction ops with
  | nil => intro l h; exact h
  | cons op rest ih =>
    intro l h
    apply ih
    cases op with
    | add u => exact Lb.good'_add l u h
    | remove u => exact Lb.good'_remove l u h
    | next => exact Lb.good'_next l h

theorem good_remove (l : Lb) (u : Nat) (h : Lb.Good l) : Lb.Good (l.remove u) := by
  obtain ⟨hnd, hc⟩ := h
  unfold Lb.remove
  split
  · exact ⟨hnd, hc⟩
  next pos hs =>
    obtain ⟨hlt, _⟩ := Lb.idxOf?_some hs
    refine ⟨hnd.eraseIdx pos, ?_⟩
    have hlen : (l.peers.eraseIdx pos).length = l.peers.length - 1 := List.length_eraseIdx_of_lt hlt
    rcases hc with he | hc
    · rw [he] at hlt; simp at hlt
    · simp only
      by_cases h1 : (pos < l.nextIdx && l.nextIdx > 0) = true
      · rw [if_pos h1]
        simp at h1
        right; omega
      · rw [if_neg h1]
        by_cases h2 : l.nextIdx ≥ (l.peers.eraseIdx pos).length
        · rw [if_pos h2]
          by_cases h3 : (l.peers.eraseIdx pos).length = 0
          · left; exact List.length_eq_zero_iff.mp h3
          · right; omega
        · rw [if_neg h2]
          right; omega

theorem good_next (l : Lb) (h : Lb.Good l) : Lb.Good l.next.2 := by
  by_cases hne : l.peers = []
  · rw [Lb.next_of_nil l hne]; exact h
  · rw [Lb.next_of_ne l hne]
    refine ⟨h.1, Or.inr ?_⟩
    exact Nat.mod_lt _ (Lb.length_pos_of_ne hne)

theorem next_returns_cursor (l : Lb) (h : Lb.Good l) : l.next.1 = l.upNext := by
  by_cases hne : l.peers = []
  · rw [Lb.next_of_nil l hne]
    simp [Lb.upNext, hne]
  · rw [Lb.next_of_ne l hne]
    have hlt : l.nextIdx < l.peers.length := by
      rcases h.2 with he | hlt
      · exact absurd he hne
      · exact hlt
    simp only [Lb.upNext]
    rw [if_neg (by omega)]

/-- round robin: `k` consecutive `get_next_connection` calls return the peers in cyclic list order starting at
the cursor -/
theorem round_robin (l : Lb) (h : Lb.Good l) (hne : l.peers ≠ []) (k : Nat) :
    Lb.nexts k l = (List.range k).map fun j => l.peers[(l.nextIdx + j) % l.peers.length]? := by
  induction k generalizing l with
  | zero => simp [Lb.nexts]
  | succ k ih =>
    have hlt : l.nextIdx < l.peers.length := by
      rcases h.2 with he | hlt
      · exact absurd he hne
      · exact hlt
    have hg := good_next l h
    have hp := Lb.next_peers l
    have hne' : l.next.2.peers ≠ [] := by rw [hp]; exact hne
    rw [Lb.nexts, ih l.next.2 hg hne', List.range_succ_eq_map, hp]
    have hn : l.next = (l.peers[l.nextIdx]?, { l with nextIdx := (l.nextIdx + 1) % l.peers.length }) := by
      rw [Lb.next_of_ne l hne, if_neg (by omega)]
    rw [hn]
    simp only [List.map_cons, List.map_map, Nat.add_zero, Nat.mod_eq_of_lt hlt]
    congr 1
    apply List.map_congr_left
    intro j _
    simp only [Function.comp, Nat.succ_eq_add_one]
    rw [Nat.mod_add_mod]
    congr 2
    omega

/-- fairness / no starvation: in any window of `n` consecutive selections (n = number of peers) every peer is
selected exactly once -/
theorem each_peer_once_per_round (l : Lb) (h : Lb.Good l) (hne : l.peers ≠ []) (u : Nat) (hu : u ∈ l.peers) :
    (Lb.nexts l.peers.length l).count (some u) = 1 := by
  rw [round_robin l h hne]
  have hlt : l.nextIdx < l.peers.length := by
    rcases h.2 with he | hlt
    · exact absurd he hne
    · exact hlt
  obtain ⟨m, hm⟩ := List.getElem?_of_mem hu
  have hmlt : m < l.peers.length := by
    rcases Nat.lt_or_ge m l.peers.length with h' | h'
    · exact h'
    · rw [List.getElem?_eq_none h'] at hm; cases hm
  rw [List.count_eq_countP, List.countP_map]
  have key : List.countP ((fun x => x == some u) ∘ fun j => l.peers[(l.nextIdx + j) % l.peers.length]?)
      (List.range l.peers.length)
      = List.countP (fun j => j == (if l.nextIdx ≤ m then m - l.nextIdx else m + l.peers.length - l.nextIdx))
        (List.range l.peers.length) := by
    apply List.countP_congr
    intro j hj
    have hj' : j < l.peers.length := List.mem_range.mp hj
    have hmod := Lb.mod_lt_two (l.nextIdx + j) l.peers.length (by omega)
    simp only [Function.comp, beq_iff_eq]
    constructor
    · intro hx
      have : (l.nextIdx + j) % l.peers.length = m :=
        (List.getElem?_inj (Nat.mod_lt _ (by omega)) h.1).mp (by rw [hx, hm])
      split at hmod <;> split <;> omega
    · intro hx
      have : (l.nextIdx + j) % l.peers.length = m := by
        split at hmod <;> split at hx <;> omega
      rw [this, hm]
  rw [key, ← List.count_eq_countP, List.count_range]
  rw [if_pos]
  split <;> omega

/-- adding a peer never changes who is served next (it joins at the end of the rotation), and adding a present
peer is a no-op: no message is sent twice because of a re-add -/
theorem add_keeps_cursor (l : Lb) (u : Nat) (h : Lb.Good l) (hne : l.peers ≠ []) :
    (l.add u).upNext = l.upNext := by
  have hlt : l.nextIdx < l.peers.length := by
    rcases h.2 with he | hlt
    · exact absurd he hne
    · exact hlt
  unfold Lb.add Lb.upNext
  split
  · rfl
  · simp only
    rw [List.getElem?_append_left hlt]

theorem add_idempotent (l : Lb) (u : Nat) : (l.add u).add u = l.add u := by
  by_cases hc : u ∈ l.peers
  · simp [Lb.add, hc]
  · simp [Lb.add, hc]

/-- cursor repair on removal neither skips nor repeats: removing a peer other than the one under the cursor
leaves the next selection unchanged; removing the one under the cursor moves on to its successor -/
theorem remove_no_skip (l : Lb) (u : Nat) (h : Lb.Good l) (v : Nat) (hv : l.upNext = some v) (huv : u ≠ v) :
    (l.remove u).upNext = some v := by
  have hv' : l.peers[l.nextIdx]? = some v := hv
  have hnlt : l.nextIdx < l.peers.length := by
    rcases Nat.lt_or_ge l.nextIdx l.peers.length with h' | h'
    · exact h'
    · rw [List.getElem?_eq_none h'] at hv'; cases hv'
  unfold Lb.remove
  split
  · exact hv
  next pos hs =>
    obtain ⟨hlt, hu⟩ := Lb.idxOf?_some hs
    have hne : pos ≠ l.nextIdx := by
      intro he
      rw [he, hv'] at hu
      exact huv (Option.some.inj hu).symm
    have hlen : (l.peers.eraseIdx pos).length = l.peers.length - 1 := List.length_eraseIdx_of_lt hlt
    simp only [Lb.upNext]
    by_cases h1 : (pos < l.nextIdx && l.nextIdx > 0) = true
    · rw [if_pos h1]
      simp at h1
      rw [List.getElem?_eraseIdx, if_neg (by omega)]
      rw [show l.nextIdx - 1 + 1 = l.nextIdx by omega]
      exact hv'
    · rw [if_neg h1]
      have h3 : l.nextIdx < pos := by
        simp at h1
        omega
      rw [if_neg (by omega), List.getElem?_eraseIdx, if_pos h3]
      exact hv'

theorem remove_current_moves_to_successor (l : Lb) (u : Nat) (h : Lb.Good l) (hu : l.upNext = some u)
    (hlen : 1 < l.peers.length) :
    (l.remove u).upNext = l.peers[(l.nextIdx + 1) % l.peers.length]? := by
  have hu' : l.peers[l.nextIdx]? = some u := hu
  have hidx := Lb.idxOf?_of_getElem? h.1 hu'
  obtain ⟨hlt, _⟩ := Lb.idxOf?_some hidx
  have hlen' := List.length_eraseIdx_of_lt hlt
  unfold Lb.remove
  rw [hidx]
  simp only [Lb.upNext]
  rw [if_neg (by simp)]
  by_cases h2 : l.nextIdx ≥ (l.peers.eraseIdx l.nextIdx).length
  · rw [if_pos h2, List.getElem?_eraseIdx, if_pos (by omega)]
    have h3 : l.nextIdx + 1 = l.peers.length := by omega
    rw [h3, Nat.mod_self]
  · rw [if_neg h2, List.getElem?_eraseIdx, if_neg (by omega), Nat.mod_eq_of_lt (by omega)]

/-- a removed peer is never selected again (until re-added) -/
theorem removed_never_selected (l : Lb) (u : Nat) (h : Lb.Good l) (k : Nat) :
    some u ∉ Lb.nexts k (l.remove u) := by
  intro hmem
  rcases Lb.mem_nexts k _ _ hmem with hn | ⟨v, hv, hs⟩
  · cases hn
  · cases hs
    exact Lb.not_mem_remove l u h.1 hv

end Rzmq.C13
