import RzmqModel.Model.ReqRep
import RzmqModel.Gen.Life
import RzmqModel.Proofs.ReqRep
/-!
# C10 — REQ and REP enforce strict alternation for every call history

`ReqSys` / `RepSys`: any number of tasks on clones of one socket, every interleaving of their lock scopes with
each other and with the peer's behaviour (replies, requests, detaches).  `log` = the successful operations in
commit order.
-/
namespace Rzmq.C10
open Rzmq

/-- REQ, exchanges that run to completion: as long as no exchange is given up (no receive ends without a
message, the peer stays), the successful operations strictly alternate send, recv, send, … whatever the tasks
do and however their lock scopes interleave. -/
theorem req_alternates (evs : List ReqEv) (h : ∀ e ∈ evs, e.abandons = false) :
    alternates .send (ReqSys.run {} evs).log = true := by
  rw [alternates_eq_nextOp, (StrictInv.reach evs h).1]; rfl

/-- REQ, every history (time-outs, dropped futures, peers vanishing included): two sends never succeed without
a receive or a given-up exchange in between, … -/
theorem req_no_double_send (evs : List ReqEv) : sendsSeparated false (ReqSys.run {} evs).log = true := by
  rw [sendsSeparated_eq_sepEnd, (ReqInv.reach evs).shape.sepEnd]; rfl

/-- … never more replies are received than requests were sent, … -/
theorem req_recv_bounded (evs : List ReqEv) :
    (ReqSys.run {} evs).log.count .recv ≤ (ReqSys.run {} evs).log.count .send := by
  have h := (ReqInv.reach evs).bound
  omega

/-- … and the state the next call is judged by is exactly what the log says: the socket expects a reply iff
the last successful operation was a send (so after a successful receive a send is accepted again, and a
receive is refused). -/
theorem req_state_tracks_log (evs : List ReqEv) :
    (∃ x, (ReqSys.run {} evs).st = .expectingReply x) ↔ (ReqSys.run {} evs).log.getLast? = some .send := by
  rw [← ReqState.isExp_iff]
  exact (ReqInv.reach evs).shape.getLast

/-- the intermediate shape (successful receives guarded by the exchange number as well) wedges: the late
waiter of exchange 0 consumes the reply of exchange 1 and the socket still expects a reply -/
theorem req_guarded_success_wedges :
    let s := ReqSys.run { successGuarded := true }
      [.sendBegin 1, .sendOk 1, .recvBegin 1, .recvBegin 2, .peerReplies, .recvGot 1,
       .sendBegin 1, .sendOk 1, .peerReplies, .recvGot 2]
    s.st = .expectingReply 1 ∧ s.log.getLast? = some .recv := by
  decide

/-- at most one request is outstanding, apart from requests whose exchange was given up (timed-out receives) -/
theorem req_one_outstanding (evs : List ReqEv) :
    (ReqSys.run {} evs).atPeer + (ReqSys.run {} evs).replies ≤ 1 + (ReqSys.run {} evs).log.count .abandoned := by
  have h := (ReqInv.reach evs).out
  split at h <;> omega

/-- a call refused with InvalidState changes nothing but the rejection counter -/
theorem req_invalid_call_noop (s : ReqSys) (t : Nat) (h : s.pc t = .idle)
    (hs : s.st ≠ .readyToSend) : s.step (.sendBegin t) = { s with rejected := s.rejected + 1 } := by
  have h1 : (s.pc t != .idle) = false := by simp [h]
  have h2 : (s.st == .readyToSend) = false := by simp [hs]
  simp [ReqSys.step, h1, h2]

theorem req_invalid_recv_noop (s : ReqSys) (t : Nat) (h : s.pc t = .idle)
    (hs : ∀ x, s.st ≠ .expectingReply x) : s.step (.recvBegin t) = { s with rejected := s.rejected + 1 } := by
  have h1 : (s.pc t != .idle) = false := by simp [h]
  simp only [ReqSys.step, h1, Bool.false_eq_true, if_false]

/-- a failed, timed-out or dropped `send` leaves the socket ready to send again (never stuck in `sending`) -/
theorem req_failed_send_rolls_back (evs : List ReqEv) :
    let s := ReqSys.run {} evs
    s.st = .sending → ∃ t, s.pc t = .sendInFlight := by
  intro s hs
  have hs' : (ReqSys.run {} evs).st = .sending := hs
  exact (ReqInv.reach evs).sif.ex (by rw [hs']; rfl)

/-- the earlier shape (check, release the lock, commit after the await) is NOT safe: two tasks both pass the
check and two sends succeed in a row -/
theorem req_check_then_act_counterexample :
    alternates .send (ReqSys.run { claim := false } [.sendBegin 1, .sendBegin 2, .sendOk 1, .sendOk 2]).log = false := by
  decide

/-- the earlier shape of `recv`: a receive of the previous exchange, woken late, resets the state of the next
request, and a second request goes out with no reply in between -/
theorem req_stale_receive_counterexample :
    alternates .send (ReqSys.run { exchangeGuard := false }
      [.sendBegin 1, .sendOk 1, .recvBegin 2, .recvBegin 3, .peerReplies, .recvGot 2,
       .sendBegin 1, .sendOk 1, .recvFail 3, .sendBegin 1, .sendOk 1]).log = false := by
  decide

/-- REP: the successful operations alternate recv, send, recv, … and every reply goes to the peer whose request
it answers. -/
theorem rep_alternates_and_routes (evs : List RepEv) : repWellFormed (RepSys.run {} evs).log = true := by
  rw [repWellFormed_eq_repOpen, (RepInv.reach evs).log]; rfl

theorem rep_invalid_send_noop (s : RepSys) (t : Nat) (h : ∀ p, s.st ≠ .receivedRequest p) :
    s.step (.sendReply t) = { s with rejected := s.rejected + 1 } := by
  simp only [RepSys.step]

theorem rep_invalid_recv_noop (s : RepSys) (t : Nat) (h : s.pc t = .idle) (hs : s.st ≠ .readyToReceive) :
    s.step (.recvBegin t) = { s with rejected := s.rejected + 1 } := by
  have h1 : (s.pc t != .idle) = false := by simp [h]
  have h2 : (s.st == .readyToReceive) = false := by simp [hs]
  simp [RepSys.step, h1, h2]

/-- a timed-out or dropped `recv` leaves the socket ready to receive again (never stuck in `receiving`) -/
theorem rep_failed_recv_rolls_back (evs : List RepEv) :
    let s := RepSys.run {} evs
    s.st = .receiving → ∃ t, s.pc t = .recvInFlight := by
  intro s hs
  exact (RepInv.reach evs).ex hs

/-- the earlier shape: two concurrent receives both succeed and the second overwrites the first's reply address -/
theorem rep_check_then_act_counterexample :
    repWellFormed (RepSys.run { claim := false }
      [.peerRequests 7, .peerRequests 8, .recvBegin 1, .recvBegin 2, .recvGot 1 0, .recvGot 2 0, .sendReply 1]).log = false := by
  decide

-- tie to the source -------------------------------------------------------------------------------------

/-- the model instance that the current source corresponds to: which lock scopes claim / roll back / guard is
re-extracted from `req_socket.rs` and `rep_socket.rs` on every run (`Gen/Life.lean`) -/
def currentReq : ReqSys :=
  { claim := Gen.reqSendClaims == 1 && Gen.reqSendRollsBack == 1,
    exchangeGuard := Gen.reqExchangeGuard == 2,
    successGuarded := Gen.reqRecvOkFinishesCurrent != 2 }

def currentRep : RepSys := { claim := Gen.repRecvClaims == 2 && Gen.repRecvRollsBack == 1 }

/-- … and it is the instance all the theorems above are about -/
theorem current_source_is_the_proved_instance : currentReq = {} ∧ currentRep = {} := by
  decide

end Rzmq.C10
