import RzmqModel.Model.ReqRep
import RzmqModel.Proofs.ReqRep
/-!
# C10 — REQ and REP enforce strict alternation for every call history

`ReqSys` / `RepSys`: any number of tasks on clones of one socket, every interleaving of their lock scopes with
each other and with the peer's behaviour (replies, requests, detaches).  `log` = the successful operations in
commit order.
-/
namespace Rzmq.C10
open Rzmq

/-- REQ: whatever the tasks and the peer do, the successful operations strictly alternate send, recv, send, …
(an exchange whose peer vanished is void). -/
theorem req_alternates (evs : List ReqEv) : alternates .send (ReqSys.run {} evs).log = true := by
  sorry

/-- at most one request is outstanding, apart from requests whose exchange was given up (timed-out receives) -/
theorem req_one_outstanding (evs : List ReqEv) :
    (ReqSys.run {} evs).atPeer + (ReqSys.run {} evs).replies ≤ 1 + (ReqSys.run {} evs).log.count .abandoned := by
  sorry

/-- a call refused with InvalidState changes nothing but the rejection counter -/
theorem req_invalid_call_noop (s : ReqSys) (t : Nat) (h : s.pc t = .idle)
    (hs : s.st ≠ .readyToSend) : s.step (.sendBegin t) = { s with rejected := s.rejected + 1 } := by
  sorry

theorem req_invalid_recv_noop (s : ReqSys) (t : Nat) (h : s.pc t = .idle)
    (hs : ∀ x, s.st ≠ .expectingReply x) : s.step (.recvBegin t) = { s with rejected := s.rejected + 1 } := by
  sorry

/-- a failed, timed-out or dropped `send` leaves the socket ready to send again (never stuck in `sending`) -/
theorem req_failed_send_rolls_back (evs : List ReqEv) :
    let s := ReqSys.run {} evs
    s.st = .sending → ∃ t, s.pc t = .sendInFlight := by
  sorry

/-- the earlier shape (check, release the lock, commit after the await) is NOT safe: two tasks both pass the
check and two sends succeed in a row -/
theorem req_check_then_act_counterexample :
    alternates .send (ReqSys.run { claim := false } [.sendBegin 1, .sendBegin 2, .sendOk 1, .sendOk 2]).log = false := by
  sorry

/-- the earlier shape of `recv`: a receive of the previous exchange, woken late, resets the state of the next
request, and a second request goes out with no reply in between -/
theorem req_stale_receive_counterexample :
    alternates .send (ReqSys.run { exchangeGuard := false }
      [.sendBegin 1, .sendOk 1, .recvBegin 2, .recvBegin 3, .peerReplies, .recvGot 2,
       .sendBegin 1, .sendOk 1, .recvFail 3, .sendBegin 1, .sendOk 1]).log = false := by
  sorry

/-- REP: the successful operations alternate recv, send, recv, … and every reply goes to the peer whose request
it answers. -/
theorem rep_alternates_and_routes (evs : List RepEv) : repWellFormed (RepSys.run {} evs).log = true := by
  sorry

theorem rep_invalid_send_noop (s : RepSys) (t : Nat) (h : ∀ p, s.st ≠ .receivedRequest p) :
    s.step (.sendReply t) = { s with rejected := s.rejected + 1 } := by
  sorry

theorem rep_invalid_recv_noop (s : RepSys) (t : Nat) (h : s.pc t = .idle) (hs : s.st ≠ .readyToReceive) :
    s.step (.recvBegin t) = { s with rejected := s.rejected + 1 } := by
  sorry

/-- a timed-out or dropped `recv` leaves the socket ready to receive again (never stuck in `receiving`) -/
theorem rep_failed_recv_rolls_back (evs : List RepEv) :
    let s := RepSys.run {} evs
    s.st = .receiving → ∃ t, s.pc t = .recvInFlight := by
  sorry

/-- the earlier shape: two concurrent receives both succeed and the second overwrites the first's reply address -/
theorem rep_check_then_act_counterexample :
    repWellFormed (RepSys.run { claim := false }
      [.peerRequests 7, .peerRequests 8, .recvBegin 1, .recvBegin 2, .recvGot 1, .recvGot 2, .sendReply 1]).log = false := by
  sorry

end Rzmq.C10
