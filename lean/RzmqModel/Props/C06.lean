import RzmqModel.Model.Engine
import RzmqModel.Proofs.EngineSec
/-!
# C06 — a configured security mechanism cannot be bypassed or downgraded (engine level)

All statements quantify over *every* sequence of reads (`reads`), i.e. every peer byte stream in every
segmentation, starting from the initial engine state. For CURVE / Noise_XX the mechanism is abstract
(`AbsSpec`): what is proved is that the engine never completes a handshake unless *that mechanism itself*
reported `ready` on exactly the tokens the engine handed to it — the cryptographic soundness of the mechanism
is a property of `spec`, outside this model.
-/
namespace Rzmq.C06
open Rzmq

/-- a well-formed PLAIN HELLO carrying exactly the credentials the server is configured with -/
def IsValidHello (cfg : Cfg) (tok : Bytes) : Prop :=
  ∃ body u p, tok = lenPrefixed Gen.plainHello ++ body ∧ parseHello body = some (u, p)
    ∧ cfg.plainUser = some u ∧ cfg.plainPass = some p

/-- mechanism negotiation only ever selects a locally enabled mechanism, namely the one the peer named -/
theorem negotiate_sound (spec : AbsSpec) (cfg : Cfg) (g : Greeting) (m : Mech)
    (h : negotiate spec cfg g = .ok m) :
    mechEnabled cfg (mechKindOf m) = true ∧ mechNameBytes (mechKindOf m) = g.mechanism := by
  exact negotiate_sound' h

/-- with security configured, NULL is never negotiated -/
theorem secure_never_null (spec : AbsSpec) (cfg : Cfg) (hs : cfg.securityEnabled = true) (g : Greeting) (m : Mech)
    (h : negotiate spec cfg g = .ok m) : mechKindOf m ≠ .null := by
  intro hk
  have h1 := (negotiate_sound' h).1
  rw [hk] at h1
  simp [mechEnabled, hs] at h1

/-- No downgrade: with security configured the connection never becomes a ZMTP/2.0 session, whatever the
peer sends and whatever ALLOW_ZMTP2 says. -/
theorem no_v2_when_secure (spec : AbsSpec) (cfg : Cfg) (hs : cfg.securityEnabled = true)
    (reads : List (Nat × Bytes)) :
    (feedAll spec cfg Eng.init reads).1.version ≠ some .v2 := by
  intro hv
  have h1 := (feedAll_Inv spec cfg reads).v2ref hv
  simp only [v2Refused, Gen.v2RefusedWhenSecurity, hs] at h1
  simp at h1

/-- Nothing reaches the application before the handshake completed: every delivered message is preceded, in
the engine's output, by `HandshakeComplete`. -/
theorem no_deliver_before_handshake (spec : AbsSpec) (cfg : Cfg) (reads : List (Nat × Bytes))
    (pre post : List AppAct) (m : Message)
    (h : (feedAll spec cfg Eng.init reads).2.app = pre ++ .deliver m :: post) :
    ∃ a ∈ pre, isHandshakeComplete a = true := by
  exact (feedAll_Inv spec cfg reads).deliver pre m post h

/-- A completed handshake means a mechanism was negotiated, it is one that is enabled locally, and (with
security configured) it is not NULL. -/
theorem handshake_requires_negotiated_mechanism (spec : AbsSpec) (cfg : Cfg) (hs : cfg.securityEnabled = true)
    (reads : List (Nat × Bytes))
    (h : ∃ a ∈ (feedAll spec cfg Eng.init reads).2.app, isHandshakeComplete a = true) :
    ∃ k, (feedAll spec cfg Eng.init reads).1.gNegotiated = some k ∧ k ≠ .null ∧ mechEnabled cfg k = true := by
  rcases (feedAll_Inv spec cfg reads).hc h with hv | ⟨k, hk, hen, _⟩
  · exact absurd hv (no_v2_when_secure spec cfg hs reads)
  · refine ⟨k, hk, ?_, hen⟩
    intro hnull
    rw [hnull] at hen
    simp [mechEnabled, hs] at hen

/-- PLAIN server: a handshake completes only if the peer presented a HELLO with exactly the configured user
name and password — for every byte stream (missing, repeated, reordered, malformed commands; data before
authentication; ZMTP/2.0 greetings; other mechanism names). -/
theorem plain_server_requires_credentials (spec : AbsSpec) (cfg : Cfg)
    (hcfg : cfg.securityEnabled = true ∧ cfg.usePlain = true ∧ cfg.useCurve = false ∧ cfg.useNoise = false)
    (hsrv : cfg.isServer = true) (reads : List (Nat × Bytes))
    (h : ∃ a ∈ (feedAll spec cfg Eng.init reads).2.app, isHandshakeComplete a = true) :
    ∃ tok ∈ (feedAll spec cfg Eng.init reads).1.gTokens, IsValidHello cfg tok := by
  obtain ⟨hs, hpl, hcu, hno⟩ := hcfg
  rcases (feedAll_Inv spec cfg reads).hc h with hv | ⟨k, hk, hen, hf⟩
  · exact absurd hv (no_v2_when_secure spec cfg hs reads)
  · cases k with
    | null => simp [mechEnabled, hs] at hen
    | curve => simp [mechEnabled, hcu] at hen
    | noise => simp [mechEnabled, hno] at hen
    | plain =>
      simp only [Final, hsrv, if_true] at hf
      obtain ⟨tok, hmem, hv⟩ := hf
      exact ⟨tok, hmem, hv⟩

/-- a PLAIN server without configured credentials accepts nobody -/
theorem plain_server_without_credentials_rejects (spec : AbsSpec) (cfg : Cfg)
    (hcfg : cfg.securityEnabled = true ∧ cfg.usePlain = true ∧ cfg.useCurve = false ∧ cfg.useNoise = false)
    (hsrv : cfg.isServer = true) (hnone : cfg.plainUser = none ∨ cfg.plainPass = none)
    (reads : List (Nat × Bytes)) :
    ∀ a ∈ (feedAll spec cfg Eng.init reads).2.app, isHandshakeComplete a = false ∧ isDeliver a = false := by
  have nohc : ¬ ∃ a ∈ (feedAll spec cfg Eng.init reads).2.app, isHandshakeComplete a = true := by
    intro h
    obtain ⟨tok, _, body, u, p, _, _, hu, hp⟩ := plain_server_requires_credentials spec cfg hcfg hsrv reads h
    rcases hnone with hn | hn
    · rw [hn] at hu; cases hu
    · rw [hn] at hp; cases hp
  intro a ha
  constructor
  · cases hh : isHandshakeComplete a
    · rfl
    · exact absurd ⟨a, ha, hh⟩ nohc
  · cases a with
    | deliver m =>
      obtain ⟨pre, post, hsplit⟩ := List.append_of_mem ha
      obtain ⟨b, hb, hbc⟩ := no_deliver_before_handshake spec cfg reads pre post m hsplit
      exact absurd ⟨b, by rw [hsplit]; exact List.mem_append_left _ hb, hbc⟩ nohc
    | handshakeComplete i st => rfl
    | peerError e => rfl

/-- PLAIN client: completes only after the server answered WELCOME -/
theorem plain_client_requires_welcome (spec : AbsSpec) (cfg : Cfg)
    (hcfg : cfg.securityEnabled = true ∧ cfg.usePlain = true ∧ cfg.useCurve = false ∧ cfg.useNoise = false)
    (hcl : cfg.isServer = false) (reads : List (Nat × Bytes))
    (h : ∃ a ∈ (feedAll spec cfg Eng.init reads).2.app, isHandshakeComplete a = true) :
    ∃ tok ∈ (feedAll spec cfg Eng.init reads).1.gTokens, ∃ body, tok = lenPrefixed Gen.plainWelcome ++ body := by
  obtain ⟨hs, hpl, hcu, hno⟩ := hcfg
  rcases (feedAll_Inv spec cfg reads).hc h with hv | ⟨k, hk, hen, hf⟩
  · exact absurd hv (no_v2_when_secure spec cfg hs reads)
  · cases k with
    | null => simp [mechEnabled, hs] at hen
    | curve => simp [mechEnabled, hcu] at hen
    | noise => simp [mechEnabled, hno] at hen
    | plain =>
      simp only [Final, hcl, Bool.false_eq_true, if_false] at hf
      obtain ⟨tok, hmem, hv⟩ := hf
      exact ⟨tok, hmem, hv⟩

/-- CURVE / Noise_XX (abstract mechanism): a handshake completes only if the mechanism itself reported
`ready` on exactly the tokens the engine accepted from the peer — the engine never skips or short-circuits it. -/
theorem abstract_mechanism_not_skipped (spec : AbsSpec) (cfg : Cfg)
    (hcfg : cfg.securityEnabled = true ∧ cfg.usePlain = false)
    (reads : List (Nat × Bytes))
    (h : ∃ a ∈ (feedAll spec cfg Eng.init reads).2.app, isHandshakeComplete a = true) :
    ∃ k n, (k = .curve ∨ k = .noise) ∧ (feedAll spec cfg Eng.init reads).1.gNegotiated = some k
      ∧ spec.status k cfg.isServer (feedAll spec cfg Eng.init reads).1.gTokens n = .ready := by
  obtain ⟨hs, hpl⟩ := hcfg
  rcases (feedAll_Inv spec cfg reads).hc h with hv | ⟨k, hk, hen, hf⟩
  · exact absurd hv (no_v2_when_secure spec cfg hs reads)
  · cases k with
    | null => simp [mechEnabled, hs] at hen
    | plain => simp [mechEnabled, hpl] at hen
    | curve =>
      obtain ⟨n, hn⟩ := hf
      exact ⟨.curve, n, Or.inl rfl, hk, hn⟩
    | noise =>
      obtain ⟨n, hn⟩ := hf
      exact ⟨.noise, n, Or.inr rfl, hk, hn⟩

-- non-vacuity: a PLAIN server does complete for the right credentials (concrete transcript, evaluated)
example :
    let cfg : Cfg := { isServer := true, sockType := .PULL, securityEnabled := true, usePlain := true,
                       plainUser := some [117], plainPass := some [112] }
    IsValidHello cfg (lenPrefixed Gen.plainHello ++ helloBody [117] [112]) := by
  refine ⟨helloBody [117] [112], [117], [112], rfl, ?_, rfl, rfl⟩
  decide

/-- the credential check of the PLAIN server has the shape the model gives it (re-extracted from the source on every run):
a credential that was never configured matches nothing -/
theorem plain_source_shape : Gen.plainUnsetCredentialAdmitsNobody = 1 := by decide

/-- a PLAIN server on which a credential was left unset admits nobody: no HELLO is valid for it, not even the one with the
empty name and the empty password -/
theorem unset_credential_admits_nobody (cfg : Cfg) (h : cfg.plainUser = none ∨ cfg.plainPass = none) (tok : Bytes) :
    ¬ IsValidHello cfg tok := by
  rintro ⟨_, u, p, _, _, hu, hp⟩
  rcases h with h | h
  · rw [h] at hu; cases hu
  · rw [h] at hp; cases hp

/-- the names a peer's greeting and commands are compared with are those of the RFCs (23/37: 20-byte zero-padded mechanism
names NULL, PLAIN, CURVE; READY and ERROR commands with a 1-byte name length; 24/PLAIN: HELLO, WELCOME, ERROR), pinned
independently of the source — "the mechanism the peer proposed" means the same thing to rzmq as to any ZeroMQ peer -/
theorem mechanism_and_command_names_are_the_rfc_ones :
    Gen.mechName_null = [0x4E, 0x55, 0x4C, 0x4C] ++ List.replicate 16 0
    ∧ Gen.mechName_plain = [0x50, 0x4C, 0x41, 0x49, 0x4E] ++ List.replicate 15 0
    ∧ Gen.mechName_curve = [0x43, 0x55, 0x52, 0x56, 0x45] ++ List.replicate 15 0
    ∧ Gen.cmdReady = [5, 0x52, 0x45, 0x41, 0x44, 0x59] ∧ Gen.cmdError = [5, 0x45, 0x52, 0x52, 0x4F, 0x52]
    ∧ Gen.readyPropsOffset = 6
    ∧ Gen.plainHello = [0x48, 0x45, 0x4C, 0x4C, 0x4F] ∧ Gen.plainWelcome = [0x57, 0x45, 0x4C, 0x43, 0x4F, 0x4D, 0x45]
    ∧ Gen.plainError = [0x45, 0x52, 0x52, 0x4F, 0x52] := by
  decide

end Rzmq.C06
