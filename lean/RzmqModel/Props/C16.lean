import RzmqModel.Model.Shutdown
import RzmqModel.Props.C08
import RzmqModel.Proofs.Shutdown
/-!
# C16 — close() and term() always finish and leave nothing running or hanging
-/
namespace Rzmq.C16
open Rzmq

/-- the shape of the sources (re-extracted on every run) -/
theorem source_shape :
    Gen.actorStartedAddsToWaitGroup = 1 ∧ Gen.actorStoppingAlwaysDecrements = 1 ∧ Gen.dropGuardPublishesOnEveryExit = 1
    ∧ Gen.waitGroupRegistersBeforeCheck = 1 ∧ Gen.commandLoopAnswersQueuedCommands = 1
    ∧ Gen.commandLoopUnregistersSocket = 1 ∧ Gen.commandLoopUnregistersInprocNames = 1
    ∧ Gen.commandLoopStopsPatternAtExit = 1 ∧ Gen.queueCloseWakesParkedPop = 1 ∧ Gen.connecterAbortIsFinal = 1
    ∧ Gen.connecterChecksParentRunning = 1 ∧ Gen.handshakeWatchesEvents = 1 ∧ Gen.handshakePollsParentEveryMs = 100
    ∧ 20 ≤ Gen.userOpsGuardedByIsRunning ∧ Gen.termStragglerTimeoutSecs = 10
    ∧ Gen.sessionDrainsMailboxAtExit = 1 := by
  decide

-- accounting: term() returns exactly when nothing is left ------------------------------------------------------------------

/-- whatever is spawned, however each task ends (return, error, cancellation) and in whatever order: the wait group counts
exactly the tasks that are still alive -/
theorem wait_group_counts_the_living (evs : List AcctEv) :
    (Acct.run {} evs).wg = (Acct.run {} evs).alive.length := by
  exact (Acct.inv_reachable evs).1

/-- the waiter in `term()` is released only when no actor is left -/
theorem term_returns_only_when_all_stopped (evs : List AcctEv) (h : (Acct.run {} evs).waiter.pc = 2) :
    ∃ pre post, evs = pre ++ post ∧ (Acct.run {} pre).alive = [] := by
  obtain ⟨pre, post, he, hidle⟩ := waiter_done_implies_idle_at_some_poll evs h
  exact ⟨pre, .poll :: post, he, hidle⟩

/-- … and it IS released once they have all stopped: no wake-up is lost, whenever the waiter was polled before -/
theorem term_returns_when_all_stopped (evs : List AcctEv) (h : (Acct.run {} evs).alive = []) :
    (Acct.run {} (evs ++ [.poll, .poll])).waiter.pc = 2 := by
  rw [Acct.run_append]
  exact Acct.idle_two_polls _ (Acct.inv_reachable evs) h

-- nobody is left uninformed --------------------------------------------------------------------------------------------------

/-- a session accepted while its socket is already closing (its subscription came too late) still learns of it within
100 ms; one that subscribed in time learns at once -/
theorem handshaking_session_always_learns (late : Bool) :
    ∃ t, (sessionInHandshake (!late)).learnsBy = some t ∧ t ≤ 100 := by
  cases late <;> decide

/-- a connecter learns at the latest before its next attempt -/
theorem retrying_connecter_always_learns (late : Bool) (ivl : Nat) :
    ∃ t, (connecterRetrying (!late) ivl).learnsBy = some t ∧ t ≤ ivl := by
  refine ⟨_, connecterRetrying_learnsBy (!late) ivl, ?_⟩
  cases late <;> simp

/-- the earlier shape: an actor that relies on the bus alone and subscribed after the event never finds out -/
theorem bus_only_actor_misses_the_event :
    ({ subscribedBeforeEvent := false, readsBus := true, checksParent := false, pollMs := 0 } : Notice).learnsBy = none := by
  decide

-- a closed socket answers --------------------------------------------------------------------------------------------------------

/-- once close()/term() has begun, no API call can hang: every operation returns at once, with an error (or Ok for a
repeated close) -/
theorem closed_socket_never_hangs (phase : LoopPhase) (hp : phase ≠ .running) (op : ApiOp) :
    apiResult (Gen.commandLoopAnswersQueuedCommands == 1) phase op = .error
    ∨ (op = .close ∧ apiResult (Gen.commandLoopAnswersQueuedCommands == 1) phase op = .ok) := by
  cases phase <;> cases op <;> first | exact absurd rfl hp | decide

/-- the earlier shape: a control call queued behind the shutdown (a second close(), a close() racing with term()) waited
for ever -/
theorem unanswered_mailbox_hangs : apiResult false .exited .close = .hangs ∧ apiResult false .shuttingDown .bind = .hangs := by
  decide

-- calls parked inside the socket come back -----------------------------------------------------------------------------------------------

/-- every socket type whose send() can wait for a first peer treats that wait the same way: Stop reaches it, releases
everybody, and a caller that arrives later sees the flag (re-extracted from the sources on every run) -/
theorem parking_sites_as_proved (ty : BalancedTy) : balancerSite ty = goodSite := by
  cases ty <;> decide

/-- however many tasks are parked in send() on a socket without a peer (SNDTIMEO -1), whenever they arrived, and
whatever arrives afterwards: once the pattern has processed Stop, nobody is parked - in every later state -/
theorem parked_senders_are_released (ty : BalancedTy) (pre post : List ParkEv) :
    (Park.run (balancerSite ty) {} (pre ++ [.stop] ++ post)).parked = [] := by
  rw [parking_sites_as_proved]
  exact Park.after_stop_nobody_parked pre post

/-- … and none of them is lost on the way: everyone who called is parked or has returned -/
theorem parked_senders_all_accounted_for (ty : BalancedTy) (evs : List ParkEv) :
    (Park.run (balancerSite ty) {} evs).parked.length + (Park.run (balancerSite ty) {} evs).returned.length
      = (evs.filter ParkEv.isArrive).length := by
  simpa using Park.conservation (balancerSite ty) {} evs

/-- non-vacuity: three parked senders, one Stop, all three are back -/
example : (Park.run (balancerSite .req) {} [.arrive 0, .arrive 1, .arrive 2, .stop]).returned = [0, 1, 2] := by decide

/-- the seeded shape (`notify_one` in `deactivate`): Stop is processed twice per shutdown, so the third parked sender
stays for ever -/
theorem notify_one_strands_the_third_sender :
    (Park.run { reaches := true, wakesAll := false, checksFlag := true } {} [.arrive 0, .arrive 1, .arrive 2, .stop, .stop]).parked = [2] := by
  decide

/-- the earlier shape of REQ (Stop never reached its balancer): even a single parked sender stays for ever -/
theorem unreached_site_strands_everyone (n : List ParkEv) :
    (Park.run { reaches := false, wakesAll := true, checksFlag := true } {} ([.arrive 0] ++ n)).parked ≠ [] := by
  have h := Park.conservation { reaches := false, wakesAll := true, checksFlag := true } {} ([.arrive 0] ++ n)
  have hret : ∀ (p : Park) (evs : List ParkEv), p.flag = false → p.permit = false →
      (Park.run { reaches := false, wakesAll := true, checksFlag := true } p evs).returned = p.returned := by
    intro p evs
    induction evs generalizing p with
    | nil => intros; rfl
    | cons e es ih =>
      intro hf hp
      simp only [Park.run, List.foldl_cons]
      cases e with
      | arrive t =>
        have := ih ({ p with parked := p.parked ++ [t] }) (by simpa using hf) (by simpa using hp)
        simpa [Park.run, Park.step, hf, hp] using this
      | stop => simpa [Park.run, Park.step] using ih p hf hp
  intro hempty
  rw [hret {} _ rfl rfl, hempty] at h
  simp [ParkEv.isArrive, List.filter] at h

-- names are free again ---------------------------------------------------------------------------------------------------------------

/-- after a socket's command loop has ended none of its inproc names is registered any more, whatever else happened:
the name can be bound again -/
theorem names_are_released (evs : List RegEv) (s : Nat) (n : String) (h : RegEv.loopExit s ∈ evs)
    (hlast : ∀ pre post, evs = pre ++ [RegEv.loopExit s] ++ post → RegEv.register s ∉ post) :
    (n, s) ∉ (Registry.run {} evs).inproc := by
  obtain ⟨pre, post, rfl⟩ := List.append_of_mem h
  have hpost := hlast pre post (by simp)
  have := Registry.gone_after_loopExit {} pre post s hpost
  simpa using this.2 n

end Rzmq.C16
