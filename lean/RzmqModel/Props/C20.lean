import RzmqModel.Model.Pool
import RzmqModel.Props.C04
import RzmqModel.Proofs.Pool
import RzmqModel.Model.Tracker
import RzmqModel.Proofs.Tracker
/-!
# C20 — the io_uring backend is observably equivalent to the Tokio backend

Both backends drive the same sans-IO engine; what differs between them at the engine's boundary is how the peer's byte
stream is cut into reads (sizes of the provided receive buffers, multishot vs. single receives) and when.  C04 proves the
engine's whole output insensitive to exactly that, which gives the equivalence of everything the engine decides: handshake
outcome, delivered messages and their order, errors.  The backend's own bookkeeping that could exhaust a shared resource is
the send-buffer pool.
-/
namespace Rzmq.C20
open Rzmq

/-- Equivalence at the engine boundary: whatever two backends do with the same peer byte stream — any two segmentations,
any two timings of the reads — the engine ends in the same state and emits the same network and application actions
(handshake outcome, delivered messages in order, errors).  (Corollary of C04.) -/
theorem backends_agree_on_any_stream (spec : AbsSpec) (cfg : Cfg) (hw : WellBehaved spec)
    (readsA readsB : List (Nat × Bytes))
    (hsame : (readsA.map (·.2)).flatten = (readsB.map (·.2)).flatten) :
    ((feedAll spec cfg Eng.init readsA).1.eraseClock = (feedAll spec cfg Eng.init readsB).1.eraseClock)
    ∧ (feedAll spec cfg Eng.init readsA).2 = (feedAll spec cfg Eng.init readsB).2 := by
  have hprod : ∀ k h n, Eng.init.mech = .abs k h n → n ≤ 8 := by intro k h n hm; cases hm
  have hA := C04.engine_outputs_clock_independent spec hw cfg 0 Eng.init (C04.quiescent_init spec cfg) hprod readsA
  have hB := C04.engine_outputs_clock_independent spec hw cfg 0 Eng.init (C04.quiescent_init spec cfg) hprod readsB
  exact ⟨by rw [hA.2, hB.2, hsame], by rw [hA.1, hB.1, hsame]⟩

-- the send-buffer pool -------------------------------------------------------------------------------------------------

/-- every history of acquires, leases, hand-overs, lease drops and releases (in any order, including releases of buffers
that are not in use, double releases and unknown ids) keeps the bookkeeping consistent -/
theorem pool_always_consistent (count cap : Nat) (evs : List PoolEv) :
    (Pool.run (Pool.new count cap) evs).Consistent := by
  exact (Pool.reachable_inv count cap evs).1

/-- no buffer is ever handed out while it is still in use: an id that is handed out was free, and is marked in use afterwards -/
theorem pool_hands_out_only_free_buffers (count cap : Nat) (evs : List PoolEv) (e : PoolEv) (id : Nat)
    (h : ((Pool.run (Pool.new count cap) evs).step e).2 = some id) :
    id ∈ (Pool.run (Pool.new count cap) evs).free
    ∧ ((Pool.run (Pool.new count cap) evs).step e).1.used[id]? = some true
    ∧ id ∉ ((Pool.run (Pool.new count cap) evs).step e).1.free := by
  exact Pool.step_some (Pool.reachable_inv count cap evs).1 h

/-- buffers are always given back: once every buffer that was handed out has been released (by the kernel notification or
by the drop of a lease that never reached the worker), the whole pool is free again — sustained traffic and churn cannot
exhaust it -/
theorem pool_never_leaks (count cap : Nat) (evs : List PoolEv)
    (hall : ∀ id, id < count → (Pool.run (Pool.new count cap) evs).used[id]? = some false) :
    (Pool.run (Pool.new count cap) evs).free.length = (Pool.new count cap).used.length := by
  have hlen := Pool.run_used_length (Pool.new count cap) evs
  rw [← hlen]
  refine ConsL.length_free_of_all_unused (Pool.reachable_inv count cap evs).1 fun id hid => hall id ?_
  exact Nat.lt_of_lt_of_le (hlen ▸ hid) (Pool.new_used_length_le count cap)

/-- a lease dropped before it reached the worker gives its buffer back by itself; one that was handed over does not (the
worker releases it on the kernel's notification) -/
theorem dropped_lease_returns_buffer (count cap : Nat) (evs : List PoolEv) (id : Nat)
    (h : (id, false) ∈ ((Pool.new count cap).run evs).leases)
    (huniq : ((((Pool.new count cap).run evs).leases).filter (·.1 == id)).length = 1) :
    id ∈ (((Pool.new count cap).run evs).step (.dropLease id)).1.free := by
  exact dropped_lease_returns_buffer_reachable count cap evs id h huniq

/-- … whereas a lease that was handed over only disappears: its buffer stays in use until the worker releases it -/
theorem handed_over_lease_keeps_its_buffer (p : Pool) (id : Nat) (h : (id, true) ∈ p.leases)
    (huniq : (p.leases.filter (·.1 == id)).length = 1) :
    (p.step (.dropLease id)).1 = { p with leases := p.leases.filter (·.1 != id) } := by
  exact handed_over_lease_keeps_buffer p id h huniq

/-- the zero-copy path is only taken for data that fits the buffer; otherwise the caller falls back to the copying path -/
theorem oversize_never_takes_a_buffer (p : Pool) (len : Nat) (h : p.cap < len) : p.step (.acquire len) = (p, none) := by
  have hz : ¬ len = 0 := by omega
  have hlt : ¬ len ≤ p.cap := by omega
  cases hf : p.free <;> simp [Pool.step, hf, hz, hlt]

-- the worker's table of operations in the kernel -------------------------------------------------------------------------------------

/-- the shape of the sources (re-extracted on every run) -/
theorem op_table_shape :
    Gen.uringCloseKeepsAllInflightOps = 1 ∧ Gen.uringCompletionLookupByKind = 1 ∧ Gen.uringNotificationKeepsSlot = 1
    ∧ Gen.uringOrphanCompletionGivesBufferBack = 1 := by
  decide

theorem current_table_is_the_proved_one : currentTrkCfg = { close := .keepAll, byKind := true, keepsSlot := true } := by decide


/-- whatever is submitted on whatever descriptors, whichever descriptors are closed in between, and in whatever order the
kernel posts its completions (zero-copy sends completing twice): no completion is ever processed with the entry of another
operation, and none finds its entry gone -/
theorem completions_reach_their_own_operation (evs : List TrkEv) :
    (TrkSys.run currentTrkCfg {} evs).misattributed = [] ∧ (TrkSys.run currentTrkCfg {} evs).unknown = [] := by
  rw [current_table_is_the_proved_one]
  have h := TrkSys.inv_run TrkSys.inv_init evs
  exact ⟨h.mis, h.unk⟩

/-- the buffers of every operation the kernel still holds are still owned by the table (nothing the kernel reads from or
writes to has been freed), in every reachable state -/
theorem kernel_held_buffers_stay_alive (evs : List TrkEv) :
    ∀ ko ∈ (TrkSys.run currentTrkCfg {} evs).kernel, (TrkSys.run currentTrkCfg {} evs).holds ko = true := by
  rw [current_table_is_the_proved_one]
  exact (TrkSys.inv_run TrkSys.inv_init evs).holds

/-- no two operations in the kernel share a `user_data` -/
theorem user_data_is_unique_among_kernel_held_operations (evs : List TrkEv) :
    ((TrkSys.run currentTrkCfg {} evs).kernel.map (·.key)).Nodup := by
  rw [current_table_is_the_proved_one]
  exact (TrkSys.inv_run TrkSys.inv_init evs).keys

/-- nothing leaks: once the kernel holds nothing, the table is empty -/
theorem table_empties_with_the_kernel (evs : List TrkEv) (h : (TrkSys.run currentTrkCfg {} evs).kernel = []) :
    (∀ k, (TrkSys.run currentTrkCfg {} evs).t.slabGet k = none) ∧ (TrkSys.run currentTrkCfg {} evs).t.notif = [] := by
  rw [current_table_is_the_proved_one] at h ⊢
  exact (TrkSys.inv_run TrkSys.inv_init evs).empty h

/-- after the CloseFd completion for a descriptor, no entry names that descriptor any more: the next connection that is
given the same number finds nothing of its predecessor -/
theorem closed_descriptor_is_not_named (t : Tracker) (fd : Int) (hfd : fd ≠ orphanFd) :
    (∀ k e, (t.closeFd .keepAll fd).1.slabGet k = some e → e.fd ≠ fd)
    ∧ (∀ p ∈ (t.closeFd .keepAll fd).1.notif, p.2.fd ≠ fd) := by
  exact Tracker.closeFd_keepAll_not_named t hfd

/-- … and nothing is dropped at that moment -/
theorem close_drops_nothing (t : Tracker) (fd : Int) (hfd : fd ≠ orphanFd) : (t.closeFd .keepAll fd).2 = [] := by
  exact Tracker.closeFd_keepAll_drops_nothing t hfd

/-- non-vacuity: a history with a close in the middle of everything -/
example : (TrkSys.run currentTrkCfg {} [.submit 5 .send, .submit 5 .read, .submit 5 (.zc 3), .first 2, .submit 6 (.zc 4),
    .closeFd 5, .submit 5 .vec, .final 2, .final 1, .final 0]).kernel.map (·.op.kind) = [.zc 4, .vec] := by decide

/-- the first earlier shape (everything tracked for the descriptor was dropped at CloseFd): the send is still in the kernel,
its buffers are gone -/
theorem dropping_at_close_frees_inflight_buffers :
    let s := TrkSys.run { close := .dropAll, byKind := true, keepsSlot := true } {} [.submit 5 .send, .closeFd 5]
    s.kernel.length = 1 ∧ s.kernel.all (fun ko => !s.holds ko) = true := by
  decide

/-- the second earlier shape (only sends were kept): the key of a forgotten read is given to a new send, and the read's late
completion is processed with the send's entry - whose buffers are then freed while the kernel still reads them -/
theorem keeping_only_sends_misattributes :
    let s := TrkSys.run { close := .keepSends, byKind := true, keepsSlot := true } {} [.submit 5 .read, .closeFd 5, .submit 6 .send, .final 0]
    s.misattributed ≠ [] ∧ s.kernel.all (fun ko => !s.holds ko) = true ∧ s.kernel.length = 1 := by
  decide

/-- the earlier lookup (slab first, whatever the completion is): the notification of a zero-copy send whose key has been
reused releases the buffer of the NEW send -/
theorem slab_first_lookup_misattributes_notifications :
    (TrkSys.run { close := .keepAll, byKind := false, keepsSlot := false } {} [.submit 5 (.zc 3), .first 0, .submit 6 (.zc 4), .final 0]).misattributed ≠ [] := by
  decide

/-- … and looking a notification up where notifications wait was not enough while a send's slab key was vacated at its first
completion: the next zero-copy send is given the same `user_data`, its entry REPLACES the one still waiting, and the first
send's registered buffer is no longer owned by anybody although the kernel still uses it (found by the proof attempt) -/
theorem vacated_slot_lets_two_sends_share_a_user_data :
    let s := TrkSys.run { close := .keepAll, byKind := true, keepsSlot := false } {} [.submit 5 (.zc 3), .first 0, .submit 5 (.zc 4), .first 1]
    s.kernel.map (·.key) = [0, 0] ∧ s.kernel.any (fun ko => !s.holds ko) = true := by
  decide

-- the handler closes what it has to, once, and only its own connection --------------------------------------------------------------------

/-- the shape of the io_uring handler's close paths (re-extracted on every run): one RequestClose per descriptor, timers
polled, the socket shut down before the Close operation, shutdown requests name their connection -/
theorem handler_close_shape :
    Gen.uringOneCloseRequestPerDescriptor = 1 ∧ Gen.uringHandlerPollsTimers = 1 ∧ Gen.uringCloseShutsTheSocketDown = 1
    ∧ Gen.uringShutdownRequestNamesItsConnection = 1 := by
  decide

/-- however descriptor numbers are reused and however late a shutdown request arrives: no connection is ever shut down by a
request that was issued for another one -/
theorem shutdown_requests_hit_only_their_connection (evs : List FdEv) :
    (FdTable.run (Gen.uringShutdownRequestNamesItsConnection == 1) {} evs).wronglyClosed = [] := by
  have hg : (Gen.uringShutdownRequestNamesItsConnection == 1) = true := by decide
  rw [hg]
  suffices h : ∀ (t : FdTable), t.wronglyClosed = [] → (FdTable.run true t evs).wronglyClosed = [] from h {} rfl
  induction evs with
  | nil => intro t h; exact h
  | cons e es ih =>
    intro t h
    apply ih
    cases e with
    | registered fd => simp only [FdTable.step]; split <;> simp [h]
    | closed fd => simp [FdTable.step, h]
    | shutdownRequest fd tok =>
      simp only [FdTable.step]
      split
      · exact h
      · rename_i cur hc
        by_cases hne : cur = tok
        · simp [hne, h]
        · simp [hne, h]

/-- the earlier shape (the request named only the descriptor number): the connection that was given the number of a closed
one is shut down by the late request of its predecessor - a fresh connection that never carries data -/
theorem unnamed_shutdown_request_hits_the_next_connection :
    (FdTable.run false {} [.registered 5, .closed 5, .registered 5, .shutdownRequest 5 1]).wronglyClosed = [2] := by
  decide

end Rzmq.C20
