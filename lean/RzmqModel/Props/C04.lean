import RzmqModel.Model.Engine
import RzmqModel.Proofs.EngineRun
/-!
# C04 — what a connection delivers depends on the bytes sent, not on read boundaries (engine level)

`onNetworkBytes` is the model of `ZmtpEngine::on_network_bytes`; `feedAll` feeds a list of reads.
-/
namespace Rzmq.C04
open Rzmq

/-- the engine is quiescent before the first read … -/
theorem quiescent_init (spec : AbsSpec) (cfg : Cfg) : Quiescent spec cfg Eng.init := by
  exact quiescent_init'

/-- … and after every read (given the token bound of the mechanism): `run` stops because nothing is
enabled, never because the fuel ran out. -/
theorem quiescent_after (spec : AbsSpec) (hw : WellBehaved spec) (cfg : Cfg) (t : Nat) (s : Eng) (d : Bytes)
    (hprod : ∀ k h n, s.mech = .abs k h n → n ≤ 8) :
    Quiescent spec cfg (onNetworkBytes spec cfg t s d).1 := by
  exact quiescent_onNetworkBytes hw t s d

/-- Cut independence, same clock: feeding the reads one by one is *identical* (final state and the whole
sequence of net and app actions) to feeding their concatenation in a single read. -/
theorem engine_cut_independent (spec : AbsSpec) (hw : WellBehaved spec) (cfg : Cfg) (t : Nat) (s : Eng)
    (hq : Quiescent spec cfg s) (hprod : ∀ k h n, s.mech = .abs k h n → n ≤ 8) (chunks : List Bytes) :
    feedAll spec cfg s (chunks.map fun c => (t, c)) = onNetworkBytes spec cfg t s chunks.flatten := by
  exact feedAll_same_clock hw t chunks s hq

/-- The actions do not depend on *when* the reads happen either: with arbitrary time stamps the outputs are
those of the single read, and the final states agree up to the activity clock. -/
theorem engine_outputs_clock_independent (spec : AbsSpec) (hw : WellBehaved spec) (cfg : Cfg) (t : Nat) (s : Eng)
    (hq : Quiescent spec cfg s) (hprod : ∀ k h n, s.mech = .abs k h n → n ≤ 8) (reads : List (Nat × Bytes)) :
    (feedAll spec cfg s reads).2 = (onNetworkBytes spec cfg t s (reads.map (·.2)).flatten).2
    ∧ (feedAll spec cfg s reads).1.eraseClock
        = (onNetworkBytes spec cfg t s (reads.map (·.2)).flatten).1.eraseClock := by
  have h := feedAll_eraseP hw t hq reads
  simp only [eraseP, Prod.mk.injEq] at h
  exact ⟨h.2, h.1⟩

/-- In particular the delivered messages (and handshake completion / errors) are a function of the byte
stream alone — data arriving in the same read as the last handshake bytes is delivered. -/
theorem deliveries_depend_on_bytes_only (spec : AbsSpec) (hw : WellBehaved spec) (cfg : Cfg)
    (r1 r2 : List (Nat × Bytes)) (h : (r1.map (·.2)).flatten = (r2.map (·.2)).flatten) :
    (feedAll spec cfg Eng.init r1).2.app = (feedAll spec cfg Eng.init r2).2.app := by
  have h1 := feedAll_eraseP (cfg := cfg) hw 0 quiescent_init' r1
  have h2 := feedAll_eraseP (cfg := cfg) hw 0 quiescent_init' r2
  simp only [eraseP, Prod.mk.injEq] at h1 h2
  rw [h1.2, h2.2, h]

end Rzmq.C04
