import RzmqModel.Model.Routing
import RzmqModel.Proofs.Trie
/-!
# C12 — SUB delivers exactly the messages its current subscriptions match (matcher: full strength)

`Trie` models `SubscriptionTrie`; `absCount p h` is the multiplicity of topic `p` in the abstract multiset of
active subscriptions after the call history `h` (subscribe adds one, unsubscribe removes one if present).
-/
namespace Rzmq.C12
open Rzmq

def trieAfter (h : List SubOp) : Trie := h.foldl Trie.apply Trie.empty

theorem countAt_subscribe (p q : List UInt8) (t : Trie) :
    (t.subscribe p).countAt q = t.countAt q + (if p = q then 1 else 0) := by
  exact Rzmq.countAt_subscribe p q t

theorem countAt_unsubscribe (p q : List UInt8) (t : Trie) :
    (t.unsubscribe p).1.countAt q = t.countAt q - (if p = q then 1 else 0) := by
  exact Rzmq.countAt_unsubscribe p q t

/-- `unsubscribe` returns true exactly when the last subscription of that topic was removed -/
theorem unsubscribe_result (p : List UInt8) (t : Trie) :
    (t.unsubscribe p).2 = decide (t.countAt p = 1) := by
  exact Rzmq.unsubscribe_result p t

/-- the matcher: some subscription stored in the trie is a byte-prefix of the message topic -/
theorem matches_iff (msg : List UInt8) (t : Trie) :
    t.matches msg = true ↔ ∃ p, p <+: msg ∧ 0 < t.countAt p := by
  exact Rzmq.matches_iff msg t

/-- Refinement: after ANY history of subscribe/unsubscribe calls over arbitrary byte strings, the count stored
at a topic is its multiplicity in the abstract multiset (N subscribes need N unsubscribes; unsubscribing an
absent topic is a no-op). -/
theorem trie_refines_multiset (h : List SubOp) (p : List UInt8) :
    (trieAfter h).countAt p = absCount p h := by
  unfold trieAfter absCount
  rw [foldl_apply_countAt, countAt_empty]

/-- A message is delivered iff some *currently active* subscription is a byte-prefix of its first frame. -/
theorem sub_delivers_iff (h : List SubOp) (msg : List UInt8) :
    (trieAfter h).matches msg = true ↔ ∃ p, p <+: msg ∧ 0 < absCount p h := by
  rw [matches_iff]
  constructor
  · rintro ⟨p, hp, hc⟩
    exact ⟨p, hp, by rwa [trie_refines_multiset] at hc⟩
  · rintro ⟨p, hp, hc⟩
    exact ⟨p, hp, by rwa [trie_refines_multiset]⟩

/-- subscribe followed by unsubscribe of the same topic is observationally the identity, on ANY trie (not only reachable
ones): every count and therefore every match decision is what it was -/
theorem subscribe_unsubscribe_restores (p : List UInt8) (t : Trie) (msg : List UInt8) :
    ((t.subscribe p).unsubscribe p).1.matches msg = t.matches msg := by
  rw [Bool.eq_iff_iff, matches_iff, matches_iff]
  have key : ∀ q, ((t.subscribe p).unsubscribe p).1.countAt q = t.countAt q := by
    intro q
    rw [countAt_unsubscribe, countAt_subscribe]
    split <;> omega
  constructor
  · rintro ⟨q, hq, hc⟩; exact ⟨q, hq, by rwa [key] at hc⟩
  · rintro ⟨q, hq, hc⟩; exact ⟨q, hq, by rwa [key]⟩

/-- what a SUB socket receives depends only on the multiset of active subscriptions, not on the order or the detours of the
history that produced it: two histories with the same multiplicities match exactly the same messages -/
theorem delivery_depends_only_on_the_multiset (h₁ h₂ : List SubOp) (heq : ∀ p, absCount p h₁ = absCount p h₂)
    (msg : List UInt8) : (trieAfter h₁).matches msg = (trieAfter h₂).matches msg := by
  rw [Bool.eq_iff_iff, sub_delivers_iff, sub_delivers_iff]
  constructor
  · rintro ⟨q, hq, hc⟩; exact ⟨q, hq, by rwa [heq] at hc⟩
  · rintro ⟨q, hq, hc⟩; exact ⟨q, hq, by rwa [heq]⟩

/-- the empty subscription matches everything -/
theorem empty_subscription_matches_all (h : List SubOp) (hp : 0 < absCount [] h) (msg : List UInt8) :
    (trieAfter h).matches msg = true := by
  rw [sub_delivers_iff]
  exact ⟨[], List.nil_prefix, hp⟩

/-- unsubscribing something that is not subscribed changes nothing observable -/
theorem unsubscribe_absent_noop (h : List SubOp) (p : List UInt8) (hp : absCount p h = 0) (msg : List UInt8) :
    (trieAfter (h ++ [.unsub p])).matches msg = (trieAfter h).matches msg := by
  rw [Bool.eq_iff_iff, sub_delivers_iff, sub_delivers_iff]
  have key : ∀ q, absCount q (h ++ [.unsub p]) = absCount q h := by
    intro q
    rw [← trie_refines_multiset, ← trie_refines_multiset]
    unfold trieAfter
    rw [List.foldl_append, List.foldl_cons, List.foldl_nil]
    simp only [Trie.apply]
    rw [countAt_unsubscribe]
    split
    next hpq =>
      subst hpq
      have : (List.foldl Trie.apply Trie.empty h).countAt p = 0 := by
        rw [← hp, ← trie_refines_multiset]; rfl
      omega
    · rfl
  simp only [key]

/-- `get_all_topics` lists exactly the active topics, each once -/
theorem topics_iff (h : List SubOp) (p : List UInt8) :
    p ∈ (trieAfter h).topics ↔ 0 < absCount p h := by
  have hwf : (trieAfter h).wf = true := wf_foldl h _ wf_empty
  rw [mem_topics_iff p _ hwf, trie_refines_multiset]

theorem topics_nodup (h : List SubOp) : (trieAfter h).topics.Nodup := by
  exact topics_nodup_of_wf _ (wf_foldl h _ wf_empty)

-- non-vacuity: the abstract spec on a concrete history
example : absCount [1, 2] [.sub [1, 2], .sub [1, 2], .unsub [1, 2], .unsub [9]] = 1 := by decide

end Rzmq.C12
