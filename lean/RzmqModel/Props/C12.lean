import RzmqModel.Model.Routing
import RzmqModel.Proofs.Trie
/-!
# C12 — SUB delivers exactly the messages its current subscriptions match (matcher: full strength)

`Trie` models `SubscriptionTrie`; `absCount p h` is the multiplicity of topic `p` in the abstract multiset of
active subscriptions after the call history `h` (subscribe adds one, unsubscribe removes one if present).
-/
namespace Rzmq.C12
open Rzmq

def trieAfter (h : List SubOp) : Trie := h.foldl Trie.apply Trie.empty

theorem countAt_subscribe (p q : List UInt8) (t : Trie) :
    (t.subscribe p).countAt q = t.countAt q + (if p = q then 1 else 0) := by
  sorry

theorem countAt_unsubscribe (p q : List UInt8) (t : Trie) :
    (t.unsubscribe p).1.countAt q = t.countAt q - (if p = q then 1 else 0) := by
  sorry

/-- `unsubscribe` returns true exactly when the last subscription of that topic was removed -/
theorem unsubscribe_result (p : List UInt8) (t : Trie) :
    (t.unsubscribe p).2 = decide (t.countAt p = 1) := by
  sorry

/-- the matcher: some subscription stored in the trie is a byte-prefix of the message topic -/
theorem matches_iff (msg : List UInt8) (t : Trie) :
    t.matches msg = true ↔ ∃ p, p <+: msg ∧ 0 < t.countAt p := by
  sorry

/-- Refinement: after ANY history of subscribe/unsubscribe calls over arbitrary byte strings, the count stored
at a topic is its multiplicity in the abstract multiset (N subscribes need N unsubscribes; unsubscribing an
absent topic is a no-op). -/
theorem trie_refines_multiset (h : List SubOp) (p : List UInt8) :
    (trieAfter h).countAt p = absCount p h := by
  sorry

/-- A message is delivered iff some *currently active* subscription is a byte-prefix of its first frame. -/
theorem sub_delivers_iff (h : List SubOp) (msg : List UInt8) :
    (trieAfter h).matches msg = true ↔ ∃ p, p <+: msg ∧ 0 < absCount p h := by
  sorry

/-- the empty subscription matches everything -/
theorem empty_subscription_matches_all (h : List SubOp) (hp : 0 < absCount [] h) (msg : List UInt8) :
    (trieAfter h).matches msg = true := by
  sorry

/-- unsubscribing something that is not subscribed changes nothing observable -/
theorem unsubscribe_absent_noop (h : List SubOp) (p : List UInt8) (hp : absCount p h = 0) (msg : List UInt8) :
    (trieAfter (h ++ [.unsub p])).matches msg = (trieAfter h).matches msg := by
  sorry

/-- `get_all_topics` lists exactly the active topics, each once -/
theorem topics_iff (h : List SubOp) (p : List UInt8) :
    p ∈ (trieAfter h).topics ↔ 0 < absCount p h := by
  sorry

theorem topics_nodup (h : List SubOp) : (trieAfter h).topics.Nodup := by
  sorry

-- non-vacuity: the abstract spec on a concrete history
example : absCount [1, 2] [.sub [1, 2], .sub [1, 2], .unsub [1, 2], .unsub [9]] = 1 := by decide

end Rzmq.C12
