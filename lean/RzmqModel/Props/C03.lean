import RzmqModel.Model.Wire
import RzmqModel.Proofs.Wire
/-!
# C03 — ZMTP framing round-trips and is independent of how the stream is cut

Property theorems only (helper lemmas live in `Proofs/Wire.lean`).  Every statement is about the
definitions in `Model/Wire.lean`, which are written in terms of the constants re-extracted from the
Rust source on every run (`Gen/Consts.lean`) and are executed against the real encoders/decoders by
`corr wire`.
-/
namespace Rzmq.C03
open Rzmq

/-- The only well-formedness guard: a payload length fits the 64-bit length field (true of every
in-memory buffer on a 64-bit machine). -/
def FrameOk (f : Frame) : Prop := f.payload.length < two64

/-- `max_msg_size` admits the frame (`-1` = unlimited, otherwise `len ≤ max`). -/
def Admits (max : Int) (f : Frame) : Prop := max < 0 ∨ f.payload.length ≤ max.toNat

-- header shape ---------------------------------------------------------------------------------

/-- 0..255 bytes: 2-byte header `[flags, len]`, flags = MORE(1) | COMMAND(4). -/
theorem header_shape_short (f : Frame) (h : f.payload.length ≤ 255) :
    encodeCodec f =
      [(if f.more then 1 else 0) ||| (if f.command then 4 else 0), UInt8.ofNat f.payload.length]
        ++ f.payload := by
  have h' : f.payload.length ≤ Gen.codecEncodeShortMax := by
    simp only [Gen.codecEncodeShortMax]; exact h
  simp only [encodeCodec, header, if_pos h', flagBits, Gen.ZMTP_FLAG_MORE, Gen.ZMTP_FLAG_COMMAND]

/-- ≥ 256 bytes: 9-byte header `[flags | LONG(2), big-endian 64-bit length]`. -/
theorem header_shape_long (f : Frame) (h : 255 < f.payload.length) :
    encodeCodec f =
      (((if f.more then 1 else 0) ||| (if f.command then 4 else 0) ||| 2) :: be64 f.payload.length)
        ++ f.payload := by
  have h' : ¬ f.payload.length ≤ Gen.codecEncodeShortMax := by
    simp only [Gen.codecEncodeShortMax]; omega
  simp only [encodeCodec, header, if_neg h', flagBits, Gen.ZMTP_FLAG_MORE, Gen.ZMTP_FLAG_COMMAND,
    Gen.ZMTP_FLAG_LONG]

/-- the length field is a faithful big-endian 64-bit integer -/
theorem ofBe_be64 (n : Nat) (h : n < two64) : ofBe (be64 n) = n := by
  exact ofBe_be64' n h

theorem be64_length (n : Nat) : (be64 n).length = 8 := by
  rfl

-- all encoders produce the same bytes ------------------------------------------------------------

theorem contig_eq_codec (f : Frame) : contigFrame f = encodeCodec f := by
  simp only [contigFrame, encodeCodec, Gen.contigShortMax, Gen.codecEncodeShortMax, Gen.contigMore,
    Gen.contigCommand, Gen.contigLong, Gen.ZMTP_FLAG_MORE, Gen.ZMTP_FLAG_COMMAND, Gen.ZMTP_FLAG_LONG]

theorem hdronly_eq_codec (f : Frame) : encodeHeaderOnly f ++ f.payload = encodeCodec f := by
  simp only [encodeHeaderOnly, encodeCodec, Gen.hdrOnlyShortMax, Gen.codecEncodeShortMax]

theorem split_eq_codec (f : Frame) :
    (writeMsgSplit f).1 ++ ((writeMsgSplit f).2.getD []) = encodeCodec f
    ∧ (writeMsgSplit f).2 = some f.payload := by
  refine ⟨?_, rfl⟩
  exact split_eq_codec' f

theorem frameContiguous_eq (batch : List Message) :
    frameContiguous batch = (batch.flatten.map encodeCodec).flatten := by
  have h : contigFrame = encodeCodec := funext contig_eq_codec
  rw [frameContiguous, h]

/-- the scatter/gather encoder emits the same byte stream as the contiguous one, for every batch
(COMMAND frames included) -/
theorem frameVectored_eq (batch : List Message) :
    (frameVectored batch).flatten = frameContiguous batch := by
  exact frameVectored_flatten batch

-- decode ∘ encode = id, for every decoder --------------------------------------------------------

/-- the live decoder reads back exactly the frame that was encoded, whatever follows it -/
theorem decodeBuffer_encode (max : Int) (f : Frame) (rest : List UInt8)
    (hok : FrameOk f) (hmax : Admits max f) :
    decodeBuffer max (encodeCodec f ++ rest) = .frame f rest := by
  exact decodeBuffer_encode' max f rest hok hmax

/-- the encoding is injective and prefix-free: if the bytes of one frame followed by anything equal the bytes of another
frame followed by anything, the frames and the remainders are the same — no frame's encoding is a proper prefix of
another's, so a byte stream has at most one reading -/
theorem encoding_is_prefix_free (f g : Frame) (r₁ r₂ : List UInt8) (hf : FrameOk f) (hg : FrameOk g)
    (h : encodeCodec f ++ r₁ = encodeCodec g ++ r₂) : f = g ∧ r₁ = r₂ := by
  have h1 := decodeBuffer_encode (-1) f r₁ hf (Or.inl (by decide))
  have h2 := decodeBuffer_encode (-1) g r₂ hg (Or.inl (by decide))
  rw [h, h2] at h1
  injection h1 with h3 h4
  exact ⟨h3.symm, h4.symm⟩

/-- wire size of a frame: payload plus 2 bytes of header up to 255 bytes, plus 9 above -/
theorem encoded_length (f : Frame) :
    (encodeCodec f).length = f.payload.length + (if f.payload.length ≤ 255 then 2 else 9) := by
  by_cases h : f.payload.length ≤ 255
  · rw [header_shape_short f h, if_pos h]; simp
  · rw [header_shape_long f (by omega), if_neg h]; simp [be64_length]; omega

theorem decodeSlice_encode (max : Int) (f : Frame) (rest : List UInt8)
    (hok : f.payload.length + 9 < two64) (hmax : Admits max f) :
    decodeSlice max (encodeCodec f ++ rest) = .frame f rest := by
  simp only [decodeSlice, Gen.sliceMinLen, Gen.sliceLongHdr, Gen.sliceShortHdr]
  exact decodeSliceLike_encode' max f rest hok hmax

theorem decodeBytes_encode (max : Int) (f : Frame) (rest : List UInt8)
    (hok : f.payload.length + 9 < two64) (hmax : Admits max f) :
    decodeBytes max (encodeCodec f ++ rest) = .frame f rest := by
  simp only [decodeBytes, Gen.bytesMinLen, Gen.bytesLongHdr, Gen.bytesShortHdr]
  exact decodeSliceLike_encode' max f rest hok hmax

/-- the length peek announces exactly the encoded size, from the header alone -/
theorem peek_encode (max : Int) (f : Frame) (rest : List UInt8)
    (hok : f.payload.length + 9 < two64) (hmax : Admits max f) :
    peekFrameLen max (encodeCodec f ++ rest) = .total (encodeCodec f).length := by
  exact peek_encode' max f rest hok hmax

/-- whole streams: any frame sequence written by any encoder decodes to itself, nothing left over -/
theorem decodeAll_encode (max : Int) (fs : List Frame)
    (hok : ∀ f ∈ fs, FrameOk f) (hmax : ∀ f ∈ fs, Admits max f) :
    decodeAll max (fs.map encodeCodec).flatten = (fs, .more, []) := by
  induction fs with
  | nil => exact decodeAll_needMore rfl
  | cons f fs ih =>
    have h1 := decodeBuffer_encode max f (fs.map encodeCodec).flatten
      (hok f (List.mem_cons_self ..)) (hmax f (List.mem_cons_self ..))
    have h2 := ih (fun g hg => hok g (List.mem_cons_of_mem _ hg))
      (fun g hg => hmax g (List.mem_cons_of_mem _ hg))
    simp only [List.map_cons, List.flatten_cons]
    rw [decodeAll_frame h1, h2]

/-- one `decode` call of the tokio codec on an encoded frame (within the codec's 64 MiB cap) -/
theorem codec_encode (f : Frame) (rest : List UInt8) (hcap : f.payload.length ≤ Gen.CODEC_MAX_FRAME_SIZE) :
    codecDecodeOne .readHeader (encodeCodec f ++ rest) = (some f, false, .readHeader, rest) := by
  exact codec_encode' f rest hcap

-- independence of the segmentation -----------------------------------------------------------------

/-- Feeding the live decoder a byte stream in *any* segmentation delivers the same frames as feeding it
all at once, ends "closed by a protocol error" in exactly the same cases, and otherwise holds the same
undecoded remainder. -/
theorem cut_independent (max : Int) (chunks : List (List UInt8)) :
    (feedChunks max {} chunks).2 = (feed max {} chunks.flatten).2
    ∧ (feedChunks max {} chunks).1.closed = (feed max {} chunks.flatten).1.closed
    ∧ ((feedChunks max {} chunks).1.closed = false →
        (feedChunks max {} chunks).1.acc = (feed max {} chunks.flatten).1.acc) := by
  exact feedChunks_spec max chunks {} rfl rfl

/-- What is delivered from a prefix of a stream is a prefix of what is delivered from the whole stream:
no read boundary (or truncation) ever produces a frame that the full stream would not. -/
theorem decode_prefix_monotone (max : Int) (a b : List UInt8) :
    (decodeAll max a).1 <+: (decodeAll max (a ++ b)).1 := by
  obtain ⟨hm, he, hp, -⟩ := decodeAll_append max a b
  cases hst : (decodeAll max a).2.1 with
  | more => rw [hm hst]; exact List.prefix_append _ _
  | err => rw [he hst]; exact List.prefix_refl _
  | panic => exact absurd hst hp

/-- same for the tokio codec, including a primed prefix: the frames depend only on `pfx ++ bytes` -/
theorem codec_cut_independent (pfx : List UInt8) (chunks : List (List UInt8)) (hne : chunks ≠ []) :
    (codecFeedChunks { pfx := pfx } chunks).2 = (codecFeed {} (pfx ++ chunks.flatten)).2 := by
  rw [codecFeedChunks_spec chunks { pfx := pfx } hne rfl trivial, codecFeed_eq {} _ rfl]
  simp only [List.append_nil, List.nil_append]

/-- round trip through any segmentation (corollary used by C01/C04) -/
theorem roundtrip_any_cuts (max : Int) (fs : List Frame) (chunks : List (List UInt8))
    (hok : ∀ f ∈ fs, FrameOk f) (hmax : ∀ f ∈ fs, Admits max f)
    (hc : chunks.flatten = (fs.map encodeCodec).flatten) :
    (feedChunks max {} chunks).2 = fs := by
  rw [(cut_independent max chunks).1, hc]
  simp only [feed, Bool.false_eq_true, if_false, List.nil_append, decodeAll_encode max fs hok hmax]

-- non-vacuity ---------------------------------------------------------------------------------------

example : FrameOk { payload := [1, 2, 3], more := true, command := false }
    ∧ Admits 3 { payload := [1, 2, 3], more := true, command := false } := by
  constructor
  · unfold FrameOk; decide
  · right; decide

end Rzmq.C03
