import RzmqModel.Model.Engine
import RzmqModel.Proofs.EngineHb
/-!
# C19 — heartbeats detect dead peers and never kill live ones (engine level; time = `Nat` ms)

`onTick` models `ZmtpEngine::on_tick(now)`; inbound traffic is `step` in the `data` phase.
-/
namespace Rzmq.C19
open Rzmq

def pingAct (cfg : Cfg) : NetAct :=
  sendAct (pingBytes (match cfg.heartbeatTimeout with | some t => min t 65535 | none => 0))

/-- exact characterisation of when a tick sends a PING -/
theorem tick_pings_iff (cfg : Cfg) (now : Nat) (s : Eng) :
    (onTick cfg now s).2.net = [pingAct cfg] ↔
      (s.phase = .data ∧ s.version ≠ some .v2 ∧ s.waitingForPong = false
        ∧ ∃ ivl, cfg.heartbeatIvl = some ivl ∧ ivl ≤ now - s.lastActivity) := by
  unfold onTick pingAct
  cases hto : cfg.heartbeatTimeout <;> cases hlp : s.lastPing <;> cases hiv : cfg.heartbeatIvl <;>
    cases hw : s.waitingForPong <;> simp only [] <;> repeat' split
  all_goals simp_all

/-- a tick never sends anything but that one PING -/
theorem tick_net_only_ping (cfg : Cfg) (now : Nat) (s : Eng) :
    (onTick cfg now s).2.net = [] ∨ (onTick cfg now s).2.net = [pingAct cfg] := by
  unfold onTick pingAct
  cases hto : cfg.heartbeatTimeout <;> cases hlp : s.lastPing <;> cases hiv : cfg.heartbeatIvl <;>
    cases hw : s.waitingForPong <;> simp only [] <;> repeat' split
  all_goals simp_all

/-- not early: a PING is sent only when at least HEARTBEAT_IVL has passed since the last activity -/
theorem ping_not_early (cfg : Cfg) (now : Nat) (s : Eng) (ivl : Nat) (hi : cfg.heartbeatIvl = some ivl)
    (h : (onTick cfg now s).2.net ≠ []) : ivl ≤ now - s.lastActivity := by
  revert h
  unfold onTick
  cases hto : cfg.heartbeatTimeout <;> cases hlp : s.lastPing <;>
    cases hw : s.waitingForPong <;> simp only [hi] <;> repeat' split
  all_goals simp_all

/-- not late: if ticks come at least every HEARTBEAT_IVL (the actor's interval timer), the first tick at or
after `lastActivity + ivl` sends the PING, and it happens before `lastActivity + 2·ivl`. -/
theorem ping_not_late (cfg : Cfg) (s : Eng) (ivl t0 t1 : Nat) (hi : cfg.heartbeatIvl = some ivl)
    (hd : s.phase = .data) (hv : s.version ≠ some .v2) (hw : s.waitingForPong = false)
    (h0 : t0 < s.lastActivity + ivl) (hgap : t1 ≤ t0 + ivl) (hdue : s.lastActivity + ivl ≤ t1) :
    (onTick cfg t1 s).2.net = [pingAct cfg] ∧ t1 < s.lastActivity + 2 * ivl
    ∧ (onTick cfg t1 s).1.waitingForPong = true ∧ (onTick cfg t1 s).1.lastPing = some t1 := by
  have h1 : ivl ≤ t1 - s.lastActivity := by omega
  have h2 : t1 < s.lastActivity + 2 * ivl := by omega
  unfold onTick pingAct
  cases hto : cfg.heartbeatTimeout <;> cases hlp : s.lastPing <;> simp [hi, hd, hv, hw, h1, h2]

/-- dead peer: no PONG within HEARTBEAT_TIMEOUT of the PING ⇒ the first tick at/after the deadline closes
the connection with a timeout error -/
theorem dead_peer_closed (cfg : Cfg) (s : Eng) (now p tmo : Nat) (ht : cfg.heartbeatTimeout = some tmo)
    (hd : s.phase = .data) (hv : s.version ≠ some .v2) (hw : s.waitingForPong = true)
    (hp : s.lastPing = some p) (hdl : p + tmo ≤ now) :
    (onTick cfg now s).2.app = [.peerError .timeout] ∧ (onTick cfg now s).1.phase = .closed := by
  have h1 : tmo ≤ now - p := by omega
  unfold onTick
  simp [ht, hd, hv, hw, hp, h1]

/-- a tick raises the heartbeat timeout only if a PING is outstanding and its deadline has passed -/
theorem timeout_only_after_deadline (cfg : Cfg) (s : Eng) (now : Nat)
    (hmono : ∀ p, s.lastPing = some p → p ≤ now)
    (h : (onTick cfg now s).2.app ≠ []) :
    s.waitingForPong = true ∧ ∃ p tmo, s.lastPing = some p ∧ cfg.heartbeatTimeout = some tmo ∧ p + tmo ≤ now := by
  revert h
  unfold onTick
  cases hto : cfg.heartbeatTimeout <;> cases hlp : s.lastPing <;> cases hiv : cfg.heartbeatIvl <;>
    cases hw : s.waitingForPong <;> simp only [] <;> repeat' split
  all_goals simp_all
  all_goals omega

/-- live peer: *any* frame received in the data phase (a PONG, another command, or application data) clears
the outstanding PING and refreshes the activity clock -/
theorem traffic_keeps_alive (spec : AbsSpec) (cfg : Cfg) (now : Nat) (s s' : Eng) (o : Out)
    (hd : s.phase = .data) (h : step spec cfg now s = some (s', o)) (hd' : s'.phase = .data) :
    s'.waitingForPong = false ∧ s'.lastActivity = now := by
  exact step_data_refreshes spec cfg now s s' o hd h hd'

/-- hence a peer that answers (or keeps sending) before each deadline is never disconnected by a tick:
after inbound traffic at time `r`, no tick before `r + ivl` pings and no tick at all times out until a new
PING has gone unanswered for the full timeout -/
theorem answering_peer_survives (spec : AbsSpec) (cfg : Cfg) (r now : Nat) (s s' : Eng) (o : Out)
    (hd : s.phase = .data) (h : step spec cfg r s = some (s', o)) (hd' : s'.phase = .data) :
    (onTick cfg now s').2.app = [] := by
  exact onTick_app_nil_of_not_waiting cfg now s' (step_data_refreshes spec cfg r s s' o hd h hd').1

/-- every well-formed PING is answered by exactly one PONG carrying the same context bytes … -/
theorem pong_echoes_context (spec : AbsSpec) (cfg : Cfg) (now : Nat) (s : Eng) (ttl : Nat) (ctx rest : Bytes)
    (hd : s.phase = .data) (hv : s.version ≠ some .v2) (hs : s.sealed = false) (hp : s.panicked = false)
    (hlen : (Gen.mkPing ++ be16 ttl ++ ctx).length + 9 < two64)
    (hmax : cfg.maxMsgSize < 0 ∨ (Gen.mkPing ++ be16 ttl ++ ctx).length ≤ cfg.maxMsgSize.toNat)
    (hacc : s.acc = encodeCodec (cmdFrame (Gen.mkPing ++ be16 ttl ++ ctx)) ++ rest) :
    ∃ s', step spec cfg now s = some (s', { net := [sendAct (pongBytes ctx)], app := [] })
      ∧ s'.acc = rest ∧ s'.phase = .data := by
  exact step_ping spec cfg now s ttl ctx rest hd hv hs hp hlen hmax hacc

/-- … and the PONG the engine emits parses back to that context -/
theorem pong_roundtrip (ctx : Bytes) : parseCmd (Gen.mkPong ++ ctx) = some (.pong ctx) := by
  exact parseCmd_pong ctx

/-- no heartbeat is ever sent on a ZMTP/2.0 session -/
theorem v2_never_pings (cfg : Cfg) (now : Nat) (s : Eng) (hv : s.version = some .v2) :
    onTick cfg now s = (s, {}) := by
  unfold onTick
  simp [hv]

/-- nor before the handshake has completed -/
theorem no_ping_before_data (cfg : Cfg) (now : Nat) (s : Eng) (h : s.phase ≠ .data) :
    onTick cfg now s = (s, {}) := by
  unfold onTick
  simp [h]

/-- the heartbeat commands on the wire are those of RFC 37 (ZMTP 3.1): a command body starts with the length-prefixed name,
`\x04PING` followed by a 2-byte TTL and the context (so the context starts at byte 7), `\x04PONG` followed by the context
(byte 5) — pinned independently of the source, from which the models' constants are re-extracted -/
theorem heartbeat_commands_are_rfc37 :
    Gen.mkPing = [4, 0x50, 0x49, 0x4E, 0x47] ∧ Gen.mkPong = [4, 0x50, 0x4F, 0x4E, 0x47]   -- 'P' 'I'/'O' 'N' 'G'
    ∧ Gen.cmdPing = Gen.mkPing ∧ Gen.cmdPong = Gen.mkPong
    ∧ Gen.pingContextOffset = 1 + 4 + 2 ∧ Gen.pongContextOffset = 1 + 4
    ∧ Gen.cmdPingMinLen = 7 ∧ Gen.cmdPongMinLen = 5 := by
  decide

end Rzmq.C19
