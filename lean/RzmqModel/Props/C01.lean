import RzmqModel.Model.Session
import RzmqModel.Props.C03
import RzmqModel.Proofs.Session
import RzmqModel.Proofs.Dealer
/-!
# C01 — while connected: every accepted message arrives exactly once, in order, intact

The path of a message: socket pipe → (batch assembly: carry-over / top-up / overflow) → egress buffer (chunks,
partial writes, priority PING/PONG chunks) → bytes on the wire → decoder (C03: any segmentation) → ingress buffer →
per-pipe queue → application.  `SendPath` / `RecvPath` in `Model/Session.lean` are the two session halves; the
theorems quantify over every event sequence (every interleaving of application sends, loop passes, partial writes,
control frames, reads, back-pressure stalls, cancelled sends) and every configuration.
-/
namespace Rzmq.C01
open Rzmq

/-- the structural facts re-extracted from `sessionx/actor.rs` on which the model's shape rests -/
theorem source_shape :
    Gen.topUpOnlyIfCarryEmpty = 1 ∧ Gen.pipeBranchNeedsEmptyCarry = 1 ∧ Gen.overflowGoesToCarry = 2
    ∧ Gen.carryBreakPushesFront = 1 := by
  decide

-- batch assembly -------------------------------------------------------------------------------------

/-- the carry-over pass neither loses, duplicates nor reorders: batch, then what stays in carry-over, then what
stays in the pipe is exactly carry-over followed by pipe -/
theorem assemble_carry_conserves (cfg : BatchCfg) (pending : Nat) (carry pipe : List Message) :
    let a := assembleFromCarry cfg pending carry pipe
    a.batch ++ a.carry ++ a.pipe = carry ++ pipe := by
  exact assembleFromCarry_conserves cfg pending carry pipe

theorem assemble_pipe_conserves (cfg : BatchCfg) (pending : Nat) (first : Message) (pipe : List Message) :
    let a := assembleFromPipe cfg pending first pipe
    a.batch ++ a.carry ++ a.pipe = first :: pipe := by
  exact assembleFromPipe_conserves cfg pending first pipe

/-- a pass always makes progress (the oldest message is always taken, however large) -/
theorem assemble_carry_progress (cfg : BatchCfg) (pending : Nat) (carry pipe : List Message)
    (hc : 1 ≤ cfg.count) (hne : carry ≠ []) :
    (assembleFromCarry cfg pending carry pipe).batch ≠ [] := by
  exact assembleFromCarry_progress cfg pending carry pipe hc hne

/-- batches respect the count limit and the HWM budget -/
theorem batch_count_bounded (cfg : BatchCfg) (pending : Nat) (carry pipe : List Message) (first : Message)
    (hc : 1 ≤ cfg.count) :
    (assembleFromCarry cfg pending carry pipe).batch.length ≤ maxCount cfg pending
    ∧ (assembleFromPipe cfg pending first pipe).batch.length ≤ maxCount cfg pending := by
  exact ⟨assembleFromCarry_count cfg pending carry pipe, assembleFromPipe_count cfg pending first pipe hc⟩

/-- a batch exceeds the physical byte ceiling only if it is a single message -/
theorem batch_bytes_bounded (cfg : BatchCfg) (pending : Nat) (carry pipe : List Message) :
    let b := (assembleFromCarry cfg pending carry pipe).batch
    (b.map wireSize).sum ≤ cfg.physical ∨ b.length ≤ 1 := by
  exact assembleFromCarry_bytes cfg pending carry pipe

-- egress buffer ------------------------------------------------------------------------------------

/-- a partial or complete write hands exactly the next `min n pending` buffered bytes to the transport -/
theorem advance_writes_prefix (e : Egress) (n : Nat) :
    let e' := Egress.advance (e.chunks.length + 1) e n
    e'.written = e.written ++ e.pendingBytes.take n ∧ e'.pendingBytes = e.pendingBytes.drop n := by
  exact advance_spec _ e n (Nat.le_refl _)

/-- a control frame queued with priority never lands inside a chunk that is partly on the wire: the bytes
already written plus the bytes still to come are the old ones with the frame inserted at a chunk boundary
(right after the chunk being written, or at the very front when none is) -/
theorem priority_at_chunk_boundary (e : Egress) (f : List UInt8) (hoff : e.offset > 0 → e.chunks ≠ []) :
    (e.pushPriority f).pendingBytes =
      (match e.chunks with
       | [] => f
       | h :: rest => if e.offset > 0 then h.data.drop e.offset ++ f ++ (rest.map (·.data)).flatten
                      else f ++ e.pendingBytes) := by
  exact pushPriority_pending e f hoff

-- the whole send path -------------------------------------------------------------------------------

/-- FIFO / exactly-once on the send side, for every event sequence: the data written or buffered, followed by
carry-over and pipe, is at all times exactly the framing of the accepted messages in acceptance order -/
theorem sendpath_fifo (cfg : BatchCfg) (evs : List SendEv) :
    (SendPath.run { cfg := cfg } evs).wire = frameBatch (SendPath.run { cfg := cfg } evs).accepted := by
  exact SendPath.run_fifo cfg evs

/-- what has reached the transport is, at all times, whole chunks plus a prefix of the chunk in progress -/
theorem written_is_chunk_aligned (cfg : BatchCfg) (evs : List SendEv) :
    let e := (SendPath.run { cfg := cfg } evs).egress
    e.written = ((e.done.map (·.data)).flatten) ++ ((e.chunks.head?.map (·.data.take e.offset)).getD []) := by
  exact (SendPath.run_aligned cfg evs).1

/-- with no control traffic, once everything is written the byte stream on the wire is the framing of exactly the
accepted messages -/
theorem drained_stream (cfg : BatchCfg) (evs : List SendEv) (hctl : ∀ e ∈ evs, ∀ f, e ≠ .control f)
    (hd : let s := SendPath.run { cfg := cfg } evs; s.egress.chunks = [] ∧ s.carry = [] ∧ s.pipe = []) :
    (SendPath.run { cfg := cfg } evs).egress.written = frameBatch (SendPath.run { cfg := cfg } evs).accepted := by
  exact SendPath.run_drained cfg evs hctl hd.1 hd.2.1 hd.2.2

/-- the session never buffers more than SNDHWM messages in its egress buffer plus one batch in carry-over -/
theorem session_buffer_bounded (cfg : BatchCfg) (evs : List SendEv) (hc : 1 ≤ cfg.count) :
    let s := SendPath.run { cfg := cfg } evs
    s.egress.msgCount ≤ max cfg.sndhwm 1 ∧ s.carry.length ≤ cfg.count := by
  exact SendPath.run_bounded cfg evs hc

-- the receive path ------------------------------------------------------------------------------------

/-- FIFO / exactly-once on the receive side, for every schedule of reads, batch drains, stalled and cancelled
sends and application receives -/
theorem recvpath_fifo (r0 : Nat) (evs : List RecvEv) :
    let r := RecvPath.run { rcvhwm := r0 } evs
    r.delivered ++ r.queue ++ r.buffer = r.decoded := by
  exact RecvPath.run_fifo r0 evs

theorem recv_queue_bounded (r0 : Nat) (evs : List RecvEv) :
    (RecvPath.run { rcvhwm := r0 } evs).queue.length ≤ max r0 1 := by
  exact RecvPath.run_queue r0 evs

-- end to end ------------------------------------------------------------------------------------------

/-- regrouping the frames of well-formed messages gives the messages back -/
def MsgOk (m : Message) : Prop := m ≠ [] ∧ (∀ f ∈ m.dropLast, f.more = true) ∧ (∀ f, m.getLast? = some f → f.more = false)

theorem regroup_flatten (ms : List Message) (h : ∀ m ∈ ms, MsgOk m) : regroup [] ms.flatten = (ms, []) := by
  exact regroup_flatten' ms h

/-- End to end, no control traffic, everything written: however the written stream is cut into reads, the decoder
yields exactly the accepted messages' frames, which regroup to exactly the accepted messages; and whatever the
receive-side schedule, the application gets a prefix of them (all of them once it has drained the queues). -/
theorem end_to_end (cfg : BatchCfg) (evs : List SendEv) (max : Int) (cuts : List (List UInt8))
    (hctl : ∀ e ∈ evs, ∀ f, e ≠ .control f)
    (hd : let s := SendPath.run { cfg := cfg } evs; s.egress.chunks = [] ∧ s.carry = [] ∧ s.pipe = [])
    (hok : ∀ m ∈ (SendPath.run { cfg := cfg } evs).accepted, MsgOk m ∧ ∀ f ∈ m, C03.FrameOk f ∧ C03.Admits max f)
    (hcuts : cuts.flatten = (SendPath.run { cfg := cfg } evs).egress.written) :
    regroup [] (feedChunks max {} cuts).2 = ((SendPath.run { cfg := cfg } evs).accepted, []) := by
  rw [feed_written cfg evs max cuts hctl hd.1 hd.2.1 hd.2.2 (fun m hm => (hok m hm).2) hcuts]
  exact regroup_flatten _ (fun m hm => (hok m hm).1)

theorem delivered_is_prefix (r0 : Nat) (evs : List RecvEv) :
    (RecvPath.run { rcvhwm := r0 } evs).delivered <+: (RecvPath.run { rcvhwm := r0 } evs).decoded := by
  rw [← RecvPath.run_fifo r0 evs, List.append_assoc]
  exact List.prefix_append _ _

-- non-vacuity -----------------------------------------------------------------------------------------

def exMsg (n : Nat) : Message := [{ payload := List.replicate n 0, more := false, command := false }]

def exEvs : List SendEv :=
  ([1, 181, 181, 41, 371, 1, 1, 1, 1, 1].map fun n => SendEv.accept (exMsg n))
    ++ [.assemblePipe, .assembleCarry, .assembleCarry, .assembleCarry, .assemblePipe]

set_option maxRecDepth 100000 in
/-- the reordering history found on the real code (scaled down: sizes 1, 181, 181, 41, 371, 1 ×5 with count 8,
logical limit 100, physical limit 400) goes through the carry-over branch that used to top up, and the batches
come out in acceptance order -/
example :
    ((SendPath.run { cfg := { sndhwm := 100, count := 8, logical := 100, physical := 400 } } exEvs).egress.chunks.map
      (·.msgs)) = [3, 1, 3, 3] := by
  decide

-- DEALER: the pending queue in front of the pipe -----------------------------------------------------------------------------------------

/-- the DEALER send path as the proofs need it (re-extracted from the sources on every run) -/
theorem dealer_source_shape : currentDealerCfg = goodDealer := by decide

/-- whatever the order of sends, of the processor's pops and hand-over attempts (successful or not) and of the session taking
messages: what has been accepted is - in acceptance order - what is on the wire, then in the pipe, then in the processor's
hand, then in the pending queue; so the wire is always a prefix of the acceptance log: nothing overtakes, nothing is lost or
doubled on the way from send() to the session -/
theorem dealer_wire_follows_acceptance (cap hwm : Nat) (evs : List DealerEv) :
    (Dealer.run currentDealerCfg { cap := cap, hwm := hwm } evs).line
        = (Dealer.run currentDealerCfg { cap := cap, hwm := hwm } evs).accepted
    ∧ (Dealer.run currentDealerCfg { cap := cap, hwm := hwm } evs).delivered
        <+: (Dealer.run currentDealerCfg { cap := cap, hwm := hwm } evs).accepted := by
  rw [dealer_source_shape]
  have h := Dealer.run_inv _ evs (Dealer.inv_init cap hwm)
  exact ⟨h.line, Dealer.delivered_prefix _ h⟩

/-- non-vacuity: a message waits in the queue, is popped, fails to be handed over, is re-queued, and still comes out second -/
example : (Dealer.run currentDealerCfg { cap := 1, hwm := 4 }
    [.send 1, .send 2, .send 3, .procPop, .procRoute, .sessionTake, .procPop, .procRoute, .sessionTake, .procPop, .procRoute,
     .sessionTake]).delivered = [1, 2, 3] := by decide

/-- the earlier shape (a send looked at the pipe first, whatever was pending): while the processor holds message 2 in its hand
and the session has just made room, message 3 goes straight into the pipe and overtakes it -/
theorem dealer_send_that_ignores_the_backlog_overtakes :
    (Dealer.run { queuesBehindBacklog := false, requeuesAtFront := true } { cap := 1, hwm := 4 }
      [.send 1, .send 2, .procPop, .sessionTake, .send 3, .sessionTake, .procRoute, .sessionTake]).delivered = [1, 3, 2] := by
  decide

/-- … and a processor that put a message it could not hand over at the BACK of the queue reorders too -/
theorem dealer_requeue_at_the_back_reorders :
    (Dealer.run { queuesBehindBacklog := true, requeuesAtFront := false } { cap := 1, hwm := 4 }
      [.send 1, .send 2, .send 3, .procPop, .procRoute, .sessionTake, .procPop, .procRoute, .sessionTake]).delivered = [1, 3] := by
  decide

/-- nothing accepted is stranded: from EVERY reachable state of the DEALER (any pipe capacity, any SNDHWM, any history of
sends, processor steps and session takes) there is a continuation without further sends - its length is exactly the work
left (3 per pending message, 2 for the one in the processor's hand, 1 per message in the pipe) - after which the wire
carries exactly the acceptance log; the backlog counter can never keep a message in the queue for ever -/
theorem dealer_accepted_messages_can_always_be_drained (cap hwm : Nat) (evs : List DealerEv) :
    let d := Dealer.run currentDealerCfg { cap := cap, hwm := hwm } evs
    ∃ more : List DealerEv, (∀ e ∈ more, e.isSend = false) ∧ more.length = d.todo
      ∧ (Dealer.run currentDealerCfg d more).delivered = d.accepted := by
  rw [dealer_source_shape]
  have h := Dealer.run_inv _ evs (Dealer.inv_init cap hwm)
  obtain ⟨more, h1, h2, h3, _⟩ := Dealer.drain_exists _ _ h rfl
  exact ⟨more, h1, h2, h3⟩

/-- non-vacuity: a state with a full pipe, a message in the processor's hand and two pending has work left -/
example : (Dealer.run currentDealerCfg { cap := 1, hwm := 4 } [.send 1, .send 2, .send 3, .send 4, .procPop]).todo = 9 := by
  decide

end Rzmq.C01
