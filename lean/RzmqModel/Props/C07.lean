import RzmqModel.Model.Engine
import RzmqModel.Proofs.EngineRun
/-!
# C07 — no byte stream can crash the engine or make it buffer without bound (engine + wire level)
-/
namespace Rzmq.C07
open Rzmq

/-- MAXMSGSIZE is exact: a frame of exactly the limit is accepted … -/
theorem limit_accepts_exact (m : Nat) (f : Frame) (rest : List UInt8) (h : f.payload.length = m)
    (hok : m + 9 < two64) :
    decodeBuffer (m : Int) (encodeCodec f ++ rest) = .frame f rest
    ∧ decodeSlice (m : Int) (encodeCodec f ++ rest) = .frame f rest
    ∧ decodeBytes (m : Int) (encodeCodec f ++ rest) = .frame f rest := by
  sorry

/-- … and one of limit+1 bytes is rejected as soon as its header is complete (body bytes are never awaited) -/
theorem limit_rejects_next (m : Nat) (f : Frame) (h : f.payload.length = m + 1) (hok : m + 10 < two64)
    (k : Nat) :
    let hdr := (encodeCodec f).take (if m + 1 ≤ 255 then 2 else 9)
    decodeBuffer (m : Int) (hdr ++ f.payload.take k) = .error
    ∧ decodeSlice (m : Int) (hdr ++ f.payload.take k) = .error
    ∧ decodeBytes (m : Int) (hdr ++ f.payload.take k) = .error
    ∧ peekFrameLen (m : Int) (hdr ++ f.payload.take k) = .error := by
  sorry

/-- the decoders are total and never reach the `panic` outcome, whatever the bytes -/
theorem decoders_never_panic (max : Int) (src : List UInt8) :
    decodeBuffer max src ≠ .panic ∧ decodeSlice max src ≠ .panic ∧ decodeBytes max src ≠ .panic := by
  sorry

/-- an incomplete frame never makes the live decoder hold more than header + limit bytes -/
theorem needMore_bounded (m : Nat) (src : List UInt8) (h : decodeBuffer (m : Int) src = .needMore) :
    src.length < 9 + m := by
  sorry

/-- The engine never panics on any input (the 256th frame of a message is a protocol error). -/
theorem engine_never_panics (spec : AbsSpec) (cfg : Cfg) (hlim : Gen.MAX_FRAMES_PER_MESSAGE ≤ cfg.frameLimit)
    (reads : List (Nat × Bytes)) :
    (feedAll spec cfg Eng.init reads).1.panicked = false := by
  sorry

/-- the partially assembled message never exceeds the container limit -/
theorem partial_bounded (spec : AbsSpec) (cfg : Cfg) (hlim : Gen.MAX_FRAMES_PER_MESSAGE ≤ cfg.frameLimit)
    (reads : List (Nat × Bytes)) :
    (feedAll spec cfg Eng.init reads).1.partialBatch.length ≤ Gen.MAX_FRAMES_PER_MESSAGE := by
  sorry

/-- With MAXMSGSIZE = m ≥ 0, between reads an open (unencrypted) connection holds fewer than
`max 64 (9 + m)` undecoded bytes: an incomplete greeting or one incomplete frame. -/
theorem accumulator_bounded (spec : AbsSpec) (hw : WellBehaved spec) (cfg : Cfg) (m : Nat)
    (hm : cfg.maxMsgSize = (m : Int)) (reads : List (Nat × Bytes)) :
    let s := (feedAll spec cfg Eng.init reads).1
    s.phase ≠ .closed → s.sealed = false → s.acc.length < max 64 (9 + m) := by
  sorry

/-- every error closes the connection, and a closed engine emits nothing more -/
theorem error_closes (spec : AbsSpec) (cfg : Cfg) (t : Nat) (s : Eng) (d : Bytes) (e : ErrClass)
    (h : AppAct.peerError e ∈ (onNetworkBytes spec cfg t s d).2.app) :
    (onNetworkBytes spec cfg t s d).1.phase = .closed := by
  sorry

theorem closed_is_silent (spec : AbsSpec) (cfg : Cfg) (t : Nat) (s : Eng) (d : Bytes) (h : s.phase = .closed) :
    (onNetworkBytes spec cfg t s d).2 = {} ∧ (onNetworkBytes spec cfg t s d).1.phase = .closed := by
  sorry

/-- malformed READY metadata is an error value, never a crash: the parser is total and only accepts
well-formed property lists (names valid UTF-8, lengths within the body) -/
theorem parseProps_sound (body : Bytes) (ps : Props) (h : parseProps (body.length + 1) body = some ps) :
    encodeProps ps = body ∧ ∀ p ∈ ps, validUtf8 p.1 = true ∧ p.1.length ≤ 255 := by
  sorry

end Rzmq.C07
