import RzmqModel.Model.Engine
import RzmqModel.Proofs.EngineRun
/-!
# C07 — no byte stream can crash the engine or make it buffer without bound (engine + wire level)
-/
namespace Rzmq.C07
open Rzmq

/-- MAXMSGSIZE is exact: a frame of exactly the limit is accepted … -/
theorem limit_accepts_exact (m : Nat) (f : Frame) (rest : List UInt8) (h : f.payload.length = m)
    (hok : m + 9 < two64) :
    decodeBuffer (m : Int) (encodeCodec f ++ rest) = .frame f rest
    ∧ decodeSlice (m : Int) (encodeCodec f ++ rest) = .frame f rest
    ∧ decodeBytes (m : Int) (encodeCodec f ++ rest) = .frame f rest := by
  have hmax : (m : Int) < 0 ∨ f.payload.length ≤ (m : Int).toNat := by
    right; simp only [Int.toNat_natCast]; omega
  refine ⟨decodeBuffer_encode' _ f rest (by omega) hmax, ?_, ?_⟩
  · simp only [decodeSlice, Gen.sliceMinLen, Gen.sliceLongHdr, Gen.sliceShortHdr]
    exact decodeSliceLike_encode' _ f rest (by omega) hmax
  · simp only [decodeBytes, Gen.bytesMinLen, Gen.bytesLongHdr, Gen.bytesShortHdr]
    exact decodeSliceLike_encode' _ f rest (by omega) hmax

/-- … and one of limit+1 bytes is rejected as soon as its header is complete (body bytes are never awaited) -/
theorem limit_rejects_next (m : Nat) (f : Frame) (h : f.payload.length = m + 1) (hok : m + 10 < two64)
    (k : Nat) :
    let hdr := (encodeCodec f).take (if m + 1 ≤ 255 then 2 else 9)
    decodeBuffer (m : Int) (hdr ++ f.payload.take k) = .error
    ∧ decodeSlice (m : Int) (hdr ++ f.payload.take k) = .error
    ∧ decodeBytes (m : Int) (hdr ++ f.payload.take k) = .error
    ∧ peekFrameLen (m : Int) (hdr ++ f.payload.take k) = .error := by
  intro hdr
  by_cases hs : m + 1 ≤ 255
  · have hhdr : hdr = [codecFlags f, UInt8.ofNat (m + 1)] := by
      simp only [hdr, if_pos hs, encodeCodec_short f (by omega), h, List.take_succ_cons, List.take_zero]
    rw [hhdr]
    have hl := isLong_codecFlags f
    have hr : (UInt8.ofNat (m + 1)).toNat = m + 1 := toNat_ofNat_small _ hs
    simp only [decodeBuffer, decodeSlice, decodeBytes, decodeSliceLike, peekFrameLen, List.cons_append,
      List.nil_append, hl, rawSize_short, hr, exceeds_succ, List.length_cons, if_true,
      Bool.false_eq_true, if_false, Gen.bufferShortHdr, Gen.sliceMinLen, Gen.sliceShortHdr,
      Gen.bytesMinLen, Gen.bytesShortHdr, Gen.peekShortHdr]
    refine ⟨?_, ?_, ?_, ?_⟩ <;> repeat (first | rw [if_neg (by omega)] | rfl)
  · have hhdr : hdr = (codecFlags f ||| Gen.ZMTP_FLAG_LONG) :: be64 (m + 1) := by
      simp only [hdr, if_neg hs, encodeCodec_long f (by omega), h]
      simp only [List.take_succ_cons, be64, List.cons_append, List.take_zero]
    rw [hhdr]
    have hl := isLong_codecFlags_long f
    have hr : ∀ t, rawSize (codecFlags f ||| Gen.ZMTP_FLAG_LONG) (be64 (m + 1) ++ t) = m + 1 :=
      fun t => rawSize_long _ _ _ hl (by omega)
    simp only [decodeBuffer, decodeSlice, decodeBytes, decodeSliceLike, peekFrameLen, List.cons_append,
      hl, hr, exceeds_succ, List.length_cons, List.length_append, be64_length', if_true,
      Gen.bufferLongHdr, Gen.sliceMinLen, Gen.sliceLongHdr,
      Gen.bytesMinLen, Gen.bytesLongHdr, Gen.peekLongHdr]
    refine ⟨?_, ?_, ?_, ?_⟩ <;> repeat (first | rw [if_neg (by omega)] | rfl)

/-- whatever bytes a peer sends — not only the output of an honest encoder — a frame the live decoder hands out never exceeds
MAXMSGSIZE, it was cut out of the bytes received (payload ++ rest is a suffix of the input), and it consumed at least the
header: the limit cannot be bypassed by any choice of flags, length field or fragmentation -/
theorem any_decoded_frame_is_within_the_limit (m : Nat) (src : List UInt8) (f : Frame) (rest : List UInt8)
    (h : decodeBuffer (m : Int) src = .frame f rest) :
    f.payload.length ≤ m ∧ f.payload ++ rest <:+ src ∧ rest.length + f.payload.length + 2 ≤ src.length := by
  cases src with
  | nil => simp [decodeBuffer] at h
  | cons fl tl =>
    simp only [decodeBuffer] at h
    have h2 : 2 ≤ (if isLong fl = true then Gen.bufferLongHdr else Gen.bufferShortHdr) := by
      split <;> decide
    generalize (if isLong fl = true then Gen.bufferLongHdr else Gen.bufferShortHdr) = hdr at h h2
    by_cases c1 : tl.length + 1 < hdr
    · simp [c1] at h
    · by_cases c2 : exceeds (m : Int) (rawSize fl tl) = true
      · simp [c1, c2] at h
      · by_cases c3 : tl.length + 1 - hdr < rawSize fl tl
        · simp [c1, c2, c3] at h
        · simp only [c1, c2, c3, if_false] at h
          injection h with hf hr
          subst hf; subst hr
          have hex' : ¬ (m < rawSize fl tl) := by
            intro hlt; apply c2; simp [exceeds, hlt]
          refine ⟨?_, ?_, ?_⟩
          · simp only [mkFrame, List.length_take]; omega
          · simp only [mkFrame, List.take_append_drop]
            exact (List.drop_suffix _ _).trans (List.suffix_cons _ _)
          · simp only [mkFrame, List.length_take, List.length_drop, List.length_cons]; omega

/-- the decoders are total and never reach the `panic` outcome, whatever the bytes -/
theorem decoders_never_panic (max : Int) (src : List UInt8) :
    decodeBuffer max src ≠ .panic ∧ decodeSlice max src ≠ .panic ∧ decodeBytes max src ≠ .panic := by
  exact ⟨decodeBuffer_ne_panic max src, decodeSliceLike_ne_panic _ _ _ max src,
    decodeSliceLike_ne_panic _ _ _ max src⟩

/-- an incomplete frame never makes the live decoder hold more than header + limit bytes -/
theorem needMore_bounded (m : Nat) (src : List UInt8) (h : decodeBuffer (m : Int) src = .needMore) :
    src.length < 9 + m := by
  exact needMore_bounded' m src h

/-- The engine never panics on any input (the 256th frame of a message is a protocol error). -/
theorem engine_never_panics (spec : AbsSpec) (cfg : Cfg) (hlim : Gen.MAX_FRAMES_PER_MESSAGE ≤ cfg.frameLimit)
    (reads : List (Nat × Bytes)) :
    (feedAll spec cfg Eng.init reads).1.panicked = false := by
  exact (feedAll_inv hlim reads _ PanicInv_init).1

/-- the partially assembled message never exceeds the container limit -/
theorem partial_bounded (spec : AbsSpec) (cfg : Cfg) (hlim : Gen.MAX_FRAMES_PER_MESSAGE ≤ cfg.frameLimit)
    (reads : List (Nat × Bytes)) :
    (feedAll spec cfg Eng.init reads).1.partialBatch.length ≤ Gen.MAX_FRAMES_PER_MESSAGE := by
  exact (feedAll_inv hlim reads _ PanicInv_init).2

/-- With MAXMSGSIZE = m ≥ 0, between reads an open (unencrypted) connection holds fewer than
`max 64 (9 + max m HANDSHAKE_FRAME_LIMIT)` undecoded bytes: an incomplete greeting or one incomplete frame
(before the data phase the frame-size limit in force is the handshake limit `max m HANDSHAKE_FRAME_LIMIT`);
in the data phase fewer than `9 + m`. (`hlim`: the engine's own frame-count limit is within the frame
container's capacity — without it the model engine can reach the `panicked` state, see
`Rzmq.accumulator_bounded_false`.) -/
theorem accumulator_bounded (spec : AbsSpec) (hw : WellBehaved spec) (cfg : Cfg) (m : Nat)
    (hm : cfg.maxMsgSize = (m : Int)) (hlim : Gen.MAX_FRAMES_PER_MESSAGE ≤ cfg.frameLimit)
    (reads : List (Nat × Bytes)) :
    let s := (feedAll spec cfg Eng.init reads).1
    s.phase ≠ .closed → s.sealed = false →
      s.acc.length < max 64 (9 + max m Gen.HANDSHAKE_FRAME_LIMIT) ∧ (s.phase = .data → s.acc.length < 9 + m) := by
  exact accumulator_bounded_of_frameLimit hw m hm hlim reads

/-- every error closes the connection, and a closed engine emits nothing more -/
theorem error_closes (spec : AbsSpec) (cfg : Cfg) (t : Nat) (s : Eng) (d : Bytes) (e : ErrClass)
    (h : AppAct.peerError e ∈ (onNetworkBytes spec cfg t s d).2.app) :
    (onNetworkBytes spec cfg t s d).1.phase = .closed := by
  exact run_peerError _ _ h

theorem closed_is_silent (spec : AbsSpec) (cfg : Cfg) (t : Nat) (s : Eng) (d : Bytes) (h : s.phase = .closed) :
    (onNetworkBytes spec cfg t s d).2 = {} ∧ (onNetworkBytes spec cfg t s d).1.phase = .closed := by
  have hc : ({ s with acc := s.acc ++ d } : Eng).phase = .closed := h
  unfold onNetworkBytes
  rw [run_closed hc]
  exact ⟨rfl, h⟩

/-- malformed READY metadata is an error value, never a crash: the parser is total and only accepts
well-formed property lists (names valid UTF-8, lengths within the body) -/
theorem parseProps_sound (body : Bytes) (ps : Props) (h : parseProps (body.length + 1) body = some ps) :
    encodeProps ps = body ∧ ∀ p ∈ ps, validUtf8 p.1 = true ∧ p.1.length ≤ 255 := by
  exact parseProps_sound' _ body ps h

end Rzmq.C07
