import RzmqModel.Model.Wire
import RzmqModel.Gen.Proto
/-!
# M2 `Engine` — the sans-IO ZMTP engine

Mirrors `core/src/protocol/zmtp/engine.rs` (`ZmtpEngine::{start, on_network_bytes, on_app_message, on_tick,
close}` and the private phase handlers), `protocol/zmtp/greeting.rs` (`ZmtpGreeting::decode`, `encode_signature`,
`encode_v3_tail`), `protocol/zmtp/command.rs` (`ZmtpCommand::{parse, create_ping, create_pong}`,
`ZmtpReady::{parse_properties, create_msg}`), `security/mod.rs` (`negotiate_security_mechanism`),
`security/plain.rs` (the whole PLAIN mechanism, byte exact) and `security/null.rs`.

Shape: `onNetworkBytes` appends the read to the accumulator and then iterates `step` — one atomic piece of
progress — until no step is enabled.  The Rust handlers chain into each other on leftover bytes instead
(`process_greeting → process_security/process_ready → process_data`, …); the correspondence run
(`corr engine`, same bytes, all cut positions) is what checks that both shapes produce identical outputs.

CURVE / Noise_XX are an *abstract* mechanism: a history of processed tokens interpreted by an `AbsSpec`
(parameter of every function), so that theorems about the engine hold for every such mechanism.
Time is `Nat` milliseconds.
-/

namespace Rzmq

abbrev Bytes := List UInt8

-- ---------------------------------------------------------------------------------------------
-- configuration, state, outputs
-- ---------------------------------------------------------------------------------------------

structure Cfg where
  isServer : Bool := false
  sockType : SockName := .DEALER
  routingId : Bytes := []              -- `Option<Blob>`; `None` and `Some(empty)` behave identically in the engine
  securityEnabled : Bool := false
  allowZmtp2 : Bool := true
  usePlain : Bool := false
  useCurve : Bool := false
  useNoise : Bool := false
  plainUser : Option Bytes := none
  plainPass : Option Bytes := none
  heartbeatIvl : Option Nat := none
  heartbeatTimeout : Option Nat := none
  useCork : Bool := false
  sendZc : Bool := false
  maxMsgSize : Int := -1
  /-- `xs_foundation::VecU8` holds at most 255 elements (probed by the harness) -/
  frameLimit : Nat := 255
deriving Repr

inductive Phase where
  | greeting | security | ready | v2Identity | data | closed
deriving DecidableEq, Repr

inductive Version where
  | v2 | v3
deriving DecidableEq, Repr

inductive ErrClass where
  | proto | sec | auth | timeout | internal | other
deriving DecidableEq, Repr

inductive PlainState where
  | clientSendHello | clientExpectWelcome | serverExpectHello | serverSendWelcome | ready | error
deriving DecidableEq, Repr

inductive MechStatus where
  | handshaking | ready | error
deriving DecidableEq, Repr

/-- Behaviour of an abstract (cryptographic) mechanism as a function of the tokens it has processed so far
(`hist`, oldest first) and how many tokens it has produced. -/
structure AbsSpec where
  initOk : MechKind → Bool → Bool                      -- can the mechanism be created (keys configured)?
  status : MechKind → Bool → List Bytes → Nat → MechStatus
  produce : MechKind → Bool → List Bytes → Nat → Option Bytes
  accepts : MechKind → Bool → List Bytes → Nat → Bytes → Option ErrClass   -- `none` = token accepted

/-- A mechanism that can never be created: what the executable driver uses for CURVE/NOISE configs. -/
def AbsSpec.unavailable : AbsSpec :=
  { initOk := fun _ _ => false, status := fun _ _ _ _ => .error, produce := fun _ _ _ _ => none,
    accepts := fun _ _ _ _ _ => some .sec }

inductive Mech where
  | null
  | plain (st : PlainState)
  | abs (k : MechKind) (hist : List Bytes) (produced : Nat)
deriving DecidableEq, Repr

inductive NetAct where
  | send (data : Bytes) (zc : Bool)
  | setCork (on : Bool)
  | scheduleClose (delayMs : Option Nat)
deriving DecidableEq, Repr

inductive AppAct where
  | handshakeComplete (identity : Option Bytes) (sockType : Option Bytes)
  | deliver (m : Message)
  | peerError (e : ErrClass)
deriving DecidableEq, Repr

structure Out where
  net : List NetAct := []
  app : List AppAct := []
deriving DecidableEq, Repr

def Out.append (a b : Out) : Out := { net := a.net ++ b.net, app := a.app ++ b.app }
instance : Append Out := ⟨Out.append⟩

structure Eng where
  phase : Phase := .greeting
  acc : Bytes := []
  version : Option Version := none
  revisionSent : Bool := false
  v2IdentitySent : Bool := false
  v2PeerType : Option SockName := none
  mech : Mech := .null
  /-- the data-phase framer is an encrypting one (set when an abstract mechanism completed) -/
  pendingSealed : Bool := false
  sealed : Bool := false
  lastActivity : Nat := 0
  lastPing : Option Nat := none
  waitingForPong : Bool := false
  partialBatch : List Frame := []
  /-- the real engine would have panicked (frame container overflow); nothing is defined afterwards -/
  panicked : Bool := false
  /-- ghost (no influence on behaviour): the mechanism selected by `negotiate`, if any -/
  gNegotiated : Option MechKind := none
  /-- ghost: the security tokens the mechanism accepted so far, oldest first -/
  gTokens : List Bytes := []
deriving DecidableEq, Repr

-- ---------------------------------------------------------------------------------------------
-- metadata (READY properties), UTF-8, commands
-- ---------------------------------------------------------------------------------------------

def be32 (n : Nat) : Bytes :=
  [UInt8.ofNat (n / 16777216), UInt8.ofNat (n / 65536), UInt8.ofNat (n / 256), UInt8.ofNat n]

def be16 (n : Nat) : Bytes := [UInt8.ofNat (n / 256), UInt8.ofNat n]

/-- `String::from_utf8(..).is_ok()` (RFC 3629: no overlongs, no surrogates, ≤ U+10FFFF) -/
def validUtf8 : Bytes → Bool
  | [] => true
  | b0 :: rest =>
    let cont (b : UInt8) : Bool := 0x80 ≤ b && b ≤ 0xBF
    if b0 ≤ 0x7F then validUtf8 rest
    else if 0xC2 ≤ b0 && b0 ≤ 0xDF then
      match rest with
      | b1 :: r => cont b1 && validUtf8 r
      | _ => false
    else if 0xE0 ≤ b0 && b0 ≤ 0xEF then
      match rest with
      | b1 :: b2 :: r =>
        let lo : UInt8 := if b0 == 0xE0 then 0xA0 else 0x80
        let hi : UInt8 := if b0 == 0xED then 0x9F else 0xBF
        lo ≤ b1 && b1 ≤ hi && cont b2 && validUtf8 r
      | _ => false
    else if 0xF0 ≤ b0 && b0 ≤ 0xF4 then
      match rest with
      | b1 :: b2 :: b3 :: r =>
        let lo : UInt8 := if b0 == 0xF0 then 0x90 else 0x80
        let hi : UInt8 := if b0 == 0xF4 then 0x8F else 0xBF
        lo ≤ b1 && b1 ≤ hi && cont b2 && cont b3 && validUtf8 r
      | _ => false
    else false

abbrev Props := List (Bytes × Bytes)

/-- `ZmtpReady::encode_properties` for a given iteration order (the Rust map is a `HashMap`: any order can occur) -/
def encodeProps : Props → Bytes
  | [] => []
  | (n, v) :: ps =>
    (if n.length > 255 then [] else UInt8.ofNat n.length :: n ++ be32 v.length ++ v) ++ encodeProps ps

/-- `ZmtpReady::parse_properties`; `none` = `Err(ProtocolViolation)`. Fuel: one property consumes ≥ 5 bytes. -/
def parseProps : Nat → Bytes → Option Props
  | _, [] => some []
  | 0, _ => none
  | fuel + 1, nl :: rest =>
    let n := nl.toNat
    if rest.length < n then none
    else
      let name := rest.take n
      let r1 := rest.drop n
      if !validUtf8 name then none
      else if r1.length < 4 then none
      else
        let vl := ofBe (r1.take 4)
        let r2 := r1.drop 4
        if r2.length < vl then none
        else match parseProps fuel (r2.drop vl) with
          | none => none
          | some ps => some ((name, r2.take vl) :: ps)

/-- `HashMap::get` after inserting in order: the last occurrence wins -/
def lookupLast (k : Bytes) : Props → Option Bytes
  | [] => none
  | (n, v) :: ps =>
    match lookupLast k ps with
    | some v' => some v'
    | none => if n == k then some v else none

def keySocketType : Bytes := ascii ['S','o','c','k','e','t','-','T','y','p','e']
def keyIdentity : Bytes := ascii ['I','d','e','n','t','i','t','y']

inductive Cmd where
  | ping (ctx : Bytes)
  | pong (ctx : Bytes)
  | ready (props : Props)
  | error
  | unknown
deriving DecidableEq, Repr

/-- `ZmtpCommand::parse` on a COMMAND-flagged, non-MORE frame body (`none` = parse returned `None`:
a READY whose property list is malformed) -/
def parseCmd (body : Bytes) : Option Cmd :=
  if Gen.cmdPing.isPrefixOf body && Gen.cmdPingMinLen ≤ body.length then
    some (.ping (body.drop Gen.pingContextOffset))
  else if Gen.cmdPong.isPrefixOf body && Gen.cmdPongMinLen ≤ body.length then
    some (.pong (body.drop Gen.pongContextOffset))
  else if Gen.cmdReady.isPrefixOf body && Gen.cmdReadyMinLen ≤ body.length then
    match parseProps (body.length + 1) (body.drop Gen.readyPropsOffset) with
    | some ps => some (.ready ps)
    | none => none
  else if Gen.cmdError.isPrefixOf body then some .error
  else some .unknown

def cmdFrame (body : Bytes) : Frame := { payload := body, more := false, command := true }

/-- `encode_msg(ZmtpCommand::create_ping(ttl, &[]))` -/
def pingBytes (ttl : Nat) : Bytes := encodeCodec (cmdFrame (Gen.mkPing ++ be16 ttl))

/-- `encode_msg(ZmtpCommand::create_pong(ctx))` -/
def pongBytes (ctx : Bytes) : Bytes := encodeCodec (cmdFrame (Gen.mkPong ++ ctx))

/-- local READY (properties in canonical sorted order: `Identity` before `Socket-Type`) -/
def localReadyProps (cfg : Cfg) : Props :=
  (if cfg.routingId.isEmpty then [] else [(keyIdentity, cfg.routingId)]) ++ [(keySocketType, cfg.sockType.bytes)]

def readyBytes (cfg : Cfg) : Bytes :=
  encodeCodec (cmdFrame (UInt8.ofNat Gen.readyName.length :: Gen.readyName ++ encodeProps (localReadyProps cfg)))

-- ---------------------------------------------------------------------------------------------
-- greeting
-- ---------------------------------------------------------------------------------------------

def mechNameBytes : MechKind → Bytes
  | .null => Gen.mechName_null | .plain => Gen.mechName_plain
  | .curve => Gen.mechName_curve | .noise => Gen.mechName_noise

def mechEnabled (cfg : Cfg) : MechKind → Bool
  | .null => !cfg.securityEnabled | .plain => cfg.usePlain
  | .curve => cfg.useCurve | .noise => cfg.useNoise

/-- `local_mechanism_name_bytes` -/
def localMech (cfg : Cfg) : MechKind :=
  match Gen.localMechPriority.find? (fun k => mechEnabled cfg k && k != .null) with
  | some k => k
  | none => .null

/-- `encode_v3_tail` -/
def v3Tail (cfg : Cfg) : Bytes :=
  Gen.GREETING_VERSION_MINOR_BYTE :: mechNameBytes (localMech cfg)
    ++ [if cfg.isServer then 1 else 0] ++ List.replicate Gen.PADDING_LENGTH 0

structure Greeting where
  mechanism : Bytes
  asServer : Bool
deriving DecidableEq, Repr

/-- `ZmtpGreeting::decode` on exactly `GREETING_LENGTH` bytes; `none` = protocol violation -/
def decodeGreeting (d : Bytes) : Option Greeting :=
  if d.headD 0 != Gen.greetDecodeFirst then none
  else if ((d.drop Gen.PADDING_OFFSET).take Gen.PADDING_LENGTH).any (· != 0) then none
  else if (d.drop Gen.VERSION_MAJOR_OFFSET).headD 0 != Gen.GREETING_VERSION_MAJOR_BYTE then none
  else
    let a := (d.drop Gen.AS_SERVER_OFFSET).headD 0
    if a == Gen.asServerFalse then
      some { mechanism := (d.drop Gen.MECHANISM_OFFSET).take Gen.MECHANISM_LENGTH, asServer := false }
    else if a == Gen.asServerTrue then
      some { mechanism := (d.drop Gen.MECHANISM_OFFSET).take Gen.MECHANISM_LENGTH, asServer := true }
    else none

/-- `negotiate_security_mechanism`: first known mechanism whose 20-byte name equals the peer's proposal -/
def negotiate (spec : AbsSpec) (cfg : Cfg) (g : Greeting) : Except ErrClass Mech :=
  match Gen.knownMechanisms.find? (fun k => mechNameBytes k == g.mechanism) with
  | none => .error .sec
  | some k =>
    if !mechEnabled cfg k then .error .sec
    else match k with
      | .null => .ok .null
      | .plain => .ok (.plain (if cfg.isServer then .serverExpectHello else .clientSendHello))
      | k => if spec.initOk k cfg.isServer then .ok (.abs k [] 0) else .error .sec

-- ---------------------------------------------------------------------------------------------
-- mechanisms
-- ---------------------------------------------------------------------------------------------

def mechStatus (spec : AbsSpec) (cfg : Cfg) : Mech → MechStatus
  | .null => .ready
  | .plain .ready => .ready
  | .plain .error => .error
  | .plain _ => .handshaking
  | .abs k h n => spec.status k cfg.isServer h n

def mechKindOf : Mech → MechKind
  | .null => .null
  | .plain _ => .plain
  | .abs k _ _ => k

def lenPrefixed (name : Bytes) : Bytes := UInt8.ofNat name.length :: name

/-- `PlainMechanism::create_hello_body` -/
def helloBody (user pass : Bytes) : Bytes :=
  let u := user.take 255
  let p := pass.take 255
  UInt8.ofNat u.length :: u ++ (UInt8.ofNat p.length :: p)

/-- `Mechanism::produce_token` -/
def produceToken (spec : AbsSpec) (cfg : Cfg) : Mech → Option Bytes × Mech
  | .plain .clientSendHello =>
    (some (lenPrefixed Gen.plainHello ++ helloBody (cfg.plainUser.getD []) (cfg.plainPass.getD [])),
     .plain .clientExpectWelcome)
  | .plain .serverSendWelcome => (some (lenPrefixed Gen.plainWelcome), .plain .ready)
  | .abs k h n =>
    match spec.produce k cfg.isServer h n with
    | some t => (some t, .abs k h (n + 1))
    | none => (none, .abs k h n)
  | m => (none, m)

/-- `PlainMechanism::parse_hello_body` -/
def parseHello (body : Bytes) : Option (Bytes × Bytes) :=
  if body.length < 2 then none
  else match body with
    | [] => none
    | ul :: r =>
      if r.length < ul.toNat + 1 then none
      else
        let user := r.take ul.toNat
        match r.drop ul.toNat with
        | [] => none
        | pl :: r2 =>
          if r2.length < pl.toNat then none
          else some (user, r2.take pl.toNat)

/-- `Mechanism::process_token`: `.error e` = `Err(e)` (the engine closes with `PeerError(e)`) -/
def processToken (spec : AbsSpec) (cfg : Cfg) (m : Mech) (token : Bytes) : Except ErrClass Mech :=
  match m with
  | .null => .ok .null
  | .plain st =>
    match token with
    | [] => .error .sec
    | cl :: rest =>
      if rest.length < cl.toNat then .error .sec
      else
        let name := rest.take cl.toNat
        let body := rest.drop cl.toNat
        if cfg.isServer then
          match st with
          | .serverExpectHello =>
            if name == Gen.plainHello then
              match parseHello body with
              | none => .error .sec
              | some (u, p) =>
                if cfg.plainUser == some u && cfg.plainPass == some p then .ok (.plain .serverSendWelcome)
                else .error .auth
            else .error .sec
          | _ => .error .sec
        else
          match st with
          | .clientExpectWelcome =>
            if name == Gen.plainWelcome then .ok (.plain .ready)
            else if name == Gen.plainError then .error .auth
            else .error .sec
          | _ => .error .sec
  | .abs k h n =>
    match spec.accepts k cfg.isServer h n token with
    | none => .ok (.abs k (h ++ [token]) n)
    | some e => .error e

-- ---------------------------------------------------------------------------------------------
-- the micro-step
-- ---------------------------------------------------------------------------------------------

/-- frame-size limit in force before the data phase: MAXMSGSIZE, but never below `HANDSHAKE_FRAME_LIMIT`
(`handshake_frame_limit`; 0 in the generated constants = the handshake uses MAXMSGSIZE as is) -/
def hsLimit (cfg : Cfg) : Int :=
  if Gen.HANDSHAKE_FRAME_LIMIT == 0 then cfg.maxMsgSize
  else if cfg.maxMsgSize < 0 then -1
  else if cfg.maxMsgSize < (Gen.HANDSHAKE_FRAME_LIMIT : Int) then (Gen.HANDSHAKE_FRAME_LIMIT : Int) else cfg.maxMsgSize

def fail (s : Eng) (e : ErrClass) : Eng × Out :=
  ({ s with phase := .closed }, { app := [.peerError e] })

def sendAct (d : Bytes) : NetAct := .send d false

/-- is the v2 downgrade refused by configuration? (which conditions the code checks is re-extracted) -/
def v2Refused (cfg : Cfg) : Bool :=
  (Gen.v2RefusedWhenDisallowed == 1 && !cfg.allowZmtp2) || (Gen.v2RefusedWhenSecurity == 1 && cfg.securityEnabled)

/-- `socket_types_compatible(own, peer)`: one table for ZMTP/2.0 and ZMTP/3.x -/
def typesCompatible (own peer : SockName) : Bool := Gen.typeCompat.contains (own, peer)

def nameFromCode (c : Nat) : Option SockName := (Gen.socketTypeNameFromCode.find? (·.1 == c)).map (·.2)
def codeOfName (n : SockName) : Option Nat := (Gen.socketTypeCode.find? (·.1 == n)).map (·.2)

def corkOn (cfg : Cfg) : List NetAct :=
  if cfg.useCork && Gen.corkTypes.contains cfg.sockType then [.setCork true] else []

/-- transition "security complete → Ready" (`check_security_complete` / the NULL branch of `process_greeting`) -/
def enterReady (cfg : Cfg) (s : Eng) (sealed : Bool) : Eng × Out :=
  ({ s with phase := .ready, mech := .null, pendingSealed := sealed },
   { net := if cfg.isServer then [] else [sendAct (readyBytes cfg)] })

/-- One atomic piece of progress, or `none` if nothing is enabled with the bytes at hand. -/
def step (spec : AbsSpec) (cfg : Cfg) (now : Nat) (s : Eng) : Option (Eng × Out) :=
  if s.panicked then none else
  match s.phase with
  | .closed => none
  | .greeting =>
    if !s.revisionSent then
      -- Stage B: peer signature seen → send our revision byte
      if s.acc.length < Gen.SIGNATURE_LENGTH then none
      else if s.acc.headD 0 != Gen.sigFirst || (s.acc.drop (Gen.SIGNATURE_LENGTH - 1)).headD 0 != Gen.sigLast then
        some (fail s .proto)
      else some ({ s with revisionSent := true }, { net := [sendAct [Gen.V3_REVISION]] })
    else if s.version.isNone then
      -- Stage C: commit to a version
      if s.acc.length < Gen.REVISION_OFFSET + 1 then none
      else
        let rev := (s.acc.drop Gen.REVISION_OFFSET).headD 0
        if Gen.V3_REVISION ≤ rev then
          some ({ s with version := some .v3 }, { net := [sendAct (v3Tail cfg)] })
        else if rev == Gen.V2_REVISION then
          if v2Refused cfg then some (fail s .proto)
          else if s.acc.length < Gen.V2_GREETING_LENGTH then none
          else
            let code := ((s.acc.drop Gen.V2_SOCKET_TYPE_OFFSET).headD 0).toNat
            match nameFromCode code with
            | none => some (fail s .proto)
            | some peerName =>
              if !typesCompatible cfg.sockType peerName then some (fail s .proto)
              else match codeOfName cfg.sockType with
                | none => some (fail { s with v2PeerType := some peerName, version := some .v2 } .proto)
                | some own =>
                  some ({ s with v2PeerType := some peerName, version := some .v2,
                                 acc := s.acc.drop Gen.V2_GREETING_LENGTH, phase := .v2Identity },
                        { net := [sendAct [UInt8.ofNat own]] })
        else some (fail s .proto)
    else
      -- ZMTP/3.x: full 64-byte greeting, negotiate the mechanism
      if s.acc.length < Gen.GREETING_LENGTH then none
      else
        let s1 := { s with acc := s.acc.drop Gen.GREETING_LENGTH }
        match decodeGreeting (s.acc.take Gen.GREETING_LENGTH) with
        | none => some (fail s1 .proto)
        | some g =>
          match negotiate spec cfg g with
          | .error e => some (fail s1 e)
          | .ok m =>
            let s2 := { s1 with mech := m, gNegotiated := some (mechKindOf m) }
            if mechStatus spec cfg m == .ready then
              some (enterReady cfg s2 (match m with | .abs .. => true | _ => false))
            else some ({ s2 with phase := .security }, {})
  | .security =>
    -- priority: emit a token the mechanism wants to send; then completion; then consume one token
    match produceToken spec cfg s.mech with
    | (some t, m') => some ({ s with mech := m' }, { net := [sendAct (encodeCodec (cmdFrame t))] })
    | (none, _) =>
      if mechStatus spec cfg s.mech == .ready then
        some (enterReady cfg s (match s.mech with | .abs .. => true | _ => false))
      else
        match decodeBuffer (hsLimit cfg) s.acc with
        | .needMore => none
        | .error => some (fail s .proto)
        | .panic => none
        | .frame f rest =>
          match processToken spec cfg s.mech f.payload with
          | .error e => some (fail { s with acc := rest } e)
          | .ok m' =>
            if mechStatus spec cfg m' == .error then some (fail { s with acc := rest, mech := m' } .sec)
            else some ({ s with acc := rest, mech := m', gTokens := s.gTokens ++ [f.payload] }, {})
  | .ready =>
    match decodeBuffer (hsLimit cfg) s.acc with
    | .needMore => none
    | .error => some (fail s .proto)
    | .panic => none
    | .frame f rest =>
      let s1 := { s with acc := rest }
      if !f.command || f.more then some (fail s1 .proto)
      else match parseCmd f.payload with
        | some (.ready props) =>
          if Gen.v3ValidatesSocketType == 1 &&
              (match lookupLast keySocketType props with
               | some ty => !typesCompatible cfg.sockType (SockName.ofBytes ty)
               | none => false) then some (fail s1 .proto)
          else
          some ({ s1 with phase := .data, sealed := s.pendingSealed, pendingSealed := false, lastActivity := now },
                { net := (if cfg.isServer then [sendAct (readyBytes cfg)] else []) ++ corkOn cfg,
                  app := [.handshakeComplete (lookupLast keyIdentity props) (lookupLast keySocketType props)] })
        | _ => some (fail s1 .proto)
  | .v2Identity =>
    if !s.v2IdentitySent then
      some ({ s with v2IdentitySent := true },
            { net := [sendAct (encodeCodec { payload := cfg.routingId, more := false, command := false })] })
    else
      match decodeBuffer (hsLimit cfg) s.acc with
      | .needMore => none
      | .error => some (fail s .proto)
      | .panic => none
      | .frame f rest =>
        let s1 := { s with acc := rest }
        if f.command || f.more then some (fail s1 .proto)
        else if f.payload.length > 255 then some (fail s1 .proto)
        else
          some ({ s1 with phase := .data, lastActivity := now },
                { net := corkOn cfg,
                  app := [.handshakeComplete (if f.payload.isEmpty then none else some f.payload)
                            (s.v2PeerType.map SockName.bytes)] })
  | .data =>
    if s.sealed then none   -- encrypted data phase: not part of this model (see C18)
    else
    match decodeBuffer cfg.maxMsgSize s.acc with
    | .needMore => none
    | .error => some (fail s .proto)
    | .panic => none
    | .frame f rest =>
      let s1 := { s with acc := rest, lastActivity := now,
                         waitingForPong := if Gen.trafficClearsWaitingForPong == 1 then false else s.waitingForPong }
      if f.command then
        if s.version == some .v2 then some (fail s1 .proto)
        else if f.more then some (s1, {})          -- `ZmtpCommand::parse` returns None: ignored
        else match parseCmd f.payload with
          | some (.ping ctx) => some (s1, { net := [sendAct (pongBytes ctx)] })
          | some (.pong _) => some ({ s1 with waitingForPong := false }, {})
          | some .error => some (fail s1 .proto)
          | _ => some (s1, {})
      else if Gen.dataFrameLimitChecked == 1 && Gen.MAX_FRAMES_PER_MESSAGE ≤ s.partialBatch.length then
        some (fail { s1 with partialBatch := [] } .proto)
      else if cfg.frameLimit ≤ s.partialBatch.length then
        some ({ s1 with panicked := true }, {})    -- `VecU8::push` beyond 255 elements panics
      else if f.more then some ({ s1 with partialBatch := s.partialBatch ++ [f] }, {})
      else some ({ s1 with partialBatch := [] }, { app := [.deliver (s.partialBatch ++ [f])] })

/-- iterate `step` (fuel-bounded: every step consumes bytes or is one of a handful of one-shot steps) -/
def run (spec : AbsSpec) (cfg : Cfg) (now : Nat) : Nat → Eng → Eng × Out
  | 0, s => (s, {})
  | fuel + 1, s =>
    match step spec cfg now s with
    | none => (s, {})
    | some (s', o) =>
      let r := run spec cfg now fuel s'
      (r.1, o ++ r.2)

/-- enough fuel for any accumulator: ≤ 1 step per byte plus the one-shot steps (revision, version,
identity, ≤ 2 tokens per handshake side, completion) — the abstract mechanism may add `tokenBudget` more -/
def fuelFor (s : Eng) (tokenBudget : Nat := 8) : Nat := s.acc.length + 16 + tokenBudget

-- ---------------------------------------------------------------------------------------------
-- the public API of `ZmtpEngine`
-- ---------------------------------------------------------------------------------------------

def Eng.init : Eng := {}

/-- `start`: Stage A, the 10-byte signature -/
def start (s : Eng) : Eng × Out := (s, { net := [sendAct Gen.SIGNATURE] })

/-- `on_network_bytes(data)` at time `now` -/
def onNetworkBytes (spec : AbsSpec) (cfg : Cfg) (now : Nat) (s : Eng) (d : Bytes) : Eng × Out :=
  let s1 := { s with acc := s.acc ++ d }
  run spec cfg now (fuelFor s1) s1

/-- `on_app_message(msgs)` (NULL framer) -/
def onAppMessage (cfg : Cfg) (s : Eng) (m : Message) : Eng × Out :=
  if s.phase != .data || s.sealed then (s, {})
  else (s, { net := [.send (frameContiguous [m]) cfg.sendZc] })

/-- `on_tick(now)` -/
def onTick (cfg : Cfg) (now : Nat) (s : Eng) : Eng × Out :=
  if s.phase != .data then (s, {})
  else if s.version == some .v2 then (s, {})
  else
    let timedOut : Bool :=
      match cfg.heartbeatTimeout, s.lastPing with
      | some t, some p => s.waitingForPong && decide (t ≤ now - p)
      | _, _ => false
    if timedOut then ({ s with phase := .closed }, { app := [.peerError .timeout] })
    else
      match cfg.heartbeatIvl with
      | some ivl =>
        if !s.waitingForPong && decide (ivl ≤ now - s.lastActivity) then
          let ttl := match cfg.heartbeatTimeout with | some t => min t 65535 | none => 0
          ({ s with waitingForPong := true, lastPing := some now }, { net := [sendAct (pingBytes ttl)] })
        else (s, {})
      | none => (s, {})

/-- `close()` -/
def close (cfg : Cfg) (s : Eng) : Eng × Out :=
  ({ s with phase := .closed },
   { net := [.setCork false, .scheduleClose (if cfg.useCork then some Gen.closeCorkDelayMs else none)] })

end Rzmq

namespace Rzmq

/-- feed a sequence of reads, each stamped with the time it happened -/
def feedAll (spec : AbsSpec) (cfg : Cfg) : Eng → List (Nat × Bytes) → Eng × Out
  | s, [] => (s, {})
  | s, (t, d) :: rest =>
    let r := onNetworkBytes spec cfg t s d
    let r2 := feedAll spec cfg r.1 rest
    (r2.1, r.2 ++ r2.2)

/-- An abstract mechanism produces a bounded number of tokens (true of every real handshake: Noise_XX sends
≤ 2 per side, CURVE ≤ 2); the fuel of `run` is sized for this bound. -/
def WellBehaved (spec : AbsSpec) : Prop :=
  ∀ k srv h n, 8 ≤ n → spec.produce k srv h n = none

/-- nothing is enabled: the state the engine is in between two reads -/
def Quiescent (spec : AbsSpec) (cfg : Cfg) (s : Eng) : Prop := ∀ t, step spec cfg t s = none

/-- the configuration invariant established by `ZmtpEngineConfig::from(&SocketOptions)` -/
def ConsistentCfg (cfg : Cfg) : Prop :=
  cfg.securityEnabled = (cfg.usePlain || cfg.useCurve || cfg.useNoise)

def Eng.eraseClock (s : Eng) : Eng := { s with lastActivity := 0 }

def isHandshakeComplete : AppAct → Bool
  | .handshakeComplete .. => true
  | _ => false

def isDeliver : AppAct → Bool
  | .deliver .. => true
  | _ => false

def isPeerError : AppAct → Bool
  | .peerError .. => true
  | _ => false

end Rzmq
