import RzmqModel.Model.Wire
import RzmqModel.Gen.Life
/-!
# M3 `Session` — the send path of one connection: batch assembly, egress buffer, wire

Mirrors
* `core/src/sessionx/actor.rs`          — the two batch-assembly blocks of the operational loop (carry-over branch and
                                          pipe branch: count limit, logical/physical byte ceilings, HWM budget, overflow to
                                          carry-over)
* `core/src/sessionx/egress_buffer.rs`  — `EgressBuffer::{push, push_priority, advance, pending_messages}`
* `core/src/sessionx/egress_driver.rs`  — writes advance the buffer by whatever the transport accepted

A logical message is a `Message` (list of frames); its wire size estimate is `Σ (payload + 9)` as in the code.
-/
namespace Rzmq

structure BatchCfg where
  sndhwm : Nat := 256
  count : Nat := 64            -- sndbatch_count
  logical : Nat := 65536       -- sndbatch_bytes
  physical : Nat := 65536 + 64 * 9   -- sndbatch_bytes_physical
deriving DecidableEq, Repr

def wireSize (m : Message) : Nat := (m.map fun f => f.payload.length + 9).sum

/-- `hwm_budget` / `max_count` -/
def maxCount (cfg : BatchCfg) (pending : Nat) : Nat := min cfg.count (max (max cfg.sndhwm 1 - pending) 1)

/-- drain from the front of `src` while the count allows and the physical ceiling is respected (an item that does
not fit is only taken if the batch is still empty); returns (taken, total bytes, rest) -/
def takeWhileFits (maxCnt maxBytes : Nat) : List Message → List Message → Nat → List Message × Nat × List Message
  | batch, [], total => (batch, total, [])
  | batch, m :: rest, total =>
    if batch.length < maxCnt then
      if total + wireSize m > maxBytes && !batch.isEmpty then (batch, total, m :: rest)
      else takeWhileFits maxCnt maxBytes (batch ++ [m]) rest (total + wireSize m)
    else (batch, total, m :: rest)

/-- accept drained items `i ≥ start` while they fit (the first overall item always fits); the rest overflows -/
def acceptDrained (maxBytes : Nat) : List Message → List Message → Nat → List Message × List Message
  | batch, [], _ => (batch, [])
  | batch, m :: rest, total =>
    if total + wireSize m > maxBytes && !batch.isEmpty then (batch, m :: rest)
    else acceptDrained maxBytes (batch ++ [m]) rest (total + wireSize m)

/-- how many more messages the top-up asks the pipe for -/
def needed (cfg : BatchCfg) (maxCnt startLen total : Nat) : Nat :=
  if startLen < maxCnt && total < cfg.logical then
    let avg := if startLen > 0 then total / startLen else 32768
    let remaining := cfg.physical - total
    let byBytes := if avg > 0 then remaining / avg else 0
    min (maxCnt - startLen) byBytes
  else 0

structure Assembled where
  batch : List Message
  carry : List Message
  pipe : List Message
deriving DecidableEq, Repr

/-- carry-over branch of the operational loop (`!core_carryover.is_empty()`); `topUpOnlyIfCarryEmpty` = the
top-up from the pipe is skipped while older messages remain in carry-over (re-extracted from the source) -/
def assembleFromCarry (cfg : BatchCfg) (pending : Nat) (carry pipe : List Message) : Assembled :=
  let mc := maxCount cfg pending
  let r := takeWhileFits mc cfg.physical [] carry 0
  let batch := r.1
  let total := r.2.1
  let carry1 := r.2.2
  let want := if Gen.topUpOnlyIfCarryEmpty == 1 && !carry1.isEmpty then 0 else needed cfg mc batch.length total
  let drained := pipe.take want
  let a := acceptDrained cfg.physical batch drained total
  { batch := a.1, carry := carry1 ++ a.2, pipe := pipe.drop want }

/-- pipe branch (`recv_from_core()` returned `first`; only taken when carry-over is empty) -/
def assembleFromPipe (cfg : BatchCfg) (pending : Nat) (first : Message) (pipe : List Message) : Assembled :=
  let mc := min cfg.count (max (max cfg.sndhwm 1 - pending) 1)
  let total := wireSize first
  let want := needed cfg mc 1 total
  let drained := pipe.take want
  let a := acceptDrained cfg.physical [first] drained total
  { batch := a.1, carry := a.2, pipe := pipe.drop want }

-- ---------------------------------------------------------------------------------------------
-- Egress buffer
-- ---------------------------------------------------------------------------------------------

structure Chunk where
  data : List UInt8
  msgs : Nat              -- logical message count (0 for control frames)
  prio : Bool := false    -- ghost: pushed with `push_priority`
deriving DecidableEq, Repr

structure Egress where
  chunks : List Chunk := []
  offset : Nat := 0       -- write_offset into the head chunk
  msgCount : Nat := 0     -- message_count
  /-- ghost: every byte handed to the transport so far -/
  written : List UInt8 := []
  /-- ghost: the chunks that were written completely, oldest first -/
  done : List Chunk := []
deriving DecidableEq, Repr

def Egress.push (e : Egress) (data : List UInt8) (n : Nat) : Egress :=
  if data.isEmpty then e else { e with chunks := e.chunks ++ [{ data := data, msgs := n }], msgCount := e.msgCount + n }

/-- `push_priority`: in front, but after a partially written head chunk -/
def Egress.pushPriority (e : Egress) (data : List UInt8) : Egress :=
  if data.isEmpty then e
  else if e.offset > 0 then
    match e.chunks with
    | [] => { e with chunks := [{ data := data, msgs := 0, prio := true }] }
    | h :: rest => { e with chunks := h :: { data := data, msgs := 0, prio := true } :: rest }
  else { e with chunks := { data := data, msgs := 0, prio := true } :: e.chunks }

/-- `advance(n)`: the transport accepted `n` bytes (fuel: one chunk popped per round) -/
def Egress.advance : Nat → Egress → Nat → Egress
  | 0, e, _ => e
  | _, e, 0 => e
  | fuel + 1, e, n + 1 =>
    match e.chunks with
    | [] => e
    | h :: rest =>
      let remaining := h.data.length - e.offset
      if n + 1 ≥ remaining then
        Egress.advance fuel { e with chunks := rest, offset := 0, msgCount := e.msgCount - h.msgs,
                                     written := e.written ++ h.data.drop e.offset,
                                     done := e.done ++ [h] } (n + 1 - remaining)
      else { e with offset := e.offset + (n + 1), written := e.written ++ (h.data.drop e.offset).take (n + 1) }

def Egress.pendingBytes (e : Egress) : List UInt8 :=
  match e.chunks with
  | [] => []
  | h :: rest => h.data.drop e.offset ++ (rest.map (·.data)).flatten

-- ---------------------------------------------------------------------------------------------
-- the send path of a session as a transition system
-- ---------------------------------------------------------------------------------------------

structure SendPath where
  cfg : BatchCfg := {}
  pipe : List Message := []       -- socket → session pipe (bounded by SNDHWM at the socket side)
  carry : List Message := []      -- core_carryover
  egress : Egress := {}
  /-- ghost: every message the socket accepted for this connection, in acceptance order -/
  accepted : List Message := []
deriving DecidableEq, Repr

inductive SendEv where
  | accept (m : Message)          -- the socket pattern put a message into the pipe
  | assembleCarry                 -- top of the operational loop: a batch is built from the carry-over
  | assemblePipe                  -- the `recv_from_core()` select arm fired: a batch is built from the pipe
  | written (n : Nat)             -- the transport accepted `n` more bytes
  | control (frame : List UInt8)  -- a PING/PONG is queued with priority
deriving DecidableEq, Repr

def frameBatch (b : List Message) : List UInt8 := frameContiguous b

/-- `egress_buffer.pending_messages() < sndhwm` -/
def SendPath.gateOpen (s : SendPath) : Bool := s.egress.msgCount < max s.cfg.sndhwm 1

def SendPath.step (s : SendPath) : SendEv → SendPath
  | .accept m => { s with pipe := s.pipe ++ [m], accepted := s.accepted ++ [m] }
  | .assembleCarry =>
    if !s.carry.isEmpty && s.gateOpen then
      let a := assembleFromCarry s.cfg s.egress.msgCount s.carry s.pipe
      { s with carry := a.carry, pipe := a.pipe, egress := s.egress.push (frameBatch a.batch) a.batch.length }
    else s
  | .assemblePipe =>
    -- the select arm is guarded by `core_carryover.is_empty()` (re-extracted from the source)
    if (s.carry.isEmpty || Gen.pipeBranchNeedsEmptyCarry == 0) && s.gateOpen then
      match s.pipe with
      | [] => s
      | first :: rest =>
        let a := assembleFromPipe s.cfg s.egress.msgCount first rest
        -- `core_carryover.extend(overflow)`
        { s with carry := s.carry ++ a.carry, pipe := a.pipe,
                 egress := s.egress.push (frameBatch a.batch) a.batch.length }
    else s
  | .written n => { s with egress := Egress.advance (s.egress.chunks.length + 1) s.egress n }
  | .control f => { s with egress := s.egress.pushPriority f }

def SendPath.run (s : SendPath) (evs : List SendEv) : SendPath := evs.foldl SendPath.step s

/-- the data (non-priority) chunks written or still buffered, in order -/
def Egress.dataBytes (e : Egress) : List UInt8 := (((e.done ++ e.chunks).filter (!·.prio)).map (·.data)).flatten

/-- everything the connection has accepted and not lost, in wire order: written or buffered data chunks, then the
carry-over, then the pipe -/
def SendPath.wire (s : SendPath) : List UInt8 := s.egress.dataBytes ++ frameBatch s.carry ++ frameBatch s.pipe

/-- messages buffered inside the session (beyond the socket pipe) -/
def SendPath.sessionBuffered (s : SendPath) : Nat := s.egress.msgCount + s.carry.length

-- ---------------------------------------------------------------------------------------------
-- the receive path of a session: decoded messages → ingress_buffer → per-pipe queue → application
-- ---------------------------------------------------------------------------------------------

/-- regroup a frame stream into messages at the frames without MORE (what the engine's `partial_batch` does);
returns the complete messages and the unfinished tail -/
def regroup : List Frame → List Frame → List Message × List Frame
  | acc, [] => ([], acc)
  | acc, f :: rest =>
    if f.more then regroup (acc ++ [f]) rest
    else let r := regroup [] rest; ((acc ++ [f]) :: r.1, r.2)

structure RecvPath where
  rcvhwm : Nat := 256
  buffer : List Message := []      -- ingress_buffer (session)
  queue : List Message := []       -- per-pipe queue in the socket (capacity RCVHWM)
  /-- ghost -/
  decoded : List Message := []
  delivered : List Message := []
deriving DecidableEq, Repr

inductive RecvEv where
  | read (msgs : List Message)     -- one network read decoded into whole messages (only when the buffer is empty)
  | drainBatch                     -- `try_send_batch`: as many as the queue has room for, in order
  | sendOne                        -- the awaited `send(front.clone())` completed: the original is popped
  | sendCancelled                  -- the IngressDriver was dropped while that send was pending
  | appRecv                        -- the application takes one message
deriving DecidableEq, Repr

def RecvPath.step (r : RecvPath) : RecvEv → RecvPath
  | .read msgs => if r.buffer.isEmpty then { r with buffer := msgs, decoded := r.decoded ++ msgs } else r
  | .drainBatch =>
    let room := max r.rcvhwm 1 - r.queue.length
    { r with queue := r.queue ++ r.buffer.take room, buffer := r.buffer.drop room }
  | .sendOne =>
    match r.buffer with
    | [] => r
    | m :: rest => if r.queue.length < max r.rcvhwm 1 then { r with queue := r.queue ++ [m], buffer := rest } else r
  | .sendCancelled => r
  | .appRecv =>
    match r.queue with
    | [] => r
    | m :: rest => { r with queue := rest, delivered := r.delivered ++ [m] }

def RecvPath.run (r : RecvPath) (evs : List RecvEv) : RecvPath := evs.foldl RecvPath.step r

end Rzmq
