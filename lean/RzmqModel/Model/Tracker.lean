import RzmqModel.Gen.Life
/-!
# M11 `Tracker` — the io_uring worker's table of operations that are in the kernel

Mirrors `core/src/io_uring_backend/worker/internal_op_tracker.rs` (`new_op_id`, `take_for_completion`,
`reinsert_for_notification`, `orphan_ops_for_fd`) and the way `worker/cqe_processor.rs` uses it: every SQE the worker
submits gets a `user_data` (a slab key), the entry owns the buffers the kernel reads or fills, and a completion is
processed by looking its `user_data` up.  A zero-copy send completes twice under the same `user_data`: first with
`F_MORE`, later with the notification that ends the kernel's use of the registered buffer.

The slab is modelled as it behaves (`slab` crate): a vector of slots and a LIFO list of vacant keys; a new entry takes
the most recently vacated key, else the next index.

Three things the table has done at a `CloseFd` completion are kept as shapes, to state what went wrong with the two
earlier ones: `dropAll` (everything tracked for the descriptor is removed and freed), `keepSends` (sends stay, the rest
is removed), `keepAll` (nothing is removed; the entries are re-tagged with descriptor -1).  Likewise the lookup of a
completion: `byKind = false` looks in the slab first and then among the entries waiting for a notification, whatever
the completion is; `byKind = true` lets only a notification find an entry of the secondary map.  And the place where a
zero-copy send waits for its notification: `keepsSlot = false` always the secondary map (its slab key is vacated and
handed to the next operation: two sends can then wait under one `user_data`), `keepsSlot = true` its own slot.
-/
namespace Rzmq

inductive OpKind where
  | accept | read | mread | cancel
  | send | vec
  | zc (buf : Nat)          -- SEND_ZC from a registered buffer, with the data it was copied from
  | lease (buf : Nat)       -- SEND_ZC from a leased, pre-written registered buffer
deriving DecidableEq, Repr

def OpKind.isSend : OpKind → Bool
  | .send | .vec | .zc _ | .lease _ => true
  | _ => false

/-- the registered send buffer an operation occupies -/
def OpKind.buf : OpKind → Option Nat
  | .zc b | .lease b => some b
  | _ => none

structure TOp where
  fd : Int
  kind : OpKind
deriving DecidableEq, Repr

def orphanFd : Int := -1

structure Tracker where
  slab : List (Option TOp) := []      -- `op_to_details`: index = key
  free : List Nat := []               -- vacant keys, the next one to be reused first
  notif : List (Nat × TOp) := []      -- `pending_notifications`
deriving DecidableEq, Repr

/-- `new_op_id` -/
def Tracker.insert (t : Tracker) (op : TOp) : Tracker × Nat :=
  match t.free with
  | k :: rest => ({ t with slab := t.slab.set k (some op), free := rest }, k)
  | [] => ({ t with slab := t.slab ++ [some op] }, t.slab.length)

def Tracker.slabGet (t : Tracker) (k : Nat) : Option TOp := (t.slab[k]?).join

def Tracker.notifGet (t : Tracker) (k : Nat) : Option TOp := (t.notif.find? (·.1 == k)).map (·.2)

def Tracker.slabRemove (t : Tracker) (k : Nat) : Tracker :=
  { t with slab := t.slab.set k none, free := k :: t.free }

/-- `get_for_completion` (`byKind`) / `get_op_details` (earlier) -/
def Tracker.lookup (byKind : Bool) (t : Tracker) (k : Nat) (isNotification : Bool) : Option TOp :=
  if byKind then
    (if isNotification then (match t.notifGet k with
      | some e => some e
      | none => t.slabGet k) else t.slabGet k)
  else match t.slabGet k with
    | some e => some e
    | none => t.notifGet k

/-- `take_for_completion` (`byKind`) / `take_op_details` (earlier) -/
def Tracker.take (byKind : Bool) (t : Tracker) (k : Nat) (isNotification : Bool) : Tracker × Option TOp :=
  let fromNotif : Option (Tracker × Option TOp) :=
    match t.notifGet k with
    | some e => some ({ t with notif := t.notif.filter (·.1 != k) }, some e)
    | none => none
  let fromSlab : Option (Tracker × Option TOp) :=
    match t.slabGet k with
    | some e => some (t.slabRemove k, some e)
    | none => none
  if byKind then
    (if isNotification then (fromNotif.getD (fromSlab.getD (t, none))) else (fromSlab.getD (t, none)))
  else (fromSlab.getD (fromNotif.getD (t, none)))

/-- `reinsert_for_notification`.  `keepsSlot`: the entry goes back into the slot it was just taken from when that slot
is the next vacant one (so the `user_data` stays taken until the notification); otherwise, and always in the earlier
shape, into the secondary map (a `HashMap::insert`: an entry under the same key is replaced) -/
def Tracker.awaitNotification (keepsSlot : Bool) (t : Tracker) (k : Nat) (e : TOp) : Tracker :=
  if keepsSlot && t.free.head? == some k then { t with slab := t.slab.set k (some e), free := t.free.tail }
  else { t with notif := t.notif.filter (·.1 != k) ++ [(k, e)] }

inductive CloseShape where
  | dropAll | keepSends | keepAll
deriving DecidableEq, Repr

def CloseShape.keeps : CloseShape → OpKind → Bool
  | .dropAll, _ => false
  | .keepSends, k => k.isSend
  | .keepAll, _ => true

/-- what the CloseFd completion for `fd` does to the table; second component: the entries dropped there and then -/
def Tracker.closeFd (shape : CloseShape) (t : Tracker) (fd : Int) : Tracker × List TOp :=
  let mark : TOp → TOp := fun o => if o.fd == fd && shape.keeps o.kind then { o with fd := orphanFd } else o
  let slab1 := t.slab.map (Option.map mark)
  let notif1 := t.notif.map fun p => (p.1, mark p.2)
  let keys := (List.range slab1.length).filter fun k => match (slab1[k]?).join with
    | some o => o.fd == fd
    | none => false
  let removedSlab := keys.filterMap fun k => (slab1[k]?).join
  ({ slab := keys.foldl (fun s k => s.set k none) slab1,
     free := keys.foldl (fun f k => k :: f) t.free,
     notif := notif1.filter (fun p => p.2.fd != fd) },
   removedSlab ++ (notif1.filter (fun p => p.2.fd == fd)).map (·.2))

-- ---------------------------------------------------------------------------------------------
-- the table together with what the kernel holds
-- ---------------------------------------------------------------------------------------------

/-- an operation the kernel holds: the key (`user_data`) it was submitted under, what it is, and whether its first
completion has been posted already (a zero-copy send then only awaits its notification) -/
structure KOp where
  key : Nat
  op : TOp
  awaitsNotification : Bool := false
deriving DecidableEq, Repr

structure TrkCfg where
  close : CloseShape
  byKind : Bool
  keepsSlot : Bool
deriving DecidableEq, Repr

structure TrkSys where
  t : Tracker := {}
  kernel : List KOp := []            -- ghost: submitted and not finally completed, oldest first
  /-- ghost: completions that were processed with the entry of a DIFFERENT operation, or with none although the kernel
  had held the buffers until that moment -/
  misattributed : List KOp := []
  unknown : List KOp := []
deriving DecidableEq, Repr

inductive TrkEv where
  | submit (fd : Nat) (kind : OpKind)     -- the worker pushes an SQE on a descriptor (descriptors are not negative)
  | closeFd (fd : Nat)                    -- the CloseFd completion for `fd` is processed
  | first (i : Nat)                       -- the kernel posts the first of two completions (F_MORE) of its i-th zero-copy send
  | final (i : Nat)                       -- the kernel posts the last completion of the i-th operation it holds
deriving DecidableEq, Repr

/-- does the entry found belong to the operation that completed? (same kind of operation and same registered buffer;
the descriptor is the one it was submitted on, or -1 after that one was closed) -/
def matchesOp (e : TOp) (ko : KOp) : Bool :=
  (e.fd == ko.op.fd || e.fd == orphanFd)
  && (if ko.awaitsNotification then e.kind.isSend && e.kind.buf == ko.op.kind.buf else e.kind == ko.op.kind)

def TrkSys.step (c : TrkCfg) (s : TrkSys) : TrkEv → TrkSys
  | .submit fd kind =>
    let r := s.t.insert { fd := fd, kind := kind }
    { s with t := r.1, kernel := s.kernel ++ [{ key := r.2, op := { fd := fd, kind := kind } }] }
  | .closeFd fd => { s with t := (s.t.closeFd c.close fd).1 }
  | .first i =>
    match s.kernel[i]? with
    | none => s
    | some ko =>
      if ko.awaitsNotification || ko.op.kind.buf.isNone then s      -- only a zero-copy send completes twice
      else
        let r := s.t.take c.byKind ko.key false
        let kernel' := s.kernel.set i { ko with awaitsNotification := true }
        match r.2 with
        | some e =>
          let t' := match e.kind.buf with
            | some b => r.1.awaitNotification c.keepsSlot ko.key { fd := e.fd, kind := .lease b }
            | none => r.1
          { s with t := t', kernel := kernel',
                   misattributed := if matchesOp e ko then s.misattributed else s.misattributed ++ [ko] }
        | none => { s with t := r.1, kernel := kernel', unknown := s.unknown ++ [ko] }
  | .final i =>
    match s.kernel[i]? with
    | none => s
    | some ko =>
      let r := s.t.take c.byKind ko.key ko.awaitsNotification
      let kernel' := s.kernel.eraseIdx i
      match r.2 with
      | some e => { s with t := r.1, kernel := kernel',
                           misattributed := if matchesOp e ko then s.misattributed else s.misattributed ++ [ko] }
      | none => { s with t := r.1, kernel := kernel', unknown := s.unknown ++ [ko] }

def TrkSys.run (c : TrkCfg) (s : TrkSys) (evs : List TrkEv) : TrkSys := evs.foldl (TrkSys.step c) s

/-- the table as the code has it now (re-extracted on every run) -/
def currentTrkCfg : TrkCfg :=
  { close := if Gen.uringCloseKeepsAllInflightOps == 1 then .keepAll else .dropAll,
    byKind := Gen.uringCompletionLookupByKind == 1,
    keepsSlot := Gen.uringNotificationKeepsSlot == 1 }

/-- the entry that holds the buffers of a kernel-held operation is still in the table -/
def TrkSys.holds (s : TrkSys) (ko : KOp) : Bool :=
  match s.t.lookup true ko.key ko.awaitsNotification with
  | some e => matchesOp e ko
  | none => false

-- ---------------------------------------------------------------------------------------------
-- descriptor numbers are handed out again: requests have to name the connection they mean
-- ---------------------------------------------------------------------------------------------

/-- the worker's handler table: descriptor number → the connection (token) that owns it now -/
structure FdTable where
  conns : List (Nat × Nat) := []      -- (descriptor, token of the connection registered under it)
  next : Nat := 1                     -- the next token
  /-- ghost: connections that were shut down by a request issued for ANOTHER connection -/
  wronglyClosed : List Nat := []
deriving DecidableEq, Repr

inductive FdEv where
  | registered (fd : Nat)             -- RegisterExternalZmtpFd: a new connection under this descriptor number
  | closed (fd : Nat)                 -- CloseFd completion: the handler is removed, the kernel may reuse the number
  | shutdownRequest (fd tok : Nat)    -- ShutdownConnectionHandler from the socket side, possibly late
deriving DecidableEq, Repr

def FdTable.owner (t : FdTable) (fd : Nat) : Option Nat := (t.conns.find? (·.1 == fd)).map (·.2)

/-- `named`: the request carries the token of the connection it was issued for and is ignored by any other -/
def FdTable.step (named : Bool) (t : FdTable) : FdEv → FdTable
  | .registered fd =>
    if (t.owner fd).isSome then t else { t with conns := t.conns ++ [(fd, t.next)], next := t.next + 1 }
  | .closed fd => { t with conns := t.conns.filter (·.1 != fd) }
  | .shutdownRequest fd tok =>
    match t.owner fd with
    | none => t
    | some cur =>
      if named && cur != tok then t
      else { t with conns := t.conns.filter (·.1 != fd),
                    wronglyClosed := if cur != tok then t.wronglyClosed ++ [cur] else t.wronglyClosed }

def FdTable.run (named : Bool) (t : FdTable) (evs : List FdEv) : FdTable := evs.foldl (FdTable.step named) t

end Rzmq
