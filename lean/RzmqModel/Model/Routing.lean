import RzmqModel.Model.Wire
import RzmqModel.Gen.Life
/-!
# M6 `Routing` — subscription trie, round-robin load balancer, ROUTER identity map, envelopes, back-off

Mirrors
* `core/src/socket/patterns/trie.rs`           — `SubscriptionTrie::{subscribe, unsubscribe, matches, get_all_topics}`
* `core/src/socket/patterns/load_balancer.rs`  — `LoadBalancer::{add_connection, remove_connection, get_next_connection}`
* `core/src/socket/patterns/router.rs`         — `RouterMap::{add_peer, update_peer_identity, remove_peer_by_read_pipe,
                                                 remove_peer_by_identity, get_*}` and the four send strategies
* `core/src/socket/patterns/framing.rs`        — `router_auto_encode/decode`, `dealer_auto_encode/decode`
* `core/src/socket/core/state.rs`              — `ReconnectState::{on_connection_failure, on_connection_success}`
* `core/src/transport/tcp.rs`                  — the connecter's own retry-delay schedule

Import-free (apart from `Frame`), total, executable.
-/

namespace Rzmq

-- ---------------------------------------------------------------------------------------------
-- Subscription trie
-- ---------------------------------------------------------------------------------------------

/-- `TrieNode { children: HashMap<u8, _>, count }`; children as an association list with distinct keys -/
inductive Trie where
  | node (count : Nat) (children : List (UInt8 × Trie))
deriving Repr

def Trie.empty : Trie := .node 0 []

def Trie.count : Trie → Nat
  | .node c _ => c

def Trie.children : Trie → List (UInt8 × Trie)
  | .node _ ch => ch

def childLookup (ch : List (UInt8 × Trie)) (b : UInt8) : Option Trie :=
  match ch with
  | [] => none
  | (k, t) :: rest => if k == b then some t else childLookup rest b

/-- apply `f` to the child at key `b`, inserting `f Trie.empty` if there is none (`entry(b).or_insert_with`) -/
def childUpsert (ch : List (UInt8 × Trie)) (b : UInt8) (f : Trie → Trie) : List (UInt8 × Trie) :=
  match ch with
  | [] => [(b, f Trie.empty)]
  | (k, t) :: rest => if k == b then (k, f t) :: rest else (k, t) :: childUpsert rest b f

/-- replace the child at key `b` (which exists) -/
def childReplace (ch : List (UInt8 × Trie)) (b : UInt8) (t' : Trie) : List (UInt8 × Trie) :=
  match ch with
  | [] => []
  | (k, t) :: rest => if k == b then (k, t') :: rest else (k, t) :: childReplace rest b t'

/-- `subscribe(topic)`: walk/create the path, `count += 1` at the end -/
def Trie.subscribe : List UInt8 → Trie → Trie
  | [], .node c ch => .node (c + 1) ch
  | b :: rest, .node c ch => .node c (childUpsert ch b (Trie.subscribe rest))

/-- `unsubscribe(topic)`: returns the new trie and the Rust return value (true iff the count went 1 → 0).
A missing path or a zero count changes nothing. -/
def Trie.unsubscribe : List UInt8 → Trie → Trie × Bool
  | [], .node c ch => if c > 0 then (.node (c - 1) ch, c == 1) else (.node c ch, false)
  | b :: rest, .node c ch =>
    match childLookup ch b with
    | none => (.node c ch, false)
    | some t =>
      let r := Trie.unsubscribe rest t
      (.node c (childReplace ch b r.1), r.2)

/-- `matches(message_topic)`: some node on the path (including the last) has `count > 0` -/
def Trie.matches : List UInt8 → Trie → Bool
  | [], .node c _ => c > 0
  | b :: rest, .node c ch =>
    if c > 0 then true
    else match childLookup ch b with
      | none => false
      | some t => Trie.matches rest t

/-- the subscription count stored exactly at `path` -/
def Trie.countAt : List UInt8 → Trie → Nat
  | [], .node c _ => c
  | b :: rest, .node _ ch =>
    match childLookup ch b with
    | none => 0
    | some t => Trie.countAt rest t

mutual
/-- `get_all_topics` (depth first; the Rust order follows `HashMap` iteration, compare as sets) -/
def Trie.topics : Trie → List (List UInt8)
  | .node c ch => (if c > 0 then [[]] else []) ++ Trie.topicsCh ch
def Trie.topicsCh : List (UInt8 × Trie) → List (List UInt8)
  | [] => []
  | (b, t) :: rest => (t.topics.map (b :: ·)) ++ Trie.topicsCh rest
end

inductive SubOp where
  | sub (topic : List UInt8)
  | unsub (topic : List UInt8)
deriving Repr, DecidableEq

def Trie.apply (t : Trie) : SubOp → Trie
  | .sub p => t.subscribe p
  | .unsub p => (t.unsubscribe p).1

/-- the abstract specification: multiplicity of topic `p` in the multiset of active subscriptions, starting
from multiplicity `n`, after applying the history left to right (unsubscribing at 0 is a no-op) -/
def absCountFrom (p : List UInt8) : Nat → List SubOp → Nat
  | n, [] => n
  | n, .sub q :: rest => absCountFrom p (if q = p then n + 1 else n) rest
  | n, .unsub q :: rest => absCountFrom p (if q = p then n - 1 else n) rest

def absCount (p : List UInt8) (h : List SubOp) : Nat := absCountFrom p 0 h

-- ---------------------------------------------------------------------------------------------
-- Load balancer
-- ---------------------------------------------------------------------------------------------

structure Lb where
  peers : List Nat := []        -- endpoint URIs, abstracted to ids
  nextIdx : Nat := 0
deriving DecidableEq, Repr

def Lb.add (l : Lb) (u : Nat) : Lb :=
  if l.peers.contains u then l else { l with peers := l.peers ++ [u] }

def Lb.remove (l : Lb) (u : Nat) : Lb :=
  match l.peers.idxOf? u with
  | none => l
  | some pos =>
    let peers' := l.peers.eraseIdx pos
    let idx' :=
      if pos < l.nextIdx && l.nextIdx > 0 then l.nextIdx - 1
      else if l.nextIdx ≥ peers'.length then 0
      else l.nextIdx
    { peers := peers', nextIdx := idx' }

def Lb.next (l : Lb) : Option Nat × Lb :=
  match l.peers with
  | [] => (none, l)
  | _ =>
    let len := l.peers.length
    let i := if l.nextIdx ≥ len then 0 else l.nextIdx
    (l.peers[i]?, { l with nextIdx := (i + 1) % len })

/-- representation invariant: no duplicate peers, cursor within range (or list empty) -/
def Lb.Good (l : Lb) : Prop := l.peers.Nodup ∧ (l.peers = [] ∨ l.nextIdx < l.peers.length)

/-- who is served next: the peer under the cursor -/
def Lb.upNext (l : Lb) : Option Nat := l.peers[l.nextIdx]?

/-- the results of `k` consecutive `get_next_connection` calls -/
def Lb.nexts : Nat → Lb → List (Option Nat)
  | 0, _ => []
  | k + 1, l => l.next.1 :: Lb.nexts k l.next.2

-- ---------------------------------------------------------------------------------------------
-- ROUTER identity map
-- ---------------------------------------------------------------------------------------------

inductive Strat where
  | default | req | dealer | router
deriving DecidableEq, Repr

abbrev Ident := List UInt8

structure PeerInfo where
  uri : Nat
  strat : Strat
  /-- the pipe that owns this identity's forward mapping (`PeerInfo::pipe_read_id`) -/
  pipe : Nat
deriving DecidableEq, Repr

/-- map insert / remove on association lists (keys unique) -/
def amInsert {κ ν : Type} [BEq κ] (m : List (κ × ν)) (k : κ) (v : ν) : List (κ × ν) :=
  match m with
  | [] => [(k, v)]
  | (k', v') :: rest => if k' == k then (k, v) :: rest else (k', v') :: amInsert rest k v

def amRemove {κ ν : Type} [BEq κ] (m : List (κ × ν)) (k : κ) : List (κ × ν) :=
  m.filter (fun e => !(e.1 == k))

def amGet {κ ν : Type} [BEq κ] (m : List (κ × ν)) (k : κ) : Option ν :=
  (m.find? (fun e => e.1 == k)).map (·.2)

structure RouterMap where
  fwd : List (Ident × PeerInfo) := []      -- identity_to_peer_info
  rev : List (Nat × Ident) := []           -- read_pipe_to_identity
deriving DecidableEq, Repr

/-- does the forward entry of `id` belong to `pipe`? -/
def ownedBy (fwd : List (Ident × PeerInfo)) (id : Ident) (pipe : Nat) : Bool :=
  match amGet fwd id with
  | some info => info.pipe == pipe
  | none => false

def RouterMap.addPeer (m : RouterMap) (id : Ident) (pipe uri : Nat) : RouterMap :=
  let fwd1 := amInsert m.fwd id { uri := uri, strat := .default, pipe := pipe }
  let old := amGet m.rev pipe
  let rev1 := amInsert m.rev pipe id
  match old with
  | some oldId =>
    if oldId != id && ownedBy fwd1 oldId pipe then { fwd := amRemove fwd1 oldId, rev := rev1 }
    else { fwd := fwd1, rev := rev1 }
  | none => { fwd := fwd1, rev := rev1 }

def RouterMap.removeByPipe (m : RouterMap) (pipe : Nat) : RouterMap :=
  match amGet m.rev pipe with
  | none => m
  | some id =>
    -- the identity may meanwhile be owned by a newer pipe (collision): keep that mapping
    match amGet m.fwd id with
    | some info =>
      if info.pipe != pipe then { m with rev := amRemove m.rev pipe }
      else { fwd := amRemove m.fwd id, rev := amRemove m.rev pipe }
    | none => { m with rev := amRemove m.rev pipe }

def RouterMap.removeByIdentity (m : RouterMap) (id : Ident) : RouterMap :=
  match amGet m.fwd id with
  | none => m
  | some info =>
    if amGet m.rev info.pipe == some id then { fwd := amRemove m.fwd id, rev := amRemove m.rev info.pipe }
    else { m with fwd := amRemove m.fwd id }

def RouterMap.updateIdentity (m : RouterMap) (pipe : Nat) (newId : Ident) (uri : Nat) (s : Strat) : RouterMap :=
  let fwd1 := match amGet m.rev pipe with
    | some oldId => if oldId != newId && ownedBy m.fwd oldId pipe then amRemove m.fwd oldId else m.fwd
    | none => m.fwd
  { fwd := amInsert fwd1 newId { uri := uri, strat := s, pipe := pipe }, rev := amInsert m.rev pipe newId }

def RouterMap.lookup (m : RouterMap) (id : Ident) : Option PeerInfo := amGet m.fwd id
def RouterMap.identityOfPipe (m : RouterMap) (pipe : Nat) : Option Ident := amGet m.rev pipe

-- ---------------------------------------------------------------------------------------------
-- Envelopes (framing.rs + router strategies)
-- ---------------------------------------------------------------------------------------------

def emptyFrame (more : Bool) : Frame := { payload := [], more := more, command := false }

def setMore (f : Frame) : Frame := { f with more := true }

/-- `router_auto_encode`: `[id, payload…] → [id(MORE), delimiter, payload…]` -/
def routerAutoEncode : List Frame → List Frame
  | [] => []
  | id :: rest => setMore id :: emptyFrame (!rest.isEmpty) :: rest

/-- `router_auto_decode`: remove index 1 -/
def routerAutoDecode : List Frame → List Frame
  | a :: _ :: rest => a :: rest
  | l => l

/-- `dealer_auto_encode`: prepend a delimiter -/
def dealerAutoEncode (fs : List Frame) : List Frame := emptyFrame (!fs.isEmpty) :: fs

/-- `dealer_auto_decode`: remove index 0 -/
def dealerAutoDecode : List Frame → List Frame
  | [] => []
  | _ :: rest => rest

/-- `RouterSendStrategy::prepare_wire_frames` (ROUTER's framing latch in auto or manual mode) -/
def prepareWire (s : Strat) (manual : Bool) (id : Frame) (payload : List Frame) : List Frame :=
  let enc (fs : List Frame) := if manual then fs else routerAutoEncode fs
  match s with
  | .req => emptyFrame (!payload.isEmpty) :: payload
  | .router => payload
  | .dealer => if manual then payload else enc ((if payload.isEmpty then id else setMore id) :: payload)
  | .default => enc ((if payload.isEmpty then id else setMore id) :: payload)

-- ---------------------------------------------------------------------------------------------
-- Socket-level envelope handling (dealer_socket.rs, router_socket.rs, req_socket.rs, rep_socket.rs)
-- ---------------------------------------------------------------------------------------------

/-- MORE on all frames but the last -/
def normFlags : List Frame → List Frame
  | [] => []
  | [f] => [{ f with more := false }]
  | f :: g :: rest => { f with more := true } :: normFlags (g :: rest)

/-- clear MORE on the last frame only -/
def clearLastMore : List Frame → List Frame
  | [] => []
  | [f] => [{ f with more := false }]
  | f :: g :: rest => f :: clearLastMore (g :: rest)

/-- `DealerSocket::prepare_full_multipart_send_sequence` -/
def dealerPrepareSend (manual : Bool) (frames : List Frame) : List Frame :=
  if manual then normFlags frames
  else if frames.isEmpty then [emptyFrame true, emptyFrame false]
  else normFlags (dealerAutoEncode frames)

/-- `DealerSocket::process_incoming_zmtp_message_for_dealer` -/
def dealerProcessIncoming (manual : Bool) (frames : List Frame) : List Frame :=
  if manual then frames else
  match frames with
  | [] => []
  | f0 :: rest =>
    if !f0.payload.isEmpty then
      -- first frame assumed to be the ROUTER's identity: dropped, then the delimiter if present
      match rest with
      | [] => []
      | g :: rest' => if !g.payload.isEmpty then g :: rest' else rest'
    else rest

inductive PeerType where
  | req | dealer | router | other
deriving DecidableEq, Repr

/-- `RouterSocket::process_incoming_zmtp_message` (payload part) -/
def routerProcessIncoming (manual : Bool) (pt : PeerType) (frames : List Frame) : List Frame :=
  if manual then frames else
  match pt with
  | .router => frames
  | _ => match frames with
    | f0 :: rest => if f0.payload.isEmpty then rest else frames
    | [] => []

/-- `RouterSocket::transform_qitem_to_app_frames` -/
def routerToApp (id : List UInt8) (payload : List Frame) : List Frame :=
  clearLastMore ({ payload := id, more := !payload.isEmpty, command := false } :: payload)

/-- `RouterSocket::send_multipart` after the identity lookup: wire frames handed to the connection -/
def routerSendWire (s : Strat) (manual : Bool) (frames : List Frame) : List Frame :=
  match frames with
  | [] => []
  | id :: payload => clearLastMore (prepareWire s manual id payload)

/-- `ReqSocket::send`: `[delimiter(MORE), msg]` -/
def reqSendWire (msg : Frame) : List Frame := [emptyFrame true, { msg with more := false }]

/-- `ReqSocket::process_incoming_zmtp_message_for_req` -/
def reqProcessIncoming : List Frame → List Frame
  | f0 :: rest => if f0.payload.isEmpty then rest else f0 :: rest
  | [] => []

/-- `RepSocket::extract_routing_prefix`: everything up to and including the first empty frame -/
def repExtractPrefix (frames : List Frame) : List Frame × List Frame :=
  match frames.findIdx? (fun f => f.payload.isEmpty) with
  | some i => (frames.take (i + 1), frames.drop (i + 1))
  | none => ([], frames)

/-- `RepSocket::send_multipart` wire frames for a reply -/
def repReplyWire (pfx payload : List Frame) : List Frame :=
  normFlags (pfx ++ (if payload.isEmpty then [emptyFrame false] else payload))

-- ---------------------------------------------------------------------------------------------
-- Reconnect back-off (milliseconds)
-- ---------------------------------------------------------------------------------------------

/-- `ReconnectState::on_connection_failure` with `current_attempts = k`: `base · 2^min(k,31)`, capped by `max` if `max > 0`.
(`Duration::saturating_mul` cannot saturate for i32-millisecond bases.) -/
def coreDelay (base max k : Nat) : Nat :=
  let d := base * 2 ^ (min k Gen.backoffPowerCap)
  if max > 0 then min d max else d

/-- connecter (`transport/tcp.rs`): delay used for the wait before in-actor retry number `j` (j = 0 is the first
wait), after fast-forwarding `inherited` attempts. `maxOpt = none` ⇒ constant; `some 0` ⇒ constant; `some m` ⇒ doubling capped. -/
def connDouble (maxOpt : Option Nat) (base d : Nat) : Nat :=
  match maxOpt with
  | some m => if d > 0 && m > 0 then min (2 * d) m else d
  | none => if d > 0 then base else d

/-- the delay the connecter starts from: RECONNECT_IVL, bounded by RECONNECT_IVL_MAX when that is set -/
def connInitial (maxOpt : Option Nat) (base : Nat) : Nat :=
  match maxOpt with
  | some m => if Gen.connFirstDelayCapped == 1 && m > 0 then min base m else base
  | none => base

def connFastForward (maxOpt : Option Nat) (base inherited : Nat) : Nat :=
  let d0 := connInitial maxOpt base
  match maxOpt with
  | some m => if base > 0 && m > 0 then (List.range (min inherited 31)).foldl (fun d _ => min (2 * d) m) d0 else d0
  | none => d0

def connDelay (maxOpt : Option Nat) (base inherited : Nat) : Nat → Nat
  | 0 => connFastForward maxOpt base inherited
  | j + 1 => connDouble maxOpt base (connDelay maxOpt base inherited j)

end Rzmq
