import RzmqModel.Model.Wire
import RzmqModel.Gen.Life
/-!
# M11 `Record` — the record layer of CURVE and Noise_XX connections

Mirrors `core/src/security/framer/mod.rs` (`LengthPrefixedFramer`): the sender frames a batch with the ordinary ZMTP framing,
cuts the plaintext into pieces of at most `MAX_RECORD_PLAINTEXT` bytes and emits one `[u16 length][AEAD(piece)]` record per
piece, with a nonce that counts the records; the receiver opens record after record with its own counter, appends the
plaintexts to one buffer and parses frames from it; the first record that does not open ends the connection.

The AEAD is IDEAL here (this is the assumption the statements rest on, stated as the shape of `WireRec`): the only things that
open under (key, nonce n) are the records the honest sender produced with nonce n; anything else — a flipped bit, a record in
the wrong position, a record of another session, an invention — is `forged` and never opens.  What the two real AEADs achieve
computationally is not modelled.
-/
namespace Rzmq

/-- cut a plaintext into record-sized pieces (`plaintext.chunks(MAX_RECORD_PLAINTEXT)`); `limit` > 0 -/
def chunksOfLimit (limit : Nat) : Nat → List UInt8 → List (List UInt8)
  | 0, _ => []
  | fuel + 1, p =>
    if p.isEmpty then []
    else if p.length ≤ limit then [p]
    else p.take limit :: chunksOfLimit limit fuel (p.drop limit)

def recordPieces (limit : Nat) (p : List UInt8) : List (List UInt8) := chunksOfLimit (max limit 1) (p.length + 1) p

/-- the 16-bit length field as the code writes it (`as u16`) -/
def lengthField (n : Nat) : Nat := n % 65536

/-- what an on-path adversary can put in the j-th record slot of the stream -/
inductive WireRec where
  | honest (i : Nat)      -- the untouched i-th record of this session's sender
  | forged                -- anything else
deriving DecidableEq, Repr

/-- ideal AEAD with a record counter as nonce: slot j opens iff it holds the honest record number j -/
def opens (j : Nat) : WireRec → Bool
  | .honest i => i == j
  | .forged => false

/-- the receiver: the indices of the records it accepts before it closes the connection -/
def acceptedRecords : Nat → List WireRec → List Nat
  | _, [] => []
  | j, r :: rest => if opens j r then j :: acceptedRecords (j + 1) rest else []

/-- the plaintext the receiver's parser gets to see -/
def receivedPlaintext (pieces : List (List UInt8)) (stream : List WireRec) : List UInt8 :=
  ((acceptedRecords 0 stream).map fun i => pieces.getD i []).flatten

-- the mutations the property names, on a stream of n honest records -------------------------------------------------------

def honestStream (n : Nat) : List WireRec := (List.range n).map .honest

inductive Mutation where
  | flip (r : Nat)        -- any change of any bit of record r
  | drop (r : Nat)
  | dup (r : Nat)
  | swap (r : Nat)        -- records r and r+1 exchanged
  | cut (r : Nat)         -- the stream ends inside record r
  | inject (r : Nat)      -- something foreign before record r
deriving DecidableEq, Repr

def mutate (s : List WireRec) : Mutation → List WireRec
  | .flip r => s.set r .forged
  | .drop r => s.eraseIdx r
  | .dup r => match s[r]? with
    | some x => s.take (r + 1) ++ x :: s.drop (r + 1)
    | none => s
  | .swap r => match s[r]?, s[r + 1]? with
    | some a, some b => s.take r ++ b :: a :: s.drop (r + 2)
    | _, _ => s
  | .cut r => s.take r
  | .inject r => s.take r ++ .forged :: s.drop r

-- sessions ---------------------------------------------------------------------------------------------------------------------

/-- what determines the bytes of a data record under a deterministic AEAD: key, nonce, plaintext -/
structure SealInput where
  key : Nat
  nonce : Nat
  plaintext : List UInt8
deriving DecidableEq, Repr

/-- CURVE as implemented: the data key is derived from the two STATIC key pairs only (`crypto_kx` over them), the record
counter starts at 1 in every session -/
def curveFirstRecord (staticPair : Nat) (_sessionEphemerals : Nat) (p : List UInt8) : SealInput :=
  { key := staticPair, nonce := 1, plaintext := p }

end Rzmq
