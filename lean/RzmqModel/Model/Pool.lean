import RzmqModel.Model.Engine
/-!
# M10 `Pool` — the io_uring backend's own bookkeeping

Mirrors `core/src/io_uring_backend/send_buffer_pool.rs` (`acquire_and_prep_buffer`, `acquire_lease`, `SendBufferLease::drop`,
`release_buffer`): a fixed set of registered buffers, a free list and an in-kernel-use flag per buffer.  Everything else the
two backends do differently reaches the shared `ZmtpEngine` only as a different SEGMENTATION of the same byte stream (sizes of
the provided receive buffers vs. sizes of Tokio reads) and different timing — which C04 proves the engine is insensitive to.
-/
namespace Rzmq

structure Pool where
  cap : Nat := 0                     -- capacity of every buffer
  used : List Bool := []             -- in_kernel_use, indexed by buffer id
  free : List Nat := []              -- free_ids (front = next to hand out)
  leases : List (Nat × Bool) := []   -- leases held by sessions: (id, handed over to the worker)
deriving DecidableEq, Repr

def Pool.new (count cap : Nat) : Pool :=
  if count == 0 || cap == 0 then {} else { cap := cap, used := List.replicate count false, free := List.range count }

inductive PoolEv where
  | acquire (len : Nat)              -- `acquire_and_prep_buffer` with `len` bytes of data
  | lease                            -- `acquire_lease`
  | handOver (id : Nat)              -- the session passes a leased buffer to the worker (`released_to_worker := true`)
  | dropLease (id : Nat)             -- the lease object is dropped
  | release (id : Nat)               -- `release_buffer` (kernel notification, or a lease dropped before hand-over)
deriving DecidableEq, Repr

def Pool.setUsed (p : Pool) (id : Nat) (v : Bool) : Pool := { p with used := p.used.set id v }

/-- `release_buffer` -/
def Pool.release (p : Pool) (id : Nat) : Pool :=
  if id < p.used.length then
    let p' := p.setUsed id false
    if p.free.contains id then p' else { p' with free := p.free ++ [id] }
  else p

/-- result: the id handed out, if any -/
def Pool.step (p : Pool) : PoolEv → Pool × Option Nat
  | .acquire len =>
    if len == 0 then (p, none)
    else match p.free with
      | [] => (p, none)
      | id :: rest => if len > p.cap then (p, none) else (({ p with free := rest }).setUsed id true, some id)
  | .lease =>
    match p.free with
    | [] => (p, none)
    | id :: rest => ({ (({ p with free := rest }).setUsed id true) with leases := p.leases ++ [(id, false)] }, some id)
  | .handOver id => ({ p with leases := p.leases.map fun l => if l.1 == id then (id, true) else l }, none)
  | .dropLease id =>
    match p.leases.find? (·.1 == id) with
    | none => (p, none)
    | some (_, handed) =>
      let p' := { p with leases := p.leases.filter (·.1 != id) }
      (if handed then p' else p'.release id, none)
  | .release id => (p.release id, none)

def Pool.run (p : Pool) (evs : List PoolEv) : Pool := evs.foldl (fun a e => (a.step e).1) p

/-- the bookkeeping is consistent: every buffer is either on the free list (once) or marked in use -/
def Pool.Consistent (p : Pool) : Prop :=
  p.free.Nodup ∧ (∀ id, id ∈ p.free → id < p.used.length ∧ p.used[id]? = some false)
  ∧ (∀ id, id < p.used.length → p.used[id]? = some false → id ∈ p.free)

end Rzmq
