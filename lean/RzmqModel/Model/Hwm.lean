import RzmqModel.Model.Session
/-!
# M7 `Hwm` — what send()/recv() do at the high-water mark, and how much one connection can buffer

Mirrors
* `core/src/sessionx/iface.rs` (`send_message`, `send_multipart`, `send_multipart_owned`), the same three in
  `transport/inproc/connection.rs` and `io_uring_backend/zmtp_handler.rs`: try_send; Full + SNDTIMEO 0 → would-block;
  Full + SNDTIMEO d → timed send; Full + SNDTIMEO -1 → send that waits;
* `core/src/socket/patterns/anonymous_ingress.rs` (`recv`, `recv_multipart`): RCVTIMEO 0 → try_pop, d → timed pop, -1 → pop;
* the capacities of the two bounded queues of a connection (`command_processor.rs`: SNDHWM, `pull_socket.rs` & co: RCVHWM).

Time is a `Nat` (ms) counted from the moment of the call.
-/
namespace Rzmq

inductive Timeo where
  | infinite            -- -1 / None
  | zero                -- 0
  | ms (d : Nat)        -- d > 0
deriving DecidableEq, Repr

inductive CallRes where
  | ok (t : Nat)            -- returned Ok at time t
  | wouldBlock (t : Nat)    -- ResourceLimitReached at time t
  | timedOut (t : Nat)      -- Timeout at time t
  | waiting                 -- never returns (as long as nothing changes)
deriving DecidableEq, Repr

def CallRes.isOk : CallRes → Bool
  | .ok _ => true
  | _ => false

def CallRes.failedAt : CallRes → Option Nat
  | .wouldBlock t => some t
  | .timedOut t => some t
  | _ => none

/-- `send` on a connection whose pipe is full at time 0. `room` = when a slot becomes free (`none`: never).
`cap` = the earlier shape of SNDTIMEO -1 (`unwrap_or(30 s)`): `some c` caps the wait at `c` ms. `owned` = the
`send_multipart_owned` flavour (reports `Timeout`, the other two report would-block). -/
def sendOnFull (cap : Option Nat) (owned : Bool) (t : Timeo) (room : Option Nat) : CallRes :=
  let timed (d : Nat) : CallRes :=
    match room with
    | some r => if r ≤ d then .ok r else (if owned then .timedOut d else .wouldBlock d)
    | none => if owned then .timedOut d else .wouldBlock d
  match t with
  | .zero => .wouldBlock 0
  | .ms d => timed d
  | .infinite =>
    match cap with
    | some c => timed c
    | none => match room with
      | some r => .ok r
      | none => .waiting

/-- `recv` on a socket whose queues are empty at time 0. `arrival` = when the next message is queued. -/
def recvOnEmpty (t : Timeo) (arrival : Option Nat) : CallRes :=
  match t with
  | .zero => .wouldBlock 0
  | .ms d =>
    match arrival with
    | some a => if a ≤ d then .ok a else .timedOut d
    | none => .timedOut d
  | .infinite =>
    match arrival with
    | some a => .ok a
    | none => .waiting

-- buffering -------------------------------------------------------------------------------------------------

/-- the sender's side of one connection with the socket→session pipe bounded by SNDHWM: `offer` is an application
send with the pipe's try_send semantics (accepted iff there is room) -/
inductive HwmEv where
  | offer (m : Message)
  | session (e : SendEv)        -- anything the session does (`accept` events are ignored here: offers are the only source)
deriving DecidableEq, Repr

structure HwmSend where
  path : SendPath := {}
  refused : List Message := []       -- ghost: messages whose send was refused
deriving DecidableEq, Repr

def HwmSend.step (s : HwmSend) : HwmEv → HwmSend
  | .offer m =>
    if s.path.pipe.length < max s.path.cfg.sndhwm 1 then { s with path := s.path.step (.accept m) }
    else { s with refused := s.refused ++ [m] }
  | .session (.accept _) => s
  | .session e => { s with path := s.path.step e }

def HwmSend.run (s : HwmSend) (evs : List HwmEv) : HwmSend := evs.foldl HwmSend.step s

/-- messages buffered by rzmq on the sending side of the connection -/
def HwmSend.buffered (s : HwmSend) : Nat := s.path.pipe.length + s.path.egress.msgCount + s.path.carry.length

end Rzmq
