import RzmqModel.Gen.Life
/-!
# M13 `Dealer` — the DEALER socket's pending queue and its processor task

Mirrors `core/src/socket/dealer_socket.rs`: `send_logical_message` (a send goes straight to the peer's pipe unless older
messages are still pending: `pending_backlog > 0`), `queue_message_or_error` (push to the back while the queue holds fewer
than SNDHWM messages), and the processor task (`pop_front`, `try_route_sync`, on failure `push_front`, `pending_backlog`
lowered only after a successful hand-over).  One peer; the pipe towards it holds at most `cap` messages; the session takes
messages from the front of the pipe (that is wire order, C01).

Events are lock scopes: a send is one (its check of the backlog counter and what follows cannot be separated harmfully:
while the counter is 0 the queue is empty and the processor holds nothing — an invariant proved below), the processor's
pop and its hand-over attempt are two (the message is in the task's hand in between).
-/
namespace Rzmq

structure DealerCfg where
  /-- a send queues behind pending messages (`pending_backlog > 0`) instead of looking at the pipe first -/
  queuesBehindBacklog : Bool
  /-- a message the processor could not hand over goes back to the FRONT of the queue -/
  requeuesAtFront : Bool
deriving DecidableEq, Repr

structure Dealer where
  cap : Nat := 1                   -- capacity of the pipe towards the peer
  hwm : Nat := 1                   -- SNDHWM (bound of the pending queue)
  pipe : List Nat := []            -- socket → session pipe, oldest first
  pending : List Nat := []         -- pending_outgoing_queue
  hand : Option Nat := none        -- the message the processor has popped and not yet handed over
  backlog : Nat := 0               -- pending_backlog
  delivered : List Nat := []       -- taken by the session (wire order)
  /-- ghost: messages whose send() returned Ok, in the order of those returns; and the refused ones -/
  accepted : List Nat := []
  refused : List Nat := []
deriving DecidableEq, Repr

inductive DealerEv where
  | send (m : Nat)                 -- send() with SNDTIMEO 0 semantics at the decision point (accept or refuse now)
  | procPop                        -- the processor takes the oldest pending message
  | procRoute                      -- … and tries to hand it to the pipe
  | sessionTake                    -- the session takes one message from the pipe
deriving DecidableEq, Repr

def Dealer.queueOrRefuse (d : Dealer) (m : Nat) : Dealer :=
  if d.pending.length < max d.hwm 1 then
    { d with pending := d.pending ++ [m], backlog := d.backlog + 1, accepted := d.accepted ++ [m] }
  else { d with refused := d.refused ++ [m] }

def Dealer.step (c : DealerCfg) (d : Dealer) : DealerEv → Dealer
  | .send m =>
    if c.queuesBehindBacklog && d.backlog > 0 then d.queueOrRefuse m
    else if d.pipe.length < max d.cap 1 then { d with pipe := d.pipe ++ [m], accepted := d.accepted ++ [m] }
    else d.queueOrRefuse m
  | .procPop =>
    match d.hand, d.pending with
    | none, m :: rest => { d with hand := some m, pending := rest }
    | _, _ => d
  | .procRoute =>
    match d.hand with
    | none => d
    | some m =>
      if d.pipe.length < max d.cap 1 then { d with pipe := d.pipe ++ [m], hand := none, backlog := d.backlog - 1 }
      else if c.requeuesAtFront then { d with pending := m :: d.pending, hand := none }
      else { d with pending := d.pending ++ [m], hand := none }
  | .sessionTake =>
    match d.pipe with
    | [] => d
    | m :: rest => { d with pipe := rest, delivered := d.delivered ++ [m] }

def Dealer.run (c : DealerCfg) (d : Dealer) (evs : List DealerEv) : Dealer := evs.foldl (Dealer.step c) d

/-- everything accepted and not yet on the wire, in the order it will reach the wire -/
def Dealer.line (d : Dealer) : List Nat := d.delivered ++ d.pipe ++ d.hand.toList ++ d.pending

/-- the socket as the code has it now (re-extracted on every run) -/
def currentDealerCfg : DealerCfg :=
  { queuesBehindBacklog := Gen.dealerSendQueuesBehindBacklog == 1 && Gen.dealerBacklogCountsPushAndHandOver == 1,
    requeuesAtFront := Gen.dealerProcessorRequeuesAtFront == 1 }

end Rzmq
