import RzmqModel.Model.Hwm
/-!
# M8 `Linger` — what close()/term() do with what send() accepted

Mirrors
* `core/src/socket/core/shutdown.rs` (`start_linger_if_needed`, `is_linger_expired_or_queues_empty`, `check_and_advance_linger`) and
  the 100 ms maintenance tick of `command_loop.rs`: the socket stays in `Lingering` until all socket→session pipes are empty or
  the deadline has passed;
* `core/src/sessionx/actor.rs`: a session leaves its operational loop on `Stop`, `SocketClosing` (own socket) and
  `ContextTerminating`, and then shuts the write half down — without writing what it still holds in carry-over and egress buffer
  (`Gen.sessionFlushesOnStop`), and, for the two events, without waiting for the LINGER period (`Gen.sessionStopsOnSocketClosing`).

Time is a `Nat` (ms) since close() was called; the linger check runs at multiples of the tick.
-/
namespace Rzmq

/-- `is_linger_expired_or_queues_empty` at time `now` -/
def lingerDone (linger : Timeo) (pipesEmpty : Bool) (now : Nat) : Bool :=
  pipesEmpty ||
    (match linger with
     | .infinite => false
     | .zero => true
     | .ms d => decide (d ≤ now))

/-- the first check at which the socket leaves `Lingering`, given when the pipes became empty (`none`: never);
checks happen at close time (0) and then at every `tick` ms; `fuel` checks are looked at -/
def lingerEnds (tick : Nat) (linger : Timeo) (emptyAt : Option Nat) : Nat → Nat → Option Nat
  | 0, _ => none
  | fuel + 1, k =>
    let now := k * tick
    let empty := match emptyAt with
      | some e => decide (e ≤ now)
      | none => false
    if lingerDone linger empty now then some now else lingerEnds tick linger emptyAt fuel (k + 1)

/-- what the peer has been sent when the session goes away: what was written before, plus — only if the session flushes on
stop — everything it still holds -/
def SendPath.sentAtClose (flush : Bool) (s : SendPath) : List UInt8 :=
  if flush then s.egress.written ++ s.egress.pendingBytes ++ frameBatch s.carry ++ frameBatch s.pipe
  else s.egress.written

/-- is there anything accepted that the peer will never get? -/
def SendPath.holdsUnsent (s : SendPath) : Bool := !s.egress.chunks.isEmpty || !s.carry.isEmpty || !s.pipe.isEmpty

end Rzmq
