import RzmqModel.Model.Engine
/-!
# Pair system: two engines back to back (C05)

`a` and `b` are the two endpoints' engines, `ab` / `ba` the bytes in flight in each direction.  A *schedule* is a
list of moves; each move delivers some in-flight bytes to the receiving engine (whose replies go into the
opposite in-flight queue), or delivers end-of-stream once the sender is closed and its queue drained (what the
session driver does when the peer's TCP connection closes).  Time is irrelevant here (`now = 0`).
-/
namespace Rzmq

def sendsOf (o : Out) : Bytes :=
  (o.net.map fun a => match a with | .send d _ => d | _ => []).flatten

structure Pair where
  a : Eng := {}
  b : Eng := {}
  ab : Bytes := []
  ba : Bytes := []
  appA : List AppAct := []
  appB : List AppAct := []
  /-- ghost: everything delivered so far to A / to B -/
  recvA : Bytes := []
  recvB : Bytes := []
deriving DecidableEq, Repr

inductive Move where
  | ab (n : Nat)     -- deliver `min (n+1) |ab|` bytes of the A→B queue to B
  | ba (n : Nat)
  | eofA             -- A observes end-of-stream (enabled: B closed and `ba` empty)
  | eofB
deriving DecidableEq, Repr

/-- both engines started: each has put its signature on the wire -/
def Pair.start : Pair := { ab := Gen.SIGNATURE, ba := Gen.SIGNATURE }

def Pair.move (spec : AbsSpec) (cfgA cfgB : Cfg) (p : Pair) : Move → Pair
  | .ab n =>
    if p.ab.isEmpty then p else
    let k := min (n + 1) p.ab.length
    let r := onNetworkBytes spec cfgB 0 p.b (p.ab.take k)
    { p with b := r.1, ab := p.ab.drop k, ba := p.ba ++ sendsOf r.2, appB := p.appB ++ r.2.app,
             recvB := p.recvB ++ p.ab.take k }
  | .ba n =>
    if p.ba.isEmpty then p else
    let k := min (n + 1) p.ba.length
    let r := onNetworkBytes spec cfgA 0 p.a (p.ba.take k)
    { p with a := r.1, ba := p.ba.drop k, ab := p.ab ++ sendsOf r.2, appA := p.appA ++ r.2.app,
             recvA := p.recvA ++ p.ba.take k }
  | .eofA => if p.b.phase == .closed && p.ba.isEmpty then { p with a := { p.a with phase := .closed } } else p
  | .eofB => if p.a.phase == .closed && p.ab.isEmpty then { p with b := { p.b with phase := .closed } } else p

def Pair.run (spec : AbsSpec) (cfgA cfgB : Cfg) (p : Pair) : List Move → Pair
  | [] => p
  | m :: ms => Pair.run spec cfgA cfgB (p.move spec cfgA cfgB m) ms

/-- nothing left to deliver: both queues empty and every pending end-of-stream delivered -/
def Pair.Settled (p : Pair) : Prop :=
  p.ab = [] ∧ p.ba = [] ∧ (p.a.phase = .closed → p.b.phase = .closed) ∧ (p.b.phase = .closed → p.a.phase = .closed)

/-- everything an endpoint has put on the wire after receiving `x` (including its initial signature) -/
def emitted (spec : AbsSpec) (cfg : Cfg) (x : Bytes) : Bytes :=
  Gen.SIGNATURE ++ sendsOf (onNetworkBytes spec cfg 0 Eng.init x).2

/-- a NULL-mechanism configuration -/
def NullCfg (cfg : Cfg) : Prop :=
  cfg.securityEnabled = false ∧ cfg.usePlain = false ∧ cfg.useCurve = false ∧ cfg.useNoise = false

/-- a PLAIN configuration -/
def PlainCfg (cfg : Cfg) : Prop :=
  cfg.securityEnabled = true ∧ cfg.usePlain = true ∧ cfg.useCurve = false ∧ cfg.useNoise = false

def handshakeOf (peer : Cfg) : AppAct :=
  .handshakeComplete (if peer.routingId.isEmpty then none else some peer.routingId) (some peer.sockType.bytes)

end Rzmq
