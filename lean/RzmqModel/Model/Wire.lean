import RzmqModel.Gen.Consts
/-!
# M1 `Wire` — ZMTP framing

Mirrors (function names follow the Rust names):
* `core/src/protocol/zmtp/codec.rs`          — `ZmtpCodec::{encode, encode_header_only, decode, prime_with_prefix}`
* `core/src/protocol/zmtp/manual_parser.rs`  — `ZmtpManualParser::{decode_from_buffer, decode_frame_from_slice,
                                               decode_frame_from_bytes, peek_frame_len}`
* `core/src/security/framer/encoder.rs`      — `ZmtpFrameEncoder::{frame_contiguous, frame_vectored}`
* `core/src/security/framer/mod.rs`          — `NullFramer::{write_msg_split, try_read_msg, try_read_msgs_from_bytes}`

Import-free apart from the generated constants, total, executable.  Sizes are `Nat`; the places
where the Rust code computes in `usize`/`u64` are modelled with explicit bounds (`two64`); the `panic`
outcome of `Dec` is kept so that totality ("no decoder ever panics") is a theorem, not a convention.
-/

namespace Rzmq

/-- One ZMTP frame as the application sees it (`Msg` payload + `MsgFlags::{MORE,COMMAND}`). -/
structure Frame where
  payload : List UInt8
  more : Bool
  command : Bool
deriving DecidableEq, Repr, Inhabited

/-- A logical (multipart) message = `FrameBatch`. -/
abbrev Message := List Frame

def two64 : Nat := 18446744073709551616

/-- `BufMut::put_u64` — big-endian 64-bit. -/
def be64 (n : Nat) : List UInt8 :=
  [UInt8.ofNat (n / 72057594037927936), UInt8.ofNat (n / 281474976710656),
   UInt8.ofNat (n / 1099511627776), UInt8.ofNat (n / 4294967296),
   UInt8.ofNat (n / 16777216), UInt8.ofNat (n / 65536),
   UInt8.ofNat (n / 256), UInt8.ofNat n]

/-- `u64::from_be_bytes` over (up to) the given bytes. -/
def ofBe (bs : List UInt8) : Nat := bs.foldl (fun a b => a * 256 + b.toNat) 0

/-- wire flags byte from the two `MsgFlags` bits, with the bit values the given encoder uses -/
def flagBits (more command : Bool) (moreBit commandBit : UInt8) : UInt8 :=
  (if more then moreBit else 0) ||| (if command then commandBit else 0)

/-- header `[flags, len8]` or `[flags ||| long, be64 len]` -/
def header (shortMax : Nat) (fl longBit : UInt8) (len : Nat) : List UInt8 :=
  if len ≤ shortMax then [fl, UInt8.ofNat len] else (fl ||| longBit) :: be64 len

-- ---------------------------------------------------------------------------------------------
-- Encoders
-- ---------------------------------------------------------------------------------------------

/-- `impl Encoder<Msg> for ZmtpCodec :: encode` -/
def encodeCodec (f : Frame) : List UInt8 :=
  header Gen.codecEncodeShortMax
    (flagBits f.more f.command Gen.ZMTP_FLAG_MORE Gen.ZMTP_FLAG_COMMAND) Gen.ZMTP_FLAG_LONG
    f.payload.length ++ f.payload

/-- `ZmtpCodec::encode_header_only` -/
def encodeHeaderOnly (f : Frame) : List UInt8 :=
  header Gen.hdrOnlyShortMax
    (flagBits f.more f.command Gen.ZMTP_FLAG_MORE Gen.ZMTP_FLAG_COMMAND) Gen.ZMTP_FLAG_LONG
    f.payload.length

/-- one frame of `ZmtpFrameEncoder::frame_contiguous` -/
def contigFrame (f : Frame) : List UInt8 :=
  header Gen.contigShortMax (flagBits f.more f.command Gen.contigMore Gen.contigCommand)
    Gen.contigLong f.payload.length ++ f.payload

/-- `ZmtpFrameEncoder::frame_contiguous` (= `NullFramer::write_msg_batch`; `write_msg_multipart` is the
one-message case) -/
def frameContiguous (batch : List Message) : List UInt8 :=
  (batch.flatten.map contigFrame).flatten

/-- header bytes written by the `if is_more { a } else { b }` style encoders
(`frame_vectored`, `NullFramer::write_msg_split`) -/
def hdrMoreStyle (shortMax : Nat) (shortMore shortLast longMore longLast cmdBit : UInt8)
    (f : Frame) : List UInt8 :=
  let c : UInt8 := if f.command then cmdBit else 0
  if f.payload.length ≤ shortMax then
    [(if f.more then shortMore else shortLast) ||| c, UInt8.ofNat f.payload.length]
  else ((if f.more then longMore else longLast) ||| c) :: be64 f.payload.length

def vectHeader (f : Frame) : List UInt8 :=
  hdrMoreStyle Gen.vectShortMax Gen.vectShortMoreByte Gen.vectShortLastByte Gen.vectLongMoreByte
    Gen.vectLongLastByte Gen.vectCommandBit f

/-- `ZmtpFrameEncoder::frame_vectored`: header chunk, then the payload chunk unless empty -/
def frameVectored (batch : List Message) : List (List UInt8) :=
  (batch.flatten.map fun f =>
      if f.payload.isEmpty then [vectHeader f] else [vectHeader f, f.payload]).flatten

/-- `NullFramer::write_msg_split`: `(header, Some payload)` -/
def writeMsgSplit (f : Frame) : List UInt8 × Option (List UInt8) :=
  (hdrMoreStyle Gen.splitShortMax Gen.splitShortMoreByte Gen.splitShortLastByte Gen.splitLongMoreByte
     Gen.splitLongLastByte Gen.splitCommandBit f, some f.payload)

-- ---------------------------------------------------------------------------------------------
-- Decoders
-- ---------------------------------------------------------------------------------------------

/-- outcome of one decode attempt at a frame boundary -/
inductive Dec where
  | needMore
  | error
  | panic
  | frame (f : Frame) (rest : List UInt8)
deriving DecidableEq, Repr

def isLong (fl : UInt8) : Bool := (fl &&& Gen.ZMTP_FLAG_LONG) != 0
def isMore (fl : UInt8) : Bool := (fl &&& Gen.ZMTP_FLAG_MORE) != 0
def isCommand (fl : UInt8) : Bool := (fl &&& Gen.ZMTP_FLAG_COMMAND) != 0

def mkFrame (fl : UInt8) (payload : List UInt8) : Frame :=
  { payload := payload, more := isMore fl, command := isCommand fl }

/-- `max_msg_size >= 0 && raw_size > max_msg_size as u64` -/
def exceeds (max : Int) (raw : Nat) : Bool := decide (0 ≤ max) && decide (max.toNat < raw)

/-- raw length field given the flags byte and the bytes after it -/
def rawSize (fl : UInt8) (tl : List UInt8) : Nat :=
  if isLong fl then ofBe (tl.take 8) else (tl.headD 0).toNat

/-- `ZmtpManualParser::decode_from_buffer` in its (only reachable) `ReadHeader` state: the live decoder.
`tl` are the bytes after the flags byte. The body-present test is the subtraction form
`src.len() - header_len < size`, so nothing can overflow. -/
def decodeBuffer (max : Int) : List UInt8 → Dec
  | [] => .needMore
  | fl :: tl =>
    let hdr := if isLong fl then Gen.bufferLongHdr else Gen.bufferShortHdr
    if tl.length + 1 < hdr then .needMore
    else
      let raw := rawSize fl tl
      if exceeds max raw then .error
      else if tl.length + 1 - hdr < raw then .needMore
      else .frame (mkFrame fl ((tl.drop (hdr - 1)).take raw)) ((tl.drop (hdr - 1)).drop raw)

/-- `decode_frame_from_slice` / `decode_frame_from_bytes` (identical control flow; `minLen`/`hdr`
lengths are taken per function from the source). The body-present test is the subtraction form
`src.len() - header_len < size` (as in `decode_from_buffer`), so nothing can overflow. -/
def decodeSliceLike (minLen longHdr shortHdr : Nat) (max : Int) (src : List UInt8) : Dec :=
  if src.length < minLen then .needMore
  else match src with
  | [] => .needMore
  | fl :: tl =>
    let hdr := if isLong fl then longHdr else shortHdr
    if tl.length + 1 < hdr then .needMore
    else
      let raw := rawSize fl tl
      if exceeds max raw then .error
      else if tl.length + 1 - hdr < raw then .needMore
      else .frame (mkFrame fl ((tl.drop (hdr - 1)).take raw)) ((tl.drop (hdr - 1)).drop raw)

def decodeSlice (max : Int) (src : List UInt8) : Dec :=
  decodeSliceLike Gen.sliceMinLen Gen.sliceLongHdr Gen.sliceShortHdr max src

def decodeBytes (max : Int) (src : List UInt8) : Dec :=
  decodeSliceLike Gen.bytesMinLen Gen.bytesLongHdr Gen.bytesShortHdr max src

/-- outcome of `peek_frame_len` -/
inductive Peek where
  | needMore
  | error
  | total (n : Nat)
deriving DecidableEq, Repr

/-- `ZmtpManualParser::peek_frame_len` (`header_len.checked_add(raw_size)`: overflow is a protocol error) -/
def peekFrameLen (max : Int) : List UInt8 → Peek
  | [] => .needMore
  | fl :: tl =>
    let hdr := if isLong fl then Gen.peekLongHdr else Gen.peekShortHdr
    if tl.length + 1 < hdr then .needMore
    else
      let raw := rawSize fl tl
      if exceeds max raw then .error
      else if two64 ≤ hdr + raw then .error
      else .total (hdr + raw)

-- ---------------------------------------------------------------------------------------------
-- Stream decoding (what `NullFramer::try_read_msgs_from_bytes` / the engine's read loops do)
-- ---------------------------------------------------------------------------------------------

inductive Status where
  | more    -- stopped because the next frame is incomplete
  | err     -- protocol violation
  | panic
deriving DecidableEq, Repr

theorem decodeBuffer_rest_lt {max : Int} {src : List UInt8} {f : Frame} {rest : List UInt8}
    (h : decodeBuffer max src = .frame f rest) : rest.length < src.length := by
  unfold decodeBuffer at h
  split at h
  · cases h
  · simp only at h
    repeat' (split at h)
    all_goals first
      | (cases h; done)
      | (injection h with _ h2; subst h2; simp only [List.length_drop, List.length_cons]; omega)

/-- repeatedly apply a single-frame decoder until it stops; returns frames, why it stopped, leftover -/
def decodeAll (max : Int) (src : List UInt8) : List Frame × Status × List UInt8 :=
  match h : decodeBuffer max src with
  | .needMore => ([], .more, src)
  | .error => ([], .err, src)
  | .panic => ([], .panic, src)
  | .frame f rest =>
    let r := decodeAll max rest
    (f :: r.1, r.2.1, r.2.2)
termination_by src.length
decreasing_by exact decodeBuffer_rest_lt h

/-- Receiver state of the live decode path: the accumulator plus "closed after error". -/
structure RxState where
  acc : List UInt8 := []
  closed : Bool := false
deriving DecidableEq, Repr

/-- one read: append to the accumulator, drain all complete frames (`try_read_msgs_from_bytes`) -/
def feed (max : Int) (s : RxState) (chunk : List UInt8) : RxState × List Frame :=
  if s.closed then (s, [])
  else
    let r := decodeAll max (s.acc ++ chunk)
    ({ acc := r.2.2, closed := r.2.1 != .more }, r.1)

/-- feed a list of reads; all frames delivered, in order, and the final state -/
def feedChunks (max : Int) (s : RxState) : List (List UInt8) → RxState × List Frame
  | [] => (s, [])
  | c :: cs =>
    let r1 := feed max s c
    let r2 := feedChunks max r1.1 cs
    (r2.1, r1.2 ++ r2.2)

-- ---------------------------------------------------------------------------------------------
-- tokio codec decoder (stateful: consumes the header before the body is complete)
-- ---------------------------------------------------------------------------------------------

inductive CodecPhase where
  | readHeader
  | readBody (flags : UInt8) (size : Nat)
deriving DecidableEq, Repr

structure CodecState where
  phase : CodecPhase := .readHeader
  pfx : List UInt8 := []      -- `prefix_bytes` (empty = None)
  buf : List UInt8 := []      -- the caller's `src` buffer
  failed : Bool := false
deriving DecidableEq, Repr

/-- one call of `ZmtpCodec::decode` on the current buffer (prefix already spliced in) -/
def codecDecodeOne (ph : CodecPhase) (src : List UInt8) : Option Frame × Bool × CodecPhase × List UInt8 :=
  -- returns (frame?, error?, new phase, new src)
  match ph with
  | .readBody fl size =>
    if src.length < size then (none, false, ph, src)
    else (some (mkFrame fl (src.take size)), false, .readHeader, src.drop size)
  | .readHeader =>
    match src with
    | [] => (none, false, ph, src)
    | fl :: tl =>
      let hdr := if isLong fl then Gen.codecDecLongHdr else Gen.codecDecShortHdr
      if tl.length + 1 < hdr then (none, false, ph, src)
      else
        let raw := rawSize fl tl
        let body := tl.drop (hdr - 1)
        if Gen.CODEC_MAX_FRAME_SIZE < raw then (none, true, ph, body)
        else if body.length < raw then (none, false, .readBody fl raw, body)
        else (some (mkFrame fl (body.take raw)), false, .readHeader, body.drop raw)

/-- drain: call `decode` until it yields nothing (fuel = bytes available + 1; each success consumes ≥ 1 byte
or changes phase) -/
def codecDrain : Nat → CodecPhase → List UInt8 → List Frame × Bool × CodecPhase × List UInt8
  | 0, ph, src => ([], false, ph, src)
  | fuel + 1, ph, src =>
    match codecDecodeOne ph src with
    | (some f, _, ph', src') =>
      let r := codecDrain fuel ph' src'
      (f :: r.1, r.2.1, r.2.2.1, r.2.2.2)
    | (none, e, ph', src') => ([], e, ph', src')

/-- one read through the codec: splice the primed prefix in front (first call only), append, drain -/
def codecFeed (s : CodecState) (chunk : List UInt8) : CodecState × List Frame :=
  if s.failed then (s, [])
  else
    let src := s.pfx ++ s.buf ++ chunk
    let r := codecDrain (src.length + 1) s.phase src
    ({ phase := r.2.2.1, pfx := [], buf := r.2.2.2, failed := r.2.1 }, r.1)

def codecFeedChunks (s : CodecState) : List (List UInt8) → CodecState × List Frame
  | [] => (s, [])
  | c :: cs =>
    let r1 := codecFeed s c
    let r2 := codecFeedChunks r1.1 cs
    (r2.1, r1.2 ++ r2.2)

end Rzmq
