import RzmqModel.Gen.Life
/-!
# M7 `Lifecycle` — which events make a socket shut itself down

Mirrors the decision structure of `core/src/socket/core/event_processor.rs::process_system_event` and the
event-bus arm of `command_loop.rs`: the *outcome* of handling one system event, as far as the socket's own
life is concerned.  Which arms shut the socket down is re-extracted from the source (`Gen/Life.lean`).
-/
namespace Rzmq

inductive SysEvent where
  | contextTerminating
  | socketClosing (socketId : Nat)
  | actorStopping (parent : Option Nat) (isError : Bool)     -- a child (session, listener, connecter) ended
  | peerIdentityEstablished (parent : Nat)
  | connectionAttemptFailed (parent : Nat)
  | inprocBindingRequest (forMe : Bool) (compatible : Bool) (requestTaken : Bool) (mailboxClosed : Bool)
  | actorStarted
  | busLagged                                                 -- `RecvError::Lagged` on the shared event bus
deriving DecidableEq, Repr

inductive Outcome where
  | carryOn              -- the socket keeps running (at most one of its connections is cleaned up)
  | shutDown             -- the socket starts its own shutdown
deriving DecidableEq, Repr

/-- the outcome for socket `self` (while `Running`) -/
def handleEvent (self : Nat) : SysEvent → Outcome
  | .contextTerminating => if Gen.evContextTermShutsDown == 1 then .shutDown else .carryOn
  | .socketClosing id => if Gen.evSocketClosingOnlyOwn == 1 then (if id == self then .shutDown else .carryOn) else .shutDown
  | .actorStopping _ _ => .carryOn
  | .peerIdentityEstablished _ => .carryOn
  | .connectionAttemptFailed _ => .carryOn
  | .inprocBindingRequest forMe compatible taken mailboxClosed =>
    if !forMe then .carryOn
    else if taken then .shutDown                    -- internal invariant violation: handler returns Err
    else if !compatible then (if Gen.inprocRefusalKeepsBinder == 1 then .carryOn else .shutDown)
    else if mailboxClosed then .shutDown            -- the socket's own mailbox is gone: it is already dying
    else .carryOn
  | .actorStarted => .carryOn
  | .busLagged => if Gen.busLagShutsSocketDown == 1 then .shutDown else .carryOn

/-- events that are about the socket itself: its own close, the termination of its context, or a failure of
its own internals -/
def aboutSelf (self : Nat) : SysEvent → Bool
  | .contextTerminating => true
  | .socketClosing id => id == self
  | .inprocBindingRequest forMe _ taken mailboxClosed => forMe && (taken || mailboxClosed)
  | _ => false

-- the connecter's wait between two attempts -----------------------------------------------------------------------

inductive WaitEv where
  | ownShutdown      -- ContextTerminating, or SocketClosing of the connecter's own socket
  | unrelated        -- any other system event of the context (another socket's actors starting, stopping, failing)
deriving DecidableEq, Repr

/-- `wait_for_retry_delay_internal`: the system events received during the wait, each with the time (ms after the wait
began) at which it arrives. Result: `some t` = the next attempt starts `t` ms after the wait began; `none` = the connecter
stops. `ignoresUnrelated = false` is the earlier shape (any event ended the wait). -/
def retryWait (ignoresUnrelated : Bool) (delay : Nat) : List (Nat × WaitEv) → Option Nat
  | [] => some delay
  | (_, .ownShutdown) :: _ => none
  | (t, .unrelated) :: rest => if ignoresUnrelated then retryWait ignoresUnrelated delay rest else some (min t delay)

end Rzmq
