/-!
# M4 `Rpq` — the ready-pipe queue as a transition system at schedule-point granularity

Mirrors `core/src/socket/patterns/ready_pipe_queue.rs`: `ReadyPipeSender::{send, try_send, try_send_batch}`,
`ReadyPipeQueue::{pop, try_pop, deregister_pipe}` and `SendReservation`'s drop.  Every task is a little
program; one `step` runs a task from its current schedule point (`crate::verif::point` in the Rust code,
compiled only under `cfg(rzmq_verif)`) to the next one, or until it blocks at an `.await` or finishes — exactly
what one grant of the harness's turnstile scheduler does.  Atomicity inside a step (the `fibre` channels, the
atomics) is assumed.

Also here: the check-then-wait pattern on `tokio::sync::Notify` used by `WaitGroup::wait` and
`LoadBalancer::wait_for_connection`.
-/
namespace Rzmq

structure PipeSt where
  id : Nat
  cap : Nat
  chan : List Nat := []          -- the per-pipe spsc channel, oldest first
  queued : Int := 0              -- `queued_count`
  reserved : Int := 0            -- `reserved_count`
  registered : Bool := true
deriving DecidableEq, Repr

/-- program counters -/
inductive Pc where
  -- ReadyPipeSender::send(pipe, item)
  | sendStart (pipe item : Nat)
  | sendReserved (pipe item : Nat)          -- at "rpq.send.reserved" (or parked on a full channel)
  | sendWritten (pipe : Nat)                -- at "rpq.send.written"
  | sendCounted (pipe : Nat) (prev : Int)   -- at "rpq.send.counted" (or parked on a full ready list)
  -- ReadyPipeSender::try_send(pipe, item)
  | trySendStart (pipe item : Nat)
  | trySendWritten (pipe : Nat)
  | trySendCounted (pipe : Nat) (prev : Int)
  -- ReadyPipeSender::try_send_batch(pipe, items)
  | batchStart (pipe : Nat) (items : List Nat)
  | batchReserved (pipe : Nat) (n : Nat) (items : List Nat) (sent : Nat) (zero : Bool)
  | batchWritten (pipe : Nat) (n : Nat) (items : List Nat) (sent : Nat) (zero : Bool)
  | batchCounted (pipe : Nat) (n : Nat) (items : List Nat) (sent : Nat) (zero : Bool)
  | batchRolledBack (pipe : Nat) (items : List Nat) (sent : Nat) (zero : Bool)
  -- ReadyPipeQueue::pop
  | popStart
  | popGotSlot (pipe : Nat)
  | popTaken (pipe item : Nat)
  | popDecremented (pipe item : Nat) (prev : Int)
  -- ReadyPipeQueue::try_pop
  | tryPopStart
  | tryPopGotSlot (pipe : Nat)
  | tryPopTaken (pipe item : Nat)
  | tryPopDecremented (pipe item : Nat) (prev : Int)
  | finished (result : String)
deriving DecidableEq, Repr

structure RpqSt where
  pipes : List PipeSt := []
  ready : List Nat := []         -- the ready list (pipe ids), oldest first
  readyCap : Nat := 8
  tasks : List (String × Pc) := []
  /-- ghost: every (pipe, item) returned by a consumer, in return order -/
  returned : List (Nat × Nat) := []
  /-- ghost: every (pipe, item) written into a pipe channel, in write order -/
  accepted : List (Nat × Nat) := []
  /-- ghost: every (pipe, item) taken out of a pipe channel by a consumer, in take order -/
  takenLog : List (Nat × Nat) := []
deriving DecidableEq, Repr

inductive StepOut where
  | at (label : String)
  | blocked
  | done (result : String)
deriving DecidableEq, Repr

def RpqSt.pipe? (s : RpqSt) (p : Nat) : Option PipeSt := s.pipes.find? (·.id == p)

def RpqSt.setPipe (s : RpqSt) (ps : PipeSt) : RpqSt :=
  { s with pipes := s.pipes.map fun q => if q.id == ps.id then ps else q }

def RpqSt.setTask (s : RpqSt) (t : String) (pc : Pc) : RpqSt :=
  { s with tasks := s.tasks.map fun e => if e.1 == t then (t, pc) else e }

def RpqSt.task? (s : RpqSt) (t : String) : Option Pc := (s.tasks.find? (·.1 == t)).map (·.2)

/-- `ready_tx.send(slot)`: `none` if the ready list is full (the sender parks) -/
def RpqSt.pushReady (s : RpqSt) (p : Nat) : Option RpqSt :=
  if s.ready.length < s.readyCap then some { s with ready := s.ready ++ [p] } else none

def finish (s : RpqSt) (t : String) (r : String) : RpqSt × StepOut := (s.setTask t (.finished r), .done r)

/-- the pipe a task's program counter refers to while it holds the slot's `Arc` (mid-operation) -/
def Pc.slotHeld : Pc → Option Nat
  | .sendReserved p _ | .sendWritten p | .sendCounted p _ => some p
  | .trySendWritten p | .trySendCounted p _ => some p
  | .batchReserved p _ _ _ _ | .batchWritten p _ _ _ _ | .batchCounted p _ _ _ _ | .batchRolledBack p _ _ _ => some p
  | .popGotSlot p | .popTaken p _ | .popDecremented p _ _ => some p
  | .tryPopGotSlot p | .tryPopTaken p _ | .tryPopDecremented p _ _ => some p
  | _ => none

/-- `Weak::upgrade` of a sender's slot succeeds: the slot is still in the map, on the ready list, or held by
a task in the middle of an operation -/
def RpqSt.slotAlive (s : RpqSt) (p : Nat) : Bool :=
  match s.pipe? p with
  | none => false
  | some ps => ps.registered || s.ready.contains p || s.tasks.any (fun e => e.2.slotHeld == some p)

/-- consumer entry: take the next ready entry, or park -/
def popRecv (s : RpqSt) (t : String) (label : String) (mk : Nat → Pc) (parkPc : Pc) : RpqSt × StepOut :=
  match s.ready with
  | [] => (s.setTask t parkPc, .blocked)
  | p :: rest => (({ s with ready := rest }).setTask t (mk p), .at label)

/-- one grant of the scheduler to task `t` -/
def RpqSt.step (s : RpqSt) (t : String) : RpqSt × StepOut :=
  match s.task? t with
  | none => (s, .done "no-task")
  | some pc =>
    match pc with
    | .finished r => (s, .done r)
    -- ---------------------------------------------------------------- send
    | .sendStart p item =>
      if !s.slotAlive p then finish s t "err:Closed" else
      match s.pipe? p with
      | none => finish s t "err:Closed"
      | some ps => ((s.setPipe { ps with reserved := ps.reserved + 1 }).setTask t (.sendReserved p item), .at "rpq.send.reserved")
    | .sendReserved p item =>
      match s.pipe? p with
      | none => finish s t "err:Closed"
      | some ps =>
        if ps.chan.length < ps.cap then
          (({ s with accepted := s.accepted ++ [(p, item)] }.setPipe { ps with chan := ps.chan ++ [item] }).setTask t
             (.sendWritten p), .at "rpq.send.written")
        else (s, .blocked)
    | .sendWritten p =>
      match s.pipe? p with
      | none => finish s t "err:Closed"
      | some ps =>
        ((s.setPipe { ps with queued := ps.queued + 1 }).setTask t (.sendCounted p ps.queued), .at "rpq.send.counted")
    | .sendCounted p prev =>
      if prev == 0 then
        match s.pushReady p with
        | some s' => finish s' t "ok"
        | none => (s, .blocked)
      else finish s t "ok"
    -- ---------------------------------------------------------------- try_send
    | .trySendStart p item =>
      if !s.slotAlive p then finish s t "closed" else
      match s.pipe? p with
      | none => finish s t "closed"
      | some ps =>
        if ps.chan.length < ps.cap then
          (({ s with accepted := s.accepted ++ [(p, item)] }.setPipe
              { ps with reserved := ps.reserved + 1, chan := ps.chan ++ [item] }).setTask t (.trySendWritten p),
           .at "rpq.try_send.written")
        else finish s t "full"        -- reservation taken and rolled back within the step
    | .trySendWritten p =>
      match s.pipe? p with
      | none => finish s t "closed"
      | some ps =>
        ((s.setPipe { ps with queued := ps.queued + 1 }).setTask t (.trySendCounted p ps.queued), .at "rpq.try_send.counted")
    | .trySendCounted p prev =>
      if prev == 0 then
        match s.pushReady p with
        | some s' => finish s' t "ok"
        | none => (s, .blocked)        -- the real code spins here (`HANG` in the harness)
      else finish s t "ok"
    -- ---------------------------------------------------------------- try_send_batch
    | .batchStart p items =>
      if !s.slotAlive p then finish s t s!"sent=0 left={items.length}" else
      match s.pipe? p with
      | none => finish s t s!"sent=0 left={items.length}"
      | some ps =>
        if items.isEmpty then finish s t "sent=0 left=0"
        else ((s.setPipe { ps with reserved := ps.reserved + items.length }).setTask t
                (.batchReserved p items.length items 0 false), .at "rpq.batch.reserved")
    | .batchReserved p n items sent zero | .batchCounted p n items sent zero =>
      match s.pipe? p with
      | none => finish s t "closed"
      | some ps =>
        match items with
        | item :: rest =>
          if ps.chan.length < ps.cap then
            (({ s with accepted := s.accepted ++ [(p, item)] }.setPipe { ps with chan := ps.chan ++ [item] }).setTask t
               (.batchWritten p n rest (sent + 1) zero), .at "rpq.batch.written")
          else
            -- full: roll back the unused reservations
            ((s.setPipe { ps with reserved := ps.reserved - ((n : Int) - sent) }).setTask t
               (.batchRolledBack p items sent zero), .at "rpq.batch.rolled_back")
        | [] =>
          ((s.setPipe { ps with reserved := ps.reserved - ((n : Int) - sent) }).setTask t
             (.batchRolledBack p [] sent zero), .at "rpq.batch.rolled_back")
    | .batchWritten p n items sent zero =>
      match s.pipe? p with
      | none => finish s t "closed"
      | some ps =>
        ((s.setPipe { ps with queued := ps.queued + 1 }).setTask t
           (.batchCounted p n items sent (zero || ps.queued == 0)), .at "rpq.batch.counted")
    | .batchRolledBack p items sent zero =>
      if zero then
        match s.pushReady p with
        | some s' => finish s' t s!"sent={sent} left={items.length}"
        | none => (s, .blocked)
      else finish s t s!"sent={sent} left={items.length}"
    -- ---------------------------------------------------------------- pop
    | .popStart => popRecv s t "rpq.pop.got_slot" .popGotSlot .popStart
    | .popGotSlot p =>
      match s.pipe? p with
      | some ps =>
        match ps.chan with
        | item :: rest =>
          (({ s with takenLog := s.takenLog ++ [(p, item)] }.setPipe { ps with chan := rest }).setTask t
             (.popTaken p item), .at "rpq.pop.taken")
        | [] => popRecv s t "rpq.pop.got_slot" .popGotSlot .popStart   -- stale entry: discard, wait again
      | none => popRecv s t "rpq.pop.got_slot" .popGotSlot .popStart
    | .popTaken p item =>
      match s.pipe? p with
      | none => finish s t "err"
      | some ps =>
        ((s.setPipe { ps with queued := ps.queued - 1, reserved := ps.reserved - 1 }).setTask t
           (.popDecremented p item ps.queued), .at "rpq.pop.decremented")
    | .popDecremented p item prev =>
      if prev > 1 then
        match s.pushReady p with
        | some s' => finish { s' with returned := s'.returned ++ [(p, item)] } t s!"{p}:{item}"
        | none => (s, .blocked)
      else finish { s with returned := s.returned ++ [(p, item)] } t s!"{p}:{item}"
    -- ---------------------------------------------------------------- try_pop
    | .tryPopStart =>
      match s.ready with
      | [] => finish s t "none"
      | p :: rest => (({ s with ready := rest }).setTask t (.tryPopGotSlot p), .at "rpq.try_pop.got_slot")
    | .tryPopGotSlot p =>
      match s.pipe? p with
      | some ps =>
        match ps.chan with
        | item :: rest =>
          (({ s with takenLog := s.takenLog ++ [(p, item)] }.setPipe { ps with chan := rest }).setTask t
             (.tryPopTaken p item), .at "rpq.try_pop.taken")
        | [] => finish s t "none"
      | none => finish s t "none"
    | .tryPopTaken p item =>
      match s.pipe? p with
      | none => finish s t "err"
      | some ps =>
        ((s.setPipe { ps with queued := ps.queued - 1, reserved := ps.reserved - 1 }).setTask t
           (.tryPopDecremented p item ps.queued), .at "rpq.try_pop.decremented")
    | .tryPopDecremented p item prev =>
      -- `let _ = ready_tx.try_send(slot)`: a failed re-arm is silently dropped
      let s' := if prev > 1 then (s.pushReady p).getD s else s
      finish { s' with returned := s'.returned ++ [(p, item)] } t s!"{p}:{item}"

/-- dropping a task's future while it is parked at an `.await` (or before its first poll) -/
def RpqSt.cancel (s : RpqSt) (t : String) : RpqSt × StepOut :=
  match s.task? t with
  | none => (s, .done "no-task")
  | some pc =>
    match pc with
    | .finished r => (s, .done r)
    | .sendReserved p _ =>
      -- parked on a full channel: `SendReservation::drop` rolls the reservation back, the item is dropped
      match s.pipe? p with
      | some ps => finish (s.setPipe { ps with reserved := ps.reserved - 1 }) t "cancelled"
      | none => finish s t "cancelled"
    | _ => finish s t "cancelled"

/-- `deregister_pipe`: the slot leaves the map; entries already on the ready list become stale.  Modelled by
keeping the slot (consumers holding it can still drain it) but marking it unregistered. -/
def RpqSt.deregister (s : RpqSt) (p : Nat) : RpqSt :=
  match s.pipe? p with
  | some ps => s.setPipe { ps with registered := false }
  | none => s

-- ---------------------------------------------------------------------------------------------
-- check-then-wait on `Notify` (WaitGroup::wait, LoadBalancer::wait_for_connection)
-- ---------------------------------------------------------------------------------------------

/-- A waiter and a condition that other tasks make true and then announce with `notify_waiters()`.
`registered` = the waiter's `Notified` future is enabled; `notified` = it has been woken. -/
structure WaitSt where
  cond : Bool := false           -- "count == 0" / "a peer is present"
  pc : Nat := 0                  -- 0 not started, 1 at the schedule point after the check, 2 done
  registered : Bool := false
  notified : Bool := false
deriving DecidableEq, Repr

/-- the signalling side: make the condition true, then `notify_waiters()` (wakes registered waiters only) -/
def WaitSt.signal (w : WaitSt) : WaitSt :=
  { w with cond := true, notified := w.notified || w.registered }

/-- the waiter, as the code is now: enable the `Notified` future, then check, then wait -/
def WaitSt.stepRegisterFirst (w : WaitSt) : WaitSt × StepOut :=
  match w.pc with
  | 0 => if w.cond then ({ w with pc := 2, registered := true }, .done "ok")
         else ({ w with pc := 1, registered := true }, .at "checked")
  | 1 => if w.notified then
           -- woken: loop, re-register, re-check
           if w.cond then ({ w with pc := 2 }, .done "ok") else ({ w with notified := false }, .at "checked")
         else (w, .blocked)
  | _ => (w, .done "ok")

/-- the waiter as it was before the fix: check first, register only when awaiting -/
def WaitSt.stepCheckFirst (w : WaitSt) : WaitSt × StepOut :=
  match w.pc with
  | 0 => if w.cond then ({ w with pc := 2 }, .done "ok") else ({ w with pc := 1 }, .at "checked")
  | 1 => if w.notified then
           if w.cond then ({ w with pc := 2 }, .done "ok") else ({ w with notified := false, registered := false }, .at "checked")
         else ({ w with registered := true }, .blocked)
  | _ => (w, .done "ok")

end Rzmq
