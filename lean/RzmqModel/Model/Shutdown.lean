import RzmqModel.Model.RpqInv
import RzmqModel.Gen.Life
/-!
# M9 `Shutdown` — who is counted, who is told, and what a closed socket answers

Mirrors
* `core/src/context.rs` (`publish_actor_started` → `wg.add(1)`, `publish_actor_stopping` → `wg.done()`, `term` = publish
  `ContextTerminating` and wait for the wait group, with a straggler time-out), `runtime/actor_drop_guard.rs` (the guard's
  `Drop` publishes the stop on every exit path) and `runtime/waitgroup.rs` (register, then check, then wait: C08's
  `register_first_no_lost_wakeup`);
* how an actor learns that its socket is going away: the event bus (only events published AFTER it subscribed), its mailbox
  (`Stop`), or — for actors that may be spawned while the shutdown is already under way (connecters, accepted sessions) —
  the parent's `is_running` flag, looked at before every connect attempt / every 100 ms of a handshake;
* what the API of a closed socket does: data operations look at `is_running` first; control operations go through the
  mailbox, which answers what is queued behind the shutdown and is then closed.
The interleavings of the actor tasks themselves are exercised by the lifecycle scenarios; this model carries the accounting
and the decisions.
-/
namespace Rzmq

-- accounting ---------------------------------------------------------------------------------------------------

inductive ExitHow where
  | normal | error | aborted           -- returned, returned with an error, task cancelled / panicked (guard dropped by unwinding)
deriving DecidableEq, Repr

inductive AcctEv where
  | spawn                               -- `publish_actor_started` (wg.add) then the task starts
  | exit (id : Nat) (how : ExitHow)     -- the task ends: its drop guard runs
  | poll                                -- the task waiting in `term()` is polled
deriving DecidableEq, Repr

structure Acct where
  wg : Nat := 0
  alive : List Nat := []
  nextId : Nat := 0
  waiter : WaitSt := { cond := true }   -- the `WaitGroup::wait` of `term()`; cond = "count == 0"
deriving DecidableEq, Repr

def Acct.step (a : Acct) : AcctEv → Acct
  | .spawn =>
    { a with wg := a.wg + 1, alive := a.alive ++ [a.nextId], nextId := a.nextId + 1,
             waiter := { a.waiter with cond := false } }
  | .exit id _ =>
    if a.alive.contains id then
      let wg' := a.wg - 1
      { a with wg := wg', alive := a.alive.erase id,
               waiter := if wg' == 0 then a.waiter.signal else a.waiter }
    else a                                -- an id that is not running: nothing happens (no double `done`)
  | .poll => { a with waiter := a.waiter.stepRegisterFirst.1 }

def Acct.run (a : Acct) (evs : List AcctEv) : Acct := evs.foldl Acct.step a

-- who is told -----------------------------------------------------------------------------------------------------

/-- how an actor that is alive at, or spawned around, the moment its socket starts to close gets to know -/
structure Notice where
  subscribedBeforeEvent : Bool      -- its bus subscription predates the SocketClosing / ContextTerminating event
  readsBus : Bool                   -- the phase it is in looks at the bus
  checksParent : Bool               -- it looks at the parent's `is_running` flag
  pollMs : Nat                      -- … at least this often (0 = only once, before it starts an attempt)
deriving DecidableEq, Repr

/-- the latest moment (ms after the parent cleared `is_running` and published the event) at which the actor knows;
`none` = it never finds out by itself -/
def Notice.learnsBy (n : Notice) : Option Nat :=
  if n.subscribedBeforeEvent && n.readsBus then some 0
  else if n.checksParent then some n.pollMs
  else none

/-- the two kinds of actor that can be spawned while a shutdown is under way, as the code treats them now -/
def sessionInHandshake (subscribedBefore : Bool) : Notice :=
  { subscribedBeforeEvent := subscribedBefore, readsBus := Gen.handshakeWatchesEvents == 1,
    checksParent := Gen.handshakePollsParentEveryMs > 0, pollMs := Gen.handshakePollsParentEveryMs }

def connecterRetrying (subscribedBefore : Bool) (retryIvlMs : Nat) : Notice :=
  { subscribedBeforeEvent := subscribedBefore, readsBus := Gen.connecterAbortIsFinal == 1,
    checksParent := Gen.connecterChecksParentRunning == 1, pollMs := retryIvlMs }

-- what a closed socket answers -----------------------------------------------------------------------------------

inductive ApiOp where
  | send | recv | sendMultipart | recvMultipart            -- data operations
  | bind | connect | disconnect | unbind | setOption | getOption | monitor | close   -- through the mailbox
deriving DecidableEq, Repr

inductive ApiRes where
  | proceeds            -- the socket is running: the operation does its work
  | error               -- returns an error at once
  | ok                  -- returns Ok at once (close of a socket that is already closing)
  | hangs               -- the caller waits for a reply that nobody will send
deriving DecidableEq, Repr

/-- where the socket's command loop is when the call arrives -/
inductive LoopPhase where
  | running | shuttingDown | exited
deriving DecidableEq, Repr

def ApiOp.isData : ApiOp → Bool
  | .send | .recv | .sendMultipart | .recvMultipart => true
  | _ => false

/-- `answersQueued` = the loop answers the commands still queued when it exits (and then closes the mailbox) -/
def apiResult (answersQueued : Bool) (phase : LoopPhase) (op : ApiOp) : ApiRes :=
  match phase with
  | .running => .proceeds
  | .shuttingDown =>
    if op.isData then .error                               -- `is_running()` is already false
    else if op == .close then .ok                          -- processed by the loop: "UserClose during shutdown"
    else if answersQueued then .error else .hangs          -- queued; the loop may exit before it gets there
  | .exited =>
    if op.isData then .error
    else if answersQueued then .error                      -- the mailbox is closed: the send itself fails
    else .hangs                                            -- queued for ever behind a receiver that is gone

-- names --------------------------------------------------------------------------------------------------------------

structure Registry where
  inproc : List (String × Nat) := []      -- name ↦ owning socket
  sockets : List Nat := []
deriving DecidableEq, Repr

inductive RegEv where
  | register (sock : Nat)
  | bindInproc (sock : Nat) (name : String)
  | loopExit (sock : Nat)                 -- end of `run_command_loop`: unregister the socket and its names
deriving DecidableEq, Repr

def Registry.step (r : Registry) : RegEv → Registry
  | .register s => { r with sockets := r.sockets ++ [s] }
  | .bindInproc s n =>
    if r.inproc.any (·.1 == n) || !r.sockets.contains s then r      -- AddrInUse / unknown socket
    else { r with inproc := r.inproc ++ [(n, s)] }
  | .loopExit s =>
    { sockets := if Gen.commandLoopUnregistersSocket == 1 then r.sockets.filter (· != s) else r.sockets,
      inproc := if Gen.commandLoopUnregistersInprocNames == 1 then r.inproc.filter (·.2 != s) else r.inproc }

def Registry.run (r : Registry) (evs : List RegEv) : Registry := evs.foldl Registry.step r

-- callers parked inside the socket when it is closed ----------------------------------------------------------------

/-- how a parking site (the load balancer's `wait_for_connection`) is treated by the pattern's `Stop` handler -/
structure ParkCfg where
  reaches : Bool       -- the Stop handler signals this site at all (`deactivate()` is called)
  wakesAll : Bool      -- the signal sets the flag and releases every parked caller (`notify_waiters`); otherwise one
                       -- caller per signal, or a stored permit when nobody is parked (`notify_one`)
  checksFlag : Bool    -- a caller registers for the signal and looks at the flag BEFORE it parks
deriving DecidableEq, Repr

structure Park where
  flag : Bool := false
  parked : List Nat := []        -- callers waiting, oldest first
  permit : Bool := false         -- a stored `notify_one` permit
  returned : List Nat := []      -- callers that came back (with an error)
deriving DecidableEq, Repr

inductive ParkEv where
  | arrive (t : Nat)             -- task `t` calls send() with no peer attached and SNDTIMEO -1
  | stop                         -- the pattern processes `Command::Stop` (it does so twice per shutdown)
deriving DecidableEq, Repr

def Park.step (c : ParkCfg) (p : Park) : ParkEv → Park
  | .arrive t =>
    if c.checksFlag && p.flag then { p with returned := p.returned ++ [t] }
    else if p.permit then
      -- the stored permit ends the wait at once; the loop looks at the flag again
      if p.flag then { p with permit := false, returned := p.returned ++ [t] }
      else { p with permit := false, parked := p.parked ++ [t] }
    else { p with parked := p.parked ++ [t] }
  | .stop =>
    if !c.reaches then p
    else if c.wakesAll then { p with flag := true, parked := [], returned := p.returned ++ p.parked }
    else match p.parked with
      | [] => { p with flag := true, permit := true }
      | t :: rest => { p with flag := true, parked := rest, returned := p.returned ++ [t] }

def Park.run (c : ParkCfg) (p : Park) (evs : List ParkEv) : Park := evs.foldl (Park.step c) p

/-- the socket types whose send() can wait in a load balancer for its first peer -/
inductive BalancedTy where
  | push | dealer | req
deriving DecidableEq, Repr

/-- the sites as the code treats them now (re-extracted on every run) -/
def balancerSite : BalancedTy → ParkCfg
  | .push => { reaches := Gen.pushStopDeactivatesBalancer == 1 && Gen.orchestratorDeactivateReachesBalancer == 1,
               wakesAll := Gen.balancerDeactivateWakesAll == 1, checksFlag := Gen.balancerWaitChecksFlagAfterRegistering == 1 }
  | .dealer => { reaches := Gen.dealerStopDeactivatesBalancer == 1 && Gen.orchestratorDeactivateReachesBalancer == 1,
                 wakesAll := Gen.balancerDeactivateWakesAll == 1, checksFlag := Gen.balancerWaitChecksFlagAfterRegistering == 1 }
  | .req => { reaches := Gen.reqStopDeactivatesBalancer == 1,
              wakesAll := Gen.balancerDeactivateWakesAll == 1, checksFlag := Gen.balancerWaitChecksFlagAfterRegistering == 1 }


end Rzmq
