import RzmqModel.Gen.Life
/-!
# M15 `SendTx` — a message handed to `send()` frame by frame, with the caller dropping futures

Mirrors the frame-by-frame branch of `DealerSocket::send` (`DealerSendTransaction`), of `RouterSocket::send`
(`current_send_target` / `ActiveFragmentedSend`) and of `PubSocket::send` / `PushSocket::send` (`pending_parts`).  A frame with MORE is put into the transaction and the call returns;
the last frame completes the message, whose hand-over to the peer's pipe is the only thing that is awaited.  A caller may
drop that future while it is pending (`cancel`): no code of the socket runs then, so whatever state the socket was left
in before the await is the state it stays in.

`half` are frames that already sit in the peer's pipe without the end of their message (only a socket that hands frames
over one by one produces them); the peer reads them glued to whatever is handed over next.
-/
namespace Rzmq

structure TxCfg where
  /-- nothing reaches the peer's pipe before the last frame of the message has been given -/
  buffersUntilLast : Bool
  /-- the transaction is emptied (state Idle, permit released) before the hand-over is awaited -/
  closesBeforeAwait : Bool
deriving DecidableEq, Repr

structure SendTx where
  buf : List Nat := []                 -- frames kept in the transaction
  busy : Bool := false                 -- the transaction is not Idle (send_multipart must wait, the next frame is a payload frame)
  inflight : Option (List Nat) := none -- the frames whose hand-over is being awaited by a live future
  half : List Nat := []                -- frames in the peer's pipe without the end of their message
  pipe : List (List Nat) := []         -- messages as the peer will read them
  /-- ghost: the frames of the message the application is in the middle of giving -/
  cur : List Nat := []
  /-- ghost: every message the application gave completely (last frame given, or send_multipart called), in order -/
  offered : List (List Nat) := []
  /-- ghost: send_multipart calls that found the transaction busy although the application had no message in progress -/
  stuck : Nat := 0
deriving DecidableEq, Repr

inductive TxEv where
  | frame (f : Nat)        -- send(frame | MORE)
  | last (f : Nat)         -- send(last frame): the future is now pending on the hand-over
  | complete               -- … the hand-over went through and the future returned
  | cancel                 -- … the caller dropped the future instead
  | whole (m : List Nat)   -- send_multipart(m), running to completion
deriving DecidableEq, Repr

def SendTx.handOver (s : SendTx) (m : List Nat) : SendTx :=
  { s with pipe := s.pipe ++ [s.half ++ m], half := [] }

def SendTx.step (c : TxCfg) (s : SendTx) : TxEv → SendTx
  | .frame f =>
    if s.inflight.isSome then s
    else if c.buffersUntilLast then { s with buf := s.buf ++ [f], busy := true, cur := s.cur ++ [f] }
    else { s with half := s.half ++ [f], busy := true, cur := s.cur ++ [f] }
  | .last f =>
    if s.inflight.isSome then s
    else
      let out := if c.buffersUntilLast then s.buf ++ [f] else [f]
      let s := { s with inflight := some out, offered := s.offered ++ [s.cur ++ [f]], cur := [] }
      if c.closesBeforeAwait then { s with buf := [], busy := false }
      else { s with buf := if c.buffersUntilLast then out else [], busy := true }
  | .complete =>
    match s.inflight with
    | none => s
    | some m => { (s.handOver m) with inflight := none, buf := [], busy := false }
  | .cancel => { s with inflight := none }
  | .whole m =>
    if s.inflight.isSome then s
    else if s.busy then (if s.cur = [] then { s with stuck := s.stuck + 1 } else s)
    else { (s.handOver m) with offered := s.offered ++ [m] }

def SendTx.run (c : TxCfg) (s : SendTx) (evs : List TxEv) : SendTx := evs.foldl (SendTx.step c) s

/-- the two sockets as the code has them now (re-extracted on every run) -/
def dealerTxCfg : TxCfg :=
  { buffersUntilLast := Gen.dealerTxBuffersUntilLast == 1, closesBeforeAwait := Gen.dealerTxClosedBeforeAwait == 1 }
def routerTxCfg : TxCfg :=
  { buffersUntilLast := Gen.routerTxBuffersUntilLast == 1, closesBeforeAwait := Gen.routerTxClosedBeforeAwait == 1 }
/-- PUB and PUSH keep the frames in `pending_parts` and take them out before they await (flags of push_socket.rs are C02's) -/
def pubTxCfg : TxCfg :=
  { buffersUntilLast := Gen.pubTxBuffersUntilLast == 1, closesBeforeAwait := Gen.pubTxClosedBeforeAwait == 1 }
def pushTxCfg : TxCfg :=
  { buffersUntilLast := Gen.pushHoldsPartsUntilLast == 1, closesBeforeAwait := Gen.pushHoldsPartsUntilLast == 1 }

end Rzmq
