/-!
# M5 `ReqRep` — the REQ and REP state machines at lock-scope granularity

Mirrors `core/src/socket/req_socket.rs` (`send`, `recv`/`recv_multipart`, `pipe_detached`) and
`core/src/socket/rep_socket.rs` (`recv`/`recv_multipart`, `send_multipart`, `pipe_detached`).  Any number of
tasks call the API on clones of one socket; an *event* is one lock scope of one call (state check / claim,
commit after the awaited operation, roll-back on error or when the future is dropped), or something the
peer does.  `claim = true` is the code as it is now (the check moves the state to an in-flight value under
the same lock); `claim = false` is the earlier shape (check, release the lock, commit after the await), kept
to state the counterexample.
-/
namespace Rzmq

-- ---------------------------------------------------------------------------------------------
-- REQ
-- ---------------------------------------------------------------------------------------------

inductive ReqState where
  | readyToSend
  | sending
  | expectingReply (exchange : Nat)     -- exchanges are numbered (`exchange_counter`)
deriving DecidableEq, Repr

inductive ReqPc where
  | idle
  | sendInFlight        -- passed the state check of `send`, awaiting the transport
  | recvWaiting (exchange : Nat)   -- passed the state check of `recv` during that exchange, awaiting a reply
deriving DecidableEq, Repr

/-- successful API operations, in commit order -/
inductive Op where
  | send | recv
  | abandoned          -- the peer holding the outstanding request went away: the exchange is void
deriving DecidableEq, Repr

inductive ReqEv where
  | sendBegin (t : Nat)            -- lock scope 1 of `send`: check (and claim)
  | sendOk (t : Nat)               -- the awaited send succeeded: lock scope 2 commits
  | sendFail (t : Nat)             -- the awaited send failed / timed out / the future was dropped
  | recvBegin (t : Nat)            -- state check of `recv`
  | recvGot (t : Nat)              -- a reply was dequeued by this task: commit
  | recvFail (t : Nat)             -- the receive RETURNS without a message: timeout, error, or woken late
                                   -- through the reply notifier
  | recvDropped (t : Nat)          -- the receive future is dropped while waiting: nothing runs, nothing changes
  | peerReplies                    -- the peer answers one outstanding request
  | peerDetached                   -- the peer the REQ is waiting for goes away
deriving DecidableEq, Repr

structure ReqSys where
  claim : Bool := true
  /-- a failing receive only finishes the exchange it was started in (as the code does now) -/
  exchangeGuard : Bool := true
  /-- (intermediate shape) a SUCCESSFUL receive was guarded by the exchange number too, so a late waiter that
  consumed the current reply left the state at `expectingReply` -/
  successGuarded : Bool := false
  nextExchange : Nat := 0
  st : ReqState := .readyToSend
  pcs : List (Nat × ReqPc) := []
  atPeer : Nat := 0                -- requests delivered to the peer and not yet answered
  replies : Nat := 0               -- replies queued for the REQ application
  log : List Op := []              -- successful operations, in commit order
  rejected : Nat := 0              -- calls refused with InvalidState
deriving DecidableEq, Repr

def ReqSys.pc (s : ReqSys) (t : Nat) : ReqPc := ((s.pcs.find? (·.1 == t)).map (·.2)).getD .idle

def ReqSys.setPc (s : ReqSys) (t : Nat) (pc : ReqPc) : ReqSys :=
  { s with pcs := (s.pcs.filter (·.1 != t)) ++ [(t, pc)] }

def ReqSys.step (s : ReqSys) : ReqEv → ReqSys
  | .sendBegin t =>
    if s.pc t != .idle then s
    else if s.st == .readyToSend then
      (if s.claim then { s with st := .sending } else s).setPc t .sendInFlight
    else { s with rejected := s.rejected + 1 }
  | .sendOk t =>
    if s.pc t != .sendInFlight then s
    else ({ s with st := .expectingReply s.nextExchange, nextExchange := s.nextExchange + 1,
                   atPeer := s.atPeer + 1, log := s.log ++ [.send] } : ReqSys).setPc t .idle
  | .sendFail t =>
    if s.pc t != .sendInFlight then s
    else ({ s with st := if s.claim && s.st == .sending then .readyToSend else s.st } : ReqSys).setPc t .idle
  | .recvBegin t =>
    if s.pc t != .idle then s
    else match s.st with
      | .expectingReply x => s.setPc t (.recvWaiting x)
      | _ => { s with rejected := s.rejected + 1 }
  | .recvGot t =>
    match s.pc t with
    | .recvWaiting x =>
      if s.replies == 0 then s
      else
        ({ s with replies := s.replies - 1, log := s.log ++ [.recv],
                  -- a receive that returns a reply has consumed the reply of whatever exchange is current
                  st := match s.st with
                        | .expectingReply y => if s.successGuarded && y != x then s.st else .readyToSend
                        | o => o } : ReqSys).setPc t .idle
    | _ => s
  | .recvFail t =>
    match s.pc t with
    | .recvWaiting x =>
      match s.st with
      | .expectingReply y =>
        if y == x then
          -- its own exchange is given up (RCVTIMEO expired, error): the REQ may send again
          ({ s with st := .readyToSend, log := s.log ++ [.abandoned] } : ReqSys).setPc t .idle
        else if !s.exchangeGuard then
          -- (earlier shape) a receive of an OLDER exchange reset the state of the current one
          ({ s with st := .readyToSend } : ReqSys).setPc t .idle
        else s.setPc t .idle
      | _ => s.setPc t .idle
    | _ => s
  | .recvDropped t =>
    match s.pc t with
    | .recvWaiting _ => s.setPc t .idle
    | _ => s
  | .peerReplies =>
    if s.atPeer == 0 then s else { s with atPeer := s.atPeer - 1, replies := s.replies + 1 }
  | .peerDetached =>
    -- `pipe_detached`: outstanding requests and queued replies of that peer are gone; ExpectingReply is reset
    match s.st with
    | .expectingReply _ => { s with atPeer := 0, replies := 0, st := .readyToSend, log := s.log ++ [.abandoned] }
    | _ => { s with atPeer := 0, replies := 0 }

def ReqSys.run (s : ReqSys) (evs : List ReqEv) : ReqSys := evs.foldl ReqSys.step s

/-- strict alternation starting with `first` -/
def alternates : Op → List Op → Bool
  | _, [] => true
  | .send, .send :: rest => alternates .recv rest
  | .recv, .recv :: rest => alternates .send rest
  | .recv, .abandoned :: rest => alternates .send rest     -- a request whose peer vanished needs no recv
  | _, _ => false

/-- events by which an exchange is given up without a reply: a receive that ends without a message, or the
peer going away -/
def ReqEv.abandons : ReqEv → Bool
  | .recvFail _ => true
  | .peerDetached => true
  | _ => false

/-- no two sends without a receive or an abandoned exchange in between (`out` = a request is outstanding) -/
def sendsSeparated : Bool → List Op → Bool
  | _, [] => true
  | true, .send :: _ => false
  | false, .send :: rest => sendsSeparated true rest
  | _, .recv :: rest => sendsSeparated false rest
  | _, .abandoned :: rest => sendsSeparated false rest

-- ---------------------------------------------------------------------------------------------
-- REP
-- ---------------------------------------------------------------------------------------------

inductive RepState where
  | readyToReceive
  | receiving
  | receivedRequest (peer : Nat)
deriving DecidableEq, Repr

inductive RepPc where
  | idle
  | recvInFlight
deriving DecidableEq, Repr

inductive RepEv where
  | recvBegin (t : Nat)
  | recvGot (t : Nat) (i : Nat)    -- this task dequeued a pending request (the `i`-th queued one: the ready-pipe
                                   -- queue serves the peers' pipes round-robin, not in arrival order): commit its
                                   -- source as reply address
  | recvGiveUp (t : Nat)           -- timeout / error / dropped
  | sendReply (t : Nat)            -- `send_multipart`: takes the stored request atomically
  | peerRequests (peer : Nat)      -- a request from `peer` is queued
  | peerDetached (peer : Nat)
deriving DecidableEq, Repr

/-- what the application observed: a request received from a peer, a reply sent to a peer -/
inductive RepOp where
  | recv (src : Nat)
  | send (dst : Nat)
  | abandoned (src : Nat)     -- the requester went away before the reply: the exchange is void
deriving DecidableEq, Repr

structure RepSys where
  claim : Bool := true
  st : RepState := .readyToReceive
  pcs : List (Nat × RepPc) := []
  pending : List Nat := []         -- sources of queued requests, oldest first
  log : List RepOp := []
  rejected : Nat := 0
deriving DecidableEq, Repr

def RepSys.pc (s : RepSys) (t : Nat) : RepPc := ((s.pcs.find? (·.1 == t)).map (·.2)).getD .idle

def RepSys.setPc (s : RepSys) (t : Nat) (pc : RepPc) : RepSys :=
  { s with pcs := (s.pcs.filter (·.1 != t)) ++ [(t, pc)] }

def RepSys.step (s : RepSys) : RepEv → RepSys
  | .recvBegin t =>
    if s.pc t != .idle then s
    else if s.st == .readyToReceive then
      (if s.claim then { s with st := .receiving } else s).setPc t .recvInFlight
    else { s with rejected := s.rejected + 1 }
  | .recvGot t i =>
    if s.pc t != .recvInFlight then s
    else match s.pending[i]? with
      | none => s
      | some src =>
        ({ s with pending := s.pending.eraseIdx i, st := .receivedRequest src, log := s.log ++ [.recv src] } : RepSys).setPc t .idle
  | .recvGiveUp t =>
    if s.pc t != .recvInFlight then s
    else ({ s with st := if s.claim && s.st == .receiving then .readyToReceive else s.st } : RepSys).setPc t .idle
  | .sendReply _ =>
    match s.st with
    | .receivedRequest peer => { s with st := .readyToReceive, log := s.log ++ [.send peer] }
    | _ => { s with rejected := s.rejected + 1 }
  | .peerRequests peer => { s with pending := s.pending ++ [peer] }
  | .peerDetached peer =>
    { s with pending := s.pending.filter (· != peer),
             st := if s.st == .receivedRequest peer then .readyToReceive else s.st,
             log := if s.st == .receivedRequest peer then s.log ++ [.abandoned peer] else s.log }

def RepSys.run (s : RepSys) (evs : List RepEv) : RepSys := evs.foldl RepSys.step s

/-- REP alternation with correct routing: every `send dst` directly follows the `recv src` it answers, `dst = src` -/
def repWellFormed : List RepOp → Bool
  | [] => true
  | [.recv _] => true
  | .recv src :: .send dst :: rest => src == dst && repWellFormed rest
  | .recv src :: .abandoned dst :: rest => src == dst && repWellFormed rest
  | _ => false

end Rzmq
