/-! Socket-type names and mechanism kinds shared by the generated tables and the models (import-free). -/
namespace Rzmq

/-- The socket-type names ZMTP knows (`socket_type_name` strings). `other` stands for any other string. -/
inductive SockName where
  | PAIR | PUB | SUB | REQ | REP | DEALER | ROUTER | PULL | PUSH | XPUB | XSUB | other
deriving DecidableEq, Repr, Inhabited

def SockName.all : List SockName :=
  [.PAIR, .PUB, .SUB, .REQ, .REP, .DEALER, .ROUTER, .PULL, .PUSH, .XPUB, .XSUB]

def SockName.toString : SockName → String
  | .PAIR => "PAIR" | .PUB => "PUB" | .SUB => "SUB" | .REQ => "REQ" | .REP => "REP"
  | .DEALER => "DEALER" | .ROUTER => "ROUTER" | .PULL => "PULL" | .PUSH => "PUSH"
  | .XPUB => "XPUB" | .XSUB => "XSUB" | .other => "OTHER"

def SockName.ofString (s : String) : SockName :=
  match s with
  | "PAIR" => .PAIR | "PUB" => .PUB | "SUB" => .SUB | "REQ" => .REQ | "REP" => .REP
  | "DEALER" => .DEALER | "ROUTER" => .ROUTER | "PULL" => .PULL | "PUSH" => .PUSH
  | "XPUB" => .XPUB | "XSUB" => .XSUB | _ => .other

def ascii (cs : List Char) : List UInt8 := cs.map fun c => UInt8.ofNat c.toNat

/-- ASCII bytes of the name as they appear in READY metadata (kernel-reducible, no `String`). -/
def SockName.bytes : SockName → List UInt8
  | .PAIR => ascii ['P','A','I','R'] | .PUB => ascii ['P','U','B'] | .SUB => ascii ['S','U','B']
  | .REQ => ascii ['R','E','Q'] | .REP => ascii ['R','E','P']
  | .DEALER => ascii ['D','E','A','L','E','R'] | .ROUTER => ascii ['R','O','U','T','E','R']
  | .PULL => ascii ['P','U','L','L'] | .PUSH => ascii ['P','U','S','H']
  | .XPUB => ascii ['X','P','U','B'] | .XSUB => ascii ['X','S','U','B']
  | .other => ascii ['O','T','H','E','R']

def SockName.ofBytes (b : List UInt8) : SockName :=
  match SockName.all.find? (fun n => n.bytes == b) with
  | some n => n
  | none => .other

/-- the `is_locally_enabled` predicates of `KNOWN_MECHANISMS` -/
inductive MechKind where
  | null | plain | curve | noise
deriving DecidableEq, Repr, Inhabited

end Rzmq
