import RzmqModel.Model.Rpq
/-!
Definitions used to state the ready-pipe-queue theorems (C08, C09): tokens, the inductive invariant `Inv`,
well-formedness, initial states, and the event runs of the `Notify` wait model.
-/
namespace Rzmq.C08
open Rzmq

set_option linter.unusedVariables false

/-- task at `pc` currently holds pipe `p`'s token -/
def holdsToken (p : Nat) : Pc → Bool
  | .sendCounted q prev => q == p && prev == 0
  | .trySendCounted q prev => q == p && prev == 0
  | .batchWritten q _ _ _ zero => q == p && zero
  | .batchCounted q _ _ _ zero => q == p && zero
  | .batchRolledBack q _ _ zero => q == p && zero
  | .popGotSlot q => q == p
  | .popTaken q _ => q == p
  | .popDecremented q _ prev => q == p && decide (prev > 1)
  | .tryPopGotSlot q => q == p
  | .tryPopTaken q _ => q == p
  | .tryPopDecremented q _ prev => q == p && decide (prev > 1)
  | _ => false

/-- a producer has written into `p`'s channel but not yet incremented `queued_count` -/
def uncounted (p : Nat) : Pc → Bool
  | .sendWritten q => q == p
  | .trySendWritten q => q == p
  | .batchWritten q _ _ _ _ => q == p
  | _ => false

/-- a consumer has taken an item out of `p`'s channel but not yet decremented `queued_count` -/
def takenNotCounted (p : Nat) : Pc → Bool
  | .popTaken q _ => q == p
  | .tryPopTaken q _ => q == p
  | _ => false

/-- the task is a producer operating on pipe `p` (between its start and its completion) -/
def producerOn (p : Nat) : Pc → Bool
  | .sendStart q _ | .sendReserved q _ | .sendWritten q | .sendCounted q _ => q == p
  | .trySendStart q _ | .trySendWritten q | .trySendCounted q _ => q == p
  | .batchStart q _ | .batchReserved q _ _ _ _ | .batchWritten q _ _ _ _ | .batchCounted q _ _ _ _
  | .batchRolledBack q _ _ _ => q == p
  | _ => false

def countTasks (s : RpqSt) (f : Pc → Bool) : Nat := (s.tasks.filter fun e => f e.2).length

/-- reservations on pipe `p` taken by the task at `pc` and neither committed (counted) nor rolled back yet -/
def pendingRes (p : Nat) : Pc → Int
  | .sendReserved q _ => if q == p then 1 else 0
  | .sendWritten q => if q == p then 1 else 0
  | .trySendWritten q => if q == p then 1 else 0
  | .batchReserved q n _ sent _ => if q == p then (n : Int) - sent else 0
  | .batchWritten q n _ sent _ => if q == p then (n : Int) - sent + 1 else 0
  | .batchCounted q n _ sent _ => if q == p then (n : Int) - sent else 0
  | _ => 0

def sumPending (s : RpqSt) (p : Nat) : Int := (s.tasks.map fun e => pendingRes p e.2).sum

def tokens (s : RpqSt) (p : Nat) : Nat := s.ready.count p + countTasks s (holdsToken p)

/-- structural well-formedness the harness guarantees: distinct pipe ids, distinct task names, the per-pipe
channel is single-producer (`fibre::spsc`), every pipe is registered, the ready list can hold one entry per pipe -/
def WellFormed (s : RpqSt) : Prop :=
  (s.pipes.map (·.id)).Nodup ∧ (s.tasks.map (·.1)).Nodup
  ∧ (∀ ps ∈ s.pipes, countTasks s (producerOn ps.id) ≤ 1 ∧ ps.registered = true ∧ 0 < ps.cap)
  ∧ s.pipes.length ≤ s.readyCap
  ∧ (∀ e ∈ s.tasks, ∀ p, (producerOn p e.2 ∨ holdsToken p e.2 ∨ takenNotCounted p e.2) → (s.pipe? p).isSome)

/-- auxiliary per-task fact: the `try_send_batch` bookkeeping (`sent` items written so far out of `n` reserved,
`items` still to go), and no "saw the 0→1 transition" flag before the first count -/
def pcOk : Pc → Prop
  | .batchReserved _ n items sent zero => sent + items.length = n ∧ zero = false
  | .batchWritten _ n items sent _ => sent + items.length = n
  | .batchCounted _ n items sent _ => sent + items.length = n
  | _ => True

/-- THE invariant (per pipe): counter/channel consistency and "exactly one token iff something is counted";
plus (global) every ready-list entry names an existing pipe, and the batch bookkeeping `pcOk` of every task -/
def Inv (s : RpqSt) : Prop :=
  (∀ ps ∈ s.pipes,
    ps.queued + (countTasks s (uncounted ps.id) : Int) = (ps.chan.length : Int) + (countTasks s (takenNotCounted ps.id) : Int)
    ∧ 0 ≤ ps.queued ∧ ps.reserved = ps.queued + sumPending s ps.id
    ∧ (∀ e ∈ s.tasks, 0 ≤ pendingRes ps.id e.2)
    ∧ tokens s ps.id = (if ps.queued ≥ 1 then 1 else 0)
    ∧ (∀ p' ∈ s.ready, (s.pipe? p').isSome))
  ∧ (∀ p' ∈ s.ready, (s.pipe? p').isSome)
  ∧ (∀ e ∈ s.tasks, pcOk e.2)

/-- a state in which no task has started yet and all queues are empty -/
def Initial (s : RpqSt) : Prop :=
  s.ready = [] ∧ (∀ ps ∈ s.pipes, ps.chan = [] ∧ ps.queued = 0 ∧ ps.reserved = 0)
  ∧ (∀ e ∈ s.tasks, match e.2 with
      | .sendStart .. | .trySendStart .. | .batchStart .. | .popStart | .tryPopStart | .finished _ => True
      | _ => False)

-- =================================================================================================
-- proof infrastructure
-- =================================================================================================

inductive WaitEv where
  | signal | poll
deriving DecidableEq, Repr

def runRegisterFirst (w : WaitSt) : List WaitEv → WaitSt
  | [] => w
  | .signal :: r => runRegisterFirst w.signal r
  | .poll :: r => runRegisterFirst w.stepRegisterFirst.1 r

def runCheckFirst (w : WaitSt) : List WaitEv → WaitSt
  | [] => w
  | .signal :: r => runCheckFirst w.signal r
  | .poll :: r => runCheckFirst w.stepCheckFirst.1 r


end Rzmq.C08
