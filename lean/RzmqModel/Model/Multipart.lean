import RzmqModel.Model.Wire
import RzmqModel.Gen.Life
import RzmqModel.Gen.Proto
/-!
# M6 `Multipart` — whole messages in, frames or whole messages out

Mirrors
* `core/src/socket/patterns/anonymous_ingress.rs` (`recv`, `recv_multipart`, `deregister_pipe`; PULL/SUB/REP/REQ) and the
  `frame_recv_buffer` of `dealer_socket.rs` / `router_socket.rs` (same algorithm): complete messages are taken from
  the ready-pipe queue; `recv()` hands out one frame and stashes the rest, `recv_multipart()` hands out the rest of a
  stashed message or the next whole message;
* the MORE-flag normalisation of `send_multipart` (PUSH, PUB, DEALER, ROUTER);
* the frame-count limits (`message/mod.rs`, `Socket::send_multipart`, engine).

The queue is modelled sequentially (per-pipe FIFO + ready list, round-robin), which is all a single caller can see;
its concurrent behaviour is C08's subject.
-/
namespace Rzmq

structure StashCfg where
  /-- `deregister_pipe` / `pipe_detached` leave the stash alone -/
  keepOnDetach : Bool := true
  /-- `recv_multipart` looks at the stash first -/
  mpUsesStash : Bool := true
deriving DecidableEq, Repr

structure Stash where
  cfg : StashCfg := {}
  pipes : List (Nat × List Message) := []    -- per-pipe queues (a detached pipe's queue lives on until drained)
  caps : List (Nat × Nat) := []              -- registered pipes and their capacity
  ready : List Nat := []
  cache : Option (List Frame) := none
  /-- ghost: messages taken out of the queue, frames handed to the application, results of recv_multipart -/
  taken : List Message := []
  takenFrom : List (Nat × Message) := []     -- the same with the pipe it came from
  accepted : List (Nat × Message) := []      -- puts that were queued
  returned : List Frame := []
  mpResults : List (List Frame) := []
deriving DecidableEq, Repr

inductive StashEv where
  | register (p cap : Nat)
  | put (p : Nat) (m : Message)
  | recv
  | recvMultipart
  | detach (p : Nat)
deriving DecidableEq, Repr

def Stash.queueOf (s : Stash) (p : Nat) : List Message := ((s.pipes.find? (·.1 == p)).map (·.2)).getD []

def Stash.setQueue (s : Stash) (p : Nat) (q : List Message) : Stash :=
  { s with pipes := (s.pipes.filter (·.1 != p)) ++ [(p, q)] }

/-- `try_pop`: the head of the ready list is served; a pipe that still holds messages goes to the back -/
def Stash.pop (s : Stash) : Option (Message × Stash) :=
  match s.ready with
  | [] => none
  | p :: rest =>
    match s.queueOf p with
    | [] => none
    | m :: q =>
      let s1 := s.setQueue p q
      some (m, { s1 with ready := (if q.isEmpty then rest else rest ++ [p])
                         taken := s.taken ++ [m]
                         takenFrom := s.takenFrom ++ [(p, m)] })

/-- result of one operation, as the application sees it -/
inductive StashOut where
  | ok | refused | noPipe | wouldBlock
  | frame (f : Frame)
  | frames (fs : List Frame)
deriving DecidableEq, Repr

/-- split a frame list after its first frame without MORE -/
def takeMessage : List Frame → List Frame × List Frame
  | [] => ([], [])
  | f :: rest => if f.more then let r := takeMessage rest; (f :: r.1, r.2) else ([f], rest)

def Stash.step (s : Stash) : StashEv → Stash × StashOut
  | .register p cap => ({ s with caps := (s.caps.filter (·.1 != p)) ++ [(p, cap)] }, .ok)
  | .put p m =>
    match s.caps.find? (·.1 == p) with
    | none => (s, .noPipe)
    | some (_, cap) =>
      let q := s.queueOf p
      if q.length ≥ max cap 1 then (s, .refused)
      else
        let s1 := s.setQueue p (q ++ [m])
        ({ s1 with ready := (if q.isEmpty then s.ready ++ [p] else s.ready)
                   accepted := s.accepted ++ [(p, m)] }, .ok)
  | .recv =>
    match s.cache with
    | some (f :: rest) =>
      ({ s with cache := if rest.isEmpty then none else some rest, returned := s.returned ++ [f] }, .frame f)
    | _ =>
      match s.pop with
      | none => ({ s with cache := none }, .wouldBlock)
      | some (m, s') =>
        match m with
        | [] => ({ s' with cache := none }, .frame { payload := [], more := false, command := false })
        | [f] => ({ s' with cache := none, returned := s'.returned ++ [f] }, .frame f)
        | f :: rest => ({ s' with cache := some rest, returned := s'.returned ++ [f] }, .frame f)
  | .recvMultipart =>
    match (if s.cfg.mpUsesStash then s.cache else none) with
    | some (f :: rest) =>
      let r := takeMessage (f :: rest)
      ({ s with cache := if r.2.isEmpty then none else some r.2, returned := s.returned ++ r.1,
                mpResults := s.mpResults ++ [r.1] }, .frames r.1)
    | _ =>
      match s.pop with
      | none => (s, .wouldBlock)
      | some (m, s') => ({ s' with returned := s'.returned ++ m, mpResults := s'.mpResults ++ [m] }, .frames m)
  | .detach p =>
    ({ s with caps := s.caps.filter (·.1 != p), cache := if s.cfg.keepOnDetach then s.cache else none }, .ok)

def Stash.run (s : Stash) (evs : List StashEv) : Stash := evs.foldl (fun a e => (a.step e).1) s

/-- frames still stashed -/
def Stash.stashed (s : Stash) : List Frame := s.cache.getD []

-- sender side ---------------------------------------------------------------------------------------------

/-- `send_multipart`: MORE on every frame but the last -/
def normaliseMore (fs : List Frame) : List Frame := fs.mapIdx fun i f => { f with more := decide (i + 1 < fs.length) }

/-- a well-formed message: non-empty, MORE on all frames but the last -/
def WholeMsg (m : List Frame) : Prop := m ≠ [] ∧ (∀ f ∈ m.dropLast, f.more = true) ∧ (∀ f, m.getLast? = some f → f.more = false)

end Rzmq
