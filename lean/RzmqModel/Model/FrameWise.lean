import RzmqModel.Gen.Life
import RzmqModel.Gen.Proto
/-!
# M14 `FrameWise` — a PUSH socket fed frame by frame

Mirrors `core/src/socket/push_socket.rs::send` (`pending_parts`): a frame that carries MORE is held; the frame without MORE
completes the message, which is then load-balanced to ONE peer as a whole; a message that grows beyond the frame limit is
discarded as a whole.  `send_multipart` normalises the MORE flags and routes the message at once.  Peers are served round
robin (which peer gets a message does not matter here, only that a message is never split).
-/
namespace Rzmq

structure FwFrame where
  more : Bool
  tag : Nat            -- which application message the caller meant it for, and
  idx : Nat            -- its position in it (ghost: to state what "whole" means)
deriving DecidableEq, Repr

structure FwCfg where
  holdsParts : Bool    -- frames with MORE are held until the last frame (otherwise every frame is routed on its own)
  limit : Nat          -- MAX_USER_FRAMES_PER_MESSAGE
deriving DecidableEq, Repr

structure Fw where
  peers : Nat := 1
  cursor : Nat := 0
  parts : List FwFrame := []                    -- pending_parts
  got : List (Nat × List FwFrame) := []         -- (peer, one routed unit), in routing order
  errors : Nat := 0
deriving DecidableEq, Repr

inductive FwEv where
  | send (f : FwFrame)
  | sendMultipart (fs : List FwFrame)
deriving DecidableEq, Repr

def Fw.route (s : Fw) (unit : List FwFrame) : Fw :=
  { s with got := s.got ++ [(s.cursor % max s.peers 1, unit)], cursor := s.cursor + 1 }

/-- MORE on all but the last frame -/
def fwNormaliseMore : List FwFrame → List FwFrame
  | [] => []
  | [f] => [{ f with more := false }]
  | f :: rest => { f with more := true } :: fwNormaliseMore rest

def Fw.step (c : FwCfg) (s : Fw) : FwEv → Fw
  | .send f =>
    if !c.holdsParts then s.route [f]
    else if s.parts.length ≥ c.limit then { s with parts := [], errors := s.errors + 1 }
    else if f.more then { s with parts := s.parts ++ [f] }
    else ({ s with parts := [] } : Fw).route (s.parts ++ [f])
  | .sendMultipart fs => if fs.isEmpty then s else s.route (fwNormaliseMore fs)

def Fw.run (c : FwCfg) (s : Fw) (evs : List FwEv) : Fw := evs.foldl (Fw.step c) s

/-- a routed unit is a whole message: MORE on every frame but the last, none on the last -/
def wholeUnit : List FwFrame → Bool
  | [] => false
  | [f] => !f.more
  | f :: rest => f.more && wholeUnit rest

def currentFwCfg : FwCfg :=
  { holdsParts := Gen.pushHoldsPartsUntilLast == 1 && Gen.pushOverlongMessageIsDroppedWhole == 1,
    limit := Gen.MAX_USER_FRAMES_PER_MESSAGE }

end Rzmq
