import RzmqModel.Model.Engine
import RzmqModel.Proofs.Wire
import RzmqModel.Props.C03
/-! Helper lemmas for the engine model: heartbeats (C19). -/
namespace Rzmq

/-- a tick raises no application event (in particular no timeout) when no PING is outstanding -/
theorem onTick_app_nil_of_not_waiting (cfg : Cfg) (now : Nat) (s : Eng) (hw : s.waitingForPong = false) :
    (onTick cfg now s).2.app = [] := by
  unfold onTick
  cases hto : cfg.heartbeatTimeout <;> cases hlp : s.lastPing <;> cases hiv : cfg.heartbeatIvl <;>
    simp only [hw] <;> repeat' split
  all_goals simp_all

/-- `ZmtpCommand::parse` on the body built by `create_ping(ttl, ctx)` -/
theorem parseCmd_ping (ttl : Nat) (ctx : Bytes) :
    parseCmd (Gen.mkPing ++ be16 ttl ++ ctx) = some (.ping ctx) := by
  simp [parseCmd, Gen.mkPing, Gen.cmdPing, Gen.cmdPingMinLen, Gen.pingContextOffset, be16,
    List.isPrefixOf]

/-- `ZmtpCommand::parse` on the body built by `create_pong(ctx)` -/
theorem parseCmd_pong (ctx : Bytes) : parseCmd (Gen.mkPong ++ ctx) = some (.pong ctx) := by
  simp [parseCmd, Gen.mkPong, Gen.cmdPing, Gen.cmdPong, Gen.cmdPingMinLen, Gen.cmdPongMinLen,
    Gen.pongContextOffset, List.isPrefixOf]

/-- any successful data-phase step that stays in the data phase clears `waitingForPong` and stamps
`lastActivity` (depends on `Gen.trafficClearsWaitingForPong = 1`) -/
theorem step_data_refreshes (spec : AbsSpec) (cfg : Cfg) (now : Nat) (s s' : Eng) (o : Out)
    (hd : s.phase = .data) (h : step spec cfg now s = some (s', o)) (hd' : s'.phase = .data) :
    s'.waitingForPong = false ∧ s'.lastActivity = now := by
  unfold step at h
  simp only [hd] at h
  have hc : Gen.trafficClearsWaitingForPong = 1 := by decide
  simp only [hc, fail, beq_self_eq_true, if_true] at h
  repeat' split at h
  all_goals first
    | (cases h; done)
    | (simp only [Option.some.injEq, Prod.mk.injEq] at h
       obtain ⟨rfl, rfl⟩ := h
       first | (cases hd'; done) | simp)

/-- the data-phase step on an accumulator that starts with an encoded PING command -/
theorem step_ping (spec : AbsSpec) (cfg : Cfg) (now : Nat) (s : Eng) (ttl : Nat) (ctx rest : Bytes)
    (hd : s.phase = .data) (hv : s.version ≠ some .v2) (hs : s.sealed = false) (hp : s.panicked = false)
    (hlen : (Gen.mkPing ++ be16 ttl ++ ctx).length + 9 < two64)
    (hmax : cfg.maxMsgSize < 0 ∨ (Gen.mkPing ++ be16 ttl ++ ctx).length ≤ cfg.maxMsgSize.toNat)
    (hacc : s.acc = encodeCodec (cmdFrame (Gen.mkPing ++ be16 ttl ++ ctx)) ++ rest) :
    ∃ s', step spec cfg now s = some (s', { net := [sendAct (pongBytes ctx)], app := [] })
      ∧ s'.acc = rest ∧ s'.phase = .data := by
  have hdec : decodeBuffer cfg.maxMsgSize s.acc
      = .frame (cmdFrame (Gen.mkPing ++ be16 ttl ++ ctx)) rest := by
    rw [hacc]
    apply C03.decodeBuffer_encode
    · show (Gen.mkPing ++ be16 ttl ++ ctx).length < two64
      omega
    · exact hmax
  have hv' : (s.version == some .v2) = false := by
    simpa using hv
  unfold step
  simp only [hd, hs, hp, hdec, cmdFrame, parseCmd_ping, hv']
  simp

end Rzmq
