import RzmqModel.Model.Engine
import RzmqModel.Proofs.Wire
/-! Helper lemmas for the engine model. -/
namespace Rzmq

end Rzmq
