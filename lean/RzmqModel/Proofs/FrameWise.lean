import RzmqModel.Model.FrameWise
namespace Rzmq

theorem wholeUnit_fwNormaliseMore (fs : List FwFrame) (h : fs ≠ []) : wholeUnit (fwNormaliseMore fs) = true := by
  induction fs with
  | nil => exact absurd rfl h
  | cons f rest ih =>
    cases rest with
    | nil => simp [fwNormaliseMore, wholeUnit]
    | cons g rest' =>
      have := ih (by simp)
      cases hn : fwNormaliseMore (g :: rest') with
      | nil => cases rest' <;> simp [fwNormaliseMore] at hn
      | cons x xs => simp [fwNormaliseMore, hn, wholeUnit] at this ⊢; exact this

theorem wholeUnit_append_last (ps : List FwFrame) (f : FwFrame) (hps : ∀ p ∈ ps, p.more = true) (hf : f.more = false) :
    wholeUnit (ps ++ [f]) = true := by
  induction ps with
  | nil => simp [wholeUnit, hf]
  | cons p rest ih =>
    have hp := hps p (by simp)
    have hr := ih (fun q hq => hps q (by simp [hq]))
    cases hrest : rest ++ [f] with
    | nil => simp at hrest
    | cons x xs =>
      simp only [List.cons_append, hrest, wholeUnit, hp, Bool.true_and]
      rw [← hrest]; exact hr

/-- held frames all carry MORE; everything routed is whole -/
def Fw.Inv (s : Fw) : Prop := (∀ p ∈ s.parts, p.more = true) ∧ (∀ u ∈ s.got, wholeUnit u.2 = true)

theorem Fw.step_inv (limit : Nat) (s : Fw) (e : FwEv) (h : s.Inv) : (Fw.step { holdsParts := true, limit := limit } s e).Inv := by
  obtain ⟨hp, hg⟩ := h
  cases e with
  | send f =>
    simp only [Fw.step, Bool.not_true, Bool.false_eq_true, if_false]
    split
    · exact ⟨by simp, hg⟩
    · split
      · rename_i hm
        refine ⟨?_, hg⟩
        intro p hpm
        rcases List.mem_append.mp hpm with h1 | h1
        · exact hp p h1
        · simp at h1; rw [h1]; exact hm
      · rename_i hm
        refine ⟨by simp [Fw.route], ?_⟩
        intro u hu
        simp only [Fw.route, List.mem_append, List.mem_singleton] at hu
        rcases hu with h1 | h1
        · exact hg u h1
        · rw [h1]; exact wholeUnit_append_last _ _ hp (by simpa using hm)
  | sendMultipart fs =>
    simp only [Fw.step]
    split
    · exact ⟨hp, hg⟩
    · rename_i hne
      refine ⟨hp, ?_⟩
      intro u hu
      simp only [Fw.route, List.mem_append, List.mem_singleton] at hu
      rcases hu with h1 | h1
      · exact hg u h1
      · rw [h1]; exact wholeUnit_fwNormaliseMore fs (by intro hnil; simp [hnil] at hne)

theorem Fw.run_inv (limit : Nat) (s : Fw) (evs : List FwEv) (h : s.Inv) : (Fw.run { holdsParts := true, limit := limit } s evs).Inv := by
  induction evs generalizing s with
  | nil => exact h
  | cons e es ih => exact ih _ (Fw.step_inv limit s e h)

end Rzmq
