import RzmqModel.Model.FrameWise
namespace Rzmq

theorem wholeUnit_fwNormaliseMore (fs : List FwFrame) (h : fs ≠ []) : wholeUnit (fwNormaliseMore fs) = true := by
  induction fs with
  | nil => exact absurd rfl h
  | cons f rest ih =>
    cases rest with
    | nil => simp [fwNormaliseMore, wholeUnit]
    | cons g rest' =>
      have := ih (by simp)
      cases hn : fwNormaliseMore (g :: rest') with
      | nil => cases rest' <;> simp [fwNormaliseMore] at hn
      | cons x xs => simp [fwNormaliseMore, hn, wholeUnit] at this ⊢; exact this

theorem wholeUnit_append_last (ps : List FwFrame) (f : FwFrame) (hps : ∀ p ∈ ps, p.more = true) (hf : f.more = false) :
    wholeUnit (ps ++ [f]) = true := by
  induction ps with
  | nil => simp [wholeUnit, hf]
  | cons p rest ih =>
    have hp := hps p (by simp)
    have hr := ih (fun q hq => hps q (by simp [hq]))
    cases hrest : rest ++ [f] with
    | nil => simp at hrest
    | cons x xs =>
      simp only [List.cons_append, hrest, wholeUnit, hp, Bool.true_and]
      rw [← hrest]; exact hr

/-- held frames all carry MORE; everything routed is whole -/
def Fw.Inv (s : Fw) : Prop := (∀ p ∈ s.parts, p.more = true) ∧ (∀ u ∈ s.got, wholeUnit u.2 = true)

theorem Fw.step_inv (limit : Nat) (s : Fw) (e : FwEv) (h : s.Inv) : (Fw.step { holdsParts := true, limit := limit } s e).Inv := by
  obtain ⟨hp, hg⟩ := h
  cases e with
  | send f =>
    simp only [Fw.step, Bool.not_true, Bool.false_eq_true, if_false]
    split
    · exact ⟨by simp, hg⟩
    · split
      · rename_i hm
        refine ⟨?_, hg⟩
        intro p hpm
        rcases List.mem_append.mp hpm with h1 | h1
        · exact hp p h1
        · simp at h1; rw [h1]; exact hm
      · rename_i hm
        refine ⟨by simp [Fw.route], ?_⟩
        intro u hu
        simp only [Fw.route, List.mem_append, List.mem_singleton] at hu
        rcases hu with h1 | h1
        · exact hg u h1
        · rw [h1]; exact wholeUnit_append_last _ _ hp (by simpa using hm)
  | sendMultipart fs =>
    simp only [Fw.step]
    split
    · exact ⟨hp, hg⟩
    · rename_i hne
      refine ⟨hp, ?_⟩
      intro u hu
      simp only [Fw.route, List.mem_append, List.mem_singleton] at hu
      rcases hu with h1 | h1
      · exact hg u h1
      · rw [h1]; exact wholeUnit_fwNormaliseMore fs (by intro hnil; simp [hnil] at hne)

theorem Fw.run_inv (limit : Nat) (s : Fw) (evs : List FwEv) (h : s.Inv) : (Fw.run { holdsParts := true, limit := limit } s evs).Inv := by
  induction evs generalizing s with
  | nil => exact h
  | cons e es ih => exact ih _ (Fw.step_inv limit s e h)

/-! ## frames are neither duplicated nor reordered, and the peers are served in turn -/

def fwKey (f : FwFrame) : Nat × Nat := (f.tag, f.idx)

/-- the frames the application gave, in order -/
def fwGiven : List FwEv → List (Nat × Nat)
  | [] => []
  | .send f :: r => fwKey f :: fwGiven r
  | .sendMultipart fs :: r => fs.map fwKey ++ fwGiven r

/-- the frames the socket has routed or still holds, in order -/
def Fw.out (s : Fw) : List (Nat × Nat) := (s.got.flatMap (·.2) ++ s.parts).map fwKey

theorem fwNormaliseMore_keys (fs : List FwFrame) : (fwNormaliseMore fs).map fwKey = fs.map fwKey := by
  fun_induction fwNormaliseMore fs with
  | case1 => rfl
  | case2 f => rfl
  | case3 f rest hne ih => simp only [List.map_cons, ih]; rfl

theorem Fw.errors_step_mono (c : FwCfg) (s : Fw) (e : FwEv) : s.errors ≤ (Fw.step c s e).errors := by
  cases e with
  | send f =>
    simp only [Fw.step]
    split
    · simp [Fw.route]
    · split
      · simp
      · split <;> simp [Fw.route]
  | sendMultipart fs =>
    simp only [Fw.step]
    split <;> simp [Fw.route]

theorem Fw.errors_run_mono (c : FwCfg) (evs : List FwEv) (s : Fw) : s.errors ≤ (Fw.run c s evs).errors := by
  induction evs generalizing s with
  | nil => exact Nat.le_refl _
  | cons e r ih => exact Nat.le_trans (Fw.errors_step_mono c s e) (ih _)

/-- one step that discards nothing keeps every frame exactly once (a send_multipart call may overtake the frames of the
message that is still being assembled, so the statement is about the multiset, the order inside a unit is `wholeUnit`'s
and `units_keep_the_order_given`'s business) -/
theorem Fw.out_step (limit : Nat) (s : Fw) (e : FwEv)
    (h : (Fw.step { holdsParts := true, limit := limit } s e).errors = s.errors) :
    ((Fw.step { holdsParts := true, limit := limit } s e).out).Perm (s.out ++ fwGiven [e]) := by
  cases e with
  | send f =>
    simp only [Fw.step, Bool.not_true, Bool.false_eq_true, if_false, fwGiven, List.append_nil] at h ⊢
    by_cases hl : s.parts.length ≥ limit
    · simp only [hl, if_true] at h; omega
    · simp only [hl, if_false]
      cases hm : f.more with
      | true => simp [Fw.out]
      | false => simp [Fw.out, Fw.route]
  | sendMultipart fs =>
    simp only [Fw.step, fwGiven, List.append_nil]
    cases fs with
    | nil => simp
    | cons a r =>
      simp only [List.isEmpty_cons, Bool.false_eq_true, if_false]
      simp only [Fw.out, Fw.route, List.flatMap_append, List.flatMap_cons, List.flatMap_nil, List.append_nil,
        List.map_append, fwNormaliseMore_keys, List.append_assoc]
      exact List.Perm.append_left _ List.perm_append_comm

theorem fwGiven_cons (e : FwEv) (r : List FwEv) : fwGiven (e :: r) = fwGiven [e] ++ fwGiven r := by
  cases e <;> simp [fwGiven]

theorem Fw.out_run (limit : Nat) (evs : List FwEv) (s : Fw)
    (h : (Fw.run { holdsParts := true, limit := limit } s evs).errors = s.errors) :
    ((Fw.run { holdsParts := true, limit := limit } s evs).out).Perm (s.out ++ fwGiven evs) := by
  induction evs generalizing s with
  | nil => simp [Fw.run, fwGiven]
  | cons e r ih =>
    have h1 := Fw.errors_step_mono { holdsParts := true, limit := limit } s e
    have h2 := Fw.errors_run_mono { holdsParts := true, limit := limit } r (Fw.step { holdsParts := true, limit := limit } s e)
    simp only [Fw.run, List.foldl_cons] at h h2 ⊢
    have hs : (Fw.step { holdsParts := true, limit := limit } s e).errors = s.errors := by omega
    have := ih (Fw.step { holdsParts := true, limit := limit } s e) (by simp only [Fw.run]; omega)
    simp only [Fw.run] at this
    rw [fwGiven_cons, ← List.append_assoc]
    exact this.trans (List.Perm.append_right _ (Fw.out_step limit s e hs))

/-- the peers are served strictly in turn: the i-th routed unit goes to peer (start + i) mod peers -/
theorem Fw.rr_step (c : FwCfg) (s : Fw) (e : FwEv) (k : Nat)
    (h : s.cursor = k + s.got.length ∧ ∀ i (hi : i < s.got.length), (s.got[i]).1 = (k + i) % max s.peers 1) :
    let t := Fw.step c s e
    t.peers = s.peers ∧ t.cursor = k + t.got.length ∧ ∀ i (hi : i < t.got.length), (t.got[i]).1 = (k + i) % max t.peers 1 := by
  have hroute : ∀ (s' : Fw) (u : List FwFrame), s'.peers = s.peers → s'.cursor = s.cursor → s'.got = s.got →
      (s'.route u).peers = s.peers ∧ (s'.route u).cursor = k + (s'.route u).got.length ∧
      ∀ i (hi : i < (s'.route u).got.length), ((s'.route u).got[i]).1 = (k + i) % max (s'.route u).peers 1 := by
    intro s' u hp hc hg
    refine ⟨by simp [Fw.route, hp], by simp [Fw.route, hc, hg, h.1]; omega, ?_⟩
    intro i hi
    simp only [Fw.route, hg, List.length_append, List.length_singleton] at hi ⊢
    by_cases hlt : i < s.got.length
    · rw [List.getElem_append_left hlt]; simpa [hp] using h.2 i hlt
    · have : i = s.got.length := by omega
      subst this
      simp [hc, hp, h.1]
  cases e with
  | send f =>
    simp only [Fw.step]
    split
    · exact hroute s _ rfl rfl rfl
    · split
      · exact ⟨rfl, h.1, h.2⟩
      · split
        · exact ⟨rfl, h.1, h.2⟩
        · exact hroute _ _ rfl rfl rfl
  | sendMultipart fs =>
    simp only [Fw.step]
    split
    · exact ⟨rfl, h.1, h.2⟩
    · exact hroute s _ rfl rfl rfl

theorem Fw.rr_run (c : FwCfg) (evs : List FwEv) (s : Fw) (k : Nat)
    (h : s.cursor = k + s.got.length ∧ ∀ i (hi : i < s.got.length), (s.got[i]).1 = (k + i) % max s.peers 1) :
    let t := Fw.run c s evs
    t.peers = s.peers ∧ t.cursor = k + t.got.length ∧ ∀ i (hi : i < t.got.length), (t.got[i]).1 = (k + i) % max t.peers 1 := by
  induction evs generalizing s with
  | nil => exact ⟨rfl, h.1, h.2⟩
  | cons e r ih =>
    have h1 := Fw.rr_step c s e k h
    have h2 := ih (Fw.step c s e) ⟨h1.2.1, h1.2.2⟩
    simp only [Fw.run, List.foldl_cons] at h2 ⊢
    exact ⟨h2.1.trans h1.1, h2.2.1, h2.2.2⟩

end Rzmq
