import RzmqModel.Model.RpqInv
import RzmqModel.Proofs.RpqInv
/-! Helper lemmas for C09: dropping (`RpqSt.cancel`) a parked future on the ready-pipe-queue model. -/
namespace Rzmq.C08
open Rzmq
set_option linter.unusedSimpArgs false

/-- the pcs at which a task has not touched anything yet (not started, or a consumer waiting for a ready entry) -/
def idlePc : Pc → Bool
  | .sendStart .. | .trySendStart .. | .batchStart .. | .popStart | .tryPopStart => true
  | _ => false

theorem idlePc_preds (pc : Pc) (h : idlePc pc = true) (x : Nat) :
    uncounted x pc = false ∧ takenNotCounted x pc = false ∧ holdsToken x pc = false ∧ pendingRes x pc = 0 := by
  cases pc <;> simp_all [idlePc, uncounted, takenNotCounted, holdsToken, pendingRes]

theorem cancel_idle_eq (s : RpqSt) (t : String) (pc : Pc) (ht : s.task? t = some pc) (h : idlePc pc = true) :
    s.cancel t = finish s t "cancelled" := by
  unfold RpqSt.cancel
  cases pc <;> simp_all [idlePc]

theorem cancel_finished_eq (s : RpqSt) (t : String) (r : String) (ht : s.task? t = some (.finished r)) :
    s.cancel t = (s, .done r) := by
  unfold RpqSt.cancel
  simp only [ht]

theorem cancel_sendReserved_eq (s : RpqSt) (t : String) (p item : Nat) (ps : PipeSt)
    (ht : s.task? t = some (.sendReserved p item)) (hps : s.pipe? p = some ps) :
    s.cancel t = finish (s.setPipe { ps with reserved := ps.reserved - 1 }) t "cancelled" := by
  unfold RpqSt.cancel
  simp only [ht, hps]

/-- cancelling an idle task preserves the invariant -/
theorem cancel_inv_idle (s : RpqSt) (t : String) (hw : WellFormed s) (hi : Inv s) (pc : Pc)
    (ht : s.task? t = some pc) (h : idlePc pc = true) : WellFormed (s.cancel t).1 ∧ Inv (s.cancel t).1 := by
  rw [cancel_idle_eq s t pc ht h]
  exact frame_finish s _ t pc _ hw hi ht rfl rfl rfl rfl (idlePc_preds pc h)

theorem cancel_inv_finished (s : RpqSt) (t : String) (hw : WellFormed s) (hi : Inv s) (r : String)
    (ht : s.task? t = some (.finished r)) : WellFormed (s.cancel t).1 ∧ Inv (s.cancel t).1 := by
  rw [cancel_finished_eq s t r ht]
  exact ⟨hw, hi⟩

/-- cancelling a `send` that holds a reservation: `reserved` and the pending reservations both drop by one -/
theorem cancel_inv_sendReserved (s : RpqSt) (t : String) (hw : WellFormed s) (hi : Inv s) (p item : Nat) (ps : PipeSt)
    (ht : s.task? t = some (.sendReserved p item)) (hps : s.pipe? p = some ps) :
    WellFormed (s.cancel t).1 ∧ Inv (s.cancel t).1 := by
  rw [cancel_sendReserved_eq s t p item ps ht hps]
  refine frame_pipe s _ t _ (.finished "cancelled") p ps { ps with reserved := ps.reserved - 1 } hw hi ht hps
    rfl rfl rfl rfl rfl rfl rfl rfl (Or.inr rfl) (by simp) trivial ?_
  clear hw hi
  intro U T H P b1 b2 b3 b4 hinv
  simp [PipeInv, uncounted, takenNotCounted, holdsToken, pendingRes, b2i] at *
  omega

theorem cancel_fields (s : RpqSt) (t : String) :
    (s.cancel t).1.ready = s.ready ∧ (s.cancel t).1.accepted = s.accepted ∧ (s.cancel t).1.takenLog = s.takenLog
    ∧ (s.cancel t).1.returned = s.returned
    ∧ ∀ p, ((s.cancel t).1.pipe? p).map (·.chan) = (s.pipe? p).map (·.chan) := by
  unfold RpqSt.cancel
  split
  · simp
  · split
    · simp
    · split
      · rename_i p item ht _ ps hps
        refine ⟨rfl, rfl, rfl, rfl, ?_⟩
        intro x
        simp only [finish, RpqSt.setTask_pipe?, RpqSt.setPipe_pipe?]
        cases hq : s.pipe? x with
        | none => simp
        | some q =>
          by_cases h : q.id = ps.id
          · have hx : x = p := by
              rw [← (s.pipe?_some x q hq).2, h, (s.pipe?_some p ps hps).2]
            subst hx
            rw [hps] at hq
            cases hq
            simp
          · simp [h]
      · exact ⟨rfl, rfl, rfl, rfl, fun _ => rfl⟩
    · exact ⟨rfl, rfl, rfl, rfl, fun _ => rfl⟩

theorem RpqSt.task?_setTask (s : RpqSt) (t : String) (pc pc' : Pc) (ht : s.task? t = some pc) :
    (s.setTask t pc').task? t = some pc' := by
  unfold RpqSt.task? at ht ⊢
  simp only [RpqSt.setTask_tasks]
  generalize s.tasks = l at ht
  induction l with
  | nil => simp at ht
  | cons a l ih =>
    by_cases h : a.1 = t
    · simp [List.find?_cons, h]
    · have h' : (a.1 == t) = false := by simpa using h
      simp only [List.find?_cons, h'] at ht
      have e : (if (a.1 == t) = true then (t, pc') else a) = a := by simp [h']
      simp only [List.map_cons, List.find?_cons, h', Bool.false_eq_true, if_false]
      exact ih ht

theorem cancel_sendReserved_task (s : RpqSt) (t : String) (p item : Nat)
    (ht : s.task? t = some (.sendReserved p item)) : (s.cancel t).1.task? t = some (.finished "cancelled") := by
  unfold RpqSt.cancel
  simp only [ht]
  split
  · exact RpqSt.task?_setTask _ t _ _ ht
  · exact RpqSt.task?_setTask _ t _ _ ht

/-- the arm / re-arm sends do not block under the invariant -/
theorem arm_not_blocked (s : RpqSt) (t : String) (hw : WellFormed s) (hi : Inv s) (p : Nat) (pc : Pc)
    (ht : s.task? t = some pc) (hh : holdsToken p pc = true) : (s.pushReady p).isSome := by
  have hmem := s.task?_mem t _ ht
  have hp : (s.pipe? p).isSome := pipe_exists s hw t _ ht p (Or.inr (Or.inl hh))
  cases hps : s.pipe? p with
  | none => simp [hps] at hp
  | some ps =>
    obtain ⟨hpsm, rfl⟩ := s.pipe?_some p ps hps
    obtain ⟨_, _, _, l4⟩ := hi.pipeInv ps hpsm
    have b3 := b2i_le_countTasks s t _ hmem (holdsToken ps.id)
    simp [hh] at b3
    have hfree : s.ready.count ps.id = 0 := by split at l4 <;> omega
    have hlt := arm_ok s hw hi ps.id hp hfree
    simp [RpqSt.pushReady, hlt]

end Rzmq.C08
