import RzmqModel.Model.ReqRep
/-! Helper lemmas for the REQ/REP state machines (C10). -/
namespace Rzmq

-- ---------------------------------------------------------------------------------------------
-- association-list program counters
-- ---------------------------------------------------------------------------------------------

/-- lookup in a pc association list with default `d` -/
def pcOf {α : Type} (l : List (Nat × α)) (d : α) (t : Nat) : α :=
  ((l.find? (·.1 == t)).map (·.2)).getD d

/-- filter-then-append update -/
def setL {α : Type} (l : List (Nat × α)) (t : Nat) (v : α) : List (Nat × α) :=
  (l.filter (·.1 != t)) ++ [(t, v)]

theorem pcOf_setL {α : Type} (l : List (Nat × α)) (d : α) (t t' : Nat) (v : α) :
    pcOf (setL l t v) d t' = if t' = t then v else pcOf l d t' := by
  induction l with
  | nil =>
    by_cases h : t' = t
    · subst h; simp [pcOf, setL]
    · have : (t == t') = false := by simp; exact fun e => h e.symm
      simp [pcOf, setL, h, this]
  | cons a l ih =>
    unfold pcOf setL at ih ⊢
    by_cases ha : a.1 = t
    · have h1 : (a.1 != t) = false := by simp [ha]
      rw [List.filter_cons, h1]
      simp only [Bool.false_eq_true, if_false]
      rw [ih]
      by_cases h : t' = t
      · simp [h]
      · have : (a.1 == t') = false := by simp [ha]; exact fun e => h e.symm
        simp [h, this]
    · have h1 : (a.1 != t) = true := by simp [ha]
      rw [List.filter_cons, h1]
      simp only [if_true, List.cons_append, List.find?_cons]
      by_cases hb : a.1 = t'
      · have : t' ≠ t := by intro e; exact ha (hb.trans e)
        simp [hb, this]
      · have : (a.1 == t') = false := by simp [hb]
        simp only [this]
        exact ih

-- ---------------------------------------------------------------------------------------------
-- REQ
-- ---------------------------------------------------------------------------------------------

theorem ReqSys.pc_eq (s : ReqSys) (t : Nat) : s.pc t = pcOf s.pcs .idle t := rfl

theorem ReqSys.pc_setPc (s : ReqSys) (t t' : Nat) (v : ReqPc) :
    (s.setPc t v).pc t' = if t' = t then v else s.pc t' := by
  show pcOf (setL s.pcs t v) .idle t' = _
  rw [pcOf_setL]; rfl

theorem ReqSys.pc_setPc_same (s : ReqSys) (t : Nat) (v : ReqPc) : (s.setPc t v).pc t = v := by
  simp [ReqSys.pc_setPc]

theorem ReqSys.pc_setPc_other (s : ReqSys) (t t' : Nat) (v : ReqPc) (h : t' ≠ t) :
    (s.setPc t v).pc t' = s.pc t' := by
  simp [ReqSys.pc_setPc, h]

@[simp] theorem ReqSys.setPc_claim (s : ReqSys) (t v) : (s.setPc t v).claim = s.claim := rfl
@[simp] theorem ReqSys.setPc_guard (s : ReqSys) (t v) : (s.setPc t v).exchangeGuard = s.exchangeGuard := rfl
@[simp] theorem ReqSys.setPc_sg (s : ReqSys) (t v) : (s.setPc t v).successGuarded = s.successGuarded := rfl
@[simp] theorem ReqSys.setPc_st (s : ReqSys) (t v) : (s.setPc t v).st = s.st := rfl
@[simp] theorem ReqSys.setPc_atPeer (s : ReqSys) (t v) : (s.setPc t v).atPeer = s.atPeer := rfl
@[simp] theorem ReqSys.setPc_replies (s : ReqSys) (t v) : (s.setPc t v).replies = s.replies := rfl
@[simp] theorem ReqSys.setPc_log (s : ReqSys) (t v) : (s.setPc t v).log = s.log := rfl
@[simp] theorem ReqSys.setPc_pcs (s : ReqSys) (t v) : (s.setPc t v).pcs = setL s.pcs t v := rfl

/-- "`b` ↔ exactly one task is in `sendInFlight`, and if not `b` then none is" -/
structure Sif (pcs : List (Nat × ReqPc)) (b : Bool) : Prop where
  only : ∀ t, pcOf pcs .idle t = .sendInFlight → b = true
  ex : b = true → ∃ t, pcOf pcs .idle t = .sendInFlight
  uniq : ∀ t t', pcOf pcs .idle t = .sendInFlight → pcOf pcs .idle t' = .sendInFlight → t = t'

theorem Sif.cast {pcs : List (Nat × ReqPc)} {b b' : Bool} (h : Sif pcs b) (hb : b' = b) : Sif pcs b' := by
  subst hb; exact h

/-- overwriting a pc that is not `sendInFlight` by one that is not `sendInFlight` -/
theorem Sif.set_other {pcs : List (Nat × ReqPc)} {b b' : Bool} {t : Nat} {v : ReqPc} (h : Sif pcs b)
    (h1 : pcOf pcs .idle t ≠ .sendInFlight) (h2 : v ≠ .sendInFlight) (hb : b' = b) :
    Sif (setL pcs t v) b' := by
  subst hb
  have key : ∀ t', pcOf (setL pcs t v) .idle t' = .sendInFlight ↔ pcOf pcs .idle t' = .sendInFlight := by
    intro t'
    rw [pcOf_setL]
    split
    · rename_i e; subst e
      exact ⟨fun h => absurd h h2, fun h => absurd h h1⟩
    · exact Iff.rfl
  refine ⟨fun t' hp => h.only t' ((key t').1 hp), fun hb => ?_, fun t1 t2 h1 h2 =>
    h.uniq t1 t2 ((key t1).1 h1) ((key t2).1 h2)⟩
  obtain ⟨t', ht'⟩ := h.ex hb
  exact ⟨t', (key t').2 ht'⟩

/-- the unique in-flight sender leaves `sendInFlight`: nobody is in flight -/
theorem Sif.clear {pcs : List (Nat × ReqPc)} {b b' : Bool} {t : Nat} {v : ReqPc} (h : Sif pcs b)
    (h1 : pcOf pcs .idle t = .sendInFlight) (h2 : v ≠ .sendInFlight) (hb : b' = false) :
    Sif (setL pcs t v) b' := by
  subst hb
  have key : ∀ t', pcOf (setL pcs t v) .idle t' ≠ .sendInFlight := by
    intro t'
    rw [pcOf_setL]
    split
    · exact h2
    · rename_i hne
      exact fun hp => hne (h.uniq t' t hp h1)
  exact ⟨fun t' hp => absurd hp (key t'), fun hb => (by cases hb), fun t1 _ h1 _ => absurd h1 (key t1)⟩

/-- nobody in flight, `t` claims -/
theorem Sif.claim {pcs : List (Nat × ReqPc)} {b' : Bool} {t : Nat} (h : Sif pcs false) (hb : b' = true) :
    Sif (setL pcs t .sendInFlight) b' := by
  subst hb
  have key : ∀ t', pcOf (setL pcs t .sendInFlight) .idle t' = .sendInFlight → t' = t := by
    intro t' hp
    rw [pcOf_setL] at hp
    split at hp
    · assumption
    · exact absurd (h.only t' hp) (by simp)
  refine ⟨fun _ _ => rfl, fun _ => ⟨t, by simp [pcOf_setL]⟩, fun t1 t2 h1 h2 => ?_⟩
  rw [key t1 h1, key t2 h2]

def ReqState.isExp : ReqState → Bool
  | .expectingReply _ => true
  | _ => false

@[simp] theorem ReqState.isExp_ready : ReqState.readyToSend.isExp = false := rfl
@[simp] theorem ReqState.isExp_sending : ReqState.sending.isExp = false := rfl
@[simp] theorem ReqState.isExp_exp (x : Nat) : (ReqState.expectingReply x).isExp = true := rfl

theorem ReqState.isExp_iff (st : ReqState) : st.isExp = true ↔ ∃ x, st = .expectingReply x := by
  cases st <;> simp [ReqState.isExp]

/-- the shape of (`st` expects a reply, `log`) pairs: an abstract three-rule system simulated by the REQ machine -/
inductive ReqShape : Bool → List Op → Prop where
  | nil : ReqShape false []
  | send {l : List Op} : ReqShape false l → ReqShape true (l ++ [.send])
  | recv {b : Bool} {l : List Op} : ReqShape b l → l ≠ [] → ReqShape false (l ++ [.recv])
  | abandoned {l : List Op} : ReqShape true l → ReqShape false (l ++ [.abandoned])

/-- the inductive invariant of the REQ machine (current code shape: `claim`, `exchangeGuard`, successful
receives not guarded) -/
structure ReqInv (s : ReqSys) : Prop where
  claim : s.claim = true
  guard : s.exchangeGuard = true
  sg : s.successGuarded = false
  out : s.atPeer + s.replies ≤ (if s.st.isExp then 1 else 0) + s.log.count .abandoned
  bound : s.atPeer + s.replies + s.log.count .recv ≤ s.log.count .send
  sif : Sif s.pcs (s.st == .sending)
  shape : ReqShape s.st.isExp s.log

theorem ReqInv.init : ReqInv {} := by
  refine ⟨rfl, rfl, rfl, by simp, by simp, ?_, ReqShape.nil⟩
  refine ⟨?_, by simp, ?_⟩ <;> simp [pcOf]

theorem ReqInv.step {s : ReqSys} (h : ReqInv s) (e : ReqEv) : ReqInv (s.step e) := by
  obtain ⟨hc, hg, hsg, hout, hbound, hsif, hshape⟩ := h
  cases e with
  | sendBegin t =>
    simp only [ReqSys.step]
    split
    · exact ⟨hc, hg, hsg, hout, hbound, hsif, hshape⟩
    · split
      · rename_i hst
        have hst : s.st = .readyToSend := by simpa using hst
        simp only [hc]
        refine ⟨by simp, hg, hsg, ?_, hbound, ?_, ?_⟩
        · simpa [hst] using hout
        · exact (hsif.cast (b' := false) (by simp [hst])).claim (by simp)
        · simpa [hst] using hshape
      · exact ⟨hc, hg, hsg, hout, hbound, hsif, hshape⟩
  | sendOk t =>
    simp only [ReqSys.step]
    split
    · exact ⟨hc, hg, hsg, hout, hbound, hsif, hshape⟩
    · rename_i hpc
      have hpc : s.pc t = .sendInFlight := by simpa using hpc
      have hst : s.st = .sending := by simpa using hsif.only t hpc
      refine ⟨hc, hg, hsg, ?_, ?_, ?_, ?_⟩
      · simp [hst] at hout
        simp [List.count_append]; omega
      · simp [List.count_append]; omega
      · exact hsif.clear hpc (by simp) (by simp)
      · exact ReqShape.send (by simpa [hst] using hshape)
  | sendFail t =>
    simp only [ReqSys.step]
    split
    · exact ⟨hc, hg, hsg, hout, hbound, hsif, hshape⟩
    · rename_i hpc
      have hpc : s.pc t = .sendInFlight := by simpa using hpc
      have hst : s.st = .sending := by simpa using hsif.only t hpc
      refine ⟨hc, hg, hsg, ?_, hbound, ?_, ?_⟩
      · simpa [hc, hst] using hout
      · exact hsif.clear hpc (by simp) (by simp [hc, hst])
      · simpa [hc, hst] using hshape
  | recvBegin t =>
    simp only [ReqSys.step]
    split
    · exact ⟨hc, hg, hsg, hout, hbound, hsif, hshape⟩
    · rename_i hpc
      have hpc : s.pc t = .idle := by simpa using hpc
      have hpc' : pcOf s.pcs .idle t ≠ .sendInFlight := by
        rw [← ReqSys.pc_eq, hpc]; simp
      split
      · exact ⟨hc, hg, hsg, hout, hbound, hsif.set_other hpc' (by simp) rfl, hshape⟩
      · exact ⟨hc, hg, hsg, hout, hbound, hsif, hshape⟩
  | recvGot t =>
    simp only [ReqSys.step]
    split
    · rename_i x hpc
      have hpc' : pcOf s.pcs .idle t ≠ .sendInFlight := by
        rw [← ReqSys.pc_eq, hpc]; simp
      split
      · exact ⟨hc, hg, hsg, hout, hbound, hsif, hshape⟩
      · rename_i hrep
        have hrep : s.replies ≠ 0 := by simpa using hrep
        have hne : s.log ≠ [] := by
          intro h0; rw [h0] at hbound; simp at hbound; exact hrep hbound.2
        simp only [hsg, Bool.false_and, Bool.false_eq_true, if_false]
        rcases hst : s.st with _ | _ | y
        · refine ⟨hc, hg, rfl, ?_, ?_, ?_, ?_⟩
          · simp [hst] at hout
            simp [List.count_append]; omega
          · simp [List.count_append]; omega
          · exact hsif.set_other hpc' (by simp) (by rw [hst]; rfl)
          · exact ReqShape.recv hshape hne
        · refine ⟨hc, hg, rfl, ?_, ?_, ?_, ?_⟩
          · simp [hst] at hout
            simp [List.count_append]; omega
          · simp [List.count_append]; omega
          · exact hsif.set_other hpc' (by simp) (by rw [hst]; rfl)
          · exact ReqShape.recv hshape hne
        · refine ⟨hc, hg, rfl, ?_, ?_, ?_, ?_⟩
          · simp [hst] at hout
            simp [List.count_append]; omega
          · simp [List.count_append]; omega
          · exact hsif.set_other hpc' (by simp) (by rw [hst]; rfl)
          · exact ReqShape.recv hshape hne
    · exact ⟨hc, hg, hsg, hout, hbound, hsif, hshape⟩
  | recvFail t =>
    simp only [ReqSys.step]
    split
    · rename_i x hpc
      have hpc' : pcOf s.pcs .idle t ≠ .sendInFlight := by
        rw [← ReqSys.pc_eq, hpc]; simp
      have plain : ReqInv (s.setPc t .idle) :=
        ⟨hc, hg, hsg, hout, hbound, hsif.set_other hpc' (by simp) rfl, hshape⟩
      split
      · rename_i y hst
        split
        · refine ⟨hc, hg, hsg, ?_, ?_, ?_, ?_⟩
          · simp [hst] at hout
            simp [List.count_append]; omega
          · simp [List.count_append]; omega
          · exact hsif.set_other hpc' (by simp) (by rw [hst]; rfl)
          · exact ReqShape.abandoned (by simpa [hst] using hshape)
        · simp only [hg]
          exact plain
      · exact plain
    · exact ⟨hc, hg, hsg, hout, hbound, hsif, hshape⟩
  | recvDropped t =>
    simp only [ReqSys.step]
    split
    · rename_i x hpc
      have hpc' : pcOf s.pcs .idle t ≠ .sendInFlight := by
        rw [← ReqSys.pc_eq, hpc]; simp
      exact ⟨hc, hg, hsg, hout, hbound, hsif.set_other hpc' (by simp) rfl, hshape⟩
    · exact ⟨hc, hg, hsg, hout, hbound, hsif, hshape⟩
  | peerReplies =>
    simp only [ReqSys.step]
    split
    · exact ⟨hc, hg, hsg, hout, hbound, hsif, hshape⟩
    · rename_i hat
      have hat : s.atPeer ≠ 0 := by simpa using hat
      refine ⟨hc, hg, hsg, ?_, ?_, hsif, hshape⟩
      · show s.atPeer - 1 + (s.replies + 1) ≤ (if s.st.isExp then 1 else 0) + s.log.count .abandoned
        omega
      · show s.atPeer - 1 + (s.replies + 1) + s.log.count .recv ≤ s.log.count .send
        omega
  | peerDetached =>
    simp only [ReqSys.step]
    split
    · rename_i x hst
      refine ⟨hc, hg, hsg, by simp, ?_, hsif.cast (by rw [hst]; rfl), ?_⟩
      · simp [List.count_append]; omega
      · exact ReqShape.abandoned (by simpa [hst] using hshape)
    · refine ⟨hc, hg, hsg, ?_, ?_, hsif, hshape⟩
      · show 0 + 0 ≤ (if s.st.isExp then 1 else 0) + s.log.count .abandoned
        omega
      · show 0 + 0 + s.log.count .recv ≤ s.log.count .send
        omega

theorem ReqInv.run {s : ReqSys} (h : ReqInv s) (evs : List ReqEv) : ReqInv (s.run evs) := by
  induction evs generalizing s with
  | nil => exact h
  | cons e evs ih => exact ih (h.step e)

theorem ReqInv.reach (evs : List ReqEv) : ReqInv (ReqSys.run {} evs) := ReqInv.init.run evs

-- ---------------------------------------------------------------------------------------------
-- consequences of the log shape
-- ---------------------------------------------------------------------------------------------

/-- the flag `sendsSeparated` ends with (`none`: two sends in a row) -/
def sepEnd : Bool → List Op → Option Bool
  | b, [] => some b
  | true, .send :: _ => none
  | false, .send :: rest => sepEnd true rest
  | _, .recv :: rest => sepEnd false rest
  | _, .abandoned :: rest => sepEnd false rest

theorem sendsSeparated_eq_sepEnd (b : Bool) (l : List Op) : sendsSeparated b l = (sepEnd b l).isSome := by
  induction l generalizing b with
  | nil => simp [sendsSeparated, sepEnd]
  | cons a l ih => cases b <;> cases a <;> simp [sendsSeparated, sepEnd, ih]

theorem sepEnd_append (b : Bool) (l m : List Op) :
    sepEnd b (l ++ m) = (sepEnd b l).bind (fun c => sepEnd c m) := by
  induction l generalizing b with
  | nil => simp [sepEnd]
  | cons a l ih => cases b <;> cases a <;> simp [sepEnd, ih]

theorem ReqShape.sepEnd {b : Bool} {l : List Op} (h : ReqShape b l) : sepEnd false l = some b := by
  induction h with
  | nil => rfl
  | send _ ih => simp [sepEnd_append, ih, Rzmq.sepEnd]
  | @recv b _ _ _ ih => cases b <;> simp [sepEnd_append, ih, Rzmq.sepEnd]
  | abandoned _ ih => simp [sepEnd_append, ih, Rzmq.sepEnd]

theorem ReqShape.getLast {b : Bool} {l : List Op} (h : ReqShape b l) :
    b = true ↔ l.getLast? = some .send := by
  cases h <;> simp

/-- what `alternates` expects next after reading the list (`none`: the list does not alternate) -/
def nextOp : Op → List Op → Option Op
  | x, [] => some x
  | .send, .send :: rest => nextOp .recv rest
  | .recv, .recv :: rest => nextOp .send rest
  | .recv, .abandoned :: rest => nextOp .send rest
  | _, _ => none

theorem alternates_eq_nextOp (x : Op) (l : List Op) : alternates x l = (nextOp x l).isSome := by
  induction l generalizing x with
  | nil => simp [alternates, nextOp]
  | cons a l ih =>
    cases x <;> cases a <;> simp [alternates, nextOp, ih]

theorem nextOp_append (x : Op) (l m : List Op) :
    nextOp x (l ++ m) = (nextOp x l).bind (fun y => nextOp y m) := by
  induction l generalizing x with
  | nil => simp [nextOp]
  | cons a l ih =>
    cases x <;> cases a <;> simp [nextOp, ih]

-- ---------------------------------------------------------------------------------------------
-- loose alternation (holds for every history)
-- ---------------------------------------------------------------------------------------------

/-- states of the loose alternation automaton -/
inductive LooseSt where
  | start          -- nothing logged yet
  | afterSend      -- last op was `send`
  | mixed          -- a `send`, then one or more `recv`, no `abandoned` since that send
  | done           -- the last exchange was abandoned (possibly followed by late `recv`s)
deriving DecidableEq, Repr

/-- loose alternation: the first op is `send`; a `send` never directly follows a `send` (there is a `recv` or an
`abandoned` in between); at most one `abandoned` per `send`; further `recv`s (replies of abandoned exchanges
delivered late) may appear anywhere after the first `send`. -/
def looseStep : LooseSt → Op → Option LooseSt
  | .start, .send => some .afterSend
  | .start, _ => none
  | .afterSend, .send => none
  | .afterSend, .recv => some .mixed
  | .afterSend, .abandoned => some .done
  | .mixed, .send => some .afterSend
  | .mixed, .recv => some .mixed
  | .mixed, .abandoned => some .done
  | .done, .send => some .afterSend
  | .done, .recv => some .done
  | .done, .abandoned => none

def looseRun : LooseSt → List Op → Option LooseSt
  | q, [] => some q
  | q, op :: rest => (looseStep q op).bind (fun q' => looseRun q' rest)

def alternatesLoose (l : List Op) : Bool := (looseRun .start l).isSome

theorem looseRun_append (q : LooseSt) (l m : List Op) :
    looseRun q (l ++ m) = (looseRun q l).bind (fun q' => looseRun q' m) := by
  induction l generalizing q with
  | nil => simp [looseRun]
  | cons a l ih =>
    simp only [List.cons_append, looseRun]
    cases looseStep q a with
    | none => simp
    | some q' => simp [ih]

/-- strict alternation implies loose alternation -/
theorem looseRun_of_nextOp (l : List Op) :
    (∀ q y, q ≠ .afterSend → nextOp .send l = some y →
      ∃ q', looseRun q l = some q' ∧ (q' = .afterSend ↔ y = .recv) ∧ (y = .send ∨ y = .recv)) ∧
    (∀ y, nextOp .recv l = some y →
      ∃ q', looseRun .afterSend l = some q' ∧ (q' = .afterSend ↔ y = .recv) ∧ (y = .send ∨ y = .recv)) := by
  induction l with
  | nil =>
    constructor
    · intro q y hq h
      simp [nextOp] at h; subst h
      exact ⟨q, rfl, by simp [hq], Or.inl rfl⟩
    · intro y h
      simp [nextOp] at h; subst h
      exact ⟨.afterSend, rfl, by simp, Or.inr rfl⟩
  | cons a l ih =>
    obtain ⟨ih1, ih2⟩ := ih
    constructor
    · intro q y hq h
      cases a with
      | send =>
        simp only [nextOp] at h
        obtain ⟨q', h1, h2⟩ := ih2 y h
        refine ⟨q', ?_, h2⟩
        cases q <;> simp_all [looseRun, looseStep]
      | recv => simp [nextOp] at h
      | abandoned => simp [nextOp] at h
    · intro y h
      cases a with
      | send => simp [nextOp] at h
      | recv =>
        simp only [nextOp] at h
        obtain ⟨q', h1, h2⟩ := ih1 .mixed y (by simp) h
        exact ⟨q', by simp [looseRun, looseStep, h1], h2⟩
      | abandoned =>
        simp only [nextOp] at h
        obtain ⟨q', h1, h2⟩ := ih1 .done y (by simp) h
        exact ⟨q', by simp [looseRun, looseStep, h1], h2⟩

theorem alternatesLoose_of_alternates (l : List Op) (h : alternates .send l = true) :
    alternatesLoose l = true := by
  rw [alternates_eq_nextOp, Option.isSome_iff_exists] at h
  obtain ⟨y, hy⟩ := h
  obtain ⟨q', h1, _⟩ := (looseRun_of_nextOp l).1 .start y (by simp) hy
  simp [alternatesLoose, h1]

/-- a non-empty loosely alternating log starts with `send` -/
theorem head_send_of_alternatesLoose (a : Op) (l : List Op) (h : alternatesLoose (a :: l) = true) :
    a = .send := by
  cases a <;> simp [alternatesLoose, looseRun, looseStep] at h ⊢

theorem ReqShape.loose {b : Bool} {l : List Op} (h : ReqShape b l) :
    ∃ q, looseRun .start l = some q ∧ (q = .afterSend ↔ b = true) ∧ (q = .start → l = []) := by
  induction h with
  | nil => exact ⟨.start, rfl, by simp, fun _ => rfl⟩
  | send _ ih =>
    obtain ⟨q, h1, h2, _⟩ := ih
    refine ⟨.afterSend, ?_, by simp, by simp⟩
    rw [looseRun_append, h1]
    cases q <;> simp_all [looseRun, looseStep]
  | @recv b l _ hne ih =>
    obtain ⟨q, h1, h2, h3⟩ := ih
    cases q with
    | start => exact absurd (h3 rfl) hne
    | afterSend => exact ⟨.mixed, by rw [looseRun_append, h1]; simp [looseRun, looseStep], by simp, by simp⟩
    | mixed => exact ⟨.mixed, by rw [looseRun_append, h1]; simp [looseRun, looseStep], by simp, by simp⟩
    | done => exact ⟨.done, by rw [looseRun_append, h1]; simp [looseRun, looseStep], by simp, by simp⟩
  | abandoned _ ih =>
    obtain ⟨q, h1, h2, _⟩ := ih
    have hq : q = .afterSend := h2.2 rfl
    subst hq
    exact ⟨.done, by rw [looseRun_append, h1]; simp [looseRun, looseStep], by simp, by simp⟩

/-- every history: the log alternates loosely (kept from the previous round; now implied by
`C10.req_no_double_send` + `C10.req_state_tracks_log`, but it also says the log starts with `send`) -/
theorem req_alternates_fixed (evs : List ReqEv) : alternatesLoose (ReqSys.run {} evs).log = true := by
  obtain ⟨q, h, _⟩ := (ReqInv.reach evs).shape.loose
  simp [alternatesLoose, h]

-- ---------------------------------------------------------------------------------------------
-- strict alternation, as long as no exchange is given up
-- ---------------------------------------------------------------------------------------------

/-- log-shape invariant, strict form -/
def StrictInv (s : ReqSys) : Prop :=
  nextOp .send s.log = some (if s.st.isExp then .recv else .send) ∧ s.log.count .abandoned = 0

theorem StrictInv.init : StrictInv {} := ⟨rfl, rfl⟩

theorem StrictInv.of_eq {s s' : ReqSys} (h : StrictInv s) (hl : s'.log = s.log)
    (he : s'.st.isExp = s.st.isExp) : StrictInv s' := by
  unfold StrictInv at *
  rw [hl, he]; exact h

theorem StrictInv.step {s : ReqSys} (hb : ReqInv s) (h : StrictInv s) (e : ReqEv)
    (hgood : e.abandons = false) : StrictInv (s.step e) := by
  obtain ⟨hc, hg, hsg, hout, hbound, hsif, hshape⟩ := hb
  cases e with
  | sendBegin t =>
    simp only [ReqSys.step]
    split
    · exact h
    · split
      · rename_i hst
        have hst : s.st = .readyToSend := by simpa using hst
        simp only [hc]
        exact h.of_eq rfl (by simp [hst])
      · exact h.of_eq rfl rfl
  | sendOk t =>
    simp only [ReqSys.step]
    split
    · exact h
    · rename_i hpc
      have hpc : s.pc t = .sendInFlight := by simpa using hpc
      have hst : s.st = .sending := by simpa using hsif.only t hpc
      obtain ⟨h1, h2⟩ := h
      refine ⟨?_, ?_⟩
      · show nextOp .send (s.log ++ [.send]) = _
        rw [nextOp_append, h1, hst]
        simp [nextOp]
      · show (s.log ++ [Op.send]).count Op.abandoned = 0
        simp [List.count_append, h2]
  | sendFail t =>
    simp only [ReqSys.step]
    split
    · exact h
    · rename_i hpc
      have hpc : s.pc t = .sendInFlight := by simpa using hpc
      have hst : s.st = .sending := by simpa using hsif.only t hpc
      exact h.of_eq rfl (by simp [hc, hst])
  | recvBegin t =>
    simp only [ReqSys.step]
    split
    · exact h
    · split
      · exact h.of_eq rfl rfl
      · exact h.of_eq rfl rfl
  | recvGot t =>
    simp only [ReqSys.step]
    split
    · rename_i x hpc
      split
      · exact h
      · rename_i hrep
        have hrep : s.replies ≠ 0 := by simpa using hrep
        obtain ⟨h1, h2⟩ := h
        have hexp : s.st.isExp = true := by
          cases he : s.st.isExp with
          | true => rfl
          | false => simp [he, h2] at hout; exact absurd hout.2 hrep
        obtain ⟨y, hst⟩ := (ReqState.isExp_iff _).1 hexp
        refine ⟨?_, ?_⟩
        · show nextOp .send (s.log ++ [.recv]) = _
          rw [nextOp_append, h1]
          simp [hst, hsg, nextOp]
        · show (s.log ++ [Op.recv]).count Op.abandoned = 0
          simp [List.count_append, h2]
    · exact h
  | recvFail t => simp [ReqEv.abandons] at hgood
  | recvDropped t =>
    simp only [ReqSys.step]
    split
    · exact h.of_eq rfl rfl
    · exact h
  | peerReplies =>
    simp only [ReqSys.step]
    split
    · exact h
    · exact h.of_eq rfl rfl
  | peerDetached => simp [ReqEv.abandons] at hgood

theorem StrictInv.run {s : ReqSys} (hb : ReqInv s) (h : StrictInv s) (evs : List ReqEv)
    (hgood : ∀ e ∈ evs, e.abandons = false) : StrictInv (s.run evs) := by
  induction evs generalizing s with
  | nil => exact h
  | cons e evs ih =>
    exact ih (hb.step e) (h.step hb e (hgood e (by simp))) (fun e' he' => hgood e' (by simp [he']))

theorem StrictInv.reach (evs : List ReqEv) (hgood : ∀ e ∈ evs, e.abandons = false) :
    StrictInv (ReqSys.run {} evs) :=
  StrictInv.init.run ReqInv.init evs hgood

-- ---------------------------------------------------------------------------------------------
-- REP
-- ---------------------------------------------------------------------------------------------

theorem RepSys.pc_eq (s : RepSys) (t : Nat) : s.pc t = pcOf s.pcs .idle t := rfl

theorem RepSys.pc_setPc (s : RepSys) (t t' : Nat) (v : RepPc) :
    (s.setPc t v).pc t' = if t' = t then v else s.pc t' := by
  show pcOf (setL s.pcs t v) .idle t' = _
  rw [pcOf_setL]; rfl

theorem RepSys.pc_setPc_same (s : RepSys) (t : Nat) (v : RepPc) : (s.setPc t v).pc t = v := by
  simp [RepSys.pc_setPc]

theorem RepSys.pc_setPc_other (s : RepSys) (t t' : Nat) (v : RepPc) (h : t' ≠ t) :
    (s.setPc t v).pc t' = s.pc t' := by
  simp [RepSys.pc_setPc, h]

@[simp] theorem RepSys.setPc_claim (s : RepSys) (t v) : (s.setPc t v).claim = s.claim := rfl
@[simp] theorem RepSys.setPc_st (s : RepSys) (t v) : (s.setPc t v).st = s.st := rfl
@[simp] theorem RepSys.setPc_pending (s : RepSys) (t v) : (s.setPc t v).pending = s.pending := rfl
@[simp] theorem RepSys.setPc_log (s : RepSys) (t v) : (s.setPc t v).log = s.log := rfl

/-- parser state of `repWellFormed`: `some none` = between exchanges, `some (some src)` = a request from `src`
is open, `none` = ill-formed -/
def repOpen : Option Nat → List RepOp → Option (Option Nat)
  | o, [] => some o
  | none, .recv s :: rest => repOpen (some s) rest
  | some s, .send d :: rest => if s = d then repOpen none rest else none
  | some s, .abandoned d :: rest => if s = d then repOpen none rest else none
  | _, _ => none

theorem repWellFormed_eq_repOpen : ∀ l : List RepOp, repWellFormed l = (repOpen none l).isSome
  | [] => by simp [repWellFormed, repOpen]
  | [.recv _] => by simp [repWellFormed, repOpen]
  | .recv s :: .send d :: rest => by
    by_cases h : s = d <;> simp [repWellFormed, repOpen, h, repWellFormed_eq_repOpen rest]
  | .recv s :: .abandoned d :: rest => by
    by_cases h : s = d <;> simp [repWellFormed, repOpen, h, repWellFormed_eq_repOpen rest]
  | .recv _ :: .recv _ :: _ => by simp [repWellFormed, repOpen]
  | .send _ :: _ => by simp [repWellFormed, repOpen]
  | .abandoned _ :: _ => by simp [repWellFormed, repOpen]

theorem repOpen_append (o : Option Nat) (l m : List RepOp) :
    repOpen o (l ++ m) = (repOpen o l).bind (fun y => repOpen y m) := by
  induction l generalizing o with
  | nil => simp [repOpen]
  | cons a l ih =>
    cases o <;> cases a <;> simp [repOpen, ih]
    all_goals (split <;> simp)

def RepState.openPeer : RepState → Option Nat
  | .receivedRequest p => some p
  | _ => none

/-- the inductive invariant of the REP machine (current code shape, `claim = true`) -/
structure RepInv (s : RepSys) : Prop where
  claim : s.claim = true
  log : repOpen none s.log = some s.st.openPeer
  only : ∀ t, s.pc t = .recvInFlight → s.st = .receiving
  ex : s.st = .receiving → ∃ t, s.pc t = .recvInFlight
  uniq : ∀ t t', s.pc t = .recvInFlight → s.pc t' = .recvInFlight → t = t'

theorem RepInv.init : RepInv {} := by
  refine ⟨rfl, by simp [repOpen, RepState.openPeer], ?_, by simp, ?_⟩ <;> simp [RepSys.pc]

theorem RepInv.step {s : RepSys} (h : RepInv s) (e : RepEv) : RepInv (s.step e) := by
  obtain ⟨hc, hlog, honly, hex, huniq⟩ := h
  cases e with
  | recvBegin t =>
    simp only [RepSys.step]
    split
    · exact ⟨hc, hlog, honly, hex, huniq⟩
    · rename_i hpc
      split
      · rename_i hst
        have hst : s.st = .readyToReceive := by simpa using hst
        simp only [hc]
        refine ⟨by simp, ?_, ?_, ?_, ?_⟩
        · simpa [hst, RepState.openPeer] using hlog
        · intro t' _; simp
        · intro _; exact ⟨t, by simp [RepSys.pc_setPc]⟩
        · have hno : ∀ t', t' ≠ t →
              ¬ (RepSys.setPc { s with st := .receiving } t .recvInFlight).pc t' = .recvInFlight := by
            intro t' hne hp
            rw [RepSys.pc_setPc_other _ _ _ _ hne] at hp
            have := honly t' hp
            rw [hst] at this; cases this
          intro t1 t2 h1 h2
          have e1 : t1 = t := Classical.byContradiction fun hne => hno t1 hne h1
          have e2 : t2 = t := Classical.byContradiction fun hne => hno t2 hne h2
          rw [e1, e2]
      · exact ⟨hc, hlog, honly, hex, huniq⟩
  | recvGot t i =>
    simp only [RepSys.step]
    split
    · exact ⟨hc, hlog, honly, hex, huniq⟩
    · rename_i hpc
      have hpc : s.pc t = .recvInFlight := by simpa using hpc
      have hst := honly t hpc
      split
      · exact ⟨hc, hlog, honly, hex, huniq⟩
      · rename_i src hpend
        have hno : ∀ t', ¬ (RepSys.setPc { s with pending := s.pending.eraseIdx i, st := .receivedRequest src, log := s.log ++ [.recv src] } t .idle).pc t' = .recvInFlight := by
          intro t' hp
          rw [RepSys.pc_setPc] at hp
          split at hp
          · cases hp
          · rename_i hne
            exact hne (huniq t' t hp hpc)
        refine ⟨by simp [hc], ?_, ?_, ?_, ?_⟩
        · simp [hst, RepState.openPeer] at hlog
          simp [repOpen_append, hlog, repOpen, RepState.openPeer]
        · intro t' hp; exact absurd hp (hno t')
        · intro h; simp at h
        · intro t1 _ h1; exact absurd h1 (hno t1)
  | recvGiveUp t =>
    simp only [RepSys.step]
    split
    · exact ⟨hc, hlog, honly, hex, huniq⟩
    · rename_i hpc
      have hpc : s.pc t = .recvInFlight := by simpa using hpc
      have hst := honly t hpc
      have hno : ∀ t', ¬ (RepSys.setPc { s with st := if (s.claim && s.st == .receiving) = true
            then .readyToReceive else s.st } t .idle).pc t' = .recvInFlight := by
        intro t' hp
        rw [RepSys.pc_setPc] at hp
        split at hp
        · cases hp
        · rename_i hne
          exact hne (huniq t' t hp hpc)
      refine ⟨by simp [hc], ?_, ?_, ?_, ?_⟩
      · simp [hst, RepState.openPeer] at hlog
        simp [hc, hst, hlog, RepState.openPeer]
      · intro t' hp; exact absurd hp (hno t')
      · intro h; simp [hc, hst] at h
      · intro t1 _ h1; exact absurd h1 (hno t1)
  | sendReply t =>
    simp only [RepSys.step]
    split
    · rename_i peer hst
      refine ⟨hc, ?_, ?_, ?_, huniq⟩
      · simp [hst, RepState.openPeer] at hlog
        simp [repOpen_append, hlog, repOpen, RepState.openPeer]
      · intro t' hp
        have := honly t' hp
        rw [hst] at this; cases this
      · intro h; simp at h
    · exact ⟨hc, hlog, honly, hex, huniq⟩
  | peerRequests peer =>
    simp only [RepSys.step]
    exact ⟨hc, hlog, honly, hex, huniq⟩
  | peerDetached peer =>
    simp only [RepSys.step]
    by_cases hst : s.st = .receivedRequest peer
    · refine ⟨hc, ?_, ?_, ?_, huniq⟩
      · simp [hst, RepState.openPeer] at hlog
        simp [hst, repOpen_append, hlog, repOpen, RepState.openPeer]
      · intro t' hp
        have := honly t' hp
        rw [hst] at this; cases this
      · intro h; simp [hst] at h
    · refine ⟨hc, ?_, ?_, ?_, huniq⟩
      · simp [hst, hlog]
      · intro t' hp; simpa [hst] using honly t' hp
      · intro h; simp [hst] at h; exact hex h

theorem RepInv.run {s : RepSys} (h : RepInv s) (evs : List RepEv) : RepInv (s.run evs) := by
  induction evs generalizing s with
  | nil => exact h
  | cons e evs ih => exact ih (h.step e)

theorem RepInv.reach (evs : List RepEv) : RepInv (RepSys.run {} evs) := RepInv.init.run evs

end Rzmq
