import RzmqModel.Model.ReqRep
/-! Helper lemmas for the REQ/REP state machines (C10). -/
namespace Rzmq

end Rzmq
