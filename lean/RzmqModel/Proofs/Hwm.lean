import RzmqModel.Model.Hwm
import RzmqModel.Proofs.Session
/-!
Helper lemmas and invariants for `Props/C14.lean` (model: `Model/Hwm.lean`).
-/
namespace Rzmq

-- ---------------------------------------------------------------------------------------------
-- the decision functions
-- ---------------------------------------------------------------------------------------------

theorem sendOnFull_zero (cap : Option Nat) (owned : Bool) (room : Option Nat) :
    sendOnFull cap owned .zero room = .wouldBlock 0 := rfl

theorem sendOnFull_ms_spec (owned : Bool) (d : Nat) (room : Option Nat) :
    (∀ t, (sendOnFull none owned (.ms d) room).failedAt = some t → t = d ∧ (∀ r, room = some r → d < r))
    ∧ (∀ t, sendOnFull none owned (.ms d) room = .ok t → room = some t ∧ t ≤ d)
    ∧ sendOnFull none owned (.ms d) room ≠ .waiting := by
  cases room with
  | none =>
    cases owned <;> simp [sendOnFull, CallRes.failedAt] <;> intro t h <;> exact h.symm
  | some r =>
    by_cases hr : r ≤ d
    · cases owned <;> simp [sendOnFull, CallRes.failedAt, hr] <;> intro t h <;> subst h <;> exact hr
    · have hlt : d < r := by omega
      cases owned <;> simp [sendOnFull, CallRes.failedAt, hr, hlt, eq_comm]

theorem sendOnFull_infinite_spec (owned : Bool) (room : Option Nat) :
    (sendOnFull none owned .infinite room).failedAt = none
    ∧ (∀ t, sendOnFull none owned .infinite room = .ok t ↔ room = some t) := by
  cases room <;> simp [sendOnFull, CallRes.failedAt]

theorem sendOnFull_ok_room (owned : Bool) (t : Timeo) (room : Option Nat) (at_ : Nat)
    (h : sendOnFull none owned t room = .ok at_) : room = some at_ := by
  cases t with
  | zero => simp [sendOnFull] at h
  | infinite => exact ((sendOnFull_infinite_spec owned room).2 at_).mp h
  | ms d => exact ((sendOnFull_ms_spec owned d room).2.1 at_ h).1

theorem recvOnEmpty_zero (arrival : Option Nat) : recvOnEmpty .zero arrival = .wouldBlock 0 := rfl

theorem recvOnEmpty_ms_spec (d : Nat) (arrival : Option Nat) :
    (∀ t, (recvOnEmpty (.ms d) arrival).failedAt = some t → t = d ∧ (∀ a, arrival = some a → d < a))
    ∧ (∀ t, recvOnEmpty (.ms d) arrival = .ok t → arrival = some t ∧ t ≤ d) := by
  cases arrival with
  | none => simp [recvOnEmpty, CallRes.failedAt, eq_comm]
  | some a =>
    by_cases ha : a ≤ d
    · simp only [recvOnEmpty, ha, if_true, CallRes.failedAt]
      refine ⟨fun t h => by simp at h, fun t h => ?_⟩
      have : a = t := by simpa using h
      subst this
      exact ⟨rfl, ha⟩
    · have hlt : d < a := by omega
      simp [recvOnEmpty, CallRes.failedAt, ha, hlt, eq_comm]

theorem recvOnEmpty_infinite_spec (arrival : Option Nat) :
    (recvOnEmpty .infinite arrival).failedAt = none
    ∧ (∀ t, recvOnEmpty .infinite arrival = .ok t ↔ arrival = some t) := by
  cases arrival <;> simp [recvOnEmpty, CallRes.failedAt]

-- ---------------------------------------------------------------------------------------------
-- the guarded send side
-- ---------------------------------------------------------------------------------------------

theorem HwmSend.run_induction (P : HwmSend → Prop) (evs : List HwmEv) :
    ∀ (s : HwmSend), P s → (∀ s ev, P s → P (s.step ev)) → P (s.run evs) := by
  induction evs with
  | nil => intro s h _; exact h
  | cons ev evs ih =>
    intro s h hstep
    simp only [HwmSend.run, List.foldl_cons]
    exact ih (s.step ev) (hstep s ev h) hstep

/-- a step of the guarded send side is a step of the underlying send path, or leaves the path alone -/
theorem HwmSend.step_path (s : HwmSend) (ev : HwmEv) :
    (s.step ev).path = s.path
    ∨ (∃ m, ev = .offer m ∧ s.path.pipe.length < max s.path.cfg.sndhwm 1 ∧ (s.step ev).path = s.path.step (.accept m))
    ∨ (∃ e, (∀ m, e ≠ .accept m) ∧ (s.step ev).path = s.path.step e) := by
  cases ev with
  | offer m =>
    by_cases h : s.path.pipe.length < max s.path.cfg.sndhwm 1
    · exact Or.inr (Or.inl ⟨m, rfl, h, by simp [HwmSend.step, h]⟩)
    · exact Or.inl (by simp [HwmSend.step, h])
  | session e =>
    cases e with
    | accept m => exact Or.inl rfl
    | assembleCarry => exact Or.inr (Or.inr ⟨.assembleCarry, by intro m; simp, rfl⟩)
    | assemblePipe => exact Or.inr (Or.inr ⟨.assemblePipe, by intro m; simp, rfl⟩)
    | written n => exact Or.inr (Or.inr ⟨.written n, by intro m; simp, rfl⟩)
    | control f => exact Or.inr (Or.inr ⟨.control f, by intro m; simp, rfl⟩)

theorem HwmSend.step_refused (s : HwmSend) (m : Message)
    (hfull : ¬ s.path.pipe.length < max s.path.cfg.sndhwm 1) :
    (s.step (.offer m)).path = s.path := by
  simp [HwmSend.step, hfull]

/-- the session never puts anything into the pipe -/
theorem SendPath.step_pipe_le (s : SendPath) (ev : SendEv) (h : ∀ m, ev ≠ .accept m) :
    (s.step ev).pipe.length ≤ s.pipe.length := by
  cases ev with
  | accept m => exact absurd rfl (h m)
  | assembleCarry =>
    simp only [SendPath.step]
    split
    · obtain ⟨k, want, j, -, -, h3, -, -, -⟩ := assembleFromCarry_spec s.cfg s.egress.msgCount s.carry s.pipe
      simp only [h3, List.length_drop]
      omega
    · exact Nat.le_refl _
  | assemblePipe =>
    simp only [SendPath.step]
    split
    · split
      · exact Nat.le_refl _
      · rename_i first rest hp
        obtain ⟨want, j, -, -, h3, -⟩ := assembleFromPipe_spec s.cfg s.egress.msgCount first rest
        simp only [h3, List.length_drop, hp, List.length_cons]
        omega
    · exact Nat.le_refl _
  | written n => exact Nat.le_refl _
  | control f => exact Nat.le_refl _

/-- the three bounds of the sending side of one connection -/
def HwmSend.Bounded (s : HwmSend) : Prop :=
  s.path.pipe.length ≤ max s.path.cfg.sndhwm 1
  ∧ s.path.egress.msgCount ≤ max s.path.cfg.sndhwm 1
  ∧ s.path.carry.length ≤ s.path.cfg.count

theorem HwmSend.step_bounded (s : HwmSend) (ev : HwmEv) (hc : 1 ≤ s.path.cfg.count) (h : s.Bounded) :
    (s.step ev).path.cfg = s.path.cfg ∧ (s.step ev).Bounded := by
  obtain ⟨hp, hb⟩ := h
  rcases HwmSend.step_path s ev with h0 | ⟨m, -, hroom, h1⟩ | ⟨e, hne, h1⟩
  · unfold HwmSend.Bounded
    rw [h0]
    exact ⟨rfl, hp, hb⟩
  · have hb' := SendPath.step_bounded s.path (.accept m) hc hb
    unfold HwmSend.Bounded
    rw [h1, SendPath.step_cfg]
    refine ⟨rfl, ?_, hb'⟩
    simp only [SendPath.step, List.length_append, List.length_singleton]
    omega
  · have hb' := SendPath.step_bounded s.path e hc hb
    have hp' := SendPath.step_pipe_le s.path e hne
    unfold HwmSend.Bounded
    rw [h1, SendPath.step_cfg]
    exact ⟨rfl, Nat.le_trans hp' hp, hb'⟩

theorem HwmSend.run_bounded (cfg : BatchCfg) (hc : 1 ≤ cfg.count) (evs : List HwmEv) :
    (HwmSend.run { path := { cfg := cfg } } evs).path.cfg = cfg
    ∧ (HwmSend.run { path := { cfg := cfg } } evs).Bounded :=
  HwmSend.run_induction (fun t => t.path.cfg = cfg ∧ t.Bounded) evs _
    ⟨rfl, Nat.zero_le _, Nat.zero_le _, Nat.zero_le _⟩
    (fun t ev h => by
      obtain ⟨h0, h1⟩ := h
      obtain ⟨g0, g1⟩ := HwmSend.step_bounded t ev (by rw [h0]; exact hc) h1
      exact ⟨by rw [g0, h0], g1⟩)

theorem HwmSend.run_buffered (cfg : BatchCfg) (hc : 1 ≤ cfg.count) (evs : List HwmEv) :
    (HwmSend.run { path := { cfg := cfg } } evs).buffered ≤ 2 * max cfg.sndhwm 1 + cfg.count := by
  obtain ⟨h0, h1, h2, h3⟩ := HwmSend.run_bounded cfg hc evs
  rw [h0] at h1 h2 h3
  unfold HwmSend.buffered
  omega

theorem HwmSend.step_fifo (s : HwmSend) (ev : HwmEv) (h : s.path.wire = frameBatch s.path.accepted) :
    (s.step ev).path.wire = frameBatch (s.step ev).path.accepted := by
  rcases HwmSend.step_path s ev with h0 | ⟨m, -, -, h1⟩ | ⟨e, -, h1⟩
  · rw [h0]; exact h
  · rw [h1]; exact SendPath.step_fifo _ _ h
  · rw [h1]; exact SendPath.step_fifo _ _ h

theorem HwmSend.run_fifo (cfg : BatchCfg) (evs : List HwmEv) :
    (HwmSend.run { path := { cfg := cfg } } evs).path.wire
      = frameBatch (HwmSend.run { path := { cfg := cfg } } evs).path.accepted :=
  HwmSend.run_induction (fun t => t.path.wire = frameBatch t.path.accepted) evs _ rfl
    (fun t ev h => HwmSend.step_fifo t ev h)

-- ---------------------------------------------------------------------------------------------
-- the receive side
-- ---------------------------------------------------------------------------------------------

/-- induction over a receive-side event sequence, the step hypothesis restricted to the events that occur -/
theorem RecvPath.run_induction_mem (P : RecvPath → Prop) (evs : List RecvEv) :
    ∀ (r : RecvPath), P r → (∀ r ev, ev ∈ evs → P r → P (r.step ev)) → P (r.run evs) := by
  induction evs with
  | nil => intro r h _; exact h
  | cons ev evs ih =>
    intro r h hstep
    simp only [RecvPath.run, List.foldl_cons]
    exact ih (r.step ev) (hstep r ev (List.mem_cons_self ..) h)
      (fun r' ev' hm hp => hstep r' ev' (List.mem_cons_of_mem _ hm) hp)

/-- the ingress buffer is only refilled when empty, and otherwise only shrinks -/
theorem RecvPath.step_buffer (r : RecvPath) (ev : RecvEv) (k : Nat)
    (hread : ∀ msgs, ev = .read msgs → msgs.length ≤ k) (h : r.buffer.length ≤ k) :
    (r.step ev).buffer.length ≤ k := by
  cases ev with
  | read msgs =>
    simp only [RecvPath.step]
    split
    · exact hread msgs rfl
    · exact h
  | drainBatch =>
    simp only [RecvPath.step, List.length_drop]
    omega
  | sendOne =>
    simp only [RecvPath.step]
    split
    · exact h
    · rename_i m rest hb
      rw [hb] at h
      simp only [List.length_cons] at h
      split
      · show rest.length ≤ k
        omega
      · rw [hb]; simp only [List.length_cons]; exact h
  | sendCancelled => exact h
  | appRecv =>
    simp only [RecvPath.step]
    split <;> exact h

theorem RecvPath.run_buffer (r0 : Nat) (evs : List RecvEv) (k : Nat)
    (hread : ∀ msgs, RecvEv.read msgs ∈ evs → msgs.length ≤ k) :
    (RecvPath.run { rcvhwm := r0 } evs).buffer.length ≤ k :=
  RecvPath.run_induction_mem (fun r => r.buffer.length ≤ k) evs _ (Nat.zero_le _)
    (fun r ev hm h => RecvPath.step_buffer r ev k (fun msgs he => hread msgs (he ▸ hm)) h)

end Rzmq
