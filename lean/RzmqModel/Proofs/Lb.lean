import RzmqModel.Model.Routing
/-! Helper lemmas for C13 (round-robin load balancer). -/
namespace Rzmq
namespace Lb

/-! ### arithmetic -/

theorem mod_lt_two (a n : Nat) (h : a < 2 * n) : a % n = if a < n then a else a - n := by
  split
  · exact Nat.mod_eq_of_lt ‹_›
  · rw [Nat.mod_eq_sub_mod (by omega)]
    exact Nat.mod_eq_of_lt (by omega)

/-! ### basic facts about `next` -/

theorem next_peers (l : Lb) : l.next.2.peers = l.peers := by
  unfold Lb.next
  split <;> rfl

theorem next_of_ne (l : Lb) (hne : l.peers ≠ []) :
    l.next = (l.peers[if l.nextIdx ≥ l.peers.length then 0 else l.nextIdx]?,
      { l with nextIdx := ((if l.nextIdx ≥ l.peers.length then 0 else l.nextIdx) + 1) % l.peers.length }) := by
  unfold Lb.next
  split
  · contradiction
  · rfl

theorem next_of_nil (l : Lb) (h : l.peers = []) : l.next = (none, l) := by
  unfold Lb.next
  split
  · rfl
  · contradiction

theorem length_pos_of_ne {l : Lb} (hne : l.peers ≠ []) : 0 < l.peers.length :=
  List.length_pos_iff.mpr hne

/-- every selection is either `none` or a current peer -/
theorem mem_nexts (k : Nat) (l : Lb) (x : Option Nat) (hx : x ∈ Lb.nexts k l) :
    x = none ∨ ∃ v, v ∈ l.peers ∧ x = some v := by
  induction k generalizing l with
  | zero => simp [Lb.nexts] at hx
  | succ k ih =>
    simp only [Lb.nexts, List.mem_cons] at hx
    rcases hx with hx | hx
    · by_cases hne : l.peers = []
      · left; rw [hx, next_of_nil l hne]
      · rw [next_of_ne l hne] at hx
        simp only at hx
        cases hg : l.peers[if l.nextIdx ≥ l.peers.length then 0 else l.nextIdx]? with
        | none => left; rw [hx, hg]
        | some v =>
          right
          exact ⟨v, List.mem_of_getElem? hg, by rw [hx, hg]⟩
    · have := ih l.next.2 hx
      rwa [next_peers] at this

/-! ### removal -/

theorem not_mem_eraseIdx_of_nodup {l : List Nat} {u pos : Nat} (hnd : l.Nodup) (hpos : pos < l.length)
    (hu : l[pos]? = some u) : u ∉ l.eraseIdx pos := by
  intro hmem
  rw [List.mem_eraseIdx_iff_getElem?] at hmem
  obtain ⟨i, hik, hi⟩ := hmem
  have : pos = i := (List.getElem?_inj hpos hnd).mp (by rw [hu, hi])
  exact hik this.symm

theorem idxOf?_some {l : List Nat} {u pos : Nat} (h : l.idxOf? u = some pos) :
    pos < l.length ∧ l[pos]? = some u := by
  rw [List.idxOf?_eq_some_iff] at h
  obtain ⟨hlt, heq, _⟩ := h
  exact ⟨hlt, by rw [List.getElem?_eq_getElem hlt, heq]⟩

theorem not_mem_remove (l : Lb) (u : Nat) (h : l.peers.Nodup) : u ∉ (l.remove u).peers := by
  unfold Lb.remove
  split
  next hn => exact List.idxOf?_eq_none_iff.mp hn
  next pos hs =>
    obtain ⟨hlt, hu⟩ := idxOf?_some hs
    exact not_mem_eraseIdx_of_nodup h hlt hu

/-- position of `u` in a duplicate-free list is the index where it is found -/
theorem idxOf?_of_getElem? {l : List Nat} {u i : Nat} (hnd : l.Nodup) (hi : l[i]? = some u) :
    l.idxOf? u = some i := by
  have hlt : i < l.length := by
    rcases Nat.lt_or_ge i l.length with h | h
    · exact h
    · rw [List.getElem?_eq_none h] at hi; cases hi
  rw [List.idxOf?_eq_some_iff]
  refine ⟨hlt, ?_, ?_⟩
  · rw [List.getElem?_eq_getElem hlt] at hi
    exact Option.some.inj hi
  · intro j hj hcontra
    have hjl : j < l.length := by omega
    have : j = i := (List.getElem?_inj hjl hnd).mp (by
      rw [hi, List.getElem?_eq_getElem hjl, hcontra])
    omega

/-! ### a corrected, inductive invariant

`Lb.Good` allows an arbitrary cursor while the peer list is empty, and `Lb.add` keeps the cursor, so `Good` is not
preserved by `add` from such a state.  Every state reachable from `{}` satisfies the stronger `Good'`. -/

/-- no duplicate peers, cursor within range, and cursor `0` while the list is empty -/
def Good' (l : Lb) : Prop := l.peers.Nodup ∧ (l.nextIdx = 0 ∨ l.nextIdx < l.peers.length)

theorem Good'.good {l : Lb} (h : Good' l) : Lb.Good l := by
  refine ⟨h.1, ?_⟩
  rcases h.2 with h0 | hlt
  · by_cases hne : l.peers = []
    · exact Or.inl hne
    · right; rw [h0]; exact length_pos_of_ne hne
  · exact Or.inr hlt

theorem good'_init : Good' {} := by
  refine ⟨List.nodup_nil, Or.inl rfl⟩

theorem nodup_add (l : Lb) (u : Nat) (h : l.peers.Nodup) : (l.add u).peers.Nodup := by
  unfold Lb.add
  split
  · exact h
  next hc =>
    have hnm : u ∉ l.peers := by simpa using hc
    simp only
    rw [List.nodup_append]
    refine ⟨h, by simp, ?_⟩
    intro a ha b hb
    simp only [List.mem_singleton] at hb
    subst hb
    intro hab
    subst hab
    exact hnm ha

theorem add_peers_length_le (l : Lb) (u : Nat) : l.peers.length ≤ (l.add u).peers.length := by
  unfold Lb.add
  split <;> simp

theorem add_nextIdx (l : Lb) (u : Nat) : (l.add u).nextIdx = l.nextIdx := by
  unfold Lb.add
  split <;> rfl

theorem good'_add (l : Lb) (u : Nat) (h : Good' l) : Good' (l.add u) := by
  refine ⟨nodup_add l u h.1, ?_⟩
  rw [add_nextIdx]
  have := add_peers_length_le l u
  rcases h.2 with h0 | hlt
  · exact Or.inl h0
  · right; omega

/-- `good_add` with the hypothesis that is missing from the statement in `Props/C13.lean` -/
theorem good_add_fixed (l : Lb) (u : Nat) (h : Lb.Good l) (h0 : l.peers = [] → l.nextIdx = 0) :
    Lb.Good (l.add u) := by
  apply Good'.good
  apply good'_add
  refine ⟨h.1, ?_⟩
  rcases h.2 with he | hlt
  · exact Or.inl (h0 he)
  · exact Or.inr hlt

theorem good'_next (l : Lb) (h : Good' l) : Good' l.next.2 := by
  by_cases hne : l.peers = []
  · rw [next_of_nil l hne]; exact h
  · rw [next_of_ne l hne]
    exact ⟨h.1, Or.inr (Nat.mod_lt _ (length_pos_of_ne hne))⟩

theorem good'_remove (l : Lb) (u : Nat) (h : Good' l) : Good' (l.remove u) := by
  obtain ⟨hnd, hc⟩ := h
  unfold Lb.remove
  split
  · exact ⟨hnd, hc⟩
  next pos hs =>
    obtain ⟨hlt, _⟩ := idxOf?_some hs
    refine ⟨hnd.eraseIdx pos, ?_⟩
    have hlen : (l.peers.eraseIdx pos).length = l.peers.length - 1 := List.length_eraseIdx_of_lt hlt
    simp only
    by_cases h1 : (pos < l.nextIdx && l.nextIdx > 0) = true
    · rw [if_pos h1]
      simp at h1
      right; omega
    · rw [if_neg h1]
      by_cases h2 : l.nextIdx ≥ (l.peers.eraseIdx pos).length
      · rw [if_pos h2]; exact Or.inl rfl
      · rw [if_neg h2]; right; omega

/-- `C13.good_add` is false as stated: `Good` allows a stale cursor while the list is empty -/
theorem good_add_counterexample :
    Lb.Good { peers := [], nextIdx := 1 } ∧ ¬ Lb.Good (({ peers := [], nextIdx := 1 } : Lb).add 0) := by
  unfold Lb.Good
  decide

end Lb
end Rzmq
