import RzmqModel.Model.Shutdown
import RzmqModel.Props.C08
/-!
Helper lemmas for C16: the accounting invariant of `Acct` (wait group = number of living tasks, the waiter's
condition = "count is zero", the waiter's `Notify` bookkeeping), and the registry invariant after a `loopExit`.
-/
namespace Rzmq

-- accounting -------------------------------------------------------------------------------------------------------

theorem Acct.run_nil (a : Acct) : Acct.run a [] = a := rfl

theorem Acct.run_cons (a : Acct) (e : AcctEv) (r : List AcctEv) : Acct.run a (e :: r) = Acct.run (a.step e) r := rfl

theorem Acct.run_append (a : Acct) (l₁ l₂ : List AcctEv) : Acct.run a (l₁ ++ l₂) = Acct.run (Acct.run a l₁) l₂ := by
  simp [Acct.run, List.foldl_append]

/-- the accounting invariant: the wait group counts the living; the waiter's condition is "count == 0"; the waiter is
at a known pc, registered once past its check, and — the no-lost-wake-up part — if the condition holds while it is
parked, it has been notified -/
def Acct.Inv (a : Acct) : Prop :=
  a.wg = a.alive.length ∧ (a.waiter.cond = true ↔ a.wg = 0)
  ∧ (a.waiter.pc = 0 ∨ a.waiter.pc = 1 ∨ a.waiter.pc = 2)
  ∧ (a.waiter.pc = 1 → a.waiter.registered = true)
  ∧ (a.waiter.pc = 1 → a.waiter.cond = true → a.waiter.notified = true)

theorem Acct.inv_init : Acct.Inv {} := by simp [Acct.Inv]

theorem length_erase_of_contains (l : List Nat) (id : Nat) (h : l.contains id = true) :
    (l.erase id).length = l.length - 1 := by
  rw [List.length_erase]
  simp [List.contains_iff_mem.1 h]

theorem Acct.inv_step (a : Acct) (e : AcctEv) (h : a.Inv) : (a.step e).Inv := by
  obtain ⟨wg, alive, nextId, ⟨c, pc, r, n⟩⟩ := a
  obtain ⟨h1, h2, h3, h4, h5⟩ := h
  simp only at h1 h2 h3 h4 h5
  cases e with
  | spawn =>
    subst h1
    refine ⟨by simp [Acct.step], by simp [Acct.step], h3, h4, by simp [Acct.step]⟩
  | exit id how =>
    by_cases hc : alive.contains id = true
    · have hlen := length_erase_of_contains alive id hc
      have hpos : 0 < alive.length := List.length_pos_of_mem (List.contains_iff_mem.1 hc)
      subst h1
      by_cases hz : alive.length - 1 = 0
      · have hst : ({ wg := alive.length, alive := alive, nextId := nextId, waiter := ⟨c, pc, r, n⟩ } : Acct).step (.exit id how)
            = { wg := 0, alive := alive.erase id, nextId := nextId, waiter := ⟨true, pc, r, n || r⟩ } := by
          simp [Acct.step, List.contains_iff_mem.1 hc, hz, WaitSt.signal]
        rw [hst]
        refine ⟨?_, by simp, h3, h4, ?_⟩
        · show 0 = (alive.erase id).length
          omega
        · intro hp _
          show (n || r) = true
          simp [h4 hp]
      · have hcf : c = false := by
          cases c
          · rfl
          · have := h2.1 rfl; omega
        subst hcf
        have hst : ({ wg := alive.length, alive := alive, nextId := nextId, waiter := ⟨false, pc, r, n⟩ } : Acct).step (.exit id how)
            = { wg := alive.length - 1, alive := alive.erase id, nextId := nextId, waiter := ⟨false, pc, r, n⟩ } := by
          simp [Acct.step, List.contains_iff_mem.1 hc, hz]
        rw [hst]
        refine ⟨?_, ?_, h3, h4, by simp⟩
        · show alive.length - 1 = (alive.erase id).length
          omega
        · simp [hz]
    · simp only [Acct.step, hc]
      exact ⟨h1, h2, h3, h4, h5⟩
  | poll =>
    refine ⟨h1, ?_, ?_, ?_, ?_⟩
    · rcases h3 with rfl | rfl | rfl
      · cases c <;> simpa [Acct.step, WaitSt.stepRegisterFirst] using h2
      · cases n <;> cases c <;> simpa [Acct.step, WaitSt.stepRegisterFirst] using h2
      · simpa [Acct.step, WaitSt.stepRegisterFirst] using h2
    · rcases h3 with rfl | rfl | rfl
      · cases c <;> simp [Acct.step, WaitSt.stepRegisterFirst]
      · cases n <;> cases c <;> simp [Acct.step, WaitSt.stepRegisterFirst]
      · simp [Acct.step, WaitSt.stepRegisterFirst]
    · rcases h3 with rfl | rfl | rfl
      · cases c <;> simp [Acct.step, WaitSt.stepRegisterFirst]
      · cases n <;> cases c <;> simp_all [Acct.step, WaitSt.stepRegisterFirst]
      · simp [Acct.step, WaitSt.stepRegisterFirst]
    · rcases h3 with rfl | rfl | rfl
      · cases c <;> simp [Acct.step, WaitSt.stepRegisterFirst]
      · cases n <;> cases c <;> simp_all [Acct.step, WaitSt.stepRegisterFirst]
      · simp [Acct.step, WaitSt.stepRegisterFirst]

theorem Acct.inv_run (a : Acct) (h : a.Inv) (evs : List AcctEv) : (Acct.run a evs).Inv := by
  induction evs generalizing a with
  | nil => exact h
  | cons e r ih => exact ih _ (Acct.inv_step a e h)

theorem Acct.inv_reachable (evs : List AcctEv) : (Acct.run {} evs).Inv := Acct.inv_run {} Acct.inv_init evs

/-- in a state satisfying the invariant: nothing alive ⇒ the waiter's condition holds -/
theorem Acct.cond_of_idle (a : Acct) (h : a.Inv) (hidle : a.alive = []) : a.waiter.cond = true := by
  obtain ⟨h1, h2, _⟩ := h
  exact h2.2 (by simp [h1, hidle])

theorem Acct.idle_of_cond (a : Acct) (h : a.Inv) (hc : a.waiter.cond = true) : a.alive = [] := by
  obtain ⟨h1, h2, _⟩ := h
  exact List.length_eq_zero_iff.1 (by have := h2.1 hc; omega)

/-- with the condition true, ONE poll completes the wait (from any reachable waiter state) -/
theorem Acct.poll_done (a : Acct) (h : a.Inv) (hc : a.waiter.cond = true) : (a.step .poll).waiter.pc = 2 := by
  obtain ⟨wg, alive, nextId, ⟨c, pc, r, n⟩⟩ := a
  obtain ⟨_, _, h3, _, h5⟩ := h
  simp only at h3 h5 hc
  subst hc
  rcases h3 with rfl | rfl | rfl
  · simp [Acct.step, WaitSt.stepRegisterFirst]
  · have : n = true := h5 rfl rfl
    subst this
    simp [Acct.step, WaitSt.stepRegisterFirst]
  · simp [Acct.step, WaitSt.stepRegisterFirst]

/-- once done, polling keeps it done -/
theorem Acct.poll_stays_done (a : Acct) (hp : a.waiter.pc = 2) : (a.step .poll).waiter.pc = 2 := by
  obtain ⟨wg, alive, nextId, ⟨c, pc, r, n⟩⟩ := a
  simp only at hp
  subst hp
  simp [Acct.step, WaitSt.stepRegisterFirst]

/-- a step that takes the waiter to "done" is a poll made while nothing is alive -/
theorem Acct.step_done (a : Acct) (h : a.Inv) (e : AcctEv) (hp : (a.step e).waiter.pc = 2) :
    a.waiter.pc = 2 ∨ (e = .poll ∧ a.alive = []) := by
  cases e with
  | spawn => exact Or.inl (by simpa [Acct.step] using hp)
  | exit id how =>
    left
    by_cases hc : a.alive.contains id = true
    · simp only [Acct.step, hc, if_true] at hp
      by_cases hz : (a.wg - 1 == 0) = true
      · simpa [hz, WaitSt.signal] using hp
      · simpa [hz] using hp
    · simp only [Acct.step, hc] at hp
      exact hp
  | poll =>
    by_cases hc : a.waiter.cond = true
    · exact Or.inr ⟨rfl, Acct.idle_of_cond a h hc⟩
    · left
      obtain ⟨wg, alive, nextId, ⟨c, pc, r, n⟩⟩ := a
      obtain ⟨_, _, h3, _, _⟩ := h
      simp only at h3 hc hp ⊢
      have : c = false := by simpa using hc
      subst this
      rcases h3 with rfl | rfl | rfl
      · simp [Acct.step, WaitSt.stepRegisterFirst] at hp
      · cases n <;> simp [Acct.step, WaitSt.stepRegisterFirst] at hp
      · rfl

/-- generalised over the start state: the waiter is done after `evs` only if it was done before, or `evs` contains a
poll made at a moment when nothing was alive -/
theorem Acct.done_implies_idle_poll (a : Acct) (h : a.Inv) (evs : List AcctEv) (hp : (Acct.run a evs).waiter.pc = 2) :
    a.waiter.pc = 2 ∨ ∃ pre post, evs = pre ++ .poll :: post ∧ (Acct.run a pre).alive = [] := by
  induction evs generalizing a with
  | nil => exact Or.inl hp
  | cons e r ih =>
    rcases ih (a.step e) (Acct.inv_step a e h) hp with h2 | ⟨pre, post, rfl, hidle⟩
    · rcases Acct.step_done a h e h2 with h3 | ⟨rfl, hidle⟩
      · exact Or.inl h3
      · exact Or.inr ⟨[], r, rfl, hidle⟩
    · exact Or.inr ⟨e :: pre, post, rfl, hidle⟩

/-- THE STRONGER FORM of `term_returns_only_when_all_stopped`: the waiter in `term()` is done only if one of the polls
in the history — the one that released it — was made while no actor was alive -/
theorem waiter_done_implies_idle_at_some_poll (evs : List AcctEv) (h : (Acct.run {} evs).waiter.pc = 2) :
    ∃ pre post, evs = pre ++ .poll :: post ∧ (Acct.run {} pre).alive = [] := by
  rcases Acct.done_implies_idle_poll {} Acct.inv_init evs h with h0 | h1
  · simp at h0
  · exact h1

/-- the release poll can be taken to be the FIRST poll at which the waiter is done: before it the waiter is not done -/
theorem waiter_done_first_release_poll (evs : List AcctEv) (h : (Acct.run {} evs).waiter.pc = 2) :
    ∃ pre post, evs = pre ++ .poll :: post ∧ (Acct.run {} pre).alive = [] ∧ (Acct.run {} pre).waiter.pc ≠ 2
      ∧ (Acct.run {} (pre ++ [.poll])).waiter.pc = 2 := by
  suffices H : ∀ (a : Acct), a.Inv → a.waiter.pc ≠ 2 → ∀ evs, (Acct.run a evs).waiter.pc = 2 →
      ∃ pre post, evs = pre ++ .poll :: post ∧ (Acct.run a pre).alive = [] ∧ (Acct.run a pre).waiter.pc ≠ 2
        ∧ (Acct.run a (pre ++ [.poll])).waiter.pc = 2 from H {} Acct.inv_init (by simp) evs h
  intro a ha hn evs
  induction evs generalizing a with
  | nil => intro hp; exact absurd hp hn
  | cons e r ih =>
    intro hp
    by_cases hd : (a.step e).waiter.pc = 2
    · rcases Acct.step_done a ha e hd with h3 | ⟨rfl, hidle⟩
      · exact absurd h3 hn
      · exact ⟨[], r, rfl, hidle, hn, hd⟩
    · obtain ⟨pre, post, rfl, h1, h2, h3⟩ := ih (a.step e) (Acct.inv_step a e ha) hd hp
      exact ⟨e :: pre, post, rfl, h1, h2, h3⟩

/-- no wake-up is lost, from any reachable state: if nothing is alive, one poll finishes the wait, and so do two -/
theorem Acct.idle_two_polls (a : Acct) (h : a.Inv) (hidle : a.alive = []) :
    (Acct.run a [.poll, .poll]).waiter.pc = 2 := by
  have h1 := Acct.poll_done a h (Acct.cond_of_idle a h hidle)
  exact Acct.poll_stays_done _ h1

theorem Acct.idle_one_poll (evs : List AcctEv) (hidle : (Acct.run {} evs).alive = []) :
    (Acct.run {} (evs ++ [.poll])).waiter.pc = 2 := by
  rw [Acct.run_append]
  exact Acct.poll_done _ (Acct.inv_reachable evs) (Acct.cond_of_idle _ (Acct.inv_reachable evs) hidle)

-- who is told ----------------------------------------------------------------------------------------------------------

theorem sessionInHandshake_learnsBy (sub : Bool) :
    (sessionInHandshake sub).learnsBy = some (if sub then 0 else 100) := by
  cases sub <;> decide

theorem connecterRetrying_learnsBy (sub : Bool) (ivl : Nat) :
    (connecterRetrying sub ivl).learnsBy = some (if sub then 0 else ivl) := by
  cases sub <;> simp [connecterRetrying, Notice.learnsBy, Gen.connecterAbortIsFinal, Gen.connecterChecksParentRunning]

-- names ------------------------------------------------------------------------------------------------------------------

theorem Registry.run_append (r : Registry) (l₁ l₂ : List RegEv) :
    Registry.run r (l₁ ++ l₂) = Registry.run (Registry.run r l₁) l₂ := by
  simp [Registry.run, List.foldl_append]

/-- socket `s` is gone from the registry: neither registered nor the owner of any name -/
def Registry.Gone (r : Registry) (s : Nat) : Prop := s ∉ r.sockets ∧ ∀ n, (n, s) ∉ r.inproc

theorem Registry.gone_loopExit (r : Registry) (s : Nat) : (r.step (.loopExit s)).Gone s := by
  constructor
  · simp [Registry.step, Gen.commandLoopUnregistersSocket]
  · intro n
    simp [Registry.step, Gen.commandLoopUnregistersInprocNames]

theorem Registry.gone_step (r : Registry) (s : Nat) (e : RegEv) (h : r.Gone s) (he : e ≠ .register s) :
    (r.step e).Gone s := by
  obtain ⟨h1, h2⟩ := h
  cases e with
  | register s' =>
    have hne : s' ≠ s := fun hh => he (by rw [hh])
    refine ⟨?_, h2⟩
    simp only [Registry.step, List.mem_append, List.mem_singleton, not_or]
    exact ⟨h1, fun hh => hne hh.symm⟩
  | bindInproc s' n' =>
    simp only [Registry.step]
    split
    · exact ⟨h1, h2⟩
    · rename_i hcond
      refine ⟨h1, ?_⟩
      intro n hmem
      simp only [List.mem_append, List.mem_singleton, Prod.mk.injEq] at hmem
      rcases hmem with hmem | ⟨_, rfl⟩
      · exact h2 n hmem
      · apply hcond
        simp [h1]
  | loopExit s' =>
    constructor
    · simp only [Registry.step]
      split
      · intro hmem; exact h1 (List.mem_filter.1 hmem).1
      · exact h1
    · intro n
      simp only [Registry.step]
      split
      · intro hmem; exact h2 n (List.mem_filter.1 hmem).1
      · exact h2 n

theorem Registry.gone_run (r : Registry) (s : Nat) (evs : List RegEv) (h : r.Gone s) (he : RegEv.register s ∉ evs) :
    (Registry.run r evs).Gone s := by
  induction evs generalizing r with
  | nil => exact h
  | cons e rest ih =>
    have h1 : e ≠ .register s := fun hh => he (by simp [hh])
    have h2 : RegEv.register s ∉ rest := fun hh => he (List.mem_cons_of_mem _ hh)
    exact ih (r.step e) (Registry.gone_step r s e h h1) h2

/-- after socket `s`'s command loop has ended and as long as `s` is not registered again, `s` is gone from the registry
(from ANY start state) -/
theorem Registry.gone_after_loopExit (r : Registry) (pre post : List RegEv) (s : Nat) (hpost : RegEv.register s ∉ post) :
    (Registry.run r (pre ++ [RegEv.loopExit s] ++ post)).Gone s := by
  rw [Registry.run_append, Registry.run_append]
  exact Registry.gone_run _ s post (Registry.gone_loopExit _ s) hpost

-- parked callers ------------------------------------------------------------------------------------------------------

def goodSite : ParkCfg := { reaches := true, wakesAll := true, checksFlag := true }

/-- with a site that is reached, wakes everybody and checks the flag: once the flag is up nobody is parked, and nobody
is ever lost (everyone who arrived is parked or has returned) -/
def Park.Inv (p : Park) : Prop := (p.flag = true → p.parked = []) ∧ p.permit = false

theorem Park.step_inv (p : Park) (e : ParkEv) (h : p.Inv) : (Park.step goodSite p e).Inv := by
  obtain ⟨h1, h2⟩ := h
  cases e with
  | arrive t =>
    simp only [Park.step, goodSite, Bool.true_and]
    by_cases hf : p.flag = true
    · simp [hf, Park.Inv, h1 hf, h2]
    · simp [hf, h2, Park.Inv]
  | stop => simp [Park.step, goodSite, Park.Inv, h2]

theorem Park.run_inv (p : Park) (evs : List ParkEv) (h : p.Inv) : (Park.run goodSite p evs).Inv := by
  induction evs generalizing p with
  | nil => exact h
  | cons e es ih => exact ih _ (Park.step_inv p e h)

theorem Park.flag_monotone (p : Park) (evs : List ParkEv) (h : p.flag = true) : (Park.run goodSite p evs).flag = true := by
  induction evs generalizing p with
  | nil => exact h
  | cons e es ih =>
    apply ih
    cases e with
    | arrive t =>
      simp only [Park.step, goodSite, Bool.true_and, h]
      simp
    | stop => simp [Park.step, goodSite]

theorem Park.run_append (c : ParkCfg) (p : Park) (a b : List ParkEv) : Park.run c p (a ++ b) = Park.run c (Park.run c p a) b := by
  simp [Park.run, List.foldl_append]

theorem Park.after_stop_nobody_parked (pre post : List ParkEv) :
    (Park.run goodSite {} (pre ++ [.stop] ++ post)).parked = [] := by
  rw [Park.run_append, Park.run_append]
  have hinv : (Park.run goodSite {} pre).Inv := Park.run_inv {} pre (by simp [Park.Inv])
  have hstop : (Park.run goodSite (Park.run goodSite {} pre) [.stop]).flag = true := by
    simp [Park.run, Park.step, goodSite]
  have hinv2 := Park.run_inv _ [.stop] hinv
  have hflag := Park.flag_monotone _ post hstop
  exact (Park.run_inv _ post hinv2).1 hflag

def ParkEv.isArrive : ParkEv → Bool
  | .arrive _ => true
  | .stop => false

theorem Park.step_conservation (c : ParkCfg) (p : Park) (e : ParkEv) :
    (Park.step c p e).parked.length + (Park.step c p e).returned.length
      = p.parked.length + p.returned.length + (if e.isArrive then 1 else 0) := by
  cases e with
  | arrive t =>
    simp only [Park.step, ParkEv.isArrive]
    split
    · simp; omega
    · split
      · split <;> simp <;> omega
      · simp; omega
  | stop =>
    simp only [Park.step, ParkEv.isArrive]
    split
    · simp
    · split
      · simp; omega
      · split
        · simp
        · rename_i t rest hp
          simp [hp]; omega

/-- nobody is lost: the callers that arrived are exactly those parked or returned (lengths add up) -/
theorem Park.conservation (c : ParkCfg) (p : Park) (evs : List ParkEv) :
    (Park.run c p evs).parked.length + (Park.run c p evs).returned.length
      = p.parked.length + p.returned.length + (evs.filter ParkEv.isArrive).length := by
  induction evs generalizing p with
  | nil => simp [Park.run]
  | cons e es ih =>
    have h1 := ih (Park.step c p e)
    have h2 := Park.step_conservation c p e
    simp only [Park.run, List.foldl_cons] at h1 ⊢
    rw [h1, h2]
    cases e <;> simp [ParkEv.isArrive, List.filter] <;> omega

end Rzmq
