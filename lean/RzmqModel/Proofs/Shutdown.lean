import RzmqModel.Model.Shutdown
import RzmqModel.Props.C08
namespace Rzmq
end Rzmq
