import RzmqModel.Model.Wire
/-! Helper lemmas for the wire model (C03, C07). -/
namespace Rzmq

-- ---------------------------------------------------------------------------------------------
-- be64 / ofBe
-- ---------------------------------------------------------------------------------------------

theorem be64_length' (n : Nat) : (be64 n).length = 8 := rfl

theorem ofBe_be64' (n : Nat) (h : n < two64) : ofBe (be64 n) = n := by
  unfold two64 at h
  simp only [ofBe, be64, List.foldl_cons, List.foldl_nil, UInt8.toNat_ofNat']
  omega

theorem toNat_ofNat_small (n : Nat) (h : n ≤ 255) : (UInt8.ofNat n).toNat = n := by
  simp only [UInt8.toNat_ofNat']
  omega

-- ---------------------------------------------------------------------------------------------
-- flag bits
-- ---------------------------------------------------------------------------------------------

/-- the flags byte the codec encoder writes (without the LONG bit) -/
def codecFlags (f : Frame) : UInt8 :=
  flagBits f.more f.command Gen.ZMTP_FLAG_MORE Gen.ZMTP_FLAG_COMMAND

theorem isLong_flagBits (m c : Bool) :
    isLong (flagBits m c Gen.ZMTP_FLAG_MORE Gen.ZMTP_FLAG_COMMAND) = false := by
  simp only [isLong, flagBits, Gen.ZMTP_FLAG_LONG, Gen.ZMTP_FLAG_MORE, Gen.ZMTP_FLAG_COMMAND]
  cases m <;> cases c <;> decide

theorem isLong_flagBits_long (m c : Bool) :
    isLong (flagBits m c Gen.ZMTP_FLAG_MORE Gen.ZMTP_FLAG_COMMAND ||| Gen.ZMTP_FLAG_LONG) = true := by
  simp only [isLong, flagBits, Gen.ZMTP_FLAG_LONG, Gen.ZMTP_FLAG_MORE, Gen.ZMTP_FLAG_COMMAND]
  cases m <;> cases c <;> decide

theorem isMore_flagBits (m c : Bool) :
    isMore (flagBits m c Gen.ZMTP_FLAG_MORE Gen.ZMTP_FLAG_COMMAND) = m := by
  simp only [isMore, flagBits, Gen.ZMTP_FLAG_MORE, Gen.ZMTP_FLAG_COMMAND]
  cases m <;> cases c <;> decide

theorem isMore_flagBits_long (m c : Bool) :
    isMore (flagBits m c Gen.ZMTP_FLAG_MORE Gen.ZMTP_FLAG_COMMAND ||| Gen.ZMTP_FLAG_LONG) = m := by
  simp only [isMore, flagBits, Gen.ZMTP_FLAG_LONG, Gen.ZMTP_FLAG_MORE, Gen.ZMTP_FLAG_COMMAND]
  cases m <;> cases c <;> decide

theorem isCommand_flagBits (m c : Bool) :
    isCommand (flagBits m c Gen.ZMTP_FLAG_MORE Gen.ZMTP_FLAG_COMMAND) = c := by
  simp only [isCommand, flagBits, Gen.ZMTP_FLAG_MORE, Gen.ZMTP_FLAG_COMMAND]
  cases m <;> cases c <;> decide

theorem isCommand_flagBits_long (m c : Bool) :
    isCommand (flagBits m c Gen.ZMTP_FLAG_MORE Gen.ZMTP_FLAG_COMMAND ||| Gen.ZMTP_FLAG_LONG) = c := by
  simp only [isCommand, flagBits, Gen.ZMTP_FLAG_LONG, Gen.ZMTP_FLAG_MORE, Gen.ZMTP_FLAG_COMMAND]
  cases m <;> cases c <;> decide

theorem isLong_codecFlags (f : Frame) : isLong (codecFlags f) = false :=
  isLong_flagBits _ _

theorem isLong_codecFlags_long (f : Frame) :
    isLong (codecFlags f ||| Gen.ZMTP_FLAG_LONG) = true :=
  isLong_flagBits_long _ _

theorem mkFrame_codecFlags (f : Frame) : mkFrame (codecFlags f) f.payload = f := by
  simp only [mkFrame, codecFlags, isMore_flagBits, isCommand_flagBits]

theorem mkFrame_codecFlags_long (f : Frame) :
    mkFrame (codecFlags f ||| Gen.ZMTP_FLAG_LONG) f.payload = f := by
  simp only [mkFrame, codecFlags, isMore_flagBits_long, isCommand_flagBits_long]

-- ---------------------------------------------------------------------------------------------
-- single-frame decoders on an encoded frame
-- ---------------------------------------------------------------------------------------------

theorem encodeCodec_short (f : Frame) (h : f.payload.length ≤ 255) :
    encodeCodec f = codecFlags f :: UInt8.ofNat f.payload.length :: f.payload := by
  simp only [encodeCodec, header, Gen.codecEncodeShortMax, h, if_true, codecFlags,
    List.cons_append, List.nil_append]

theorem encodeCodec_long (f : Frame) (h : 255 < f.payload.length) :
    encodeCodec f = (codecFlags f ||| Gen.ZMTP_FLAG_LONG) :: (be64 f.payload.length ++ f.payload) := by
  have h' : ¬ f.payload.length ≤ 255 := by omega
  simp only [encodeCodec, header, Gen.codecEncodeShortMax, h', if_false, codecFlags,
    List.cons_append]

theorem rawSize_short (fl b : UInt8) (t : List UInt8) (h : isLong fl = false) :
    rawSize fl (b :: t) = b.toNat := by
  simp only [rawSize, h, List.headD_cons, Bool.false_eq_true, if_false]

theorem rawSize_long (fl : UInt8) (n : Nat) (t : List UInt8) (h : isLong fl = true) (hn : n < two64) :
    rawSize fl (be64 n ++ t) = n := by
  have : (be64 n ++ t).take 8 = be64 n := by
    simp [be64]
  simp only [rawSize, h, if_true, this, ofBe_be64' n hn]

theorem not_exceeds (max : Int) (n : Nat) (h : max < 0 ∨ n ≤ max.toNat) : exceeds max n = false := by
  simp only [exceeds]
  rcases h with h | h
  · have : ¬ (0 ≤ max) := by omega
    simp [this]
  · have : ¬ (max.toNat < n) := by omega
    simp [this]


theorem drop8_be64 (n : Nat) (t : List UInt8) : (be64 n ++ t).drop 8 = t := rfl
theorem take8_be64 (n : Nat) (t : List UInt8) : (be64 n ++ t).take 8 = be64 n := rfl

theorem decodeBuffer_encode' (max : Int) (f : Frame) (rest : List UInt8)
    (hok : f.payload.length < two64) (hmax : max < 0 ∨ f.payload.length ≤ max.toNat) :
    decodeBuffer max (encodeCodec f ++ rest) = .frame f rest := by
  by_cases h : f.payload.length ≤ 255
  · rw [encodeCodec_short f h]
    simp only [List.cons_append, decodeBuffer, isLong_codecFlags, Bool.false_eq_true, if_false,
      Gen.bufferShortHdr, rawSize_short, toNat_ofNat_small _ h, not_exceeds max _ hmax,
      List.length_cons, List.length_append, List.drop_succ_cons, List.drop_zero,
      List.take_left', List.drop_left', mkFrame_codecFlags]
    rw [if_neg (by omega), if_neg (by omega)]
  · have h : 255 < f.payload.length := by omega
    rw [encodeCodec_long f h]
    simp only [List.cons_append, List.append_assoc, decodeBuffer, isLong_codecFlags_long, if_true,
      Gen.bufferLongHdr, rawSize_long _ _ _ (isLong_codecFlags_long f) hok, not_exceeds max _ hmax,
      List.length_append, be64_length']
    rw [if_neg (by omega), if_neg (by decide), if_neg (by omega)]
    simp only [show 9 - 1 = 8 from rfl, drop8_be64, List.take_left', List.drop_left',
      mkFrame_codecFlags_long]

theorem decodeSliceLike_encode' (max : Int) (f : Frame) (rest : List UInt8)
    (hok : f.payload.length + 9 < two64) (hmax : max < 0 ∨ f.payload.length ≤ max.toNat) :
    decodeSliceLike 2 9 2 max (encodeCodec f ++ rest) = .frame f rest := by
  have hok' : f.payload.length < two64 := by omega
  unfold two64 at hok
  by_cases h : f.payload.length ≤ 255
  · rw [encodeCodec_short f h]
    simp only [List.cons_append, decodeSliceLike, isLong_codecFlags, Bool.false_eq_true, if_false,
      rawSize_short, toNat_ofNat_small _ h, not_exceeds max _ hmax,
      List.length_cons, List.length_append, List.drop_succ_cons, List.drop_zero,
      List.take_left', List.drop_left', mkFrame_codecFlags]
    repeat (first | rw [if_neg (by omega)] | rw [if_neg (by decide)])
  · have h : 255 < f.payload.length := by omega
    rw [encodeCodec_long f h]
    simp only [List.cons_append, List.append_assoc, decodeSliceLike, isLong_codecFlags_long, if_true,
      rawSize_long _ _ _ (isLong_codecFlags_long f) hok', not_exceeds max _ hmax,
      List.length_cons, List.length_append, be64_length']
    repeat (first | rw [if_neg (by omega)] | rw [if_neg (by decide)])
    simp only [show 9 - 1 = 8 from rfl, drop8_be64, List.take_left', List.drop_left',
      mkFrame_codecFlags_long]

theorem encodeCodec_length (f : Frame) :
    (encodeCodec f).length = (if f.payload.length ≤ 255 then 2 else 9) + f.payload.length := by
  by_cases h : f.payload.length ≤ 255
  · rw [encodeCodec_short f h, if_pos h]; simp only [List.length_cons]; omega
  · rw [encodeCodec_long f (by omega), if_neg h]
    simp only [List.length_cons, List.length_append, be64_length']; omega

theorem peek_encode' (max : Int) (f : Frame) (rest : List UInt8)
    (hok : f.payload.length + 9 < two64) (hmax : max < 0 ∨ f.payload.length ≤ max.toNat) :
    peekFrameLen max (encodeCodec f ++ rest) = .total (encodeCodec f).length := by
  have hok' : f.payload.length < two64 := by omega
  rw [encodeCodec_length]
  unfold two64 at hok
  by_cases h : f.payload.length ≤ 255
  · rw [encodeCodec_short f h, if_pos h]
    simp only [List.cons_append, peekFrameLen, isLong_codecFlags, Bool.false_eq_true, if_false,
      Gen.peekShortHdr, rawSize_short, toNat_ofNat_small _ h, not_exceeds max _ hmax,
      List.length_cons, List.length_append, two64]
    repeat (first | rw [if_neg (by omega)] | rw [if_neg (by decide)])
  · have h' : 255 < f.payload.length := by omega
    rw [encodeCodec_long f h', if_neg h]
    simp only [List.cons_append, List.append_assoc, peekFrameLen, isLong_codecFlags_long, if_true,
      Gen.peekLongHdr, rawSize_long _ _ _ (isLong_codecFlags_long f) hok', not_exceeds max _ hmax,
      List.length_append, be64_length', two64]
    repeat (first | rw [if_neg (by omega)] | rw [if_neg (by decide)])

theorem codec_encode' (f : Frame) (rest : List UInt8)
    (hcap : f.payload.length ≤ Gen.CODEC_MAX_FRAME_SIZE) :
    codecDecodeOne .readHeader (encodeCodec f ++ rest) = (some f, false, .readHeader, rest) := by
  have hok' : f.payload.length < two64 := by
    unfold Gen.CODEC_MAX_FRAME_SIZE at hcap; unfold two64; omega
  by_cases h : f.payload.length ≤ 255
  · rw [encodeCodec_short f h]
    simp only [List.cons_append, codecDecodeOne, isLong_codecFlags, Bool.false_eq_true, if_false,
      Gen.codecDecShortHdr, rawSize_short, toNat_ofNat_small _ h,
      List.length_cons, List.length_append, List.drop_succ_cons, List.drop_zero,
      List.take_left', List.drop_left', mkFrame_codecFlags]
    rw [if_neg (by omega), if_neg (by omega), if_neg (by omega)]
  · have h : 255 < f.payload.length := by omega
    rw [encodeCodec_long f h]
    simp only [List.cons_append, List.append_assoc, codecDecodeOne, isLong_codecFlags_long, if_true,
      Gen.codecDecLongHdr, rawSize_long _ _ _ (isLong_codecFlags_long f) hok',
      List.length_append, be64_length', show 9 - 1 = 8 from rfl, drop8_be64,
      List.take_left', List.drop_left', mkFrame_codecFlags_long]
    rw [if_neg (by omega), if_neg (by omega), if_neg (by omega)]

-- ---------------------------------------------------------------------------------------------
-- the live decoder is monotone under appending bytes; stream decoding
-- ---------------------------------------------------------------------------------------------

theorem rawSize_append (fl : UInt8) (tl b : List UInt8) (hdr : Nat)
    (hh : hdr = if isLong fl then 9 else 2) (h : ¬ tl.length + 1 < hdr) :
    rawSize fl (tl ++ b) = rawSize fl tl := by
  unfold rawSize
  cases hl : isLong fl
  · simp only [hl, Bool.false_eq_true, if_false] at hh ⊢
    cases tl with
    | nil => simp only [List.length_nil] at h; omega
    | cons x t => rfl
  · simp only [hl, if_true] at hh ⊢
    rw [List.take_append_of_le_length (by omega)]

theorem decodeBuffer_ne_panic (max : Int) (src : List UInt8) : decodeBuffer max src ≠ .panic := by
  unfold decodeBuffer
  split
  · simp
  · simp only
    repeat' split
    all_goals simp

theorem decodeBuffer_append_frame {max : Int} {a : List UInt8} {f : Frame} {r : List UInt8}
    (b : List UInt8) (h : decodeBuffer max a = .frame f r) :
    decodeBuffer max (a ++ b) = .frame f (r ++ b) := by
  cases a with
  | nil => simp [decodeBuffer] at h
  | cons fl tl =>
    simp only [decodeBuffer, List.cons_append] at h ⊢
    generalize hhdr : (if isLong fl then Gen.bufferLongHdr else Gen.bufferShortHdr) = hdr at h ⊢
    have hh : hdr = if isLong fl then 9 else 2 := by
      rw [← hhdr]; simp only [Gen.bufferLongHdr, Gen.bufferShortHdr]
    by_cases h1 : tl.length + 1 < hdr
    · simp [h1] at h
    · have h1' : ¬ (tl ++ b).length + 1 < hdr := by simp only [List.length_append]; omega
      rw [if_neg h1] at h
      rw [if_neg h1', rawSize_append fl tl b hdr hh h1]
      by_cases h2 : exceeds max (rawSize fl tl) = true
      · simp [h2] at h
      · rw [if_neg h2] at h ⊢
        by_cases h3 : tl.length + 1 - hdr < rawSize fl tl
        · simp [h3] at h
        · have hpos : 1 ≤ hdr := by rw [hh]; split <;> omega
          have hlen : hdr - 1 ≤ tl.length := by omega
          have hlen2 : rawSize fl tl ≤ (tl.drop (hdr - 1)).length := by
            simp only [List.length_drop]; omega
          have h3' : ¬ (tl ++ b).length + 1 - hdr < rawSize fl tl := by
            simp only [List.length_append]; omega
          rw [if_neg h3] at h
          rw [if_neg h3']
          injection h with hf hr
          subst hf hr
          rw [List.drop_append_of_le_length hlen, List.take_append_of_le_length hlen2,
            List.drop_append_of_le_length hlen2]

theorem decodeBuffer_append_error {max : Int} {a : List UInt8}
    (b : List UInt8) (h : decodeBuffer max a = .error) :
    decodeBuffer max (a ++ b) = .error := by
  cases a with
  | nil => simp [decodeBuffer] at h
  | cons fl tl =>
    simp only [decodeBuffer, List.cons_append] at h ⊢
    generalize hhdr : (if isLong fl then Gen.bufferLongHdr else Gen.bufferShortHdr) = hdr at h ⊢
    have hh : hdr = if isLong fl then 9 else 2 := by
      rw [← hhdr]; simp only [Gen.bufferLongHdr, Gen.bufferShortHdr]
    by_cases h1 : tl.length + 1 < hdr
    · simp [h1] at h
    · have h1' : ¬ (tl ++ b).length + 1 < hdr := by simp only [List.length_append]; omega
      rw [if_neg h1] at h
      rw [if_neg h1', rawSize_append fl tl b hdr hh h1]
      by_cases h2 : exceeds max (rawSize fl tl) = true
      · rw [if_pos h2]
      · rw [if_neg h2] at h
        by_cases h3 : tl.length + 1 - hdr < rawSize fl tl
        · simp [h3] at h
        · simp [h3] at h

theorem decodeAll_eq (max : Int) (src : List UInt8) :
    decodeAll max src =
      match decodeBuffer max src with
      | .needMore => ([], .more, src)
      | .error => ([], .err, src)
      | .panic => ([], .panic, src)
      | .frame f rest =>
        ((f :: (decodeAll max rest).1), (decodeAll max rest).2.1, (decodeAll max rest).2.2) := by
  rw [decodeAll]
  split <;> simp_all

theorem decodeAll_needMore {max : Int} {src : List UInt8} (h : decodeBuffer max src = .needMore) :
    decodeAll max src = ([], .more, src) := by
  rw [decodeAll_eq, h]

theorem decodeAll_error {max : Int} {src : List UInt8} (h : decodeBuffer max src = .error) :
    decodeAll max src = ([], .err, src) := by
  rw [decodeAll_eq, h]

theorem decodeAll_frame {max : Int} {src : List UInt8} {f : Frame} {rest : List UInt8}
    (h : decodeBuffer max src = .frame f rest) :
    decodeAll max src =
      ((f :: (decodeAll max rest).1), (decodeAll max rest).2.1, (decodeAll max rest).2.2) := by
  rw [decodeAll_eq, h]

theorem decodeAll_append (max : Int) (a b : List UInt8) :
    ((decodeAll max a).2.1 = .more →
      decodeAll max (a ++ b) =
        ((decodeAll max a).1 ++ (decodeAll max ((decodeAll max a).2.2 ++ b)).1,
         (decodeAll max ((decodeAll max a).2.2 ++ b)).2.1,
         (decodeAll max ((decodeAll max a).2.2 ++ b)).2.2))
    ∧ ((decodeAll max a).2.1 = .err →
      decodeAll max (a ++ b) = ((decodeAll max a).1, .err, (decodeAll max a).2.2 ++ b))
    ∧ (decodeAll max a).2.1 ≠ .panic
    ∧ ((decodeAll max a).2.1 = .more → decodeBuffer max (decodeAll max a).2.2 = .needMore) := by
  fun_induction decodeAll max a with
  | case1 src h =>
    refine ⟨fun _ => ?_, fun h' => ?_, ?_, fun _ => h⟩
    · simp only [List.nil_append]
    · simp at h'
    · simp
  | case2 src h =>
    refine ⟨fun h' => ?_, fun _ => ?_, ?_, fun h' => ?_⟩
    · simp at h'
    · simp only [decodeAll_error (decodeBuffer_append_error b h)]
    · simp
    · simp at h'
  | case3 src h => exact absurd h (decodeBuffer_ne_panic max src)
  | case4 src f rest h r ih =>
    obtain ⟨ih1, ih2, ih3, ih4⟩ := ih
    simp only [decodeAll_frame (decodeBuffer_append_frame b h)]
    refine ⟨fun h' => ?_, fun h' => ?_, ih3, ih4⟩
    · rw [ih1 h']; rfl
    · rw [ih2 h']


theorem feedChunks_closed (max : Int) (s : RxState) (h : s.closed = true) (chunks : List (List UInt8)) :
    feedChunks max s chunks = (s, []) := by
  induction chunks with
  | nil => rfl
  | cons c cs ih =>
    simp only [feedChunks, feed, h, if_true, ih, List.append_nil]

theorem feedChunks_spec (max : Int) (chunks : List (List UInt8)) :
    ∀ (s : RxState), s.closed = false → decodeBuffer max s.acc = .needMore →
    (feedChunks max s chunks).2 = (feed max s chunks.flatten).2
    ∧ (feedChunks max s chunks).1.closed = (feed max s chunks.flatten).1.closed
    ∧ ((feedChunks max s chunks).1.closed = false →
        (feedChunks max s chunks).1.acc = (feed max s chunks.flatten).1.acc) := by
  induction chunks with
  | nil =>
    intro s hs hacc
    simp [feedChunks, feed, hs, decodeAll_needMore hacc]
  | cons c cs ih =>
    intro s hs hacc
    obtain ⟨hm, he, hp, hl⟩ := decodeAll_append max (s.acc ++ c) cs.flatten
    simp only [feedChunks, feed, hs, Bool.false_eq_true, if_false, List.flatten_cons,
      ← List.append_assoc]
    cases hst : (decodeAll max (s.acc ++ c)).2.1 with
    | more =>
      have := ih { acc := (decodeAll max (s.acc ++ c)).2.2, closed := false } rfl (hl hst)
      simp only [feed, Bool.false_eq_true, if_false] at this
      rw [hm hst]
      simpa using this
    | err =>
      rw [he hst, feedChunks_closed max _ (by simp)]
      simp
    | panic => exact absurd hst hp

-- ---------------------------------------------------------------------------------------------
-- tokio codec decoder
-- ---------------------------------------------------------------------------------------------

/-- phase invariant: a pending body is never empty -/
def CodecPhase.good : CodecPhase → Prop
  | .readHeader => True
  | .readBody _ size => 0 < size

/-- a successful `decode` returns to `readHeader` and consumes at least one byte -/
theorem codecDecodeOne_some {ph : CodecPhase} {src : List UInt8} {f : Frame} {e : Bool}
    {ph' : CodecPhase} {src' : List UInt8} (hg : ph.good)
    (h : codecDecodeOne ph src = (some f, e, ph', src')) :
    ph' = .readHeader ∧ src'.length < src.length := by
  unfold codecDecodeOne at h
  split at h
  · rename_i fl size
    split at h
    · simp at h
    · rename_i hlt
      simp only [Prod.mk.injEq] at h
      obtain ⟨-, -, h3, h4⟩ := h
      subst h3 h4
      simp only [CodecPhase.good] at hg
      simp only [List.length_drop]
      exact ⟨trivial, by omega⟩
  · split at h
    · simp at h
    · rename_i fl tl
      simp only at h
      repeat' split at h
      all_goals first
        | (simp at h; done)
        | skip
      all_goals
        simp only [Prod.mk.injEq] at h
        obtain ⟨-, -, h3, h4⟩ := h
        subst h3 h4
        simp only [List.length_drop, List.length_cons]
        exact ⟨trivial, by omega⟩

theorem codecDecodeOne_none_good {ph : CodecPhase} {src : List UInt8} {e : Bool}
    {ph' : CodecPhase} {src' : List UInt8} (hg : ph.good)
    (h : codecDecodeOne ph src = (none, e, ph', src')) : ph'.good := by
  unfold codecDecodeOne at h
  split at h
  · split at h
    · simp only [Prod.mk.injEq] at h
      obtain ⟨-, -, h3, -⟩ := h
      subst h3; exact hg
    · simp at h
  · split at h
    · simp only [Prod.mk.injEq] at h
      obtain ⟨-, -, h3, -⟩ := h
      subst h3; exact hg
    · simp only at h
      repeat' split at h
      all_goals first
        | (simp at h; done)
        | (simp only [Prod.mk.injEq] at h
           obtain ⟨-, -, h3, -⟩ := h
           subst h3
           first
             | exact hg
             | (simp only [CodecPhase.good]; omega))

/-- header length the codec decoder expects for a given flags byte -/
def codecHdr (fl : UInt8) : Nat := if isLong fl then Gen.codecDecLongHdr else Gen.codecDecShortHdr

theorem codecHdr_pos (fl : UInt8) : 1 ≤ codecHdr fl := by
  simp only [codecHdr, Gen.codecDecLongHdr, Gen.codecDecShortHdr]; split <;> omega

theorem rawSize_append' (fl : UInt8) (tl b : List UInt8) (h : ¬ tl.length + 1 < codecHdr fl) :
    rawSize fl (tl ++ b) = rawSize fl tl :=
  rawSize_append fl tl b _
    (by simp only [codecHdr, Gen.codecDecLongHdr, Gen.codecDecShortHdr]) h

/-- how `decode` in `readHeader` behaves once the header is complete, in terms of the body bytes -/
theorem codecDecodeOne_readHeader_cons (fl : UInt8) (tl : List UInt8)
    (h : ¬ tl.length + 1 < codecHdr fl) :
    codecDecodeOne .readHeader (fl :: tl) =
      if Gen.CODEC_MAX_FRAME_SIZE < rawSize fl tl then
        (none, true, .readHeader, tl.drop (codecHdr fl - 1))
      else if (tl.drop (codecHdr fl - 1)).length < rawSize fl tl then
        (none, false, .readBody fl (rawSize fl tl), tl.drop (codecHdr fl - 1))
      else (some (mkFrame fl ((tl.drop (codecHdr fl - 1)).take (rawSize fl tl))), false, .readHeader,
        (tl.drop (codecHdr fl - 1)).drop (rawSize fl tl)) := by
  unfold codecHdr at h ⊢
  simp only [codecDecodeOne, if_neg h]

theorem codecDecodeOne_readHeader_short (fl : UInt8) (tl : List UInt8)
    (h : tl.length + 1 < codecHdr fl) :
    codecDecodeOne .readHeader (fl :: tl) = (none, false, .readHeader, fl :: tl) := by
  unfold codecHdr at h
  simp only [codecDecodeOne, if_pos h]

theorem codecDecodeOne_append_some {ph : CodecPhase} {a : List UInt8} {f : Frame} {e : Bool}
    {ph' : CodecPhase} {a' : List UInt8} (b : List UInt8)
    (h : codecDecodeOne ph a = (some f, e, ph', a')) :
    codecDecodeOne ph (a ++ b) = (some f, e, ph', a' ++ b) := by
  cases ph with
  | readBody fl size =>
    simp only [codecDecodeOne] at h ⊢
    by_cases h1 : a.length < size
    · simp [h1] at h
    · have h1' : ¬ (a ++ b).length < size := by simp only [List.length_append]; omega
      rw [if_neg h1] at h
      rw [if_neg h1', List.take_append_of_le_length (by omega),
        List.drop_append_of_le_length (by omega)]
      simp only [Prod.mk.injEq] at h ⊢
      obtain ⟨h1, h2, h3, h4⟩ := h
      exact ⟨h1, h2, h3, by rw [h4]⟩
  | readHeader =>
    cases a with
    | nil => simp [codecDecodeOne] at h
    | cons fl tl =>
      by_cases hh : tl.length + 1 < codecHdr fl
      · rw [codecDecodeOne_readHeader_short fl tl hh] at h; simp at h
      · have hh' : ¬ (tl ++ b).length + 1 <
            codecHdr fl := by
          simp only [List.length_append]; omega
        have hpos := codecHdr_pos fl
        rw [codecDecodeOne_readHeader_cons fl tl hh] at h
        rw [List.cons_append, codecDecodeOne_readHeader_cons fl _ hh', rawSize_append' fl tl b hh,
          List.drop_append_of_le_length (by omega)]
        by_cases h2 : Gen.CODEC_MAX_FRAME_SIZE < rawSize fl tl
        · simp [h2] at h
        · rw [if_neg h2] at h ⊢
          generalize List.drop (codecHdr fl - 1) tl = body at h ⊢
          by_cases h3 : body.length < rawSize fl tl
          · simp [h3] at h
          · have h3' : ¬ (body ++ b).length < rawSize fl tl := by
              simp only [List.length_append]; omega
            rw [if_neg h3] at h
            rw [if_neg h3', List.take_append_of_le_length (by omega),
              List.drop_append_of_le_length (by omega)]
            simp only [Prod.mk.injEq] at h ⊢
            obtain ⟨h1, h2, h3, h4⟩ := h
            exact ⟨h1, h2, h3, by rw [h4]⟩

theorem codecDecodeOne_append_err {ph : CodecPhase} {a : List UInt8}
    {ph' : CodecPhase} {a' : List UInt8} (b : List UInt8)
    (h : codecDecodeOne ph a = (none, true, ph', a')) :
    codecDecodeOne ph (a ++ b) = (none, true, ph', a' ++ b) := by
  cases ph with
  | readBody fl size =>
    simp only [codecDecodeOne] at h
    split at h <;> simp at h
  | readHeader =>
    cases a with
    | nil => simp [codecDecodeOne] at h
    | cons fl tl =>
      by_cases hh : tl.length + 1 < codecHdr fl
      · rw [codecDecodeOne_readHeader_short fl tl hh] at h; simp at h
      · have hh' : ¬ (tl ++ b).length + 1 <
            codecHdr fl := by
          simp only [List.length_append]; omega
        have hpos := codecHdr_pos fl
        rw [codecDecodeOne_readHeader_cons fl tl hh] at h
        rw [List.cons_append, codecDecodeOne_readHeader_cons fl _ hh', rawSize_append' fl tl b hh,
          List.drop_append_of_le_length (by omega)]
        by_cases h2 : Gen.CODEC_MAX_FRAME_SIZE < rawSize fl tl
        · rw [if_pos h2] at h ⊢
          simp only [Prod.mk.injEq, true_and] at h ⊢
          exact ⟨h.1, by rw [h.2]⟩
        · rw [if_neg h2] at h
          split at h <;> simp at h

theorem codecDecodeOne_append_stuck {ph : CodecPhase} {a : List UInt8}
    {ph' : CodecPhase} {a' : List UInt8} (b : List UInt8)
    (h : codecDecodeOne ph a = (none, false, ph', a')) :
    codecDecodeOne ph (a ++ b) = codecDecodeOne ph' (a' ++ b) := by
  cases ph with
  | readBody fl size =>
    simp only [codecDecodeOne] at h
    split at h
    · simp only [Prod.mk.injEq, true_and] at h
      rw [← h.1, ← h.2]
    · simp at h
  | readHeader =>
    cases a with
    | nil =>
      simp only [codecDecodeOne, Prod.mk.injEq, true_and] at h
      rw [← h.1, ← h.2]
    | cons fl tl =>
      by_cases hh : tl.length + 1 < codecHdr fl
      · rw [codecDecodeOne_readHeader_short fl tl hh] at h
        simp only [Prod.mk.injEq, true_and] at h
        rw [← h.1, ← h.2]
      · have hh' : ¬ (tl ++ b).length + 1 <
            codecHdr fl := by
          simp only [List.length_append]; omega
        have hpos := codecHdr_pos fl
        rw [codecDecodeOne_readHeader_cons fl tl hh] at h
        rw [List.cons_append, codecDecodeOne_readHeader_cons fl _ hh', rawSize_append' fl tl b hh,
          List.drop_append_of_le_length (by omega)]
        by_cases h2 : Gen.CODEC_MAX_FRAME_SIZE < rawSize fl tl
        · simp [h2] at h
        · rw [if_neg h2] at h ⊢
          generalize List.drop (codecHdr fl - 1) tl = body at h ⊢
          by_cases h3 : body.length < rawSize fl tl
          · rw [if_pos h3] at h
            simp only [Prod.mk.injEq, true_and] at h
            rw [← h.1, ← h.2]
            simp only [codecDecodeOne]
          · simp [h3] at h

theorem codecDrain_succ_some {ph : CodecPhase} {src : List UInt8} {f : Frame} {e : Bool}
    {ph' : CodecPhase} {src' : List UInt8} (n : Nat)
    (h : codecDecodeOne ph src = (some f, e, ph', src')) :
    codecDrain (n + 1) ph src =
      (f :: (codecDrain n ph' src').1, (codecDrain n ph' src').2.1, (codecDrain n ph' src').2.2.1,
        (codecDrain n ph' src').2.2.2) := by
  rw [codecDrain, h]

theorem codecDrain_succ_none {ph : CodecPhase} {src : List UInt8} {e : Bool}
    {ph' : CodecPhase} {src' : List UInt8} (n : Nat)
    (h : codecDecodeOne ph src = (none, e, ph', src')) :
    codecDrain (n + 1) ph src = ([], e, ph', src') := by
  rw [codecDrain, h]

theorem codecDrain_fuel (n : Nat) : ∀ (m : Nat) (ph : CodecPhase) (src : List UInt8), ph.good →
    src.length + 1 ≤ n → src.length + 1 ≤ m → codecDrain n ph src = codecDrain m ph src := by
  induction n with
  | zero => intro m ph src _ h; omega
  | succ n ih =>
    intro m ph src hg hn hm
    cases m with
    | zero => omega
    | succ m =>
      simp only [codecDrain]
      split
      · rename_i f e ph' src' hd
        obtain ⟨hp, hl⟩ := codecDecodeOne_some hg hd
        subst hp
        rw [ih m .readHeader src' trivial (by omega) (by omega)]
      · rfl

/-- drain with the amount of fuel `codecFeed` supplies -/
def drainE (ph : CodecPhase) (src : List UInt8) : List Frame × Bool × CodecPhase × List UInt8 :=
  codecDrain (src.length + 1) ph src

theorem drainE_some {ph : CodecPhase} {src : List UInt8} {f : Frame} {e : Bool}
    {ph' : CodecPhase} {src' : List UInt8} (hg : ph.good)
    (h : codecDecodeOne ph src = (some f, e, ph', src')) :
    drainE ph src =
      (f :: (drainE ph' src').1, (drainE ph' src').2.1, (drainE ph' src').2.2.1,
        (drainE ph' src').2.2.2) := by
  obtain ⟨hp, hl⟩ := codecDecodeOne_some hg h
  subst hp
  simp only [drainE, codecDrain_succ_some _ h]
  rw [codecDrain_fuel src.length (src'.length + 1) .readHeader src' trivial (by omega) (by omega)]

theorem drainE_none {ph : CodecPhase} {src : List UInt8} {e : Bool}
    {ph' : CodecPhase} {src' : List UInt8}
    (h : codecDecodeOne ph src = (none, e, ph', src')) :
    drainE ph src = ([], e, ph', src') := by
  simp only [drainE, codecDrain_succ_none _ h]

theorem drainE_congr {ph ph' : CodecPhase} {src src' : List UInt8} (hg : ph.good) (hg' : ph'.good)
    (h : codecDecodeOne ph src = codecDecodeOne ph' src') : drainE ph src = drainE ph' src' := by
  rcases hd : codecDecodeOne ph' src' with ⟨_ | f, e, ph2, src2⟩
  · rw [drainE_none hd, drainE_none (h.trans hd)]
  · rw [drainE_some hg' hd, drainE_some hg (h.trans hd)]

theorem drainE_append (n : Nat) : ∀ (ph : CodecPhase) (a b : List UInt8), ph.good → a.length < n →
    ((drainE ph a).2.1 = false →
      (drainE ph a).2.2.1.good ∧
      drainE ph (a ++ b) =
        ((drainE ph a).1 ++ (drainE (drainE ph a).2.2.1 ((drainE ph a).2.2.2 ++ b)).1,
         (drainE (drainE ph a).2.2.1 ((drainE ph a).2.2.2 ++ b)).2))
    ∧ ((drainE ph a).2.1 = true →
      (drainE ph (a ++ b)).1 = (drainE ph a).1 ∧ (drainE ph (a ++ b)).2.1 = true) := by
  induction n with
  | zero => intro ph a b hg hn; omega
  | succ n ih =>
    intro ph a b hg hn
    rcases hd : codecDecodeOne ph a with ⟨_ | f, e, ph1, a1⟩
    · cases e with
      | false =>
        rw [drainE_none hd]
        refine ⟨fun _ => ⟨codecDecodeOne_none_good hg hd, ?_⟩, fun h => by simp at h⟩
        rw [drainE_congr hg (codecDecodeOne_none_good hg hd) (codecDecodeOne_append_stuck b hd)]
        simp only [List.nil_append]
      | true =>
        rw [drainE_none hd, drainE_none (codecDecodeOne_append_err b hd)]
        exact ⟨fun h => by simp at h, fun _ => ⟨rfl, rfl⟩⟩
    · obtain ⟨hp, hl⟩ := codecDecodeOne_some hg hd
      subst hp
      obtain ⟨ih1, ih2⟩ := ih .readHeader a1 b trivial (by omega)
      rw [drainE_some hg hd, drainE_some hg (codecDecodeOne_append_some b hd)]
      refine ⟨fun h => ?_, fun h => ?_⟩
      · obtain ⟨g, heq⟩ := ih1 h
        refine ⟨g, ?_⟩
        simp only
        rw [heq]
        simp only [List.cons_append]
      · obtain ⟨h1, h2⟩ := ih2 h
        simp only
        exact ⟨by rw [h1], h2⟩

theorem codecFeed_eq (s : CodecState) (c : List UInt8) (h : s.failed = false) :
    codecFeed s c =
      ({ phase := (drainE s.phase (s.pfx ++ s.buf ++ c)).2.2.1, pfx := [],
         buf := (drainE s.phase (s.pfx ++ s.buf ++ c)).2.2.2,
         failed := (drainE s.phase (s.pfx ++ s.buf ++ c)).2.1 },
       (drainE s.phase (s.pfx ++ s.buf ++ c)).1) := by
  simp only [codecFeed, h, Bool.false_eq_true, if_false, drainE]

theorem codecFeedChunks_failed (s : CodecState) (h : s.failed = true) (chunks : List (List UInt8)) :
    codecFeedChunks s chunks = (s, []) := by
  induction chunks with
  | nil => rfl
  | cons c cs ih => simp only [codecFeedChunks, codecFeed, h, if_true, ih, List.append_nil]

theorem codecFeedChunks_spec (chunks : List (List UInt8)) :
    ∀ (s : CodecState), chunks ≠ [] → s.failed = false → s.phase.good →
    (codecFeedChunks s chunks).2 = (drainE s.phase (s.pfx ++ s.buf ++ chunks.flatten)).1 := by
  induction chunks with
  | nil => intro s h; exact absurd rfl h
  | cons c cs ih =>
    intro s _ hf hg
    obtain ⟨hA, hB⟩ := drainE_append ((s.pfx ++ s.buf ++ c).length + 1) s.phase
      (s.pfx ++ s.buf ++ c) cs.flatten hg (Nat.lt_succ_self _)
    simp only [codecFeedChunks, codecFeed_eq s c hf, List.flatten_cons]
    rw [← List.append_assoc (s.pfx ++ s.buf) c cs.flatten]
    cases hfail : (drainE s.phase (s.pfx ++ s.buf ++ c)).2.1 with
    | true =>
      rw [codecFeedChunks_failed _ (by simp), (hB hfail).1]
      simp
    | false =>
      obtain ⟨hgood, heq⟩ := hA hfail
      cases cs with
      | nil => simp [codecFeedChunks]
      | cons c2 cs2 =>
        rw [heq, ih _ (by simp) rfl hgood]
        simp

-- ---------------------------------------------------------------------------------------------
-- the `if is_more { a } else { b }` style encoders
-- ---------------------------------------------------------------------------------------------

theorem moreStyle_long_bits (m c : Bool) :
    ((if m then (3 : UInt8) else 2) ||| (if c then 4 else 0)) =
      ((if m then (1 : UInt8) else 0) ||| (if c then 4 else 0)) ||| 2 := by
  cases m <;> cases c <;> decide

theorem hdrMoreStyle_eq (f : Frame) :
    hdrMoreStyle 255 1 0 3 2 4 f =
      header Gen.codecEncodeShortMax
        (flagBits f.more f.command Gen.ZMTP_FLAG_MORE Gen.ZMTP_FLAG_COMMAND) Gen.ZMTP_FLAG_LONG
        f.payload.length := by
  simp only [hdrMoreStyle, header, flagBits, Gen.codecEncodeShortMax, Gen.ZMTP_FLAG_MORE,
    Gen.ZMTP_FLAG_COMMAND, Gen.ZMTP_FLAG_LONG, moreStyle_long_bits]
  rfl

theorem split_eq_codec' (f : Frame) :
    (writeMsgSplit f).1 ++ ((writeMsgSplit f).2.getD []) = encodeCodec f := by
  simp only [writeMsgSplit, Gen.splitShortMax, Gen.splitShortMoreByte, Gen.splitShortLastByte,
    Gen.splitLongMoreByte, Gen.splitLongLastByte, Gen.splitCommandBit, hdrMoreStyle_eq,
    Option.getD_some, encodeCodec]

theorem vectHeader_eq (f : Frame) : vectHeader f ++ f.payload = encodeCodec f := by
  simp only [vectHeader, Gen.vectShortMax, Gen.vectShortMoreByte, Gen.vectShortLastByte,
    Gen.vectLongMoreByte, Gen.vectLongLastByte, Gen.vectCommandBit, hdrMoreStyle_eq, encodeCodec]

theorem contigFrame_eq (f : Frame) : contigFrame f = encodeCodec f := by
  simp only [contigFrame, encodeCodec, Gen.contigShortMax, Gen.codecEncodeShortMax, Gen.contigMore,
    Gen.contigCommand, Gen.contigLong, Gen.ZMTP_FLAG_MORE, Gen.ZMTP_FLAG_COMMAND, Gen.ZMTP_FLAG_LONG]

theorem vectored_flatten_aux (fs : List Frame) :
    ((fs.map fun f =>
        if f.payload.isEmpty then [vectHeader f] else [vectHeader f, f.payload]).flatten).flatten =
      (fs.map contigFrame).flatten := by
  induction fs with
  | nil => rfl
  | cons f fs ih =>
    simp only [List.map_cons, List.flatten_cons, List.flatten_append, ih, contigFrame_eq f,
      ← vectHeader_eq f]
    congr 1
    cases hp : f.payload with
    | nil => simp
    | cons x xs => simp

theorem frameVectored_flatten (batch : List Message) :
    (frameVectored batch).flatten = frameContiguous batch := by
  simp only [frameVectored, frameContiguous, vectored_flatten_aux]

end Rzmq
