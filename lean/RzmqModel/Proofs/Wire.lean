import RzmqModel.Model.Wire
/-! Helper lemmas for the wire model (C03, C07). -/
namespace Rzmq

end Rzmq
