import RzmqModel.Model.RpqInv
import RzmqModel.Proofs.Rpq
/-! Helper lemmas for the ready-pipe-queue invariant (frame lemmas, one lemma per program counter). -/
namespace Rzmq.C08
open Rzmq

section Infra
set_option linter.unusedSimpArgs false
set_option linter.unusedVariables false

theorem countTasks_eq_sum (s : RpqSt) (f : Pc → Bool) :
    (countTasks s f : Int) = (s.tasks.map fun e => b2i (f e.2)).sum :=
  filter_length_eq_sum s.tasks fun e => f e.2

theorem countTasks_update (s s' : RpqSt) (t : String) (pc pc' : Pc) (hnd : (s.tasks.map (·.1)).Nodup)
    (ht : s.task? t = some pc) (htasks : s'.tasks = (s.setTask t pc').tasks) (f : Pc → Bool) :
    (countTasks s' f : Int) = countTasks s f - b2i (f pc) + b2i (f pc') := by
  rw [countTasks_eq_sum, countTasks_eq_sum, htasks]
  exact sum_map_update s.tasks t pc pc' (fun x => b2i (f x)) hnd ht

theorem sumPending_update (s s' : RpqSt) (t : String) (pc pc' : Pc) (hnd : (s.tasks.map (·.1)).Nodup)
    (ht : s.task? t = some pc) (htasks : s'.tasks = (s.setTask t pc').tasks) (x : Nat) :
    sumPending s' x = sumPending s x - pendingRes x pc + pendingRes x pc' := by
  unfold sumPending
  rw [htasks]
  exact sum_map_update s.tasks t pc pc' (fun y => pendingRes x y) hnd ht

theorem b2i_le_countTasks (s : RpqSt) (t : String) (pc : Pc) (hm : (t, pc) ∈ s.tasks) (f : Pc → Bool) :
    b2i (f pc) ≤ countTasks s f := by
  cases h : f pc with
  | false => simp
  | true =>
    have : (t, pc) ∈ s.tasks.filter fun e => f e.2 := List.mem_filter.2 ⟨hm, h⟩
    have := List.length_pos_of_mem this
    simp [countTasks]
    omega

theorem countTasks_eq_zero (s : RpqSt) (f : Pc → Bool) (h : ∀ e ∈ s.tasks, f e.2 = false) : countTasks s f = 0 := by
  unfold countTasks
  rw [List.length_eq_zero_iff, List.filter_eq_nil_iff]
  intro e he
  simp [h e he]

theorem exists_of_countTasks_pos (s : RpqSt) (f : Pc → Bool) (h : 0 < countTasks s f) : ∃ e ∈ s.tasks, f e.2 = true := by
  unfold countTasks at h
  obtain ⟨e, he⟩ := List.exists_mem_of_length_pos h
  exact ⟨e, (List.mem_filter.1 he).1, (List.mem_filter.1 he).2⟩

theorem taken_imp_holds (x : Nat) (pc : Pc) (h : takenNotCounted x pc = true) : holdsToken x pc = true := by
  cases pc <;> simp_all [takenNotCounted, holdsToken]

theorem taken_add_le_holds (s : RpqSt) (t : String) (pc : Pc) (hm : (t, pc) ∈ s.tasks) (x : Nat) :
    (countTasks s (takenNotCounted x) : Int) + b2i (holdsToken x pc && !takenNotCounted x pc)
      ≤ countTasks s (holdsToken x) := by
  rw [countTasks_eq_sum, countTasks_eq_sum]
  refine sum_map_add_le s.tasks (fun e => b2i (takenNotCounted x e.2))
    (fun e => b2i (holdsToken x e.2 && !takenNotCounted x e.2)) (fun e => b2i (holdsToken x e.2)) (t, pc) hm ?_ ?_
  · intro e _
    have := taken_imp_holds x e.2
    cases h1 : takenNotCounted x e.2 <;> cases h2 : holdsToken x e.2 <;> simp_all
  · intro e _
    exact b2i_nonneg _

theorem pendingRes_nonneg (x : Nat) (pc : Pc) (h : pcOk pc) : 0 ≤ pendingRes x pc := by
  cases pc <;> simp_all [pendingRes, pcOk] <;> split <;> omega

/-- the pipe a program counter refers to, if any -/
def pcPipe : Pc → Option Nat
  | .sendStart p _ | .sendReserved p _ | .sendWritten p | .sendCounted p _ => some p
  | .trySendStart p _ | .trySendWritten p | .trySendCounted p _ => some p
  | .batchStart p _ | .batchReserved p _ _ _ _ | .batchWritten p _ _ _ _ | .batchCounted p _ _ _ _
  | .batchRolledBack p _ _ _ => some p
  | .popGotSlot p | .popTaken p _ | .popDecremented p _ _ => some p
  | .tryPopGotSlot p | .tryPopTaken p _ | .tryPopDecremented p _ _ => some p
  | .popStart | .tryPopStart | .finished _ => none

theorem preds_of_pcPipe_ne (pc : Pc) (x : Nat) (h : pcPipe pc ≠ some x) :
    uncounted x pc = false ∧ takenNotCounted x pc = false ∧ holdsToken x pc = false ∧ pendingRes x pc = 0
      ∧ producerOn x pc = false := by
  cases pc <;> simp_all [pcPipe, uncounted, takenNotCounted, holdsToken, pendingRes, producerOn]

/-- the per-pipe part of the invariant with the task-dependent quantities abstracted -/
def PipeInv (ps : PipeSt) (U T H P : Int) (R : Nat) : Prop :=
  ps.queued + U = (ps.chan.length : Int) + T ∧ 0 ≤ ps.queued ∧ ps.reserved = ps.queued + P
    ∧ (R : Int) + H = (if ps.queued ≥ 1 then 1 else 0)

theorem tokens_cast (s : RpqSt) (x : Nat) (q : Int) :
    tokens s x = (if q ≥ 1 then 1 else 0) ↔
      (s.ready.count x : Int) + (countTasks s (holdsToken x) : Int) = (if q ≥ 1 then 1 else 0) := by
  unfold tokens
  split <;> omega

theorem Inv.pipeInv {s : RpqSt} (hi : Inv s) (ps : PipeSt) (hps : ps ∈ s.pipes) :
    PipeInv ps (countTasks s (uncounted ps.id)) (countTasks s (takenNotCounted ps.id)) (countTasks s (holdsToken ps.id))
      (sumPending s ps.id) (s.ready.count ps.id) := by
  obtain ⟨h1, h2, h3, _, h5, _⟩ := hi.1 ps hps
  exact ⟨h1, h2, h3, (tokens_cast s ps.id ps.queued).1 h5⟩

end Infra
section Infra2
set_option linter.unusedSimpArgs false
set_option linter.unusedVariables false

theorem ready_count_le_one (s : RpqSt) (hi : Inv s) (x : Nat) : s.ready.count x ≤ 1 := by
  by_cases hx : x ∈ s.ready
  · have := hi.2.1 x hx
    cases hps : s.pipe? x with
    | none => simp [hps] at this
    | some ps =>
      obtain ⟨hm, rfl⟩ := s.pipe?_some x ps hps
      have := (hi.1 ps hm).2.2.2.2.1
      unfold tokens at this
      split at this <;> omega
  · rw [List.count_eq_zero_of_not_mem hx]; omega

/-- FIFO / exactly-once ghost invariant -/
def Fifo (s : RpqSt) : Prop :=
  ∀ p, ((s.takenLog.filter (·.1 == p)).map (·.2)) ++ ((s.pipe? p).map (·.chan)).getD []
      = (s.accepted.filter (·.1 == p)).map (·.2)

theorem fifo_frame_nopipe (s s' : RpqSt) (h : Fifo s) (hp : s'.pipes = s.pipes) (h1 : s'.takenLog = s.takenLog)
    (h2 : s'.accepted = s.accepted) : Fifo s' := by
  intro p
  have : s'.pipe? p = s.pipe? p := by unfold RpqSt.pipe?; rw [hp]
  rw [this, h1, h2]
  exact h p

theorem fifo_frame (s s' : RpqSt) (h : Fifo s) (p : Nat) (ps ps' : PipeSt) (hps : s.pipe? p = some ps)
    (hid : ps'.id = ps.id) (hpipes : s'.pipes = (s.setPipe ps').pipes)
    (hx : ∀ x, x ≠ p → s'.takenLog.filter (·.1 == x) = s.takenLog.filter (·.1 == x)
      ∧ s'.accepted.filter (·.1 == x) = s.accepted.filter (·.1 == x))
    (hp : ((s.takenLog.filter (·.1 == p)).map (·.2)) ++ ps.chan = (s.accepted.filter (·.1 == p)).map (·.2) →
      ((s'.takenLog.filter (·.1 == p)).map (·.2)) ++ ps'.chan = (s'.accepted.filter (·.1 == p)).map (·.2)) :
    Fifo s' := by
  intro x
  have hid' : ps.id = p := (s.pipe?_some p ps hps).2
  have e1 : s'.pipe? x = (s.setPipe ps').pipe? x := by unfold RpqSt.pipe?; rw [hpipes]
  rw [e1, RpqSt.setPipe_pipe?]
  by_cases hxp : x = p
  · subst hxp
    have := h x
    rw [hps] at this
    simp only [Option.map_some, Option.getD_some] at this
    rw [hps]
    simp [hid, hid']
    exact hp this
  · have := h x
    rw [(hx x hxp).1, (hx x hxp).2]
    cases hq : s.pipe? x with
    | none => simpa [hq] using this
    | some q =>
      have hqid : q.id = x := (s.pipe?_some x q hq).2
      have : ¬ q.id = ps'.id := by
        rw [hid, hid', hqid]; exact hxp
      simp [this]
      simpa [hq] using h x

theorem fifo_frame' (s s' : RpqSt) (h : Fifo s) (p : Nat) (ps : PipeSt) (ch : List Nat) (q r : Int)
    (hps : s.pipe? p = some ps)
    (hpipes : s'.pipes = (s.setPipe { ps with chan := ch, queued := q, reserved := r }).pipes)
    (hx : ∀ x, x ≠ p → s'.takenLog.filter (·.1 == x) = s.takenLog.filter (·.1 == x)
      ∧ s'.accepted.filter (·.1 == x) = s.accepted.filter (·.1 == x))
    (hp : ((s.takenLog.filter (·.1 == p)).map (·.2)) ++ ps.chan = (s.accepted.filter (·.1 == p)).map (·.2) →
      ((s'.takenLog.filter (·.1 == p)).map (·.2)) ++ ch = (s'.accepted.filter (·.1 == p)).map (·.2)) :
    Fifo s' :=
  fifo_frame s s' h p ps { ps with chan := ch, queued := q, reserved := r } hps rfl hpipes hx hp

theorem fifo_step (s : RpqSt) (t : String) (h : Fifo s) : Fifo (s.step t).1 := by
  unfold RpqSt.step
  simp only [finish, popRecv]
  repeat' split
  all_goals first
    | exact h
    | exact fifo_frame_nopipe _ _ h rfl rfl rfl
    | (have e := (RpqSt.pushReady_eq _ _ _ (by assumption)).1; subst e; exact fifo_frame_nopipe _ _ h rfl rfl rfl)
    | (refine fifo_frame' _ _ h _ _ _ _ _ (by assumption) rfl ?_ ?_
       all_goals (intros; first
         | (simp_all [List.filter_append]; done)
         | (simp_all [List.filter_append]; omega)
         | (rename_i a; simp_all only []; simp [List.filter_append, ← a])))
    | exact fifo_frame_nopipe _ _ h (by simp) (by simp) (by simp)

end Infra2
section Infra3
set_option linter.unusedSimpArgs false

theorem arm_ok (s : RpqSt) (hw : WellFormed s) (hi : Inv s) (p : Nat) (hp : (s.pipe? p).isSome)
    (hfree : s.ready.count p = 0) : s.ready.length < s.readyCap := by
  have := length_lt_of_count_le_one s.ready (s.pipes.map (·.id)) p (s.pipe?_isSome_mem_ids p hp)
    (List.count_eq_zero.1 hfree) (ready_count_le_one s hi) (fun x hx => s.pipe?_isSome_mem_ids x (hi.2.1 x hx))
  have h4 := hw.2.2.2.1
  simp at this
  omega

/-- THE frame lemma: a step that changes task `t`'s pc from `pc` to `pc'`, maps the pipes through an
id-preserving `F` and possibly changes the ready list preserves `WellFormed ∧ Inv`, provided a purely
arithmetical per-pipe obligation holds (the task-dependent sums are abstracted as `U T H P`). -/
theorem frame (s s' : RpqSt) (t : String) (pc pc' : Pc) (F : PipeSt → PipeSt)
    (hw : WellFormed s) (hi : Inv s)
    (ht : s.task? t = some pc)
    (htasks : s'.tasks = (s.setTask t pc').tasks)
    (hpipes : s'.pipes = s.pipes.map F)
    (hcap : s'.readyCap = s.readyCap)
    (hFid : ∀ q, (F q).id = q.id)
    (hF : ∀ q ∈ s.pipes, (F q).cap = q.cap ∧ (F q).registered = q.registered)
    (hprod : ∀ x, producerOn x pc' = true → producerOn x pc = true)
    (hex : ∀ x, (producerOn x pc' = true ∨ holdsToken x pc' = true ∨ takenNotCounted x pc' = true) → (s.pipe? x).isSome)
    (hready : ∀ x ∈ s'.ready, (s.pipe? x).isSome)
    (hok : pcOk pc')
    (hloc : ∀ q ∈ s.pipes, ∀ U T H P : Int,
      b2i (uncounted q.id pc) ≤ U → b2i (takenNotCounted q.id pc) ≤ T → b2i (holdsToken q.id pc) ≤ H →
      T + b2i (holdsToken q.id pc && !takenNotCounted q.id pc) ≤ H →
      PipeInv q U T H P (s.ready.count q.id) →
      PipeInv (F q) (U - b2i (uncounted q.id pc) + b2i (uncounted q.id pc'))
        (T - b2i (takenNotCounted q.id pc) + b2i (takenNotCounted q.id pc'))
        (H - b2i (holdsToken q.id pc) + b2i (holdsToken q.id pc'))
        (P - pendingRes q.id pc + pendingRes q.id pc') (s'.ready.count q.id)) :
    WellFormed s' ∧ Inv s' := by
  have hi' := hi
  obtain ⟨hnd1, hnd2, hw3, hw4, hw5⟩ := hw
  obtain ⟨hi1, hi2, hi3⟩ := hi
  have hmem := s.task?_mem t pc ht
  have hpipe? : ∀ x, s'.pipe? x = (s.pipe? x).map F := RpqSt.pipe?_of_pipes_map s s' F hFid hpipes
  have hsome : ∀ x, (s.pipe? x).isSome → (s'.pipe? x).isSome := by
    intro x hx; rw [hpipe?]; simpa using hx
  have hcnt := fun f => countTasks_update s s' t pc pc' hnd2 ht htasks f
  have hsum := fun x => sumPending_update s s' t pc pc' hnd2 ht htasks x
  have hok' : ∀ e ∈ s'.tasks, pcOk e.2 := by
    intro e he; rw [htasks] at he
    rcases mem_map_update _ _ _ _ he with rfl | he
    · exact hok
    · exact hi3 e he
  have hready' : ∀ x ∈ s'.ready, (s'.pipe? x).isSome := fun x hx => hsome x (hready x hx)
  refine ⟨⟨?_, ?_, ?_, ?_, ?_⟩, ?_, hready', hok'⟩
  · rw [hpipes, List.map_map]
    have : ((fun x => x.id) ∘ F) = fun x => x.id := by funext q; simp [hFid]
    rw [this]; exact hnd1
  · rw [htasks]; simp only [RpqSt.setTask_tasks, names_map_update]; exact hnd2
  · intro ps' hps'
    rw [hpipes] at hps'
    obtain ⟨q, hq, rfl⟩ := List.mem_map.1 hps'
    obtain ⟨h1, h2, h3⟩ := hw3 q hq
    obtain ⟨h4, h5⟩ := hF q hq
    refine ⟨?_, by rw [h5]; exact h2, by rw [h4]; exact h3⟩
    rw [hFid]
    have e1 := hcnt (producerOn q.id)
    have : b2i (producerOn q.id pc') ≤ b2i (producerOn q.id pc) := by
      cases h : producerOn q.id pc'
      · simp [b2i_nonneg]
      · rw [hprod _ h]; simp
    omega
  · rw [hpipes, List.length_map, hcap]; exact hw4
  · intro e he x hx
    rw [htasks] at he
    rcases mem_map_update _ _ _ _ he with rfl | he
    · exact hsome x (hex x hx)
    · exact hsome x (hw5 e he x hx)
  · intro ps' hps'
    rw [hpipes] at hps'
    obtain ⟨q, hq, rfl⟩ := List.mem_map.1 hps'
    have hpi := hi'.pipeInv q hq
    have hl := hloc q hq _ _ _ _ (b2i_le_countTasks s t pc hmem _) (b2i_le_countTasks s t pc hmem _)
      (b2i_le_countTasks s t pc hmem _) (taken_add_le_holds s t pc hmem q.id) hpi
    obtain ⟨l1, l2, l3, l4⟩ := hl
    rw [hFid]
    refine ⟨?_, l2, ?_, ?_, ?_, hready'⟩
    · rw [hcnt, hcnt]; exact l1
    · rw [hsum]; exact l3
    · intro e he; exact pendingRes_nonneg _ _ (hok' e he)
    · rw [tokens_cast, hcnt]; exact l4

end Infra3

section Cases
set_option linter.unusedSimpArgs false

theorem pipe_exists (s : RpqSt) (hw : WellFormed s) (t : String) (pc : Pc) (ht : s.task? t = some pc) (p : Nat)
    (h : producerOn p pc = true ∨ holdsToken p pc = true ∨ takenNotCounted p pc = true) : (s.pipe? p).isSome :=
  hw.2.2.2.2 (t, pc) (s.task?_mem t pc ht) p h

/-- a step that updates pipe `p` (found as `ps`) to `ps'` and moves the task between two pcs that refer to `p` -/
theorem frame_pipe (s s' : RpqSt) (t : String) (pc pc' : Pc) (p : Nat) (ps ps' : PipeSt)
    (hw : WellFormed s) (hi : Inv s)
    (ht : s.task? t = some pc) (hps : s.pipe? p = some ps)
    (hid : ps'.id = ps.id) (hcap' : ps'.cap = ps.cap) (hreg : ps'.registered = ps.registered)
    (htasks : s'.tasks = (s.setTask t pc').tasks)
    (hpipes : s'.pipes = (s.setPipe ps').pipes)
    (hcap : s'.readyCap = s.readyCap)
    (hready : s'.ready = s.ready)
    (hpc : pcPipe pc = some p) (hpc' : pcPipe pc' = some p ∨ pcPipe pc' = none)
    (hprod : producerOn p pc' = true → producerOn p pc = true)
    (hok : pcOk pc')
    (hself : ∀ U T H P : Int,
      b2i (uncounted p pc) ≤ U → b2i (takenNotCounted p pc) ≤ T → b2i (holdsToken p pc) ≤ H →
      T + b2i (holdsToken p pc && !takenNotCounted p pc) ≤ H →
      PipeInv ps U T H P (s.ready.count p) →
      PipeInv ps' (U - b2i (uncounted p pc) + b2i (uncounted p pc'))
        (T - b2i (takenNotCounted p pc) + b2i (takenNotCounted p pc'))
        (H - b2i (holdsToken p pc) + b2i (holdsToken p pc'))
        (P - pendingRes p pc + pendingRes p pc') (s.ready.count p)) :
    WellFormed s' ∧ Inv s' := by
  obtain ⟨hpsm, hpsid⟩ := s.pipe?_some p ps hps
  have hsome : (s.pipe? p).isSome := by simp [hps]
  have hne : ∀ x, x ≠ p → pcPipe pc ≠ some x ∧ pcPipe pc' ≠ some x := by
    intro x hx
    rw [hpc]
    rcases hpc' with h | h <;> rw [h] <;> simp [Ne.symm hx]
  refine frame s s' t pc pc' (fun q => if q.id == ps'.id then ps' else q) hw hi ht htasks hpipes hcap ?_ ?_ ?_ ?_ ?_ hok ?_
  · intro q
    by_cases h : q.id = ps'.id <;> simp [h]
  · intro q hq
    by_cases h : q.id = ps'.id
    · have : q = ps := by
        have h1 := s.pipe?_of_mem q hw.1 hq
        rw [h, hid, hpsid, hps] at h1
        exact (Option.some.inj h1).symm
      subst this
      simp [h, hcap', hreg]
    · simp [h]
  · intro x hx
    by_cases hxp : x = p
    · subst hxp; exact hprod hx
    · have := (preds_of_pcPipe_ne pc' x (hne x hxp).2).2.2.2.2
      rw [this] at hx; cases hx
  · intro x hx
    by_cases hxp : x = p
    · subst hxp; exact hsome
    · obtain ⟨_, h2, h3, _, h5⟩ := preds_of_pcPipe_ne pc' x (hne x hxp).2
      rw [h2, h3, h5] at hx
      simp at hx
  · intro x hx
    rw [hready] at hx
    exact hi.2.1 x hx
  · intro q hq U T H P b1 b2 b3 b4 hinv
    rw [hready]
    by_cases h : q.id = ps'.id
    · have : q = ps := by
        have h1 := s.pipe?_of_mem q hw.1 hq
        rw [h, hid, hpsid, hps] at h1
        exact (Option.some.inj h1).symm
      subst this
      rw [hpsid] at b1 b2 b3 b4 hinv ⊢
      have e : (p == ps'.id) = true := by simp [hid, hpsid]
      simp only [e, if_true]
      exact hself U T H P b1 b2 b3 b4 hinv
    · have hqp : q.id ≠ p := by rw [hid, hpsid] at h; exact h
      obtain ⟨a1, a2, a3, a4, _⟩ := preds_of_pcPipe_ne pc q.id (hne _ hqp).1
      obtain ⟨c1, c2, c3, c4, _⟩ := preds_of_pcPipe_ne pc' q.id (hne _ hqp).2
      simp only [a1, a2, a3, a4, c1, c2, c3, c4, h, b2i_false, Int.sub_zero, Int.add_zero]
      simpa [h] using hinv

theorem frame_pipe' (s s' : RpqSt) (t : String) (pc pc' : Pc) (p : Nat) (ps : PipeSt) (ch : List Nat) (qd rs : Int)
    (hw : WellFormed s) (hi : Inv s)
    (ht : s.task? t = some pc) (hps : s.pipe? p = some ps)
    (htasks : s'.tasks = (s.setTask t pc').tasks)
    (hpipes : s'.pipes = (s.setPipe { ps with chan := ch, queued := qd, reserved := rs }).pipes)
    (hcap : s'.readyCap = s.readyCap)
    (hready : s'.ready = s.ready)
    (hpc : pcPipe pc = some p) (hpc' : pcPipe pc' = some p)
    (hprod : producerOn p pc' = true → producerOn p pc = true)
    (hok : pcOk pc')
    (hself : ∀ U T H P : Int,
      b2i (uncounted p pc) ≤ U → b2i (takenNotCounted p pc) ≤ T → b2i (holdsToken p pc) ≤ H →
      T + b2i (holdsToken p pc && !takenNotCounted p pc) ≤ H →
      PipeInv ps U T H P (s.ready.count p) →
      PipeInv { ps with chan := ch, queued := qd, reserved := rs } (U - b2i (uncounted p pc) + b2i (uncounted p pc'))
        (T - b2i (takenNotCounted p pc) + b2i (takenNotCounted p pc'))
        (H - b2i (holdsToken p pc) + b2i (holdsToken p pc'))
        (P - pendingRes p pc + pendingRes p pc') (s.ready.count p)) :
    WellFormed s' ∧ Inv s' :=
  frame_pipe s s' t pc pc' p ps { ps with chan := ch, queued := qd, reserved := rs } hw hi ht hps rfl rfl rfl
    htasks hpipes hcap hready hpc (Or.inl hpc') hprod hok hself

@[simp] theorem uncounted_finished (x : Nat) (r : String) : uncounted x (.finished r) = false := rfl
@[simp] theorem takenNotCounted_finished (x : Nat) (r : String) : takenNotCounted x (.finished r) = false := rfl
@[simp] theorem holdsToken_finished (x : Nat) (r : String) : holdsToken x (.finished r) = false := rfl
@[simp] theorem pendingRes_finished (x : Nat) (r : String) : pendingRes x (.finished r) = 0 := rfl
@[simp] theorem producerOn_finished (x : Nat) (r : String) : producerOn x (.finished r) = false := rfl

theorem frame_nopipe (s s' : RpqSt) (t : String) (pc pc' : Pc)
    (hw : WellFormed s) (hi : Inv s)
    (ht : s.task? t = some pc)
    (htasks : s'.tasks = (s.setTask t pc').tasks)
    (hpipes : s'.pipes = s.pipes)
    (hcap : s'.readyCap = s.readyCap)
    (hprod : ∀ x, producerOn x pc' = true → producerOn x pc = true)
    (hex : ∀ x, (producerOn x pc' = true ∨ holdsToken x pc' = true ∨ takenNotCounted x pc' = true) → (s.pipe? x).isSome)
    (hready : ∀ x ∈ s'.ready, (s.pipe? x).isSome)
    (hok : pcOk pc')
    (hloc : ∀ q ∈ s.pipes, ∀ U T H P : Int,
      b2i (uncounted q.id pc) ≤ U → b2i (takenNotCounted q.id pc) ≤ T → b2i (holdsToken q.id pc) ≤ H →
      T + b2i (holdsToken q.id pc && !takenNotCounted q.id pc) ≤ H →
      PipeInv q U T H P (s.ready.count q.id) →
      PipeInv q (U - b2i (uncounted q.id pc) + b2i (uncounted q.id pc'))
        (T - b2i (takenNotCounted q.id pc) + b2i (takenNotCounted q.id pc'))
        (H - b2i (holdsToken q.id pc) + b2i (holdsToken q.id pc'))
        (P - pendingRes q.id pc + pendingRes q.id pc') (s'.ready.count q.id)) :
    WellFormed s' ∧ Inv s' :=
  frame s s' t pc pc' id hw hi ht htasks (by simp [hpipes]) hcap (fun _ => rfl) (fun _ _ => ⟨rfl, rfl⟩)
    hprod hex hready hok hloc

/-- the task finishes, giving up nothing (it holds no token, has nothing uncounted / taken / reserved) -/
theorem frame_finish (s s' : RpqSt) (t : String) (pc : Pc) (r : String)
    (hw : WellFormed s) (hi : Inv s)
    (ht : s.task? t = some pc)
    (htasks : s'.tasks = (s.setTask t (.finished r)).tasks)
    (hpipes : s'.pipes = s.pipes) (hcap : s'.readyCap = s.readyCap) (hready : s'.ready = s.ready)
    (hq : ∀ x, uncounted x pc = false ∧ takenNotCounted x pc = false ∧ holdsToken x pc = false ∧ pendingRes x pc = 0) :
    WellFormed s' ∧ Inv s' := by
  refine frame_nopipe s s' t pc (.finished r) hw hi ht htasks hpipes hcap ?_ ?_ ?_ trivial ?_
  · intro x hx; simp [producerOn] at hx
  · intro x hx; simp [producerOn, holdsToken, takenNotCounted] at hx
  · intro x hx; rw [hready] at hx; exact hi.2.1 x hx
  · intro q _ U T H P b1 b2 b3 b4 hinv
    obtain ⟨a1, a2, a3, a4⟩ := hq q.id
    rw [hready]
    simpa [a1, a2, a3, a4] using hinv

/-- the task finishes and hands the token of `p` it holds to the ready list -/
theorem frame_arm (s s' : RpqSt) (t : String) (pc : Pc) (r : String) (p : Nat)
    (hw : WellFormed s) (hi : Inv s)
    (ht : s.task? t = some pc)
    (htasks : s'.tasks = (s.setTask t (.finished r)).tasks)
    (hpipes : s'.pipes = s.pipes) (hcap : s'.readyCap = s.readyCap) (hready : s'.ready = s.ready ++ [p])
    (hq : ∀ x, uncounted x pc = false ∧ takenNotCounted x pc = false ∧ holdsToken x pc = (p == x) ∧ pendingRes x pc = 0) :
    WellFormed s' ∧ Inv s' := by
  have hp : (s.pipe? p).isSome := pipe_exists s hw t pc ht p (Or.inr (Or.inl (by rw [(hq p).2.2.1]; simp)))
  refine frame_nopipe s s' t pc (.finished r) hw hi ht htasks hpipes hcap ?_ ?_ ?_ trivial ?_
  · intro x hx; simp [producerOn] at hx
  · intro x hx; simp [producerOn, holdsToken, takenNotCounted] at hx
  · intro x hx
    rw [hready] at hx
    rcases List.mem_append.1 hx with hx | hx
    · exact hi.2.1 x hx
    · simp at hx; subst hx; exact hp
  · intro q _ U T H P b1 b2 b3 b4 hinv
    obtain ⟨a1, a2, a3, a4⟩ := hq q.id
    rw [hready, List.count_append]
    by_cases h : p = q.id <;>
      simp [h, a1, a2, a3, a4, PipeInv, b2i] at * <;> omega

/-- a consumer takes the head entry `p` of the ready list -/
theorem frame_unarm (s s' : RpqSt) (t : String) (pc pc' : Pc) (p : Nat) (rest : List Nat)
    (hw : WellFormed s) (hi : Inv s)
    (ht : s.task? t = some pc)
    (htasks : s'.tasks = (s.setTask t pc').tasks)
    (hpipes : s'.pipes = s.pipes) (hcap : s'.readyCap = s.readyCap)
    (hr : s.ready = p :: rest) (hready : s'.ready = rest)
    (hq : ∀ x, uncounted x pc = false ∧ takenNotCounted x pc = false ∧ holdsToken x pc = false ∧ pendingRes x pc = 0)
    (hq' : ∀ x, uncounted x pc' = false ∧ takenNotCounted x pc' = false ∧ holdsToken x pc' = (p == x)
      ∧ pendingRes x pc' = 0 ∧ producerOn x pc' = false)
    (hok : pcOk pc') :
    WellFormed s' ∧ Inv s' := by
  have hp : (s.pipe? p).isSome := hi.2.1 p (by simp [hr])
  refine frame_nopipe s s' t pc pc' hw hi ht htasks hpipes hcap ?_ ?_ ?_ hok ?_
  · intro x hx; rw [(hq' x).2.2.2.2] at hx; cases hx
  · intro x hx
    obtain ⟨a1, a2, a3, a4, a5⟩ := hq' x
    rw [a5, a3, a2] at hx
    simp at hx; subst hx; exact hp
  · intro x hx
    rw [hready] at hx
    exact hi.2.1 x (by simp [hr, hx])
  · intro q _ U T H P b1 b2 b3 b4 hinv
    obtain ⟨a1, a2, a3, a4⟩ := hq q.id
    obtain ⟨c1, c2, c3, c4, _⟩ := hq' q.id
    rw [hready]
    rw [hr, List.count_cons] at hinv
    by_cases h : p = q.id <;>
      simp [h, a1, a2, a3, a4, c1, c2, c3, c4, PipeInv, b2i] at * <;> omega

/-- the task is granted but does not move (parks again) -/
theorem frame_park (s s' : RpqSt) (t : String) (pc : Pc)
    (hw : WellFormed s) (hi : Inv s)
    (ht : s.task? t = some pc)
    (htasks : s'.tasks = (s.setTask t pc).tasks)
    (hpipes : s'.pipes = s.pipes) (hcap : s'.readyCap = s.readyCap) (hready : s'.ready = s.ready) :
    WellFormed s' ∧ Inv s' := by
  refine frame_nopipe s s' t pc pc hw hi ht htasks hpipes hcap (fun _ h => h) ?_ ?_ ?_ ?_
  · intro x hx; exact pipe_exists s hw t pc ht x hx
  · intro x hx; rw [hready] at hx; exact hi.2.1 x hx
  · exact hi.2.2 _ (s.task?_mem t pc ht)
  · intro q _ U T H P b1 b2 b3 b4 hinv
    rw [hready]
    have e1 : ∀ a b : Int, a - b + b = a := by intro a b; omega
    simpa [e1] using hinv

/-- a task holding the token of `p` without having taken an item finds `p`'s channel non-empty -/
theorem holder_chan_ne_nil (s : RpqSt) (hw : WellFormed s) (hi : Inv s) (t : String) (pc : Pc)
    (ht : s.task? t = some pc) (p : Nat) (ps : PipeSt) (hps : s.pipe? p = some ps)
    (hh : holdsToken p pc = true) (hnt : takenNotCounted p pc = false) : ps.chan ≠ [] := by
  obtain ⟨hpsm, rfl⟩ := s.pipe?_some p ps hps
  have hmem := s.task?_mem t pc ht
  obtain ⟨l1, l2, l3, l4⟩ := hi.pipeInv ps hpsm
  have b3 := b2i_le_countTasks s t pc hmem (holdsToken ps.id)
  have b4 := taken_add_le_holds s t pc hmem ps.id
  rw [hh] at b3
  rw [hh, hnt] at b4
  simp at b3 b4
  intro hnil
  rw [hnil] at l1
  simp at l1
  split at l4 <;> omega

end Cases

section Steps
set_option linter.unusedSimpArgs false

/-- close a `pipe? p = none` branch: the task's pc refers to `p`, which exists by well-formedness -/
macro "vac_none" s:ident hw:ident t:ident ht:ident p:ident hnone:ident : tactic => `(tactic|
  (have hex := pipe_exists $s $hw $t _ $ht $p (by simp [producerOn, holdsToken, takenNotCounted])
   simp [$hnone:ident] at hex
   done))

/-- the arithmetic per-pipe obligation -/
macro "pipe_arith" : tactic => `(tactic|
  (intro U T H P b1 b2 b3 b4 hinv
   simp [PipeInv, uncounted, takenNotCounted, holdsToken, pendingRes, b2i, pcOk] at *
   omega))

/-- under `WellFormed` every pipe is registered, so a sender's `Weak::upgrade` of an existing slot succeeds -/
theorem slotAlive_of_pipe (s : RpqSt) (hw : WellFormed s) (p : Nat) (ps : PipeSt) (hps : s.pipe? p = some ps) :
    s.slotAlive p = true := by
  have hreg := (hw.2.2.1 ps (s.pipe?_some p ps hps).1).2.1
  simp [RpqSt.slotAlive, hps, hreg]

/-- a producer at a `*Start` pc: its pipe exists and its slot is alive -/
theorem start_pipe (s : RpqSt) (hw : WellFormed s) (t : String) (pc : Pc) (ht : s.task? t = some pc) (p : Nat)
    (hprod : producerOn p pc = true) : ∃ ps, s.pipe? p = some ps ∧ s.slotAlive p = true := by
  have hex := pipe_exists s hw t pc ht p (Or.inl hprod)
  cases hps : s.pipe? p with
  | none => simp [hps] at hex
  | some ps => exact ⟨ps, rfl, slotAlive_of_pipe s hw p ps hps⟩

theorem step_sendStart (s : RpqSt) (t : String) (hw : WellFormed s) (hi : Inv s) (p item : Nat)
    (ht : s.task? t = some (.sendStart p item)) : WellFormed (s.step t).1 ∧ Inv (s.step t).1 := by
  obtain ⟨ps, hps, halive⟩ := start_pipe s hw t _ ht p (by simp [producerOn])
  unfold RpqSt.step
  simp only [ht, halive, hps, Bool.not_true, Bool.false_eq_true, if_false]
  refine frame_pipe' s _ t _ _ p ps _ _ _ hw hi ht hps rfl rfl rfl rfl rfl rfl (by simp [producerOn]) trivial ?_
  clear hw hi
  pipe_arith

theorem step_sendReserved (s : RpqSt) (t : String) (hw : WellFormed s) (hi : Inv s) (p item : Nat)
    (ht : s.task? t = some (.sendReserved p item)) : WellFormed (s.step t).1 ∧ Inv (s.step t).1 := by
  unfold RpqSt.step
  simp only [ht]
  split
  · rename_i hnone; vac_none s hw t ht p hnone
  · rename_i ps hps
    split
    · refine frame_pipe' s _ t _ _ p ps _ _ _ hw hi ht hps rfl rfl rfl rfl rfl rfl (by simp [producerOn]) trivial ?_
      clear hw hi
      pipe_arith
    · exact ⟨hw, hi⟩

theorem step_sendWritten (s : RpqSt) (t : String) (hw : WellFormed s) (hi : Inv s) (p : Nat)
    (ht : s.task? t = some (.sendWritten p)) : WellFormed (s.step t).1 ∧ Inv (s.step t).1 := by
  unfold RpqSt.step
  simp only [ht]
  split
  · rename_i hnone; vac_none s hw t ht p hnone
  · rename_i ps hps
    refine frame_pipe' s _ t _ _ p ps _ _ _ hw hi ht hps rfl rfl rfl rfl rfl rfl (by simp [producerOn]) trivial ?_
    clear hw hi
    pipe_arith

theorem step_sendCounted (s : RpqSt) (t : String) (hw : WellFormed s) (hi : Inv s) (p : Nat) (prev : Int)
    (ht : s.task? t = some (.sendCounted p prev)) : WellFormed (s.step t).1 ∧ Inv (s.step t).1 := by
  unfold RpqSt.step
  simp only [ht]
  split
  · rename_i hprev
    split
    · rename_i s' hpush
      have e := (s.pushReady_eq s' p hpush).1
      subst e
      refine frame_arm s _ t _ _ p hw hi ht rfl rfl rfl rfl ?_
      intro x; simp [uncounted, takenNotCounted, holdsToken, pendingRes]; intro _; simpa using hprev
    · exact ⟨hw, hi⟩
  · rename_i hprev
    refine frame_finish s _ t _ _ hw hi ht rfl rfl rfl rfl ?_
    intro x; simp [uncounted, takenNotCounted, holdsToken, pendingRes]; intro _; simpa using hprev

theorem step_trySendStart (s : RpqSt) (t : String) (hw : WellFormed s) (hi : Inv s) (p item : Nat)
    (ht : s.task? t = some (.trySendStart p item)) : WellFormed (s.step t).1 ∧ Inv (s.step t).1 := by
  obtain ⟨ps, hps, halive⟩ := start_pipe s hw t _ ht p (by simp [producerOn])
  unfold RpqSt.step
  simp only [ht, halive, hps, Bool.not_true, Bool.false_eq_true, if_false]
  split
  · refine frame_pipe' s _ t _ _ p ps _ _ _ hw hi ht hps rfl rfl rfl rfl rfl rfl (by simp [producerOn]) trivial ?_
    clear hw hi
    pipe_arith
  · refine frame_finish s _ t _ _ hw hi ht rfl rfl rfl rfl ?_
    intro x; simp [uncounted, takenNotCounted, holdsToken, pendingRes]

theorem step_trySendWritten (s : RpqSt) (t : String) (hw : WellFormed s) (hi : Inv s) (p : Nat)
    (ht : s.task? t = some (.trySendWritten p)) : WellFormed (s.step t).1 ∧ Inv (s.step t).1 := by
  unfold RpqSt.step
  simp only [ht]
  split
  · rename_i hnone; vac_none s hw t ht p hnone
  · rename_i ps hps
    refine frame_pipe' s _ t _ _ p ps _ _ _ hw hi ht hps rfl rfl rfl rfl rfl rfl (by simp [producerOn]) trivial ?_
    clear hw hi
    pipe_arith

theorem step_trySendCounted (s : RpqSt) (t : String) (hw : WellFormed s) (hi : Inv s) (p : Nat) (prev : Int)
    (ht : s.task? t = some (.trySendCounted p prev)) : WellFormed (s.step t).1 ∧ Inv (s.step t).1 := by
  unfold RpqSt.step
  simp only [ht]
  split
  · rename_i hprev
    split
    · rename_i s' hpush
      have e := (s.pushReady_eq s' p hpush).1
      subst e
      refine frame_arm s _ t _ _ p hw hi ht rfl rfl rfl rfl ?_
      intro x; simp [uncounted, takenNotCounted, holdsToken, pendingRes]; intro _; simpa using hprev
    · exact ⟨hw, hi⟩
  · rename_i hprev
    refine frame_finish s _ t _ _ hw hi ht rfl rfl rfl rfl ?_
    intro x; simp [uncounted, takenNotCounted, holdsToken, pendingRes]; intro _; simpa using hprev

theorem step_batchStart (s : RpqSt) (t : String) (hw : WellFormed s) (hi : Inv s) (p : Nat) (items : List Nat)
    (ht : s.task? t = some (.batchStart p items)) : WellFormed (s.step t).1 ∧ Inv (s.step t).1 := by
  obtain ⟨ps, hps, halive⟩ := start_pipe s hw t _ ht p (by simp [producerOn])
  unfold RpqSt.step
  simp only [ht, halive, hps, Bool.not_true, Bool.false_eq_true, if_false]
  split
  · refine frame_finish s _ t _ _ hw hi ht rfl rfl rfl rfl ?_
    intro x; simp [uncounted, takenNotCounted, holdsToken, pendingRes]
  · refine frame_pipe' s _ t _ _ p ps _ _ _ hw hi ht hps rfl rfl rfl rfl rfl rfl (by simp [producerOn])
      (by simp [pcOk]) ?_
    clear hw hi
    pipe_arith

/-- the shared arm of `batchReserved` / `batchCounted` -/
theorem step_batchGo (s : RpqSt) (t : String) (hw : WellFormed s) (hi : Inv s) (p n : Nat) (items : List Nat)
    (sent : Nat) (zero : Bool) (pc : Pc) (hpc : pc = .batchReserved p n items sent zero ∨ pc = .batchCounted p n items sent zero)
    (ht : s.task? t = some pc) : WellFormed (s.step t).1 ∧ Inv (s.step t).1 := by
  have hok0 := hi.2.2 _ (s.task?_mem t _ ht)
  unfold RpqSt.step
  cases zero <;> cases items <;> rcases hpc with rfl | rfl <;> simp only [ht] <;> split <;>
    first
    | (simp [pcOk] at hok0; done)
    | (rename_i hnone; vac_none s hw t ht p hnone)
    | (rename_i ps hps
       first
       | (refine frame_pipe' s _ t _ _ p ps _ _ _ hw hi ht hps rfl rfl rfl rfl rfl rfl (by simp [producerOn]) trivial ?_
          clear hw hi
          pipe_arith)
       | (split
          · refine frame_pipe' s _ t _ _ p ps _ _ _ hw hi ht hps rfl rfl rfl rfl rfl rfl (by simp [producerOn])
              (by simp [pcOk] at hok0 ⊢; omega) ?_
            clear hw hi
            pipe_arith
          · refine frame_pipe' s _ t _ _ p ps _ _ _ hw hi ht hps rfl rfl rfl rfl rfl rfl (by simp [producerOn]) trivial ?_
            clear hw hi
            pipe_arith))

theorem step_batchWritten (s : RpqSt) (t : String) (hw : WellFormed s) (hi : Inv s) (p n : Nat) (items : List Nat)
    (sent : Nat) (zero : Bool)
    (ht : s.task? t = some (.batchWritten p n items sent zero)) : WellFormed (s.step t).1 ∧ Inv (s.step t).1 := by
  have hok0 := hi.2.2 _ (s.task?_mem t _ ht)
  unfold RpqSt.step
  simp only [ht]
  split
  · rename_i hnone; vac_none s hw t ht p hnone
  · rename_i ps hps
    refine frame_pipe' s _ t _ _ p ps _ _ _ hw hi ht hps rfl rfl rfl rfl rfl rfl (by simp [producerOn])
      (by simpa [pcOk] using hok0) ?_
    clear hw hi
    cases zero <;> pipe_arith

theorem step_batchRolledBack (s : RpqSt) (t : String) (hw : WellFormed s) (hi : Inv s) (p : Nat) (items : List Nat)
    (sent : Nat) (zero : Bool)
    (ht : s.task? t = some (.batchRolledBack p items sent zero)) : WellFormed (s.step t).1 ∧ Inv (s.step t).1 := by
  unfold RpqSt.step
  simp only [ht]
  split
  · rename_i hz
    split
    · rename_i s' hpush
      have e := (s.pushReady_eq s' p hpush).1
      subst e
      refine frame_arm s _ t _ _ p hw hi ht rfl rfl rfl rfl ?_
      intro x; simp [uncounted, takenNotCounted, holdsToken, pendingRes, hz]
    · exact ⟨hw, hi⟩
  · rename_i hz
    refine frame_finish s _ t _ _ hw hi ht rfl rfl rfl rfl ?_
    intro x; simp [uncounted, takenNotCounted, holdsToken, pendingRes, hz]

theorem popRecv_ok (s : RpqSt) (t : String) (hw : WellFormed s) (hi : Inv s) (pc : Pc) (label : String)
    (ht : s.task? t = some pc) (hpc : pc = .popStart) :
    WellFormed (popRecv s t label .popGotSlot .popStart).1 ∧ Inv (popRecv s t label .popGotSlot .popStart).1 := by
  subst hpc
  unfold popRecv
  split
  · exact frame_park s _ t _ hw hi ht rfl rfl rfl rfl
  · rename_i p rest hr
    refine frame_unarm s _ t _ _ p rest hw hi ht rfl rfl rfl hr rfl ?_ ?_ trivial
    · intro x; simp [uncounted, takenNotCounted, holdsToken, pendingRes]
    · intro x; simp [uncounted, takenNotCounted, holdsToken, pendingRes, producerOn]

theorem step_popStart (s : RpqSt) (t : String) (hw : WellFormed s) (hi : Inv s)
    (ht : s.task? t = some .popStart) : WellFormed (s.step t).1 ∧ Inv (s.step t).1 := by
  unfold RpqSt.step
  simp only [ht]
  exact popRecv_ok s t hw hi _ _ ht rfl

theorem step_popGotSlot (s : RpqSt) (t : String) (hw : WellFormed s) (hi : Inv s) (p : Nat)
    (ht : s.task? t = some (.popGotSlot p)) : WellFormed (s.step t).1 ∧ Inv (s.step t).1 := by
  unfold RpqSt.step
  simp only [ht]
  split
  · rename_i ps hps
    have hne := holder_chan_ne_nil s hw hi t _ ht p ps hps (by simp [holdsToken]) (by simp [takenNotCounted])
    split
    · rename_i item rest hch
      have hlen : ps.chan.length = rest.length + 1 := by rw [hch]; rfl
      refine frame_pipe' s _ t _ _ p ps _ _ _ hw hi ht hps rfl rfl rfl rfl rfl rfl (by simp [producerOn]) trivial ?_
      clear hw hi
      pipe_arith
    · rename_i hch; exact absurd hch hne
  · rename_i hnone; vac_none s hw t ht p hnone

theorem step_popTaken (s : RpqSt) (t : String) (hw : WellFormed s) (hi : Inv s) (p item : Nat)
    (ht : s.task? t = some (.popTaken p item)) : WellFormed (s.step t).1 ∧ Inv (s.step t).1 := by
  unfold RpqSt.step
  simp only [ht]
  split
  · rename_i hnone; vac_none s hw t ht p hnone
  · rename_i ps hps
    refine frame_pipe' s _ t _ _ p ps _ _ _ hw hi ht hps rfl rfl rfl rfl rfl rfl (by simp [producerOn]) trivial ?_
    clear hw hi
    pipe_arith

theorem step_popDecremented (s : RpqSt) (t : String) (hw : WellFormed s) (hi : Inv s) (p item : Nat) (prev : Int)
    (ht : s.task? t = some (.popDecremented p item prev)) : WellFormed (s.step t).1 ∧ Inv (s.step t).1 := by
  unfold RpqSt.step
  simp only [ht]
  split
  · rename_i hprev
    split
    · rename_i s' hpush
      have e := (s.pushReady_eq s' p hpush).1
      subst e
      refine frame_arm s _ t _ _ p hw hi ht rfl rfl rfl rfl ?_
      intro x; simp [uncounted, takenNotCounted, holdsToken, pendingRes]; intro _; exact hprev
    · exact ⟨hw, hi⟩
  · rename_i hprev
    refine frame_finish s _ t _ _ hw hi ht rfl rfl rfl rfl ?_
    intro x; simp [uncounted, takenNotCounted, holdsToken, pendingRes]; intro _; omega

theorem step_tryPopStart (s : RpqSt) (t : String) (hw : WellFormed s) (hi : Inv s)
    (ht : s.task? t = some .tryPopStart) : WellFormed (s.step t).1 ∧ Inv (s.step t).1 := by
  unfold RpqSt.step
  simp only [ht]
  split
  · refine frame_finish s _ t _ _ hw hi ht rfl rfl rfl rfl ?_
    intro x; simp [uncounted, takenNotCounted, holdsToken, pendingRes]
  · rename_i p rest hr
    refine frame_unarm s _ t _ _ p rest hw hi ht rfl rfl rfl hr rfl ?_ ?_ trivial
    · intro x; simp [uncounted, takenNotCounted, holdsToken, pendingRes]
    · intro x; simp [uncounted, takenNotCounted, holdsToken, pendingRes, producerOn]

theorem step_tryPopGotSlot (s : RpqSt) (t : String) (hw : WellFormed s) (hi : Inv s) (p : Nat)
    (ht : s.task? t = some (.tryPopGotSlot p)) : WellFormed (s.step t).1 ∧ Inv (s.step t).1 := by
  unfold RpqSt.step
  simp only [ht]
  split
  · rename_i ps hps
    have hne := holder_chan_ne_nil s hw hi t _ ht p ps hps (by simp [holdsToken]) (by simp [takenNotCounted])
    split
    · rename_i item rest hch
      have hlen : ps.chan.length = rest.length + 1 := by rw [hch]; rfl
      refine frame_pipe' s _ t _ _ p ps _ _ _ hw hi ht hps rfl rfl rfl rfl rfl rfl (by simp [producerOn]) trivial ?_
      clear hw hi
      pipe_arith
    · rename_i hch; exact absurd hch hne
  · rename_i hnone; vac_none s hw t ht p hnone

theorem step_tryPopTaken (s : RpqSt) (t : String) (hw : WellFormed s) (hi : Inv s) (p item : Nat)
    (ht : s.task? t = some (.tryPopTaken p item)) : WellFormed (s.step t).1 ∧ Inv (s.step t).1 := by
  unfold RpqSt.step
  simp only [ht]
  split
  · rename_i hnone; vac_none s hw t ht p hnone
  · rename_i ps hps
    refine frame_pipe' s _ t _ _ p ps _ _ _ hw hi ht hps rfl rfl rfl rfl rfl rfl (by simp [producerOn]) trivial ?_
    clear hw hi
    pipe_arith

theorem step_tryPopDecremented (s : RpqSt) (t : String) (hw : WellFormed s) (hi : Inv s) (p item : Nat) (prev : Int)
    (ht : s.task? t = some (.tryPopDecremented p item prev)) : WellFormed (s.step t).1 ∧ Inv (s.step t).1 := by
  unfold RpqSt.step
  simp only [ht]
  by_cases hprev : prev > 1
  · -- the re-arm cannot fail: this task holds `p`'s only token, so `p` is not on the ready list
    have hmem := s.task?_mem t _ ht
    have hp : (s.pipe? p).isSome := pipe_exists s hw t _ ht p (by simp [holdsToken, hprev])
    cases hps : s.pipe? p with
    | none => simp [hps] at hp
    | some ps =>
      obtain ⟨hpsm, rfl⟩ := s.pipe?_some p ps hps
      obtain ⟨_, _, _, l4⟩ := hi.pipeInv ps hpsm
      have b3 := b2i_le_countTasks s t _ hmem (holdsToken ps.id)
      simp [holdsToken, hprev] at b3
      have hfree : s.ready.count ps.id = 0 := by split at l4 <;> omega
      have hlt := arm_ok s hw hi ps.id hp hfree
      have e : (s.pushReady ps.id).getD s = { s with ready := s.ready ++ [ps.id] } := by
        simp [RpqSt.pushReady, hlt]
      simp only [hprev, if_true, e]
      refine frame_arm s _ t _ _ ps.id hw hi ht rfl rfl rfl rfl ?_
      intro x; simp [uncounted, takenNotCounted, holdsToken, pendingRes]; intro _; exact hprev
  · simp only [hprev, if_false]
    refine frame_finish s _ t _ _ hw hi ht rfl rfl rfl rfl ?_
    intro x; simp [uncounted, takenNotCounted, holdsToken, pendingRes]; intro _; omega

end Steps

theorem runRegisterFirst_good (w : WaitSt) (h : WaitSt.Good w) (evs : List WaitEv) :
    (runRegisterFirst w (evs ++ [.poll, .poll])).pc = 2 := by
  induction evs generalizing w with
  | nil =>
    have h1 := WaitSt.good_step w h
    have h2 := WaitSt.good_step _ h1.1
    simpa [runRegisterFirst] using h2.2
  | cons ev r ih =>
    cases ev with
    | signal => exact ih _ (WaitSt.good_signal' w h)
    | poll => exact ih _ (WaitSt.good_step w h).1

theorem runRegisterFirst_pre (w : WaitSt) (hw : WaitSt.Pre w) (evs : List WaitEv) (h : WaitEv.signal ∈ evs) :
    (runRegisterFirst w (evs ++ [.poll, .poll])).pc = 2 := by
  induction evs generalizing w with
  | nil => simp at h
  | cons ev r ih =>
    cases ev with
    | signal => exact runRegisterFirst_good _ (WaitSt.good_signal w hw) r
    | poll =>
      have : WaitEv.signal ∈ r := by simpa using h
      exact ih _ (WaitSt.pre_step w hw) this


end Rzmq.C08
