import RzmqModel.Model.Pool
namespace Rzmq
end Rzmq
