import RzmqModel.Model.Pool
/-!
# Proofs about M10 `Pool` (used by `Props/C20.lean`)

`Pool.Consistent` only talks about `used` and `free`; the list-level predicate `ConsL` is the same statement, and the three
ways `step` changes these two lists (take the head of the free list, release an id that is free, release an id that is in use)
each keep it.  The reachable-state invariant `Pool.Inv` adds that every lease refers to a buffer that exists.
-/
namespace Rzmq

/-- `Pool.Consistent` as a predicate on the two lists it depends on -/
def ConsL (used : List Bool) (free : List Nat) : Prop :=
  free.Nodup ∧ (∀ id, id ∈ free → id < used.length ∧ used[id]? = some false)
  ∧ (∀ id, id < used.length → used[id]? = some false → id ∈ free)

theorem Pool.consistent_iff (p : Pool) : p.Consistent ↔ ConsL p.used p.free := Iff.rfl

/-- handing out the head of the free list -/
theorem ConsL.take {used : List Bool} {id : Nat} {rest : List Nat} (h : ConsL used (id :: rest)) :
    ConsL (used.set id true) rest := by
  obtain ⟨hnd, hfree, hused⟩ := h
  have hnd' := List.nodup_cons.mp hnd
  refine ⟨hnd'.2, ?_, ?_⟩
  · intro j hj
    have hne : id ≠ j := fun e => hnd'.1 (e ▸ hj)
    have := hfree j (List.mem_cons_of_mem _ hj)
    rw [List.length_set, List.getElem?_set_ne hne]
    exact this
  · intro j hj hv
    rw [List.length_set] at hj
    by_cases hne : id = j
    · subst hne
      rw [List.getElem?_set_self hj] at hv
      cases hv
    · rw [List.getElem?_set_ne hne] at hv
      cases List.mem_cons.mp (hused j hj hv) with
      | inl e => exact absurd e.symm hne
      | inr m => exact m

/-- releasing an id that is already on the free list changes nothing that matters -/
theorem ConsL.release_mem {used : List Bool} {free : List Nat} {id : Nat} (h : ConsL used free) (hm : id ∈ free) :
    ConsL (used.set id false) free := by
  obtain ⟨hnd, hfree, hused⟩ := h
  have hid := hfree id hm
  have hset : ∀ j : Nat, (used.set id false)[j]? = used[j]? := by
    intro j
    by_cases hne : id = j
    · subst hne; rw [List.getElem?_set_self hid.1, hid.2]
    · rw [List.getElem?_set_ne hne]
  refine ⟨hnd, ?_, ?_⟩
  · intro j hj; rw [List.length_set, hset]; exact hfree j hj
  · intro j hj hv; rw [List.length_set] at hj; rw [hset] at hv; exact hused j hj hv

/-- releasing an id that is in use appends it to the free list -/
theorem ConsL.release_not_mem {used : List Bool} {free : List Nat} {id : Nat} (h : ConsL used free)
    (hlt : id < used.length) (hm : id ∉ free) : ConsL (used.set id false) (free ++ [id]) := by
  obtain ⟨hnd, hfree, hused⟩ := h
  refine ⟨?_, ?_, ?_⟩
  · rw [List.nodup_append]
    refine ⟨hnd, List.nodup_cons.mpr ⟨List.not_mem_nil, List.nodup_nil⟩, ?_⟩
    intro a ha b hb e
    rw [List.mem_singleton] at hb
    subst hb; subst e
    exact hm ha
  · intro j hj
    rw [List.length_set]
    rcases List.mem_append.mp hj with hj | hj
    · have hne : id ≠ j := fun e => hm (e ▸ hj)
      rw [List.getElem?_set_ne hne]; exact hfree j hj
    · rw [List.mem_singleton] at hj
      subst hj
      exact ⟨hlt, List.getElem?_set_self hlt⟩
  · intro j hj hv
    rw [List.length_set] at hj
    by_cases hne : id = j
    · subst hne; exact List.mem_append_right _ (List.mem_singleton.mpr rfl)
    · rw [List.getElem?_set_ne hne] at hv
      exact List.mem_append_left _ (hused j hj hv)

/-- a consistent pool whose buffers are all not in use has all of them on the free list -/
theorem ConsL.length_free_of_all_unused {used : List Bool} {free : List Nat} (h : ConsL used free)
    (hall : ∀ id, id < used.length → used[id]? = some false) : free.length = used.length := by
  obtain ⟨hnd, hfree, hused⟩ := h
  apply Nat.le_antisymm
  · have := hnd.length_le_of_subset (l₂ := List.range used.length)
      (fun j hj => List.mem_range.mpr (hfree j hj).1)
    rwa [List.length_range] at this
  · have := (List.nodup_range (n := used.length)).length_le_of_subset (l₂ := free)
      (fun j hj => hused j (List.mem_range.mp hj) (hall j (List.mem_range.mp hj)))
    rwa [List.length_range] at this

-- `release` ---------------------------------------------------------------------------------------------------------------

theorem Pool.release_used_length (p : Pool) (id : Nat) : (p.release id).used.length = p.used.length := by
  unfold Pool.release
  split
  · split <;> simp [Pool.setUsed]
  · rfl

theorem Pool.release_leases (p : Pool) (id : Nat) : (p.release id).leases = p.leases := by
  unfold Pool.release
  split
  · split <;> rfl
  · rfl

theorem Pool.release_cap (p : Pool) (id : Nat) : (p.release id).cap = p.cap := by
  unfold Pool.release
  split
  · split <;> rfl
  · rfl

theorem Pool.release_consistent {p : Pool} (h : p.Consistent) (id : Nat) : (p.release id).Consistent := by
  unfold Pool.release
  split
  · rename_i hlt
    split
    · rename_i hc
      exact ConsL.release_mem h (List.contains_iff_mem.mp hc)
    · rename_i hc
      exact ConsL.release_not_mem h hlt (fun hm => hc (List.contains_iff_mem.mpr hm))
  · exact h

/-- `release` of an existing buffer always leaves it on the free list (double releases included) -/
theorem Pool.mem_free_release {p : Pool} {id : Nat} (hlt : id < p.used.length) : id ∈ (p.release id).free := by
  unfold Pool.release
  rw [if_pos hlt]
  split
  · rename_i hc; exact List.contains_iff_mem.mp hc
  · exact List.mem_append_right _ (List.mem_singleton.mpr rfl)

/-- `release` of an id that is not a buffer of the pool does nothing -/
theorem Pool.release_of_not_lt {p : Pool} {id : Nat} (h : ¬ id < p.used.length) : p.release id = p := by
  unfold Pool.release
  rw [if_neg h]

-- `step` ------------------------------------------------------------------------------------------------------------------

theorem Pool.step_used_length (p : Pool) (e : PoolEv) : (p.step e).1.used.length = p.used.length := by
  cases e with
  | acquire len =>
    simp only [Pool.step]
    split
    · rfl
    · split
      · rfl
      · split
        · rfl
        · simp [Pool.setUsed]
  | lease =>
    simp only [Pool.step]
    split
    · rfl
    · simp [Pool.setUsed]
  | handOver id => rfl
  | dropLease id =>
    simp only [Pool.step]
    split
    · rfl
    · split
      · rfl
      · rw [Pool.release_used_length]
  | release id => exact Pool.release_used_length p id

theorem Pool.step_consistent {p : Pool} (h : p.Consistent) (e : PoolEv) : (p.step e).1.Consistent := by
  cases e with
  | acquire len =>
    simp only [Pool.step]
    split
    · exact h
    · split
      · exact h
      · rename_i id rest hf
        split
        · exact h
        · have h' : ConsL p.used (id :: rest) := hf ▸ h
          exact h'.take
  | lease =>
    simp only [Pool.step]
    split
    · exact h
    · rename_i id rest hf
      have h' : ConsL p.used (id :: rest) := hf ▸ h
      exact h'.take
  | handOver id => exact h
  | dropLease id =>
    simp only [Pool.step]
    split
    · exact h
    · split
      · exact h
      · exact Pool.release_consistent (p := { p with leases := p.leases.filter (·.1 != id) }) h id
  | release id => exact Pool.release_consistent h id

/-- what a hand-out looks like: the id was free (it was the head of the free list), it is marked in use afterwards and is
no longer on the free list -/
theorem Pool.step_some {p : Pool} (hc : p.Consistent) {e : PoolEv} {id : Nat} (h : (p.step e).2 = some id) :
    id ∈ p.free ∧ (p.step e).1.used[id]? = some true ∧ id ∉ (p.step e).1.free := by
  have key : ∀ (i : Nat) (rest : List Nat), p.free = i :: rest →
      i ∈ p.free ∧ (p.used.set i true)[i]? = some true ∧ i ∉ rest := by
    intro i rest hf
    have hm : i ∈ p.free := by rw [hf]; exact List.mem_cons_self
    refine ⟨hm, List.getElem?_set_self (hc.2.1 i hm).1, ?_⟩
    have := hc.1
    rw [hf] at this
    exact (List.nodup_cons.mp this).1
  cases e with
  | acquire len =>
    cases hf : p.free with
    | nil => simp [Pool.step, hf] at h
    | cons i rest =>
      by_cases hz : len = 0
      · simp [Pool.step, hz] at h
      · by_cases hlen : len > p.cap
        · simp [Pool.step, hf, hz, hlen] at h
        · have h' : i = id := by simpa [Pool.step, hf, hz, hlen] using h
          subst h'
          have := key i rest hf
          rw [hf] at this
          simpa [Pool.step, hf, hz, hlen, Pool.setUsed] using this
  | lease =>
    cases hf : p.free with
    | nil => simp [Pool.step, hf] at h
    | cons i rest =>
      have h' : i = id := by simpa [Pool.step, hf] using h
      subst h'
      have := key i rest hf
      rw [hf] at this
      simpa [Pool.step, hf, Pool.setUsed] using this
  | handOver j => cases h
  | dropLease j =>
    simp only [Pool.step] at h
    split at h
    · cases h
    · cases h
  | release j => cases h

-- reachable states -------------------------------------------------------------------------------------------------------

/-- invariant of every reachable pool: consistent, and every lease refers to an existing buffer -/
def Pool.Inv (p : Pool) : Prop := p.Consistent ∧ ∀ l, l ∈ p.leases → l.1 < p.used.length

theorem Pool.step_inv {p : Pool} (h : p.Inv) (e : PoolEv) : (p.step e).1.Inv := by
  refine ⟨Pool.step_consistent h.1 e, ?_⟩
  rw [Pool.step_used_length]
  have hl := h.2
  cases e with
  | acquire len =>
    simp only [Pool.step]
    split
    · exact hl
    · split
      · exact hl
      · split
        · exact hl
        · exact hl
  | lease =>
    simp only [Pool.step]
    split
    · exact hl
    · rename_i id rest hf
      intro l hm
      rcases List.mem_append.mp hm with hm | hm
      · exact hl l hm
      · rw [List.mem_singleton] at hm
        subst hm
        exact (h.1.2.1 id (by rw [hf]; exact List.mem_cons_self)).1
  | handOver id =>
    simp only [Pool.step]
    intro l hm
    obtain ⟨l0, hm0, rfl⟩ := List.mem_map.mp hm
    split
    · rename_i he
      have := hl l0 hm0
      rwa [beq_iff_eq.mp he] at this
    · exact hl l0 hm0
  | dropLease id =>
    simp only [Pool.step]
    split
    · exact hl
    · split
      · intro l hm; exact hl l (List.mem_filter.mp hm).1
      · rw [Pool.release_leases]
        intro l hm; exact hl l (List.mem_filter.mp hm).1
  | release id =>
    simp only [Pool.step]
    rw [Pool.release_leases]; exact hl

theorem Pool.run_inv {p : Pool} (h : p.Inv) (evs : List PoolEv) : (p.run evs).Inv := by
  induction evs generalizing p with
  | nil => exact h
  | cons e es ih => exact ih (Pool.step_inv h e)

theorem Pool.run_used_length (p : Pool) (evs : List PoolEv) : (p.run evs).used.length = p.used.length := by
  induction evs generalizing p with
  | nil => rfl
  | cons e es ih =>
    show ((p.step e).1.run es).used.length = _
    rw [ih, Pool.step_used_length]

theorem Pool.new_inv (count cap : Nat) : (Pool.new count cap).Inv := by
  unfold Pool.new
  split
  · exact ⟨⟨List.nodup_nil, (by intro id h; cases h), (by intro id h; cases h)⟩, (by intro l h; cases h)⟩
  · refine ⟨⟨List.nodup_range, ?_, ?_⟩, (by intro l h; cases h)⟩
    · intro id h
      have := List.mem_range.mp h
      simp [this]
    · intro id h _
      simpa using h

theorem Pool.new_used_length_le (count cap : Nat) : (Pool.new count cap).used.length ≤ count := by
  unfold Pool.new
  split <;> simp

theorem Pool.reachable_inv (count cap : Nat) (evs : List PoolEv) : ((Pool.new count cap).run evs).Inv :=
  Pool.run_inv (Pool.new_inv count cap) evs

-- dropping a lease -------------------------------------------------------------------------------------------------------

/-- with exactly one lease entry for `id`, `find?` finds that entry -/
theorem find?_of_mem_of_filter_length_one {leases : List (Nat × Bool)} {id : Nat} {b : Bool} (h : (id, b) ∈ leases)
    (huniq : (leases.filter (·.1 == id)).length = 1) : leases.find? (·.1 == id) = some (id, b) := by
  have hm : (id, b) ∈ leases.filter (·.1 == id) := List.mem_filter.mpr ⟨h, by simp⟩
  cases hf : leases.filter (·.1 == id) with
  | nil => rw [hf] at huniq; cases huniq
  | cons x xs =>
    cases xs with
    | cons y ys => rw [hf] at huniq; simp at huniq
    | nil =>
      rw [hf, List.mem_singleton] at hm
      rw [← List.head?_filter, hf, hm]
      rfl

/-- what `dropLease` of a never-handed-over, unique lease does: it is exactly `release_buffer` (plus forgetting the lease) -/
theorem Pool.step_dropLease_unhanded {p : Pool} {id : Nat} (h : (id, false) ∈ p.leases)
    (huniq : (p.leases.filter (·.1 == id)).length = 1) :
    (p.step (.dropLease id)).1 = ({ p with leases := p.leases.filter (·.1 != id) } : Pool).release id := by
  simp only [Pool.step, find?_of_mem_of_filter_length_one h huniq]
  rfl

/-- `C20.dropped_lease_returns_buffer` is FALSE as stated: `Consistent` says nothing about the leases, so a lease may name
a buffer the pool does not have, and `release_buffer` ignores such an id.  Minimal counterexample: the empty pool holding
the lease `(0, false)`. -/
theorem dropped_lease_returns_buffer_counterexample :
    ¬ ∀ (p : Pool), p.Consistent → ∀ id : Nat, (id, false) ∈ p.leases →
        (p.leases.filter (·.1 == id)).length = 1 → id ∈ (p.step (.dropLease id)).1.free := by
  intro hall
  have := hall { leases := [(0, false)] } ⟨List.nodup_nil, (by intro id h; cases h), (by intro id h; cases h)⟩ 0
    (by decide) (by decide)
  revert this
  decide

/-- the true variant: the lease must name a buffer of the pool (`id < p.used.length`); consistency is then not even needed -/
theorem dropped_lease_returns_buffer_partial (p : Pool) (id : Nat) (hid : id < p.used.length)
    (h : (id, false) ∈ p.leases) (huniq : (p.leases.filter (·.1 == id)).length = 1) :
    id ∈ (p.step (.dropLease id)).1.free := by
  rw [Pool.step_dropLease_unhanded h huniq]
  exact Pool.mem_free_release (p := { p with leases := p.leases.filter (·.1 != id) }) hid

/-- the added hypothesis is exactly what is missing: for a consistent pool the buffer comes back iff it exists -/
theorem dropped_lease_returns_buffer_iff (p : Pool) (hc : p.Consistent) (id : Nat)
    (h : (id, false) ∈ p.leases) (huniq : (p.leases.filter (·.1 == id)).length = 1) :
    id ∈ (p.step (.dropLease id)).1.free ↔ id < p.used.length := by
  constructor
  · intro hm
    rw [Pool.step_dropLease_unhanded h huniq] at hm
    have hc' := Pool.release_consistent (p := { p with leases := p.leases.filter (·.1 != id) }) hc id
    have := (hc'.2.1 id hm).1
    rwa [Pool.release_used_length] at this
  · intro hid; exact dropped_lease_returns_buffer_partial p id hid h huniq

/-- … and every pool the backend can actually be in (any history from `Pool.new`) satisfies it: there the statement of
`C20.dropped_lease_returns_buffer` holds without any extra hypothesis -/
theorem dropped_lease_returns_buffer_reachable (count cap : Nat) (evs : List PoolEv) (id : Nat)
    (h : (id, false) ∈ ((Pool.new count cap).run evs).leases)
    (huniq : ((((Pool.new count cap).run evs).leases).filter (·.1 == id)).length = 1) :
    id ∈ (((Pool.new count cap).run evs).step (.dropLease id)).1.free :=
  dropped_lease_returns_buffer_partial _ id ((Pool.reachable_inv count cap evs).2 _ h) h huniq

/-- a lease that was handed over does not give its buffer back when dropped: the pool only forgets the lease -/
theorem handed_over_lease_keeps_buffer (p : Pool) (id : Nat) (h : (id, true) ∈ p.leases)
    (huniq : (p.leases.filter (·.1 == id)).length = 1) :
    (p.step (.dropLease id)).1 = { p with leases := p.leases.filter (·.1 != id) } := by
  simp only [Pool.step, find?_of_mem_of_filter_length_one h huniq]
  rfl

end Rzmq
