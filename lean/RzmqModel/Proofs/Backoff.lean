import RzmqModel.Model.Routing
/-! Helper lemmas for C17 (reconnect back-off arithmetic). -/
namespace Rzmq

theorem pow_min_succ_le (k : Nat) : 2 ^ (min (k + 1) 31) ≤ 2 * 2 ^ (min k 31) := by
  rw [← Nat.pow_succ']
  exact Nat.pow_le_pow_right (by decide) (by omega)

theorem pow_min_mono (k : Nat) : 2 ^ (min k 31) ≤ 2 ^ (min (k + 1) 31) :=
  Nat.pow_le_pow_right (by decide) (by omega)

theorem pow_min_le (k : Nat) : 2 ^ (min k 31) ≤ 2 ^ 31 :=
  Nat.pow_le_pow_right (by decide) (by omega)

/-- the connecter's fast-forward loop: `n` capped doublings of `base` -/
theorem foldl_double_cap (m : Nat) (n : Nat) (base : Nat) (hb : base ≤ m) :
    (List.range n).foldl (fun d _ => min (2 * d) m) base = min (base * 2 ^ n) m := by
  induction n with
  | zero => simp; omega
  | succ n ih =>
    rw [List.range_succ, List.foldl_append, ih]
    simp only [List.foldl_cons, List.foldl_nil]
    rw [Nat.pow_succ, ← Nat.mul_assoc]
    omega

theorem foldl_double_cap_le (m : Nat) (l : List Nat) (base : Nat) (hb : base ≤ m) :
    l.foldl (fun d _ => min (2 * d) m) base ≤ m := by
  induction l generalizing base with
  | nil => simpa using hb
  | cons a l ih => simp only [List.foldl_cons]; exact ih _ (by omega)

/-- the connecter's starting delay with a cap set (unfolds `Gen.connFirstDelayCapped`) -/
theorem connInitial_some (m base : Nat) (hm : 0 < m) : connInitial (some m) base = min base m := by
  simp [connInitial, Gen.connFirstDelayCapped, hm]

theorem connInitial_le (m base : Nat) (hm : 0 < m) : connInitial (some m) base ≤ m := by
  rw [connInitial_some m base hm]; omega

/-- every delay of the connecter's schedule respects the cap -/
theorem connDelay_le_cap (m base inh j : Nat) (hm : 0 < m) : connDelay (some m) base inh j ≤ m := by
  induction j with
  | zero =>
    simp only [connDelay, connFastForward]
    split
    · exact foldl_double_cap_le m _ _ (connInitial_le m base hm)
    · exact connInitial_le m base hm
  | succ j ih =>
    simp only [connDelay, connDouble]
    split <;> omega

end Rzmq
