import RzmqModel.Model.Routing
/-! Helper lemmas. -/
namespace Rzmq

end Rzmq
